/* C18 - UTF-8 codec: every code point round-trips, the decoder never reads past `num`.
 *
 * What is judged (nothing more than the property text + the table in a/utf.h):
 *   code points c in [1, 2^31):
 *     - a_utf_encode(c, buf) and a_utf_encode(c, NULL) return the table's length
 *       (borders 0x80, 0x800, 0x10000, 0x200000, 0x4000000) and emit the table's bytes;
 *     - a_utf_decode(encode(c)) returns that length and c (val and null-val variant);
 *     - decoding every proper prefix (num = 0 .. len-1) returns 0;
 *     - decoding encode(c) followed by 1..7 arbitrary further bytes still returns (len, c);
 *     - c = 0 encodes to length 0 and writes nothing.
 *   arbitrary bytes (ptr, num):
 *     - no read at or past ptr+num: every input sits in an exact-size heap block, so ptr+num is
 *       the first byte of the ASan red zone (library and harness are built with ASan);
 *     - reported length <= num and <= 6; val / null-val variants agree; a length > 1 only if
 *       bytes 1..len-1 are all 10xxxxxx; a leading NUL is reported as 0;
 *     - a_utf_length's count and `stop` equal the fold of a_utf_decode over the buffer that stops
 *       at the first 0 return (stop variant and null-stop variant agree);
 *     - a_utf_length_ is executed against the same red zone on every string; its VALUE is judged
 *       only on well-formed input (concatenated encodings, cut anywhere, optional NUL), where it must
 *       equal the number of complete characters before the cut/NUL, as must a_utf_length.
 *   NOT demanded (the property does not state it): rejection of over-long forms, surrogates, stray
 *   continuation bytes as 1-byte characters; the decoded value of byte strings that are not encodings.
 *
 * distinct cells: (a) 4096-code-point blocks in which code points were round-tripped,
 *                 (b) (min(num,7), byte-class signature of the first <= 6 bytes) of judged byte strings.
 */
#define VF_PROP "C18"
#define VF_HAVE_INIT
#include "vf_common.h"
#include "a/a.h"
#include "a/utf.h"
#include "a/str.h"
#include <sys/mman.h>

/* ------------------------------------------------------------------ plan */
enum
{
    K_ZERO,       /* c = 0, num = 0 */
    K_CP_RANGE,   /* every code point in [a, b) */
    K_CP_RANDOM,  /* a random code points (half uniform, half uniform bit length) */
    K_BYTES_12,   /* all 1- and 2-byte strings whose first byte has high nibble a */
    K_BYTES_LEAD, /* lead byte a x all strings of 0..5 class representatives (lengths 1..6) */
    K_BYTES_LONG, /* lead a in FC..FF x 6..7 trailing bytes from a small alphabet (num = 7, 8) */
    K_BYTES_RANDOM,
    K_WELLFORMED,
    K_GIANT, /* stated lengths of 2^32 + r, 2^33 + r bytes (a truthful, sparsely backed mapping) */
};
typedef struct { int kind; uint64_t a, b; } plan_t;
static plan_t *plan;
static uint64_t nplan;
static void plan_add(int kind, uint64_t a, uint64_t b)
{
    static uint64_t cap;
    if (nplan == cap)
    {
        cap = cap ? cap * 2 : 1024;
        plan = (plan_t *)realloc(plan, cap * sizeof(*plan));
        if (!plan) { exit(2); }
    }
    plan[nplan].kind = kind;
    plan[nplan].a = a;
    plan[nplan].b = b;
    ++nplan;
}

/* class representatives of DESIGN.md C18 */
static unsigned char const reps[12] = {0x00, 0x7F, 0x80, 0xBF, 0xC0, 0xC2, 0xE0, 0xF0, 0xF8, 0xFC, 0xFE, 0xFF};

/* exact-size heap blocks: blk[n] has exactly n bytes, blk[n]+n is an ASan red zone.
   blk[0] is the one-past-the-end pointer of a 1-byte block (any read through it is a report). */
#define NB 64
static unsigned char *blk[NB + 1];

static void vf_init(void)
{
    uint64_t i;
    unsigned char *one = (unsigned char *)malloc(1);
    if (!one) { exit(2); }
    one[0] = 0x5A;
    blk[0] = one + 1;
    for (i = 1; i <= NB; ++i)
    {
        blk[i] = (unsigned char *)malloc(i);
        if (!blk[i]) { exit(2); }
        memset(blk[i], 0x5A, i);
    }
    plan_add(K_ZERO, 0, 0);
    if (vf.tier)
    {
        for (i = 0; i < 2048; ++i) { plan_add(K_CP_RANGE, i << 20, (i + 1) << 20); } /* all of [0, 2^31) */
    }
    else
    {
        static uint32_t const border[] = {0x200000, 0x4000000};
        for (i = 0; i < 8; ++i) { plan_add(K_CP_RANGE, i << 14, (i + 1) << 14); } /* [0, 0x20000): borders 0x80, 0x800, 0x10000 inside */
        plan_add(K_CP_RANGE, 0x20000, 0x20001);
        for (i = 0; i < 2; ++i)
        {
            plan_add(K_CP_RANGE, border[i] - 4096, border[i]);
            plan_add(K_CP_RANGE, border[i], border[i] + 4096);
        }
        plan_add(K_CP_RANGE, 0x80000000u - 8192, 0x80000000u - 4096);
        plan_add(K_CP_RANGE, 0x80000000u - 4096, 0x80000000u);
        for (i = 0; i < 64; ++i) { plan_add(K_CP_RANDOM, 1u << 18, i); } /* 2^24 random code points */
    }
    for (i = 0; i < 16; ++i) { plan_add(K_BYTES_12, i, 0); }
    if (vf.tier)
    {
        for (i = 0; i < 256; ++i) { plan_add(K_BYTES_LEAD, i, 0); }
    }
    else
    {
        static unsigned char const more[] = {0x01, 0x41, 0xC3, 0xDF, 0xE1, 0xEF, 0xF4, 0xF7, 0xFB, 0xFD};
        for (i = 0; i < 12; ++i) { plan_add(K_BYTES_LEAD, reps[i], 0); }
        for (i = 0; i < sizeof(more); ++i) { plan_add(K_BYTES_LEAD, more[i], 0); }
    }
    for (i = 0xFC; i <= 0xFF; ++i) { plan_add(K_BYTES_LONG, i, 0); }
    for (i = 0; i < (vf.tier ? 160u : 16u); ++i) { plan_add(K_BYTES_RANDOM, 65536, i); } /* thorough: 1.05e7 strings */
    for (i = 0; i < (vf.tier ? 128u : 16u); ++i) { plan_add(K_WELLFORMED, 32768, i); }
    for (i = 0; i < (vf.tier ? 8u : 2u); ++i) { plan_add(K_GIANT, i, 0); }
}
static uint64_t vf_ncases(int tier) { (void)tier; return nplan; }

/* ------------------------------------------------------------------ crash witness
   The sweeps execute far too many calls to vf_log() each of them; the call in flight is kept in this
   cursor instead and written to the journal by ASan's error callback before the process dies. */
enum { OP_NONE, OP_ENCODE_NULL, OP_ENCODE, OP_DECODE, OP_DECODE_NULL, OP_LENGTH, OP_LENGTH_NOSTOP, OP_LENGTH_ };
static char const *const op_name[] = {"(none)", "a_utf_encode(c, NULL)", "a_utf_encode(c, buf[len])", "a_utf_decode(ptr, num, &val)",
                                      "a_utf_decode(ptr, num, NULL)", "a_utf_length(ptr, num, &stop)", "a_utf_length(ptr, num, NULL)",
                                      "a_utf_length_(ptr, num)"};
static struct { int op; uint32_t cp; unsigned char const *p; size_t num; } cur;
#define CUR(o, c, ptr, n) (cur.op = (o), cur.cp = (c), cur.p = (ptr), cur.num = (n))

static char const *hex(unsigned char const *p, size_t n)
{
    static char ring[4][3 * NB + 8];
    static unsigned at;
    char *s = ring[at++ & 3];
    size_t o = 0;
    s[o++] = '[';
    for (size_t i = 0; i < n && i < NB; ++i) { o += (size_t)snprintf(s + o, 4, i ? " %02x" : "%02x", p[i]); }
    s[o++] = ']';
    s[o] = 0;
    return s;
}

void __asan_on_error(void);
void __asan_on_error(void)
{
    static int once;
    if (once++) { return; }
    if (cur.op == OP_ENCODE || cur.op == OP_ENCODE_NULL)
    {
        vf_log("sanitizer report inside %s with c=U+%" PRIX32 ", exact-size buffer of %zu bytes", op_name[cur.op], cur.cp, cur.num);
    }
    else if (cur.op != OP_NONE)
    {
        vf_log("sanitizer report inside %s with num=%zu, ptr -> exact-size heap copy of %s (c=U+%" PRIX32 ")", op_name[cur.op], cur.num,
               hex(cur.p, cur.num), cur.cp);
    }
}

/* a broken border refutes a million code points of a chunk: write out the first ones only */
static unsigned case_budget;
#define VIOL(key, ...)                                           \
    do {                                                         \
        if (case_budget < 60) { ++case_budget; vf_viol(key, __VA_ARGS__); } \
        else { ++vf.nviol; vf.case_viol = 1; }                   \
    } while (0)

static char const *keyL(char const *base, unsigned L)
{
    static char k[2][96];
    static unsigned at;
    char *s = k[at++ & 1];
    snprintf(s, sizeof(k[0]), "%s/len-%u", base, L);
    return s;
}

/* ------------------------------------------------------------------ reference: the table of a/utf.h */
static inline unsigned ref_len(uint32_t c)
{
    return c < 0x80 ? 1u : c < 0x800 ? 2u : c < 0x10000 ? 3u : c < 0x200000 ? 4u : c < 0x4000000 ? 5u : 6u;
}
static inline void ref_enc(uint32_t c, unsigned L, unsigned char *o)
{
    if (L == 1) { o[0] = (unsigned char)c; return; }
    for (unsigned i = L - 1; i > 0; --i)
    {
        o[i] = (unsigned char)(0x80 | (c & 0x3F));
        c >>= 6;
    }
    o[0] = (unsigned char)(((0xFF00u >> L) & 0xFF) | c); /* L leading one bits, a zero, the remaining payload */
}

/* ------------------------------------------------------------------ accounting */
static struct
{
    uint64_t cp, prefix, trailing, dec, dec_cont, dec_nul, fold, lenw, overlap;
} acc;
static uint64_t cpmap[8192]; /* one bit per 4096-code-point block */
static void flush_case(void)
{
    VF_ADD("encode-length-vs-table", acc.cp);
    VF_ADD("encode-null-buffer-length", acc.cp);
    VF_ADD("encode-bytes-vs-table", acc.cp);
    VF_ADD("roundtrip-decode-length-and-value", acc.cp);
    VF_ADD("proper-prefix-rejected", acc.prefix);
    VF_ADD("roundtrip-with-trailing-bytes", acc.trailing);
    VF_ADD("decode-result-cell-overlapping-the-input", acc.overlap);
    VF_ADD("decode-val-and-null-variants-agree", acc.dec + acc.cp);
    VF_ADD("decode-length-within-num-and-6", acc.dec);
    VF_ADD("decode-trailing-bytes-are-continuation", acc.dec_cont);
    VF_ADD("decode-leading-nul-returns-0", acc.dec_nul);
    VF_ADD("length-equals-decode-fold", acc.fold);
    VF_ADD("length-stop-equals-decode-fold", acc.fold);
    VF_ADD("length_-executed-against-red-zone", acc.fold);
    VF_ADD("length-wellformed-count-and-stop", acc.lenw);
    VF_ADD("length_-wellformed-count", acc.lenw);
    memset(&acc, 0, sizeof(acc));
    for (unsigned w = 0; w < 8192; ++w)
    {
        uint64_t m = cpmap[w];
        if (!m) { continue; }
        for (unsigned b = 0; b < 64; ++b)
        {
            if (m >> b & 1) { vf_distinct(vf_hash64(0xC18, (uint64_t)w * 64 + b)); }
        }
        cpmap[w] = 0;
    }
}

/* ------------------------------------------------------------------ code point round trip */
static void roundtrip(uint32_t c)
{
    unsigned const L = ref_len(c);
    unsigned char ref[6];
    unsigned char *const e = blk[L]; /* exact size: a write or read past the table's length is an ASan report */
    unsigned n0, n, d, d0, k, j;
    uint32_t v;
    ref_enc(c, L, ref);
    for (k = 0; k < L; ++k) { e[k] = 0; } /* 0 is never an encoded byte of c >= 1: unwritten bytes show */
    ++vf.evals;
    ++acc.cp;
    cpmap[c >> 18] |= 1ULL << ((c >> 12) & 63);
    CUR(OP_ENCODE_NULL, c, NULL, 0);
    n0 = a_utf_encode(c, NULL);
    if (n0 != L) /* judged before the buffer variant runs: a length that is too large would end in the red zone there */
    {
        VIOL(keyL("encode/null-buffer-length-differs-from-table", L), "a_utf_encode(U+%" PRIX32 ", NULL) = %u, the table prescribes %u", c, n0, L);
    }
    CUR(OP_ENCODE, c, e, L);
    n = a_utf_encode(c, e);
    if (n != L)
    {
        VIOL(keyL("encode/length-differs-from-table", L), "a_utf_encode(U+%" PRIX32 ", buf) = %u, the table prescribes %u", c, n, L);
        return;
    }
    for (k = 0; k < L; ++k)
    {
        if (e[k] != ref[k])
        {
            VIOL(keyL("encode/bytes-differ-from-table", L), "a_utf_encode(U+%" PRIX32 ") wrote %s, the table prescribes %s", c, hex(e, L), hex(ref, L));
            break;
        }
    }
    /* decode exactly what the library encoded */
    v = ~c;
    CUR(OP_DECODE, c, e, L);
    d = a_utf_decode(e, L, &v);
    CUR(OP_DECODE_NULL, c, e, L);
    d0 = a_utf_decode(e, L, NULL);
    if (d != L)
    {
        VIOL(keyL("decode/roundtrip-length", L), "U+%" PRIX32 " encoded as %s: a_utf_decode(.., %u, &val) = %u", c, hex(e, L), L, d);
    }
    else if (v != c)
    {
        VIOL(keyL("decode/roundtrip-value", L), "U+%" PRIX32 " encoded as %s decodes to U+%" PRIX32, c, hex(e, L), v);
    }
    if (d0 != d)
    {
        VIOL("decode/val-and-null-variants-differ", "%s num=%u: %u with val, %u with val=NULL", hex(e, L), L, d, d0);
    }
    /* every proper prefix, each in its own exact-size block */
    for (k = 0; k < L; ++k)
    {
        unsigned char *const q = blk[k];
        for (j = 0; j < k; ++j) { q[j] = e[j]; }
        CUR(OP_DECODE, c, q, k);
        d = a_utf_decode(q, k, &v);
        CUR(OP_DECODE_NULL, c, q, k);
        d0 = a_utf_decode(q, k, NULL);
        ++acc.prefix;
        if (d || d0)
        {
            VIOL(keyL("decode/truncated-prefix-accepted", L), "U+%" PRIX32 " encoded as %s: decoding the first %u byte(s) %s returned %u (val) / %u (NULL), expected 0",
                 c, hex(e, L), k, hex(q, k), d, d0);
        }
    }
    /* followed by further bytes: the offset to the next character is still L */
    {
        static unsigned char const trail[8] = {0x80, 0x00, 0xBF, 0x41, 0xC3, 0xFF, 0xE0, 0x7F};
        unsigned const t = 1 + ((c >> 3) % 7);
        unsigned char *const q = blk[L + t];
        for (j = 0; j < L; ++j) { q[j] = e[j]; }
        for (j = 0; j < t; ++j) { q[L + j] = trail[(c + j) & 7]; }
        v = ~c;
        CUR(OP_DECODE, c, q, L + t);
        d = a_utf_decode(q, L + t, &v);
        CUR(OP_DECODE_NULL, c, q, L + t);
        d0 = a_utf_decode(q, L + t, NULL);
        ++acc.trailing;
        if (d != L || d0 != L || v != c)
        {
            VIOL(keyL("decode/roundtrip-with-trailing-bytes", L), "U+%" PRIX32 " followed by %u more byte(s): a_utf_decode(%s, %u) = %u (val U+%" PRIX32 ") / %u (NULL), expected %u",
                 c, t, hex(q, L + t), L + t, d, v, d0, L);
        }
    }
    /* the result cell overlapping the bytes being decoded: neither parameter is restrict-qualified, and converting a packed sequence in place
     * (union { a_u32 cp; a_byte b[8]; }) is an ordinary way to call it - the value must still be the one the bytes denote (seeded change
     * C18-J: the code point assembled directly in *val, which the loop then re-reads as input) */
    {
        static union { a_u32 w[4]; unsigned char b[16]; } ov;
        unsigned const o = (c >> 5) & 3, cell = (o + L > 4) ? ((c >> 7) & 1) : 0; /* cell 1 only when the sequence reaches into it */
        for (j = 0; j < 16; ++j) { ov.b[j] = 0xA5; }
        for (j = 0; j < L; ++j) { ov.b[o + j] = e[j]; }
        CUR(OP_DECODE, c, ov.b + o, L);
        d = a_utf_decode(ov.b + o, L, &ov.w[cell]);
        ++acc.overlap;
        if (d != L || ov.w[cell] != c)
        {
            VIOL(keyL("decode/result-cell-overlaps-input", L), "U+%" PRIX32 " encoded as %s at byte offset %u of a 16-byte union, val = the union's 32-bit cell %u (overlapping the input): a_utf_decode = %u, val U+%" PRIX32 "; expected %u, U+%" PRIX32,
                 c, hex(e, L), o, cell, d, ov.w[cell], L, c);
        }
    }
    CUR(OP_NONE, 0, NULL, 0);
}

/* ------------------------------------------------------------------ arbitrary bytes */
static inline unsigned bclass(unsigned b)
{
    return b == 0 ? 0u : b < 0x80 ? 1u : b < 0xC0 ? 2u : b < 0xE0 ? 3u : b < 0xF0 ? 4u : b < 0xF8 ? 5u : b < 0xFC ? 6u : b < 0xFE ? 7u : 8u;
}

static void judge_len1(unsigned char const *p, size_t num, unsigned x, char const *variant)
{
    if (x > num)
    {
        VIOL("decode/length-exceeds-num", "a_utf_decode(%s, num=%zu, %s) = %u", hex(p, num), num, variant, x);
        return;
    }
    if (x > 6) { VIOL("decode/length-exceeds-6", "a_utf_decode(%s, num=%zu, %s) = %u", hex(p, num), num, variant, x); }
    if (x > 1)
    {
        ++acc.dec_cont;
        for (unsigned k = 1; k < x; ++k)
        {
            if ((p[k] & 0xC0) != 0x80)
            {
                VIOL("decode/accepted-non-continuation-trailing-byte", "a_utf_decode(%s, num=%zu, %s) = %u but byte %u is 0x%02x", hex(p, num), num, variant, x, k, p[k]);
                break;
            }
        }
    }
    if (num && p[0] == 0)
    {
        ++acc.dec_nul;
        if (x) { VIOL("decode/leading-nul-not-reported-as-0", "a_utf_decode(%s, num=%zu, %s) = %u", hex(p, num), num, variant, x); }
    }
}

/* p[0..num) ends exactly at the red zone */
static unsigned judge_decode(unsigned char const *p, size_t num)
{
    uint32_t v = 0xA5A5A5A5u;
    unsigned d, d0;
    CUR(OP_DECODE, 0, p, num);
    d = a_utf_decode(p, num, &v);
    CUR(OP_DECODE_NULL, 0, p, num);
    d0 = a_utf_decode(p, num, NULL);
    ++acc.dec;
    if (d != d0) { VIOL("decode/val-and-null-variants-differ", "%s num=%zu: %u with val, %u with val=NULL", hex(p, num), num, d, d0); }
    judge_len1(p, num, d, "&val");
    if (d0 != d) { judge_len1(p, num, d0, "NULL"); }
    return d0;
}

static uint64_t string_cell(unsigned char const *p, size_t n)
{
    uint64_t s = n < 7 ? n : 7;
    for (size_t i = 0; i < 6; ++i) { s = s * 10 + (i < n ? 1 + bclass(p[i]) : 0); }
    return vf_hash64(0x57C18, s);
}

/* p = blk[n] filled with the string */
static void judge_string(unsigned char const *p, size_t n, size_t *count_out, size_t *stop_out)
{
    size_t pos = 0, count = 0, lc, lc0, st = (size_t)-1;
    ++vf.evals;
    for (;;)
    {
        unsigned d = judge_decode(p + pos, n - pos); /* also judges num = 0 at the very end: must be 0 without a read */
        if (d == 0 || d > n - pos) { break; }
        pos += d;
        ++count;
    }
    CUR(OP_LENGTH, 0, p, n);
    lc = a_utf_length(p, n, &st);
    CUR(OP_LENGTH_NOSTOP, 0, p, n);
    lc0 = a_utf_length(p, n, NULL);
    CUR(OP_LENGTH_, 0, p, n);
    (void)a_utf_length_(p, n); /* value judged on well-formed input only; here: must stay inside [p, p+n) */
    CUR(OP_NONE, 0, NULL, 0);
    ++acc.fold;
    if (lc != count)
    {
        VIOL("length/count-differs-from-decode-fold", "a_utf_length(%s, %zu, &stop) = %zu, folding a_utf_decode until its first 0 gives %zu characters", hex(p, n), n, lc, count);
    }
    if (st != pos)
    {
        VIOL("length/stop-differs-from-decode-fold", "a_utf_length(%s, %zu, &stop): stop = %zu, folding a_utf_decode until its first 0 consumes %zu bytes", hex(p, n), n, st, pos);
    }
    if (lc0 != lc)
    {
        VIOL("length/null-stop-variant-differs", "a_utf_length(%s, %zu, ..) = %zu with stop, %zu with stop=NULL", hex(p, n), n, lc, lc0);
    }
    {
        /* the string-level counter a_utf_len (str.c) over the same bytes viewed as a string object, with and without `stop` */
        a_str view;
        size_t st2 = (size_t)-1, sl, sl0;
        view.ptr_ = (char *)(uintptr_t)p;
        view.num_ = n;
        view.mem_ = n;
        sl = a_utf_len(&view, &st2);
        sl0 = a_utf_len(&view, NULL);
        ++acc.fold;
        if (sl != count || st2 != pos)
        {
            VIOL("str_utf_len/differs-from-decode-fold", "a_utf_len over %s (len %zu) = %zu stop %zu, folding a_utf_decode gives %zu characters in %zu bytes", hex(p, n), n, sl, st2, count, pos);
        }
        if (sl0 != count)
        {
            VIOL("str_utf_len/null-stop-form-differs-from-decode-fold", "a_utf_len(str, NULL) over %s (len %zu) = %zu, folding a_utf_decode gives %zu characters", hex(p, n), n, sl0, count);
        }
    }
    vf_distinct(string_cell(p, n));
    if (count_out) { *count_out = lc; }
    if (stop_out) { *stop_out = st; }
}

static void judge_bytes(unsigned char const *s, size_t n)
{
    unsigned char *const q = blk[n];
    for (size_t i = 0; i < n; ++i) { q[i] = s[i]; }
    judge_string(q, n, NULL, NULL);
}

/* ------------------------------------------------------------------ well-formed strings */
static uint32_t random_cp(vf_rng *r)
{
    uint64_t const u = vf_u64(r);
    uint32_t c;
    if (u & 1) { c = (uint32_t)(u >> 33); }
    else
    {
        unsigned const bits = 1 + (unsigned)((u >> 1) % 31); /* 1..31 */
        c = (uint32_t)(u >> 33) >> (31 - bits);
    }
    return c ? c : 1;
}
static uint32_t random_cp_by_length(vf_rng *r)
{
    static uint32_t const lo[7] = {0, 1, 0x80, 0x800, 0x10000, 0x200000, 0x4000000};
    static uint32_t const hi[7] = {0, 0x7F, 0x7FF, 0xFFFF, 0x1FFFFF, 0x3FFFFFF, 0x7FFFFFFF};
    unsigned const L = 1 + (unsigned)vf_below(r, 6);
    unsigned const how = (unsigned)vf_below(r, 8);
    if (how == 0) { return lo[L]; }
    if (how == 1) { return hi[L]; }
    return (uint32_t)vf_range(r, lo[L], hi[L]);
}

/* Longer, mostly-ASCII text starting at EVERY alignment of a machine word and ending exactly at the end of its heap block, or followed
   inside the block by live ASCII that the stated length excludes: where a word-at-a-time fast path has its head, its body and its tail
   (seeded change C18-M: the body loop bounds itself by a pointer computed from the start address before the head was aligned, and reads - and
   counts - up to 7 bytes beyond the stated length when the start is not word aligned). Judged like every other string: the decode fold. */
static void aligned_run(vf_rng *r)
{
    size_t const off = (size_t)vf_below(r, 16), len = (size_t)vf_below(r, 49), after = vf_chance(r, 1, 2) ? 0 : 1 + (size_t)vf_below(r, 16);
    unsigned char *const b = (unsigned char *)malloc(off + len + after + !(off + len + after));
    size_t i, lc, st;
    for (i = 0; i < off + len + after; ++i) { b[i] = (unsigned char)(0x20 + vf_below(r, 0x5F)); }
    /* none, one or a few non-ASCII / NUL bytes anywhere in the run */
    for (i = vf_below(r, 4); i && len; --i)
    {
        size_t const at = off + (size_t)vf_below(r, len);
        uint32_t const c = vf_chance(r, 1, 4) ? 0 : random_cp_by_length(r);
        unsigned const L = c ? ref_len(c) : 1;
        unsigned char e[8] = {0};
        if (c) { ref_enc(c, L, e); }
        for (unsigned k = 0; k < L && at + k < off + len; ++k) { b[at + k] = e[k]; } /* possibly cut by the end: an incomplete tail */
    }
    {
        int const e = vf.explain;
        vf.explain = 0;
        vf_log("aligned run: offset %zu in its block, %zu bytes, %zu live bytes after the stated length: %s", off, len, after, hex(b + off, len));
        vf.explain = e;
    }
    judge_string(b + off, len, &lc, &st);
    if (off % sizeof(size_t)) { VF_COUNT("length-of-long-run-at-unaligned-start"); }
    else { VF_COUNT("length-of-long-run-at-aligned-start"); }
    if (after) { VF_COUNT("length-of-run-followed-by-live-ascii"); }
    free(b);
}

static void wellformed(vf_rng *r, int want_sample, int quiet)
{
    unsigned char s[NB];
    size_t end[12]; /* character i ends at s + end[i] */
    unsigned nchar = (unsigned)vf_below(r, 9), i;
    size_t total = 0, num, exp_count = 0, exp_stop = 0, lc, st, l_;
    int nul_at = -1;
    unsigned char *q;
    if (vf_chance(r, 1, 3) && nchar) { nul_at = (int)vf_below(r, nchar + 1); } /* a NUL byte in front of character nul_at */
    for (i = 0; i < nchar; ++i)
    {
        uint32_t const c = random_cp_by_length(r);
        unsigned const L = ref_len(c);
        if ((int)i == nul_at) { s[total++] = 0; }
        ref_enc(c, L, s + total);
        total += L;
        end[i] = total;
    }
    if ((int)nchar == nul_at) { s[total++] = 0; }
    num = vf_chance(r, 1, 2) ? total : (size_t)vf_below(r, total + 1);
    /* by construction: the characters that lie completely inside [0,num) and in front of the NUL */
    for (i = 0; i < nchar; ++i)
    {
        if ((int)i == nul_at || end[i] > num) { break; }
        ++exp_count;
        exp_stop = end[i];
    }
    q = blk[num];
    for (i = 0; i < num; ++i) { q[i] = s[i]; }
    {
        /* replay (--explain) echoes the journal to stderr: do that for the first strings of a batch only;
           the journal itself always holds the string in flight, and violation messages carry their bytes */
        int const e = vf.explain;
        if (quiet) { vf.explain = 0; }
        vf_log("well-formed: %u characters, NUL before character %d, %zu bytes, num=%zu: %s", nchar, nul_at, total, num, hex(q, num));
        vf.explain = e;
    }
    judge_string(q, num, &lc, &st);
    CUR(OP_LENGTH_, 0, q, num);
    l_ = a_utf_length_(q, num);
    CUR(OP_NONE, 0, NULL, 0);
    ++acc.lenw;
    if (lc != exp_count)
    {
        VIOL("length/wellformed-count", "a_utf_length(%s, %zu) = %zu, the buffer holds %zu complete characters before its end/NUL", hex(q, num), num, lc, exp_count);
    }
    if (st != exp_stop)
    {
        VIOL("length/wellformed-stop", "a_utf_length(%s, %zu): stop = %zu, the complete characters before the end/NUL occupy %zu bytes", hex(q, num), num, st, exp_stop);
    }
    if (l_ != exp_count)
    {
        VIOL("length_/wellformed-count", "a_utf_length_(%s, %zu) = %zu, the buffer holds %zu complete characters before its end/NUL", hex(q, num), num, l_, exp_count);
    }
    if (want_sample && nchar >= 3 && num < total && vf_want_sample())
    {
        vf_sample("well-formed %s num=%zu (cut from %zu bytes, %u characters, NUL before character %d): a_utf_length = %zu stop = %zu, a_utf_length_ = %zu, "
                  "decode fold and construction agree (%zu characters, %zu bytes)",
                  hex(q, num), num, total, nchar, nul_at, lc, st, l_, exp_count, exp_stop);
    }
}

/* ------------------------------------------------------------------ code-point append into a string object */
/* a_utf_catc reserves room for the longest encoding plus the terminator before encoding in place: a string whose capacity
   is exactly its length (built with the non-terminating block append) gets code points of every encoded length appended at
   every length residue 0..23, so that a reservation that is too small for the 5- and 6-byte forms is an ASan report (seeded
   change C18-F: + 5 instead of + 7 overruns only for code points >= 0x200000 at length residues 2 and 3 mod 8). */
static void catc_append(vf_rng *r)
{
    static unsigned char const fill[24] = "abcdefghijklmnopqrstuvw";
    size_t const L0 = (size_t)vf_below(r, 24);
    unsigned const n = 1 + (unsigned)vf_below(r, 6);
    unsigned char want[24 + 6 * 6 + 1];
    size_t wn = L0, stop = 0, cnt;
    a_str s;
    a_str_ctor(&s);
    if (L0 && a_str_catn_(&s, fill, L0) != 0) { a_str_dtor(&s); return; }
    memcpy(want, fill, L0);
    vf_log("a_utf_catc: %u code points onto a %zu-byte string of capacity %zu", n, L0, a_str_mem(&s));
    for (unsigned i = 0; i < n; ++i)
    {
        uint32_t const c = random_cp_by_length(r);
        unsigned const L = ref_len(c);
        int rc;
        vf_log(" a_utf_catc U+%X (%u bytes) at length %zu capacity %zu", c, L, a_str_len(&s), a_str_mem(&s));
        rc = a_utf_catc(&s, c);
        ++vf.evals;
        VF_COUNT("utf_catc-into-tight-string");
        if (c == 0) { continue; } /* U+0 encodes to nothing */
        ref_enc(c, L, want + wn);
        wn += L;
        if (rc != 0 || a_str_len(&s) != wn || a_str_mem(&s) <= wn || memcmp(a_str_ptr(&s), want, wn) != 0 || a_str_ptr(&s)[wn] != 0)
        {
            VIOL(keyL("catc/content-or-terminator", L), "a_utf_catc(U+%X) onto %zu bytes: rc %d, length %zu (want %zu), capacity %zu, bytes %s", c, wn - L, rc, a_str_len(&s), wn, a_str_mem(&s),
                 hex((unsigned char const *)a_str_ptr(&s), a_str_len(&s) < 40 ? a_str_len(&s) : 40));
            a_str_dtor(&s);
            return;
        }
    }
    cnt = a_utf_len(&s, &stop);
    (void)cnt;
    a_str_dtor(&s);
}

/* ------------------------------------------------------------------ random byte strings */
static void random_string(vf_rng *r)
{
    unsigned char s[NB];
    size_t n = (size_t)vf_below(r, 17), i;
    unsigned const mode = (unsigned)vf_below(r, 4);
    if (mode == 0)
    {
        for (i = 0; i < n; ++i) { s[i] = (unsigned char)vf_u64(r); }
    }
    else if (mode == 1)
    {
        for (i = 0; i < n; ++i)
        {
            unsigned const w = (unsigned)vf_below(r, 20);
            s[i] = w < 8 ? (unsigned char)(0x80 | vf_below(r, 64)) : w < 13 ? (unsigned char)(0xC0 | vf_below(r, 64))
                 : w < 18 ? (unsigned char)(1 + vf_below(r, 127)) : w < 19 ? 0 : reps[vf_below(r, 12)];
        }
    }
    else
    {
        /* encodings of random code points, then (mode 3) one byte overwritten / (mode 2) cut anywhere */
        size_t t = 0;
        while (t + 6 <= 24)
        {
            uint32_t const c = vf_chance(r, 1, 2) ? random_cp(r) : random_cp_by_length(r);
            unsigned const L = ref_len(c);
            ref_enc(c, L, s + t);
            t += L;
            if (vf_chance(r, 1, 3)) { break; }
        }
        n = mode == 2 ? (size_t)vf_below(r, t + 1) : t;
        if (mode == 3 && n)
        {
            size_t const at = (size_t)vf_below(r, n);
            s[at] = vf_chance(r, 1, 2) ? (unsigned char)vf_u64(r) : reps[vf_below(r, 12)];
        }
    }
    judge_bytes(s, n);
}

/* ------------------------------------------------------------------ cases */
static void vf_case(uint64_t cno, vf_rng *r)
{
    plan_t const p = plan[cno];
    static unsigned sampled; /* one sample per kind and worker */
    uint64_t i;
    case_budget = 0;
    switch (p.kind)
    {
    case K_ZERO:
    {
        unsigned n0, n;
        size_t st = 99, lc;
        vf_log("c = 0: a_utf_encode(0, NULL), a_utf_encode(0, red zone); num = 0: a_utf_decode / a_utf_length / a_utf_length_ on a red-zone pointer");
        CUR(OP_ENCODE_NULL, 0, NULL, 0);
        n0 = a_utf_encode(0, NULL);
        ++vf.evals;
        VF_COUNT("encode-zero-has-length-0");
        if (n0 != 0) { VIOL("encode/zero-not-length-0", "a_utf_encode(0, NULL) = %u", n0); }
        CUR(OP_ENCODE, 0, blk[0], 0);
        n = a_utf_encode(0, blk[0]); /* a write through blk[0] is an ASan report */
        if (n != 0) { VIOL("encode/zero-not-length-0", "a_utf_encode(0, buf) = %u", n); }
        judge_string(blk[0], 0, &lc, &st);
        {
            /* a NUL byte followed by characters: nothing is counted, nothing consumed */
            static unsigned char const z[] = {0x00, 0x41, 0xC3, 0xA9};
            judge_bytes(z, sizeof(z));
        }
        if (!(sampled & 1u << K_ZERO) && vf_want_sample())
        {
            sampled |= 1u << K_ZERO;
            vf_sample("a_utf_encode(0, NULL) = %u, a_utf_encode(0, one-past-end pointer) = %u; a_utf_length(one-past-end pointer, 0, &stop) = %zu stop = %zu, no sanitizer report", n0, n, lc, st);
        }
        break;
    }
    case K_CP_RANGE:
    {
        uint64_t lo = p.a ? p.a : 1, hi = p.b;
        vf_log("round trip of every code point in [0x%" PRIX64 ", 0x%" PRIX64 ")", lo, hi);
        for (i = lo; i < hi; ++i) { roundtrip((uint32_t)i); }
        if (!(sampled & 1u << K_CP_RANGE) && vf_want_sample())
        {
            unsigned char b[6];
            uint32_t v = 0;
            unsigned const n = a_utf_encode((uint32_t)(hi - 1), b), d = a_utf_decode(b, n, &v);
            sampled |= 1u << K_CP_RANGE;
            vf_sample("every code point in [U+%" PRIX64 ", U+%" PRIX64 "): encode length (buf and NULL) and bytes = table, decode = (length, code point), "
                      "each proper prefix -> 0, decode with 1..7 trailing bytes; e.g. U+%" PRIX64 " -> %s -> (%u, U+%" PRIX32 ")",
                      lo, hi, hi - 1, hex(b, n), d, v);
        }
        break;
    }
    case K_CP_RANDOM:
        vf_log("round trip of %" PRIu64 " random code points (batch %" PRIu64 ")", p.a, p.b);
        for (i = 0; i < p.a; ++i) { roundtrip(random_cp(r)); }
        break;
    case K_BYTES_12:
    {
        unsigned char s[2];
        vf_log("all 1- and 2-byte strings with first byte 0x%02X..0x%02X, num = 1 and 2", (unsigned)p.a << 4, ((unsigned)p.a << 4) + 15);
        for (unsigned b0 = (unsigned)p.a << 4; b0 < ((unsigned)p.a << 4) + 16; ++b0)
        {
            s[0] = (unsigned char)b0;
            judge_bytes(s, 1);
            for (unsigned b1 = 0; b1 < 256; ++b1)
            {
                s[1] = (unsigned char)b1;
                judge_bytes(s, 2);
            }
        }
        if (!(sampled & 1u << K_BYTES_12) && vf_want_sample())
        {
            sampled |= 1u << K_BYTES_12;
            vf_sample("all 16 one-byte and 4096 two-byte strings with first byte 0x%02X..0x%02X, each in an exact-size heap block: decode bounds, continuation bytes, "
                      "val/NULL variants, a_utf_length = decode fold", (unsigned)p.a << 4, ((unsigned)p.a << 4) + 15);
        }
        break;
    }
    case K_BYTES_LEAD:
    {
        unsigned char s[6];
        uint64_t total = 1;
        vf_log("lead byte 0x%02X followed by every string of 0..5 class representatives {00 7F 80 BF C0 C2 E0 F0 F8 FC FE FF}, num = length", (unsigned)p.a);
        s[0] = (unsigned char)p.a;
        for (unsigned n = 1; n <= 6; ++n)
        {
            for (i = 0; i < total; ++i)
            {
                uint64_t x = i;
                for (unsigned k = 1; k < n; ++k)
                {
                    s[k] = reps[x % 12];
                    x /= 12;
                }
                judge_bytes(s, n);
            }
            total *= 12;
        }
        if (!(sampled & 1u << K_BYTES_LEAD) && vf_want_sample())
        {
            uint32_t v = 0;
            unsigned d;
            s[0] = (unsigned char)p.a;
            s[1] = 0x80; s[2] = 0xBF; s[3] = 0x80; s[4] = 0xBF; s[5] = 0xC2;
            d = a_utf_decode(s, 6, &v);
            sampled |= 1u << K_BYTES_LEAD;
            vf_sample("lead 0x%02X x all 271453 strings of 0..5 class representatives (every truncation length); e.g. a_utf_decode(%s, 6) = %u", (unsigned)p.a, hex(s, 6), d);
        }
        break;
    }
    case K_BYTES_LONG:
    {
        static unsigned char const alpha[5] = {0x80, 0xBF, 0x00, 0x41, 0xC0};
        unsigned char s[8];
        uint64_t total = 15625; /* 5^6 */
        vf_log("lead byte 0x%02X followed by every string of 6 and 7 bytes from {80 BF 00 41 C0}, num = 7 and 8 (more than 6 bytes available)", (unsigned)p.a);
        s[0] = (unsigned char)p.a;
        for (unsigned n = 7; n <= 8; ++n)
        {
            for (i = 0; i < total; ++i)
            {
                uint64_t x = i;
                for (unsigned k = 1; k < n; ++k)
                {
                    s[k] = alpha[x % 5];
                    x /= 5;
                }
                judge_bytes(s, n);
            }
            total *= 5;
        }
        if (!(sampled & 1u << K_BYTES_LONG) && vf_want_sample())
        {
            for (unsigned k = 1; k < 8; ++k) { s[k] = 0x80; }
            sampled |= 1u << K_BYTES_LONG;
            vf_sample("lead 0x%02X + 7 continuation bytes, num=8: a_utf_decode(%s, 8, NULL) = %u (must be <= 6)", (unsigned)p.a, hex(s, 8), a_utf_decode(s, 8, NULL));
        }
        break;
    }
    case K_BYTES_RANDOM:
        vf_log("%" PRIu64 " random byte strings of 0..24 bytes (uniform / class-weighted / cut encodings / one byte overwritten), batch %" PRIu64, p.a, p.b);
        for (i = 0; i < p.a; ++i) { random_string(r); }
        break;
    case K_GIANT:
    {
        /* "for all byte buffers of any stated length": the stated length is a_size, and a decoder that keeps it (or the distance to
           the end) in 32 bits sees 2^32 + r as r (seeded change C18-I: `unsigned int max = (unsigned int)num` before the clamp to 6
           makes a complete character at the start of such a buffer decode to 0).  The buffer is real - an anonymous mapping of
           2^33 + 64 bytes that is never touched beyond its first page, so it costs no memory - and holds a few encoded characters
           followed by NUL bytes; every stated length below covers all of them. */
        size_t const N = ((size_t)1 << 33) + 64;
        unsigned char *m = (unsigned char *)mmap(NULL, N, PROT_READ | PROT_WRITE, MAP_PRIVATE | MAP_ANONYMOUS | MAP_NORESERVE, -1, 0);
        if (m == MAP_FAILED) { VF_COUNT("giant-mapping-refused"); break; }
        vf_log("stated lengths of 2^32 + r and 2^33 + r bytes over a sparsely backed mapping");
        for (unsigned rep = 0; rep < 24; ++rep)
        {
            uint32_t cps[3];
            unsigned lens[3], total = 0;
            for (unsigned k = 0; k < 3; ++k)
            {
                static uint32_t const lo[6] = {1, 0x80, 0x800, 0x10000, 0x200000, 0x4000000}, hi[6] = {0x80, 0x800, 0x10000, 0x200000, 0x4000000, 0x80000000u};
                unsigned const L = k == 0 ? rep % 6 : (unsigned)vf_below(r, 6);
                cps[k] = lo[L] + (uint32_t)vf_below(r, hi[L] - lo[L]);
                lens[k] = a_utf_encode(cps[k], m + total);
                total += lens[k];
            }
            memset(m + total, 0, 8);
            for (unsigned hb = 0; hb < 4; ++hb)
            {
                static size_t const base[4] = {(size_t)1 << 32, (size_t)1 << 33, ((size_t)1 << 32) * 1, ((size_t)1 << 32) - 8};
                for (unsigned rr = 0; rr < 16; ++rr)
                {
                    size_t const num = base[hb] + rr + (hb == 2 ? ((size_t)1 << 31) : 0), stop0 = (size_t)-1;
                    size_t stop = stop0, cnt;
                    uint32_t v = 0xFFFFFFFFu;
                    unsigned d;
                    if (num < total) { continue; }
                    CUR(OP_DECODE, cps[0], m, num);
                    d = a_utf_decode(m, num, &v);
                    ++vf.evals;
                    VF_COUNT("giant-stated-length-decode");
                    if (d != lens[0] || v != cps[0])
                    {
                        VIOL("decode/stated-length-beyond-2^32", "a_utf_decode(%s..., num = 0x%zx, &v) = %u, v = U+%" PRIX32 "; the buffer starts with the complete %u-byte encoding of U+%" PRIX32,
                             hex(m, lens[0]), num, d, v, lens[0], cps[0]);
                    }
                    d = a_utf_decode(m, num, NULL);
                    if (d != lens[0]) { VIOL("decode/stated-length-beyond-2^32", "a_utf_decode(%s..., num = %zu, NULL) = %u instead of %u", hex(m, lens[0]), num, d, lens[0]); }
                    cnt = a_utf_length(m, num, &stop);
                    VF_COUNT("giant-stated-length-count");
                    if (cnt != 3 || stop != total)
                    {
                        VIOL("length/stated-length-beyond-2^32", "a_utf_length(%s 00..., num = %zu, &stop) = %zu, stop = %zu; three characters in %u bytes precede the first NUL", hex(m, total), num, cnt, stop, total);
                    }
                    cnt = a_utf_length_(m, num);
                    if (cnt != 3) { VIOL("length_/stated-length-beyond-2^32", "a_utf_length_(%s 00..., num = %zu) = %zu instead of 3", hex(m, total), num, cnt); }
                }
            }
        }
        munmap(m, N);
        break;
    }
    case K_WELLFORMED:
        for (i = 0; i < p.a; ++i)
        {
            /* keep only the current string in the journal */
            vf.jr->text_len = 0;
            vf.jr->truncated = 0;
            wellformed(r, !(sampled & 1u << K_WELLFORMED), i >= 4);
            if (i % 8 == 0) { catc_append(r); }
            if (i % 4 == 0) { aligned_run(r); }
            if (vf.nsamples && !(sampled & 1u << K_WELLFORMED) && strstr(vf.samples[vf.nsamples - 1], "well-formed")) { sampled |= 1u << K_WELLFORMED; }
        }
        break;
    default: break;
    }
    flush_case();
}
