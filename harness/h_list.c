/* C05 - intrusive doubly linked list (list.h), singly linked list (slist.h) and the queue (que.[ch]):
 * lock-step sequence models + ring walkers after every call, under ASan (every node, sentinel and
 * pooled block is its own exact-size malloc block).
 *
 * case % 3 == 0: list.h    1: slist.h    2: que
 */
#define VF_PROP "C05"
#include "vf_common.h"
#include "a/list.h"
#include "a/slist.h"
#include "a/que.h"

#define NN 20 /* nodes per history (list / slist) */

static char const *opname = "op";
static char const *fam = "list";
#define FAIL(clause, ...)                                            \
    do {                                                             \
        char key_[112];                                              \
        snprintf(key_, sizeof(key_), "%s_%s/%s", fam, opname, clause); \
        vf_viol(key_, __VA_ARGS__);                                  \
        ok = 0;                                                      \
    } while (0)

static void cell3(char const *op, int a, int b, int c)
{
    char buf[96];
    snprintf(buf, sizeof(buf), "%s|%s|%d|%d|%d", fam, op, a, b, c);
    vf_distinct_str(buf);
}
static int emp(size_t n) { return n == 0 ? 0 : n == 1 ? 1 : 2; }
static int posc(size_t i, size_t n) { return n == 0 ? 0 : i == 0 ? 1 : i + 1 == n ? 3 : i >= n ? 4 : 2; }

/* ===================================================================== list.h */
typedef struct
{
    a_list n; /* first */
    int id;
} lnode;
static lnode *LN[NN];
static a_list *LH[2];
static int LM[2][NN + 2]; /* model: node ids per list */
static int LMn[2];
static int Lwhere[NN]; /* -1 detached, else list index */

static int l_id_of(a_list *p)
{
    for (int i = 0; i < NN; ++i)
    {
        if (&LN[i]->n == p) { return i; }
    }
    return -1;
}

static int list_check(void)
{
    int ok = 1;
    VF_COUNT("list-rings-walked");
    for (int k = 0; k < 2; ++k)
    {
        a_list *h = LH[k], *it;
        int n = 0;
        /* forward */
        for (it = h->next; it != h; it = it->next)
        {
            int id = l_id_of(it);
            if (id < 0) { FAIL("foreign-node-in-ring", "list %d forward step %d reaches %p which is neither a pool node nor this head", k, n, (void *)it); return 0; }
            if (n >= LMn[k]) { FAIL("forward-walk-longer-than-model", "list %d: more than %d nodes (or ring not closed on its head)", k, LMn[k]); return 0; }
            if (id != LM[k][n]) { FAIL("forward-sequence", "list %d position %d: node %d, model %d", k, n, id, LM[k][n]); return 0; }
            if (it->next->prev != it) { FAIL("next-prev-inconsistent", "list %d node %d: next->prev != node", k, id); return 0; }
            if (it->prev->next != it) { FAIL("prev-next-inconsistent", "list %d node %d: prev->next != node", k, id); return 0; }
            ++n;
        }
        if (n != LMn[k]) { FAIL("forward-walk-shorter-than-model", "list %d: %d nodes, model %d", k, n, LMn[k]); return 0; }
        if (h->next->prev != h || h->prev->next != h) { FAIL("head-links-inconsistent", "list %d head", k); return 0; }
        /* backward */
        n = 0;
        for (it = h->prev; it != h; it = it->prev)
        {
            int id = l_id_of(it);
            if (id < 0 || n >= LMn[k] || id != LM[k][LMn[k] - 1 - n]) { FAIL("backward-sequence", "list %d backward position %d", k, n); return 0; }
            ++n;
        }
        if (n != LMn[k]) { FAIL("backward-walk-length", "list %d: %d nodes backward, model %d", k, n, LMn[k]); return 0; }
    }
    return ok;
}

static void lm_insert(int k, int pos, int id)
{
    memmove(&LM[k][pos + 1], &LM[k][pos], (size_t)(LMn[k] - pos) * sizeof(int));
    LM[k][pos] = id;
    ++LMn[k];
    Lwhere[id] = k;
}
static void lm_remove(int k, int pos)
{
    Lwhere[LM[k][pos]] = -1;
    memmove(&LM[k][pos], &LM[k][pos + 1], (size_t)(LMn[k] - pos - 1) * sizeof(int));
    --LMn[k];
}
static int lm_pos(int k, int id)
{
    for (int i = 0; i < LMn[k]; ++i)
    {
        if (LM[k][i] == id) { return i; }
    }
    return -1;
}
static int pick_detached(vf_rng *r)
{
    int c[NN], n = 0;
    for (int i = 0; i < NN; ++i)
    {
        if (Lwhere[i] < 0) { c[n++] = i; }
    }
    return n ? c[vf_below(r, (uint64_t)n)] : -1;
}
/* a ring member of list k: position -1 = the head sentinel */
static a_list *ring_member(int k, int pos) { return pos < 0 ? LH[k] : &LN[LM[k][pos]]->n; }

static void list_case(uint64_t c, vf_rng *r)
{
    int nops = 40 + (int)vf_below(r, 60), alive = 1;
    fam = "list";
    for (int i = 0; i < NN; ++i)
    {
        LN[i] = (lnode *)malloc(sizeof(lnode));
        LN[i]->id = i;
        a_list_init(&LN[i]->n);
        Lwhere[i] = -1;
    }
    for (int k = 0; k < 2; ++k)
    {
        LH[k] = (a_list *)malloc(sizeof(a_list));
        a_list_ctor(LH[k]);
        LMn[k] = 0;
    }
    if (vf_want_sample() && c % 9 == 0)
    {
        vf_sample("list history %" PRIu64 ": 2 heads + %d nodes (each its own malloc block), %d ops from {add_next, add_prev, add_node, del_node, del_next, del_prev, del_ section, set_node, set_ section, mov_next, mov_prev, rot_next, rot_prev, swap_node, swap_ sections (disjoint, non-adjacent), foreach/forsafe}; both rings walked forward and backward after every op", c, NN, nops);
    }
    for (int i = 0; i < nops && alive; ++i)
    {
        int op = (int)vf_below(r, 17), k = (int)vf_below(r, 2), ok = 1;
        ++vf.evals;
        switch (op)
        {
        case 0: case 1:
        {
            int id = pick_detached(r), pos;
            if (id < 0) { break; }
            pos = (int)vf_below(r, (uint64_t)LMn[k] + 1) - 1; /* -1 = head */
            opname = op ? "add_prev" : "add_next";
            vf_log("list %s(ctx=%s%d of list %d, node %d)", opname, pos < 0 ? "head" : "node ", pos < 0 ? k : LM[k][pos], k, id);
            if (op == 0) { a_list_add_next(ring_member(k, pos), &LN[id]->n); lm_insert(k, pos + 1, id); }
            else { a_list_add_prev(ring_member(k, pos), &LN[id]->n); lm_insert(k, pos < 0 ? LMn[k] : pos, id); }
            cell3(opname, emp((size_t)LMn[k] - 1), pos < 0 ? 9 : posc((size_t)pos, (size_t)LMn[k] - 1), 0);
            break;
        }
        case 2:
        {
            /* add_node(head, tail, node): tail -> node -> head where tail->next == head */
            int id = pick_detached(r), pos;
            a_list *tail, *head;
            if (id < 0) { break; }
            pos = (int)vf_below(r, (uint64_t)LMn[k] + 1) - 1;
            tail = ring_member(k, pos);
            head = tail->next;
            opname = "add_node";
            vf_log("list add_node between ring position %d and its successor of list %d, node %d", pos, k, id);
            a_list_add_node(head, tail, &LN[id]->n);
            lm_insert(k, pos + 1, id);
            cell3(opname, emp((size_t)LMn[k] - 1), posc((size_t)(pos + 1), (size_t)LMn[k]), 0);
            break;
        }
        case 3:
        {
            int pos;
            if (!LMn[k]) { break; }
            pos = (int)vf_below(r, (uint64_t)LMn[k]);
            opname = "del_node";
            vf_log("list del_node(node %d at %d of list %d)", LM[k][pos], pos, k);
            a_list_del_node(&LN[LM[k][pos]]->n);
            a_list_init(&LN[LM[k][pos]]->n);
            cell3(opname, emp((size_t)LMn[k]), posc((size_t)pos, (size_t)LMn[k]), 0);
            lm_remove(k, pos);
            break;
        }
        case 4: case 5:
        {
            /* del_next(ctx) removes ctx->next; del_prev(ctx) removes ctx->prev; the removed node must not be the head */
            int pos, victim;
            if (!LMn[k]) { break; }
            victim = (int)vf_below(r, (uint64_t)LMn[k]);
            opname = op == 4 ? "del_next" : "del_prev";
            pos = op == 4 ? victim - 1 : victim + 1; /* ring neighbour; -1 or LMn = head */
            vf_log("list %s(ctx at ring position %d of list %d) removing node %d", opname, pos, k, LM[k][victim]);
            {
                a_list *ctx = (pos < 0 || pos >= LMn[k]) ? LH[k] : &LN[LM[k][pos]]->n;
                a_list *gone = &LN[LM[k][victim]]->n;
                if (op == 4) { a_list_del_next(ctx); }
                else { a_list_del_prev(ctx); }
                a_list_init(gone);
            }
            cell3(opname, emp((size_t)LMn[k]), posc((size_t)victim, (size_t)LMn[k]), 0);
            lm_remove(k, victim);
            break;
        }
        case 6:
        {
            /* del_(head, tail): remove the section [i..j] */
            int a, b;
            if (!LMn[k]) { break; }
            a = (int)vf_below(r, (uint64_t)LMn[k]);
            b = a + (int)vf_below(r, (uint64_t)(LMn[k] - a));
            opname = "del_";
            vf_log("list del_(section [%d..%d] of list %d)", a, b, k);
            a_list_del_(&LN[LM[k][a]]->n, &LN[LM[k][b]]->n);
            cell3(opname, emp((size_t)LMn[k]), posc((size_t)a, (size_t)LMn[k]), b - a > 1 ? 2 : b - a);
            for (int j = b; j >= a; --j)
            {
                a_list_init(&LN[LM[k][j]]->n);
                lm_remove(k, j);
            }
            break;
        }
        case 7:
        {
            /* set_node(ctx, rhs): rhs takes ctx's place */
            int id = pick_detached(r), pos, old;
            if (id < 0 || !LMn[k]) { break; }
            pos = (int)vf_below(r, (uint64_t)LMn[k]);
            old = LM[k][pos];
            opname = "set_node";
            vf_log("list set_node(node %d at %d of list %d replaced by node %d)", old, pos, k, id);
            a_list_set_node(&LN[old]->n, &LN[id]->n);
            a_list_init(&LN[old]->n);
            LM[k][pos] = id;
            Lwhere[id] = k;
            Lwhere[old] = -1;
            cell3(opname, emp((size_t)LMn[k]), posc((size_t)pos, (size_t)LMn[k]), 0);
            break;
        }
        case 8:
        {
            /* set_(head1, tail1, head2, tail2): section [a..b] replaced by a detached chain */
            int a, b, chain[3], cn = 0, want = 1 + (int)vf_below(r, 3);
            if (!LMn[k]) { break; }
            for (int j = 0; j < want; ++j)
            {
                int id = pick_detached(r);
                if (id < 0) { break; }
                chain[cn++] = id;
                Lwhere[id] = 99; /* reserved */
            }
            if (!cn) { break; }
            for (int j = 0; j + 1 < cn; ++j) { a_list_link(&LN[chain[j]]->n, &LN[chain[j + 1]]->n); }
            a = (int)vf_below(r, (uint64_t)LMn[k]);
            b = a + (int)vf_below(r, (uint64_t)(LMn[k] - a));
            if (LMn[k] - (b - a + 1) + cn > NN) { for (int j = 0; j < cn; ++j) { Lwhere[chain[j]] = -1; a_list_init(&LN[chain[j]]->n); } break; }
            opname = "set_";
            vf_log("list set_(section [%d..%d] of list %d replaced by a chain of %d detached nodes)", a, b, k, cn);
            a_list_set_(&LN[LM[k][a]]->n, &LN[LM[k][b]]->n, &LN[chain[0]]->n, &LN[chain[cn - 1]]->n);
            cell3(opname, emp((size_t)LMn[k]), posc((size_t)a, (size_t)LMn[k]), cn);
            for (int j = b; j >= a; --j)
            {
                a_list_init(&LN[LM[k][j]]->n);
                lm_remove(k, j);
            }
            for (int j = 0; j < cn; ++j) { lm_insert(k, a + j, chain[j]); }
            break;
        }
        case 9: case 10:
        {
            /* mov_next/mov_prev(ctx, rhs): splice all nodes of the non-empty list rhs after/before ctx */
            int o = 1 - k, pos, n2 = LMn[o];
            if (!n2) { break; }
            pos = (int)vf_below(r, (uint64_t)LMn[k] + 1) - 1;
            opname = op == 9 ? "mov_next" : "mov_prev";
            vf_log("list %s(ctx ring position %d of list %d, all %d nodes of list %d)", opname, pos, k, n2, o);
            if (op == 9) { a_list_mov_next(ring_member(k, pos), LH[o]); }
            else { a_list_mov_prev(ring_member(k, pos), LH[o]); }
            a_list_init(LH[o]);
            {
                int ids[NN], at = op == 9 ? pos + 1 : (pos < 0 ? LMn[k] : pos);
                memcpy(ids, LM[o], (size_t)n2 * sizeof(int));
                LMn[o] = 0;
                for (int j = 0; j < n2; ++j) { lm_insert(k, at + j, ids[j]); }
            }
            cell3(opname, emp((size_t)LMn[k] - (size_t)n2), emp((size_t)n2), pos < 0);
            break;
        }
        case 11: case 12:
            opname = op == 11 ? "rot_next" : "rot_prev";
            vf_log("list %s(head of list %d, %d nodes)", opname, k, LMn[k]);
            if (op == 11) { a_list_rot_next(LH[k]); }
            else { a_list_rot_prev(LH[k]); }
            if (LMn[k] > 1)
            {
                if (op == 11)
                {
                    int last = LM[k][LMn[k] - 1];
                    memmove(&LM[k][1], &LM[k][0], (size_t)(LMn[k] - 1) * sizeof(int));
                    LM[k][0] = last;
                }
                else
                {
                    int first = LM[k][0];
                    memmove(&LM[k][0], &LM[k][1], (size_t)(LMn[k] - 1) * sizeof(int));
                    LM[k][LMn[k] - 1] = first;
                }
            }
            cell3(opname, emp((size_t)LMn[k]), 0, 0);
            break;
        case 13:
        {
            /* swap_node: two distinct, non-adjacent nodes (same or different lists) */
            int k2 = (int)vf_below(r, 2), p1, p2;
            a_list *x, *y;
            if (!LMn[k] || !LMn[k2]) { break; }
            p1 = (int)vf_below(r, (uint64_t)LMn[k]);
            p2 = (int)vf_below(r, (uint64_t)LMn[k2]);
            x = &LN[LM[k][p1]]->n;
            y = &LN[LM[k2][p2]]->n;
            if (x == y || x->next == y || y->next == x) { VF_COUNT("swap-skipped-adjacent"); break; }
            opname = "swap_node";
            vf_log("list swap_node(node %d at %d of list %d, node %d at %d of list %d)", LM[k][p1], p1, k, LM[k2][p2], p2, k2);
            a_list_swap_node(x, y);
            {
                int t = LM[k][p1];
                LM[k][p1] = LM[k2][p2];
                LM[k2][p2] = t;
                Lwhere[LM[k][p1]] = k;
                Lwhere[LM[k2][p2]] = k2;
            }
            cell3(opname, k == k2, posc((size_t)p1, (size_t)LMn[k]), posc((size_t)p2, (size_t)LMn[k2]));
            break;
        }
        case 14:
        {
            /* swap_ of two sections: disjoint and non-adjacent in the ring sense */
            int k2 = (int)vf_below(r, 2), a1, b1, a2, b2;
            if (!LMn[k] || !LMn[k2]) { break; }
            a1 = (int)vf_below(r, (uint64_t)LMn[k]);
            b1 = a1 + (int)vf_below(r, (uint64_t)(LMn[k] - a1));
            a2 = (int)vf_below(r, (uint64_t)LMn[k2]);
            b2 = a2 + (int)vf_below(r, (uint64_t)(LMn[k2] - a2));
            if (k == k2)
            {
                if (a1 > a2) { int t = a1; a1 = a2; a2 = t; t = b1; b1 = b2; b2 = t; }
                if (b1 + 1 >= a2) { VF_COUNT("swap-skipped-adjacent"); break; } /* overlapping or adjacent */
            }
            {
                a_list *h1 = &LN[LM[k][a1]]->n, *t1 = &LN[LM[k][b1]]->n, *h2 = &LN[LM[k2][a2]]->n, *t2 = &LN[LM[k2][b2]]->n;
                if (t1->next == h2 || t2->next == h1) { VF_COUNT("swap-skipped-adjacent"); break; }
                opname = "swap_";
                vf_log("list swap_(section [%d..%d] of list %d, section [%d..%d] of list %d)", a1, b1, k, a2, b2, k2);
                a_list_swap_(h1, t1, h2, t2);
            }
            {
                int s1[NN], s2[NN], n1 = b1 - a1 + 1, n2 = b2 - a2 + 1;
                memcpy(s1, &LM[k][a1], (size_t)n1 * sizeof(int));
                memcpy(s2, &LM[k2][a2], (size_t)n2 * sizeof(int));
                /* remove the later section first when in the same list */
                for (int j = 0; j < n2; ++j) { lm_remove(k2, a2); }
                for (int j = 0; j < n1; ++j) { lm_remove(k, a1); }
                if (k == k2)
                {
                    for (int j = 0; j < n2; ++j) { lm_insert(k, a1 + j, s2[j]); }
                    {
                        int at = a2 - n1 + n2;
                        for (int j = 0; j < n1; ++j) { lm_insert(k, at + j, s1[j]); }
                    }
                }
                else
                {
                    for (int j = 0; j < n2; ++j) { lm_insert(k, a1 + j, s2[j]); }
                    for (int j = 0; j < n1; ++j) { lm_insert(k2, a2 + j, s1[j]); }
                }
                cell3(opname, k == k2, n1 > 1, n2 > 1);
            }
            break;
        }
        default:
        {
            /* iteration macros */
            int n = 0;
            opname = "foreach";
            VF_COUNT("list-foreach-macros");
            a_list_foreach_next(it, LH[k])
            {
                if (n >= LMn[k] || l_id_of(it) != LM[k][n]) { FAIL("foreach_next", "position %d", n); break; }
                ++n;
            }
            if (ok && n != LMn[k]) { FAIL("foreach_next", "visited %d of %d", n, LMn[k]); }
            n = 0;
            a_list_foreach_prev(it, LH[k])
            {
                if (n >= LMn[k] || l_id_of(it) != LM[k][LMn[k] - 1 - n]) { FAIL("foreach_prev", "position %d", n); break; }
                ++n;
            }
            if (ok && n != LMn[k]) { FAIL("foreach_prev", "visited %d of %d", n, LMn[k]); }
            n = 0;
            a_list_forsafe_next(it, at, LH[k])
            {
                if (n >= LMn[k] || l_id_of(it) != LM[k][n]) { FAIL("forsafe_next", "position %d", n); break; }
                ++n;
            }
            n = 0;
            a_list_forsafe_prev(it, at, LH[k])
            {
                if (n >= LMn[k] || l_id_of(it) != LM[k][LMn[k] - 1 - n]) { FAIL("forsafe_prev", "position %d", n); break; }
                ++n;
            }
            cell3(opname, emp((size_t)LMn[k]), 0, 0);
            break;
        }
        }
        (void)ok;
        alive = list_check();
    }
    for (int i = 0; i < NN; ++i) { free(LN[i]); }
    free(LH[0]);
    free(LH[1]);
}

/* ===================================================================== slist.h */
typedef struct
{
    a_slist_node n;
    int id;
} snode;
static snode *SN[NN];
static a_slist *SL[2];
static int SM[2][NN + 2], SMn[2], Swhere[NN];

static int s_id_of(a_slist_node *p)
{
    for (int i = 0; i < NN; ++i)
    {
        if (&SN[i]->n == p) { return i; }
    }
    return -1;
}
static int slist_check(void)
{
    int ok = 1;
    VF_COUNT("slist-walked");
    for (int k = 0; k < 2; ++k)
    {
        a_slist_node *it, *last = &SL[k]->head;
        int n = 0;
        for (it = SL[k]->head.next; it; it = it->next)
        {
            int id = s_id_of(it);
            if (id < 0) { FAIL("foreign-node", "slist %d step %d reaches %p", k, n, (void *)it); return 0; }
            if (n >= SMn[k]) { FAIL("walk-longer-than-model", "slist %d: more than %d nodes", k, SMn[k]); return 0; }
            if (id != SM[k][n]) { FAIL("sequence", "slist %d position %d: node %d, model %d", k, n, id, SM[k][n]); return 0; }
            last = it;
            ++n;
        }
        if (n != SMn[k]) { FAIL("walk-shorter-than-model", "slist %d: %d nodes, model %d", k, n, SMn[k]); return 0; }
        VF_COUNT("slist-tail-designates-last-node");
        if (SL[k]->tail != last) { FAIL("tail-not-last-node", "slist %d: tail %p, last node %p (%d nodes)", k, (void *)SL[k]->tail, (void *)last, n); return 0; }
    }
    return ok;
}
static void sm_insert(int k, int pos, int id)
{
    memmove(&SM[k][pos + 1], &SM[k][pos], (size_t)(SMn[k] - pos) * sizeof(int));
    SM[k][pos] = id;
    ++SMn[k];
    Swhere[id] = k;
}
static void sm_remove(int k, int pos)
{
    Swhere[SM[k][pos]] = -1;
    memmove(&SM[k][pos], &SM[k][pos + 1], (size_t)(SMn[k] - pos - 1) * sizeof(int));
    --SMn[k];
}
static int s_pick_detached(vf_rng *r)
{
    int c[NN], n = 0;
    for (int i = 0; i < NN; ++i)
    {
        if (Swhere[i] < 0) { c[n++] = i; }
    }
    return n ? c[vf_below(r, (uint64_t)n)] : -1;
}
static a_slist_node *s_member(int k, int pos) { return pos < 0 ? &SL[k]->head : &SN[SM[k][pos]]->n; }

static void slist_case(uint64_t c, vf_rng *r)
{
    int nops = 40 + (int)vf_below(r, 60), alive = 1;
    fam = "slist";
    for (int i = 0; i < NN; ++i)
    {
        SN[i] = (snode *)malloc(sizeof(snode));
        SN[i]->id = i;
        SN[i]->n.next = NULL;
        Swhere[i] = -1;
    }
    for (int k = 0; k < 2; ++k)
    {
        SL[k] = (a_slist *)malloc(sizeof(a_slist));
        a_slist_ctor(SL[k]);
        SMn[k] = 0;
    }
    if (vf_want_sample() && c % 9 == 1)
    {
        vf_sample("slist history %" PRIu64 ": 2 lists + %d nodes, %d ops from {add(prev,node), add_head, add_tail, del(prev), del_head, mov(all of one list after a node of the other), rot, foreach/forsafe}; walk == model and tail == last node (or the head sentinel) after every op", c, NN, nops);
    }
    for (int i = 0; i < nops && alive; ++i)
    {
        int op = (int)vf_below(r, 10), k = (int)vf_below(r, 2), ok = 1;
        ++vf.evals;
        switch (op)
        {
        case 0: case 1:
        {
            int id = s_pick_detached(r), pos;
            if (id < 0) { break; }
            pos = (int)vf_below(r, (uint64_t)SMn[k] + 1) - 1;
            if (op == 1 && vf_chance(r, 1, 2)) { pos = SMn[k] - 1; } /* after the last node: the tail must move */
            opname = "add";
            vf_log("slist add(list %d, prev=%s%d, node %d)", k, pos < 0 ? "head" : "position ", pos < 0 ? 0 : pos, id);
            a_slist_add(SL[k], s_member(k, pos), &SN[id]->n);
            sm_insert(k, pos + 1, id);
            cell3(opname, emp((size_t)SMn[k] - 1), posc((size_t)(pos + 1), (size_t)SMn[k]), 0);
            break;
        }
        case 2:
        {
            int id = s_pick_detached(r);
            if (id < 0) { break; }
            opname = "add_head";
            vf_log("slist add_head(list %d, node %d)", k, id);
            a_slist_add_head(SL[k], &SN[id]->n);
            sm_insert(k, 0, id);
            cell3(opname, emp((size_t)SMn[k] - 1), 0, 0);
            break;
        }
        case 3:
        {
            int id = s_pick_detached(r);
            if (id < 0) { break; }
            opname = "add_tail";
            vf_log("slist add_tail(list %d, node %d)", k, id);
            a_slist_add_tail(SL[k], &SN[id]->n);
            sm_insert(k, SMn[k], id);
            cell3(opname, emp((size_t)SMn[k] - 1), 0, 0);
            break;
        }
        case 4:
        {
            /* del(prev): removes prev->next (nothing if prev is the last node) */
            int pos = (int)vf_below(r, (uint64_t)SMn[k] + 1) - 1;
            opname = "del";
            vf_log("slist del(list %d, prev at position %d of %d)", k, pos, SMn[k]);
            a_slist_del(SL[k], s_member(k, pos));
            cell3(opname, emp((size_t)SMn[k]), posc((size_t)(pos + 1), (size_t)SMn[k]), 0);
            if (pos + 1 < SMn[k])
            {
                SN[SM[k][pos + 1]]->n.next = NULL;
                sm_remove(k, pos + 1);
            }
            break;
        }
        case 5:
            opname = "del_head";
            vf_log("slist del_head(list %d of %d)", k, SMn[k]);
            a_slist_del_head(SL[k]);
            cell3(opname, emp((size_t)SMn[k]), 0, 0);
            if (SMn[k])
            {
                SN[SM[k][0]]->n.next = NULL;
                sm_remove(k, 0);
            }
            break;
        case 6:
        {
            /* mov(ctx, to, at): all nodes of ctx go after node `at` of list `to`; ctx is re-initialised by the caller */
            int o = 1 - k, pos = (int)vf_below(r, (uint64_t)SMn[k] + 1) - 1, n2 = SMn[o];
            int ids[NN];
            opname = "mov";
            vf_log("slist mov(all %d nodes of list %d after position %d of list %d (%d nodes))", n2, o, pos, k, SMn[k]);
            a_slist_mov(SL[o], SL[k], s_member(k, pos));
            a_slist_init(SL[o]);
            memcpy(ids, SM[o], (size_t)n2 * sizeof(int));
            SMn[o] = 0;
            for (int j = 0; j < n2; ++j) { sm_insert(k, pos + 1 + j, ids[j]); }
            cell3(opname, emp((size_t)SMn[k] - (size_t)n2), emp((size_t)n2), pos + 1 == SMn[k] - n2);
            break;
        }
        case 7: case 8:
            opname = "rot";
            vf_log("slist rot(list %d of %d)", k, SMn[k]);
            a_slist_rot(SL[k]);
            if (SMn[k] > 1)
            {
                int first = SM[k][0];
                memmove(&SM[k][0], &SM[k][1], (size_t)(SMn[k] - 1) * sizeof(int));
                SM[k][SMn[k] - 1] = first;
            }
            cell3(opname, emp((size_t)SMn[k]), 0, 0);
            break;
        default:
        {
            int n = 0;
            opname = "foreach";
            VF_COUNT("slist-foreach-macros");
            a_slist_foreach(it, SL[k])
            {
                if (n >= SMn[k] || s_id_of(it) != SM[k][n]) { FAIL("foreach", "position %d", n); break; }
                ++n;
            }
            if (ok && n != SMn[k]) { FAIL("foreach", "visited %d of %d", n, SMn[k]); }
            n = 0;
            a_slist_forsafe(it, at, SL[k])
            {
                if (n >= SMn[k] || s_id_of(it) != SM[k][n]) { FAIL("forsafe", "position %d", n); break; }
                ++n;
            }
            break;
        }
        }
        (void)ok;
        alive = slist_check();
    }
    for (int i = 0; i < NN; ++i) { free(SN[i]); }
    free(SL[0]);
    free(SL[1]);
}

/* ===================================================================== que */
#define QMAX 48
#define QSZ 24
typedef struct
{
    a_que *q;
    size_t siz;
    size_t n;
    unsigned char pay[QMAX][QSZ]; /* payload bytes */
    void *addr[QMAX];             /* payload address while enqueued */
    int by_ctor;
} qmodel;
static qmodel Q[2];
static size_t q_siz_cb;
static uint32_t qserial;

static int q_cmp(void const *l, void const *r)
{
    unsigned a = *(unsigned char const *)l, b = *(unsigned char const *)r;
    return (a > b) - (a < b);
}
static void q_dtor(void *p) { (void)p; }

static void q_mk(vf_rng *r, qmodel *m, unsigned char *out, int key)
{
    uint32_t id = ++qserial;
    memset(out, 0, QSZ);
    out[0] = (unsigned char)(key >= 0 ? key : (int)vf_below(r, 20));
    for (size_t i = 1; i < m->siz; ++i) { out[i] = (unsigned char)(id >> (8 * ((i - 1) & 3))); }
}

static int que_check(void)
{
    int ok = 1;
    VF_COUNT("que-state-compared-with-model");
    for (int k = 0; k < 2; ++k)
    {
        qmodel *m = &Q[k];
        a_que *q = m->q;
        a_list *h = &q->head_, *it;
        size_t n = 0;
        if (a_que_siz(q) != m->siz) { FAIL("element-size", "queue %d: size %zu, model %zu", k, a_que_siz(q), m->siz); return 0; }
        if (a_que_num(q) != m->n) { FAIL("count", "queue %d: a_que_num %zu, model %zu", k, a_que_num(q), m->n); return 0; }
        for (it = h->next; it != h; it = it->next)
        {
            if (n >= m->n) { FAIL("ring-longer-than-model", "queue %d: ring has more than %zu nodes or is not closed on its own sentinel", k, m->n); return 0; }
            if ((void *)(it + 1) != m->addr[n]) { FAIL("element-address-changed", "queue %d position %zu: payload at %p, model %p", k, n, (void *)(it + 1), m->addr[n]); return 0; }
            if (it->next->prev != it || it->prev->next != it) { FAIL("ring-links-inconsistent", "queue %d position %zu", k, n); return 0; }
            if (memcmp(it + 1, m->pay[n], m->siz) != 0) { FAIL("contents", "queue %d position %zu payload differs", k, n); return 0; }
            ++n;
        }
        if (n != m->n) { FAIL("ring-shorter-than-model", "queue %d: %zu nodes, model %zu", k, n, m->n); return 0; }
        if (h->next->prev != h || h->prev->next != h) { FAIL("sentinel-links-inconsistent", "queue %d: ring not closed on its own sentinel", k); return 0; }
        /* fore/back/at from both ends */
        VF_COUNT("que-indexed-access");
        if (a_que_fore(q) != (m->n ? m->addr[0] : NULL)) { FAIL("fore", "queue %d", k); return 0; }
        if (a_que_back(q) != (m->n ? m->addr[m->n - 1] : NULL)) { FAIL("back", "queue %d", k); return 0; }
        for (size_t i = 0; i < m->n; ++i)
        {
            if (a_que_at(q, (a_diff)i) != m->addr[i]) { FAIL("at-from-front", "queue %d at(%zu)", k, i); return 0; }
            if (a_que_at(q, -(a_diff)i - 1) != m->addr[m->n - 1 - i]) { FAIL("at-from-back", "queue %d at(-%zu)", k, i + 1); return 0; }
        }
        if (a_que_at(q, (a_diff)m->n) || a_que_at(q, -(a_diff)m->n - 1)) { FAIL("at-out-of-range", "queue %d: at beyond either end is not null", k); return 0; }
    }
    return ok;
}
static void qm_insert(qmodel *m, size_t pos, unsigned char const *pay, void *addr)
{
    memmove(m->pay[pos + 1], m->pay[pos], (m->n - pos) * QSZ);
    memmove(&m->addr[pos + 1], &m->addr[pos], (m->n - pos) * sizeof(void *));
    memcpy(m->pay[pos], pay, QSZ);
    m->addr[pos] = addr;
    ++m->n;
}
static void qm_remove(qmodel *m, size_t pos)
{
    memmove(m->pay[pos], m->pay[pos + 1], (m->n - pos - 1) * QSZ);
    memmove(&m->addr[pos], &m->addr[pos + 1], (m->n - pos - 1) * sizeof(void *));
    --m->n;
}
static int q_enqueued(void *addr)
{
    for (int k = 0; k < 2; ++k)
    {
        for (size_t i = 0; i < Q[k].n; ++i)
        {
            if (Q[k].addr[i] == addr) { return 1; }
        }
    }
    return 0;
}
static int qm_sorted(qmodel *m)
{
    for (size_t i = 1; i < m->n; ++i)
    {
        if (m->pay[i - 1][0] > m->pay[i][0]) { return 0; }
    }
    return 1;
}
static size_t q_index(vf_rng *r, size_t n, int *cls)
{
    int c = (int)vf_below(r, 7);
    *cls = c;
    switch (c)
    {
    case 0: return 0;
    case 1: return n / 2;
    case 2: return n ? n - 1 : 0;
    case 3: return n;
    case 4: return n + 1;
    case 5: return SIZE_MAX;
    default: return (size_t)vf_below(r, n + 2);
    }
}

static void que_case(uint64_t c, vf_rng *r)
{
    static size_t const sizes[] = {0, 1, 4, 8, 24};
    int nops = 40 + (int)vf_below(r, 70), alive = 1;
    size_t siz = sizes[vf_below(r, 5)];
    fam = "que";
    qserial = (uint32_t)(c * 1000);
    for (int k = 0; k < 2; ++k)
    {
        memset(&Q[k], 0, sizeof(Q[k]));
        if ((c >> 2 ^ (uint64_t)k) & 1)
        {
            Q[k].q = (a_que *)malloc(sizeof(a_que)); /* constructor/destructor on caller-provided storage */
            memset(Q[k].q, 0x5A, sizeof(a_que));
            a_que_ctor(Q[k].q, siz);
            Q[k].by_ctor = 1;
            VF_COUNT("que-ctor-dtor-on-caller-storage");
        }
        else { Q[k].q = a_que_new(siz); }
        Q[k].siz = siz ? siz : 1;
    }
    if (vf_want_sample() && c % 9 == 2)
    {
        vf_sample("queue history %" PRIu64 ": two a_que of element size %zu, %d ops from {push/pull both ends, insert, remove (indices 0, mid, last, num, num+1, SIZE_MAX), push_sort, push+sort_fore, push+sort_back, swap_ of two non-adjacent elements, whole-queue a_que_swap, drop, setz, foreach}; ring, num, fore/back/at(+-i), payload bytes and element addresses compared with the model after every call", c, siz, nops);
    }
    for (int i = 0; i < nops && alive; ++i)
    {
        int op = (int)vf_below(r, 22), k = (int)vf_below(r, 2), ok = 1, cls = 0;
        qmodel *m = &Q[k];
        unsigned char el[QSZ];
        void *p;
        size_t idx;
        q_siz_cb = m->siz;
        ++vf.evals;
        switch (op)
        {
        case 0: case 1: case 2: case 3: case 4:
            if (m->n + 1 >= QMAX) { break; }
            q_mk(r, m, el, -1);
            if (op < 2) { opname = "push_back"; vf_log("que %d push_back (num %zu)", k, m->n); p = a_que_push_back(m->q); idx = m->n; }
            else if (op < 4) { opname = "push_fore"; vf_log("que %d push_fore (num %zu)", k, m->n); p = a_que_push_fore(m->q); idx = 0; }
            else
            {
                opname = "insert";
                idx = q_index(r, m->n, &cls);
                vf_log("que %d insert idx=%zu (num %zu)", k, idx, m->n);
                p = a_que_insert(m->q, idx);
                if (idx > m->n) { idx = m->n; }
            }
            if (!p) { FAIL("unexpected-null", "push returned null"); alive = 0; break; }
            VF_COUNT("que-recycled-node-not-enqueued");
            if (q_enqueued(p)) { FAIL("handed-out-node-still-enqueued", "push returned %p which is the address of an enqueued element", p); alive = 0; break; }
            memcpy(p, el, m->siz);
            qm_insert(m, idx, el, p);
            cell3(opname, emp(m->n - 1), cls, (int)m->siz);
            break;
        case 5: case 6: case 7: case 8:
        {
            size_t at;
            if (op == 5) { opname = "pull_back"; vf_log("que %d pull_back (num %zu)", k, m->n); p = a_que_pull_back(m->q); at = m->n ? m->n - 1 : 0; }
            else if (op == 6) { opname = "pull_fore"; vf_log("que %d pull_fore (num %zu)", k, m->n); p = a_que_pull_fore(m->q); at = 0; }
            else
            {
                opname = "remove";
                idx = q_index(r, m->n, &cls);
                vf_log("que %d remove idx=%zu (num %zu)", k, idx, m->n);
                p = a_que_remove(m->q, idx);
                at = idx < m->n ? idx : (m->n ? m->n - 1 : 0);
            }
            if (!m->n)
            {
                VF_COUNT("que-pull-from-empty-returns-null");
                if (p) { FAIL("non-null-from-empty", "returned %p", p); alive = 0; }
                break;
            }
            VF_COUNT("que-pull-returns-the-element");
            if (p != m->addr[at]) { FAIL("wrong-element-returned", "returned %p, element %zu lives at %p", p, at, m->addr[at]); alive = 0; break; }
            if (memcmp(p, m->pay[at], m->siz) != 0) { FAIL("returned-element-not-intact", "payload changed"); alive = 0; break; }
            qm_remove(m, at);
            cell3(opname, emp(m->n + 1), cls, (int)m->siz);
            break;
        }
        case 9: case 10: case 11:
        {
            /* sorted insertion on a sorted queue */
            int variant = op - 9;
            if (m->n + 1 >= QMAX) { break; }
            if (!qm_sorted(m)) { break; }
            q_mk(r, m, el, vf_chance(r, 1, 4) ? (int)vf_below(r, 2) * 255 : -1);
            if (variant == 0)
            {
                opname = "push_sort";
                vf_log("que %d push_sort key %u (num %zu)", k, el[0], m->n);
                p = a_que_push_sort(m->q, el, q_cmp);
            }
            else if (variant == 1)
            {
                opname = "sort_fore";
                vf_log("que %d push_fore key %u + sort_fore (num %zu)", k, el[0], m->n);
                p = a_que_push_fore(m->q);
                if (p) { memcpy(p, el, m->siz); a_que_sort_fore(m->q, q_cmp); }
            }
            else
            {
                opname = "sort_back";
                vf_log("que %d push_back key %u + sort_back (num %zu)", k, el[0], m->n);
                p = a_que_push_back(m->q);
                if (p) { memcpy(p, el, m->siz); a_que_sort_back(m->q, q_cmp); }
            }
            if (!p) { FAIL("unexpected-null", "push returned null"); alive = 0; break; }
            if (q_enqueued(p)) { FAIL("handed-out-node-still-enqueued", "push returned the address of an enqueued element"); alive = 0; break; }
            if (variant == 0) { memcpy(p, el, m->siz); }
            /* locate the new element in the library's ring: the rest must be the old sequence, whole must be sorted */
            {
                a_list *h = &m->q->head_, *it;
                size_t pos = 0, found = SIZE_MAX;
                for (it = h->next; it != h && pos <= m->n; it = it->next, ++pos)
                {
                    if ((void *)(it + 1) == p) { found = pos; break; }
                }
                VF_COUNT("que-sorted-insert-keeps-order-and-elements");
                if (found == SIZE_MAX) { FAIL("new-element-not-in-ring", "the pushed node is not linked into the queue"); alive = 0; break; }
                qm_insert(m, found, el, p);
                if (!qm_sorted(m)) { FAIL("not-sorted", "sequence not sorted after sorted insertion of key %u at %zu", el[0], found); alive = 0; break; }
            }
            cell3(opname, emp(m->n - 1), el[0] == 0 ? 1 : el[0] == 255 ? 2 : 0, 0);
            break;
        }
        case 12: case 13:
        {
            /* element swap: two distinct non-adjacent elements, same or different queue */
            int k2 = (int)vf_below(r, 2);
            qmodel *m2 = &Q[k2];
            size_t p1, p2;
            a_list *x, *y;
            if (!m->n || !m2->n) { break; }
            if (m->siz != m2->siz) { break; } /* elements of different sizes cannot change places */
            p1 = (size_t)vf_below(r, m->n);
            p2 = (size_t)vf_below(r, m2->n);
            x = (a_list *)m->addr[p1] - 1;
            y = (a_list *)m2->addr[p2] - 1;
            if (x == y || x->next == y || y->next == x) { VF_COUNT("swap-skipped-adjacent"); break; }
            opname = "swap_";
            vf_log("que swap_(element %zu of queue %d, element %zu of queue %d)", p1, k, p2, k2);
            a_que_swap_(m->addr[p1], m2->addr[p2]);
            {
                unsigned char t[QSZ];
                void *ta = m->addr[p1];
                memcpy(t, m->pay[p1], QSZ);
                memcpy(m->pay[p1], m2->pay[p2], QSZ);
                memcpy(m2->pay[p2], t, QSZ);
                m->addr[p1] = m2->addr[p2];
                m2->addr[p2] = ta;
            }
            VF_COUNT("que-element-swap");
            cell3(opname, k == k2, posc(p1, m->n), posc(p2, m2->n));
            break;
        }
        case 14: case 15:
        {
            /* whole-queue swap: handles stay, contents change sides */
            qmodel t;
            a_que *q0 = Q[0].q, *q1 = Q[1].q;
            opname = "swap";
            vf_log("que a_que_swap (num %zu / %zu)", Q[0].n, Q[1].n);
            a_que_swap(q0, q1);
            VF_COUNT("que-whole-swap");
            cell3(opname, emp(Q[0].n), emp(Q[1].n), 0);
            t = Q[0];
            {
                int c0 = Q[0].by_ctor, c1 = Q[1].by_ctor;
                Q[0] = Q[1];
                Q[1] = t;
                Q[0].q = q0;
                Q[1].q = q1;
                Q[0].by_ctor = c0;
                Q[1].by_ctor = c1;
            }
            break;
        }
        case 16:
        {
            int rc;
            if (vf_chance(r, 1, 2)) { break; }
            opname = "drop";
            vf_log("que %d drop (num %zu)", k, m->n);
            rc = a_que_drop(m->q, vf_chance(r, 1, 2) ? q_dtor : NULL);
            if (rc != A_SUCCESS) { FAIL("unexpected-error", "rc %d", rc); alive = 0; break; }
            VF_COUNT("que-drop");
            cell3(opname, emp(m->n), 0, 0);
            m->n = 0;
            break;
        }
        case 17:
        {
            int rc;
            size_t nz = sizes[vf_below(r, 5)];
            if (vf_chance(r, 2, 3)) { break; }
            opname = "setz";
            vf_log("que %d setz %zu (num %zu, size %zu)", k, nz, m->n, m->siz);
            rc = a_que_setz(m->q, nz, vf_chance(r, 1, 2) ? q_dtor : NULL);
            if (rc != A_SUCCESS) { FAIL("unexpected-error", "rc %d", rc); alive = 0; break; }
            VF_COUNT("que-setz");
            cell3(opname, emp(m->n), nz > m->siz, 0);
            m->n = 0;
            m->siz = nz ? nz : 1;
            break;
        }
        default:
            if (m->siz >= 8)
            {
                size_t n = 0;
                opname = "foreach";
                VF_COUNT("que-foreach-macros");
                a_que_foreach(uint64_t, *, it, m->q)
                {
                    if (n >= m->n || (void *)it != m->addr[n]) { FAIL("foreach", "position %zu", n); break; }
                    ++n;
                }
                if (ok && n != m->n) { FAIL("foreach", "visited %zu of %zu", n, m->n); }
                n = 0;
                a_que_foreach_reverse(uint64_t, *, it, m->q)
                {
                    if (n >= m->n || (void *)it != m->addr[m->n - 1 - n]) { FAIL("foreach_reverse", "position %zu", n); break; }
                    ++n;
                }
                if (ok && n != m->n) { FAIL("foreach_reverse", "visited %zu of %zu", n, m->n); }
            }
            break;
        }
        (void)ok;
        if (alive) { alive = que_check(); }
    }
    if (alive)
    {
        opname = "die";
        vf_log("que die both");
        for (int k = 0; k < 2; ++k)
        {
            if (Q[k].by_ctor) { a_que_dtor(Q[k].q, k ? q_dtor : NULL); free(Q[k].q); }
            else { a_que_die(Q[k].q, k ? q_dtor : NULL); }
        }
        VF_COUNT("que-destroyed");
    }
}

static uint64_t vf_ncases(int tier) { return tier ? 1200000 : 6000; }
static void vf_case(uint64_t c, vf_rng *r)
{
    switch (c % 3)
    {
    case 0: list_case(c, r); break;
    case 1: slist_case(c, r); break;
    default: que_case(c, r); break;
    }
}
