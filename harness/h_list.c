/* C05 - intrusive doubly linked list (list.h), singly linked list (slist.h) and the queue (que.[ch]):
 * lock-step sequence models + ring walkers after every call, under ASan (every node, sentinel and
 * pooled block is its own exact-size malloc block).
 *
 * case % 3 == 0: list.h    1: slist.h    2: que
 * one case in 41 (quick) / 1201 (thorough): a LARGE case (thousands .. 65537 and more nodes/elements), see large_case()
 */
#define VF_PROP "C05"
#include "vf_common.h"
#include "a/list.h"
#include "a/slist.h"
#include "a/que.h"
#include <limits.h>

#define NN 20 /* nodes per history (list / slist) */

static char const *opname = "op";
static char const *fam = "list";
/* SURFACE section: non-null while the operation in flight entered the library through a macro form instead of the
 * function (A_QUE_PUSH_BACK(T, ctx) for a_que_push_back(ctx) ...); the form becomes the last component of the key */
static char const *xform;
/* key "<family>_<operation>/<clause>[/<form>]"; one out-of-line reporter keeps the expansions of FAIL small */
static void x_viol(char const *clause, char const *form, char const *fmt, ...) __attribute__((format(printf, 3, 4), noinline));
static void x_viol(char const *clause, char const *form, char const *fmt, ...)
{
    char key[160], msg[1500];
    va_list ap;
    if (form) { snprintf(key, sizeof(key), "%s_%s/%s/%s", fam, opname, clause, form); }
    else { snprintf(key, sizeof(key), "%s_%s/%s", fam, opname, clause); }
    va_start(ap, fmt);
    vsnprintf(msg, sizeof(msg), fmt, ap);
    va_end(ap);
    vf_viol(key, "%s", msg);
}
#define FAIL(clause, ...)                       \
    do {                                        \
        x_viol(clause, xform, __VA_ARGS__);     \
        ok = 0;                                 \
    } while (0)
/* a clause judged through one named public form (macro or primitive) of list.h / slist.h / que.h */
#define XFAIL(clause, form, ...)                \
    do {                                        \
        x_viol(clause, form, __VA_ARGS__);      \
        ok = 0;                                 \
    } while (0)

/* hooks of the SURFACE section (defined below the queue family, documented there) */
static vf_rng XR;
static void xr_seed(uint64_t c);
static int list_forms(void);
static int list_coda(void);
static int slist_forms(void);
static int slist_coda(void);
static int que_forms(void);
static int que_edges(int k);
static int que_drain(int k);
static void *qx_push_back(a_que *q);
static void *qx_push_fore(a_que *q);
static void *qx_pull_back(a_que *q);
static void *qx_pull_fore(a_que *q);
static void *qx_insert(a_que *q, size_t idx);
static void *qx_remove(a_que *q, size_t idx);
static void *qx_push_sort(a_que *q, void const *key, int (*cmp)(void const *, void const *));

static void cell3(char const *op, int a, int b, int c)
{
    char buf[96];
    snprintf(buf, sizeof(buf), "%s|%s|%d|%d|%d", fam, op, a, b, c);
    vf_distinct_str(buf);
}
static int emp(size_t n) { return n == 0 ? 0 : n == 1 ? 1 : 2; }
static int posc(size_t i, size_t n) { return n == 0 ? 0 : i == 0 ? 1 : i + 1 == n ? 3 : i >= n ? 4 : 2; }

/* ===================================================================== list.h */
typedef struct
{
    a_list n; /* first */
    int id;
} lnode;
static lnode *LN[NN];
static a_list *LH[2];
static int LM[2][NN + 2]; /* model: node ids per list */
static int LMn[2];
static int Lwhere[NN]; /* -1 detached, else list index */

static int l_id_of(a_list *p)
{
    for (int i = 0; i < NN; ++i)
    {
        if (&LN[i]->n == p) { return i; }
    }
    return -1;
}

static int list_check(void)
{
    int ok = 1;
    VF_COUNT("list-rings-walked");
    for (int k = 0; k < 2; ++k)
    {
        a_list *h = LH[k], *it;
        int n = 0;
        /* forward */
        for (it = h->next; it != h; it = it->next)
        {
            int id = l_id_of(it);
            if (id < 0) { FAIL("foreign-node-in-ring", "list %d forward step %d reaches %p which is neither a pool node nor this head", k, n, (void *)it); return 0; }
            if (n >= LMn[k]) { FAIL("forward-walk-longer-than-model", "list %d: more than %d nodes (or ring not closed on its head)", k, LMn[k]); return 0; }
            if (id != LM[k][n]) { FAIL("forward-sequence", "list %d position %d: node %d, model %d", k, n, id, LM[k][n]); return 0; }
            if (it->next->prev != it) { FAIL("next-prev-inconsistent", "list %d node %d: next->prev != node", k, id); return 0; }
            if (it->prev->next != it) { FAIL("prev-next-inconsistent", "list %d node %d: prev->next != node", k, id); return 0; }
            ++n;
        }
        if (n != LMn[k]) { FAIL("forward-walk-shorter-than-model", "list %d: %d nodes, model %d", k, n, LMn[k]); return 0; }
        if (h->next->prev != h || h->prev->next != h) { FAIL("head-links-inconsistent", "list %d head", k); return 0; }
        /* backward */
        n = 0;
        for (it = h->prev; it != h; it = it->prev)
        {
            int id = l_id_of(it);
            if (id < 0 || n >= LMn[k] || id != LM[k][LMn[k] - 1 - n]) { FAIL("backward-sequence", "list %d backward position %d", k, n); return 0; }
            ++n;
        }
        if (n != LMn[k]) { FAIL("backward-walk-length", "list %d: %d nodes backward, model %d", k, n, LMn[k]); return 0; }
    }
    return ok;
}

static void lm_insert(int k, int pos, int id)
{
    memmove(&LM[k][pos + 1], &LM[k][pos], (size_t)(LMn[k] - pos) * sizeof(int));
    LM[k][pos] = id;
    ++LMn[k];
    Lwhere[id] = k;
}
static void lm_remove(int k, int pos)
{
    Lwhere[LM[k][pos]] = -1;
    memmove(&LM[k][pos], &LM[k][pos + 1], (size_t)(LMn[k] - pos - 1) * sizeof(int));
    --LMn[k];
}
static int lm_pos(int k, int id)
{
    for (int i = 0; i < LMn[k]; ++i)
    {
        if (LM[k][i] == id) { return i; }
    }
    return -1;
}
static int pick_detached(vf_rng *r)
{
    int c[NN], n = 0;
    for (int i = 0; i < NN; ++i)
    {
        if (Lwhere[i] < 0) { c[n++] = i; }
    }
    return n ? c[vf_below(r, (uint64_t)n)] : -1;
}
/* a ring member of list k: position -1 = the head sentinel */
static a_list *ring_member(int k, int pos) { return pos < 0 ? LH[k] : &LN[LM[k][pos]]->n; }

static void list_case(uint64_t c, vf_rng *r)
{
    int nops = 40 + (int)vf_below(r, 60), alive = 1;
    fam = "list";
    xr_seed(c);
    for (int i = 0; i < NN; ++i)
    {
        LN[i] = (lnode *)malloc(sizeof(lnode));
        LN[i]->id = i;
        a_list_init(&LN[i]->n);
        Lwhere[i] = -1;
    }
    for (int k = 0; k < 2; ++k)
    {
        LH[k] = (a_list *)malloc(sizeof(a_list));
        a_list_ctor(LH[k]);
        LMn[k] = 0;
    }
    if (vf_want_sample() && c % 9 == 0)
    {
        vf_sample("list history %" PRIu64 ": 2 heads + %d nodes (each its own malloc block), %d ops from {add_next, add_prev, add_node, del_node, del_next, del_prev, del_ section, set_node, set_ section, mov_next, mov_prev, rot_next, rot_prev, swap_node, swap_ sections (disjoint, non-adjacent), foreach/forsafe}; both rings walked forward and backward after every op", c, NN, nops);
    }
    for (int i = 0; i < nops && alive; ++i)
    {
        int op = (int)vf_below(r, 17), k = (int)vf_below(r, 2), ok = 1;
        ++vf.evals;
        switch (op)
        {
        case 0: case 1:
        {
            int id = pick_detached(r), pos;
            if (id < 0) { break; }
            pos = (int)vf_below(r, (uint64_t)LMn[k] + 1) - 1; /* -1 = head */
            opname = op ? "add_prev" : "add_next";
            vf_log("list %s(ctx=%s%d of list %d, node %d)", opname, pos < 0 ? "head" : "node ", pos < 0 ? k : LM[k][pos], k, id);
            if (op == 0) { a_list_add_next(ring_member(k, pos), &LN[id]->n); lm_insert(k, pos + 1, id); }
            else { a_list_add_prev(ring_member(k, pos), &LN[id]->n); lm_insert(k, pos < 0 ? LMn[k] : pos, id); }
            cell3(opname, emp((size_t)LMn[k] - 1), pos < 0 ? 9 : posc((size_t)pos, (size_t)LMn[k] - 1), 0);
            break;
        }
        case 2:
        {
            /* add_node(head, tail, node): tail -> node -> head where tail->next == head */
            int id = pick_detached(r), pos;
            a_list *tail, *head;
            if (id < 0) { break; }
            pos = (int)vf_below(r, (uint64_t)LMn[k] + 1) - 1;
            tail = ring_member(k, pos);
            head = tail->next;
            opname = "add_node";
            vf_log("list add_node between ring position %d and its successor of list %d, node %d", pos, k, id);
            a_list_add_node(head, tail, &LN[id]->n);
            lm_insert(k, pos + 1, id);
            cell3(opname, emp((size_t)LMn[k] - 1), posc((size_t)(pos + 1), (size_t)LMn[k]), 0);
            break;
        }
        case 3:
        {
            int pos;
            if (!LMn[k]) { break; }
            pos = (int)vf_below(r, (uint64_t)LMn[k]);
            opname = "del_node";
            vf_log("list del_node(node %d at %d of list %d)", LM[k][pos], pos, k);
            a_list_del_node(&LN[LM[k][pos]]->n);
            a_list_init(&LN[LM[k][pos]]->n);
            cell3(opname, emp((size_t)LMn[k]), posc((size_t)pos, (size_t)LMn[k]), 0);
            lm_remove(k, pos);
            break;
        }
        case 4: case 5:
        {
            /* del_next(ctx) removes ctx->next; del_prev(ctx) removes ctx->prev; the removed node must not be the head */
            int pos, victim;
            if (!LMn[k]) { break; }
            victim = (int)vf_below(r, (uint64_t)LMn[k]);
            opname = op == 4 ? "del_next" : "del_prev";
            pos = op == 4 ? victim - 1 : victim + 1; /* ring neighbour; -1 or LMn = head */
            vf_log("list %s(ctx at ring position %d of list %d) removing node %d", opname, pos, k, LM[k][victim]);
            {
                a_list *ctx = (pos < 0 || pos >= LMn[k]) ? LH[k] : &LN[LM[k][pos]]->n;
                a_list *gone = &LN[LM[k][victim]]->n;
                if (op == 4) { a_list_del_next(ctx); }
                else { a_list_del_prev(ctx); }
                a_list_init(gone);
            }
            cell3(opname, emp((size_t)LMn[k]), posc((size_t)victim, (size_t)LMn[k]), 0);
            lm_remove(k, victim);
            break;
        }
        case 6:
        {
            /* del_(head, tail): remove the section [i..j] */
            int a, b;
            if (!LMn[k]) { break; }
            a = (int)vf_below(r, (uint64_t)LMn[k]);
            b = a + (int)vf_below(r, (uint64_t)(LMn[k] - a));
            opname = "del_";
            vf_log("list del_(section [%d..%d] of list %d)", a, b, k);
            a_list_del_(&LN[LM[k][a]]->n, &LN[LM[k][b]]->n);
            cell3(opname, emp((size_t)LMn[k]), posc((size_t)a, (size_t)LMn[k]), b - a > 1 ? 2 : b - a);
            for (int j = b; j >= a; --j)
            {
                a_list_init(&LN[LM[k][j]]->n);
                lm_remove(k, j);
            }
            break;
        }
        case 7:
        {
            /* set_node(ctx, rhs): rhs takes ctx's place */
            int id = pick_detached(r), pos, old;
            if (id < 0 || !LMn[k]) { break; }
            pos = (int)vf_below(r, (uint64_t)LMn[k]);
            old = LM[k][pos];
            opname = "set_node";
            vf_log("list set_node(node %d at %d of list %d replaced by node %d)", old, pos, k, id);
            a_list_set_node(&LN[old]->n, &LN[id]->n);
            a_list_init(&LN[old]->n);
            LM[k][pos] = id;
            Lwhere[id] = k;
            Lwhere[old] = -1;
            cell3(opname, emp((size_t)LMn[k]), posc((size_t)pos, (size_t)LMn[k]), 0);
            break;
        }
        case 8:
        {
            /* set_(head1, tail1, head2, tail2): section [a..b] replaced by a detached chain */
            int a, b, chain[3], cn = 0, want = 1 + (int)vf_below(r, 3);
            if (!LMn[k]) { break; }
            for (int j = 0; j < want; ++j)
            {
                int id = pick_detached(r);
                if (id < 0) { break; }
                chain[cn++] = id;
                Lwhere[id] = 99; /* reserved */
            }
            if (!cn) { break; }
            for (int j = 0; j + 1 < cn; ++j) { a_list_link(&LN[chain[j]]->n, &LN[chain[j + 1]]->n); }
            a = (int)vf_below(r, (uint64_t)LMn[k]);
            b = a + (int)vf_below(r, (uint64_t)(LMn[k] - a));
            if (LMn[k] - (b - a + 1) + cn > NN) { for (int j = 0; j < cn; ++j) { Lwhere[chain[j]] = -1; a_list_init(&LN[chain[j]]->n); } break; }
            opname = "set_";
            vf_log("list set_(section [%d..%d] of list %d replaced by a chain of %d detached nodes)", a, b, k, cn);
            a_list_set_(&LN[LM[k][a]]->n, &LN[LM[k][b]]->n, &LN[chain[0]]->n, &LN[chain[cn - 1]]->n);
            cell3(opname, emp((size_t)LMn[k]), posc((size_t)a, (size_t)LMn[k]), cn);
            for (int j = b; j >= a; --j)
            {
                a_list_init(&LN[LM[k][j]]->n);
                lm_remove(k, j);
            }
            for (int j = 0; j < cn; ++j) { lm_insert(k, a + j, chain[j]); }
            break;
        }
        case 9: case 10:
        {
            /* mov_next/mov_prev(ctx, rhs): splice all nodes of the non-empty list rhs after/before ctx */
            int o = 1 - k, pos, n2 = LMn[o];
            if (!n2) { break; }
            pos = (int)vf_below(r, (uint64_t)LMn[k] + 1) - 1;
            opname = op == 9 ? "mov_next" : "mov_prev";
            vf_log("list %s(ctx ring position %d of list %d, all %d nodes of list %d)", opname, pos, k, n2, o);
            if (op == 9) { a_list_mov_next(ring_member(k, pos), LH[o]); }
            else { a_list_mov_prev(ring_member(k, pos), LH[o]); }
            a_list_init(LH[o]);
            {
                int ids[NN], at = op == 9 ? pos + 1 : (pos < 0 ? LMn[k] : pos);
                memcpy(ids, LM[o], (size_t)n2 * sizeof(int));
                LMn[o] = 0;
                for (int j = 0; j < n2; ++j) { lm_insert(k, at + j, ids[j]); }
            }
            cell3(opname, emp((size_t)LMn[k] - (size_t)n2), emp((size_t)n2), pos < 0);
            break;
        }
        case 11: case 12:
            opname = op == 11 ? "rot_next" : "rot_prev";
            vf_log("list %s(head of list %d, %d nodes)", opname, k, LMn[k]);
            if (op == 11) { a_list_rot_next(LH[k]); }
            else { a_list_rot_prev(LH[k]); }
            if (LMn[k] > 1)
            {
                if (op == 11)
                {
                    int last = LM[k][LMn[k] - 1];
                    memmove(&LM[k][1], &LM[k][0], (size_t)(LMn[k] - 1) * sizeof(int));
                    LM[k][0] = last;
                }
                else
                {
                    int first = LM[k][0];
                    memmove(&LM[k][0], &LM[k][1], (size_t)(LMn[k] - 1) * sizeof(int));
                    LM[k][LMn[k] - 1] = first;
                }
            }
            cell3(opname, emp((size_t)LMn[k]), 0, 0);
            break;
        case 13:
        {
            /* swap_node: two distinct, non-adjacent nodes (same or different lists) */
            int k2 = (int)vf_below(r, 2), p1, p2;
            a_list *x, *y;
            if (!LMn[k] || !LMn[k2]) { break; }
            p1 = (int)vf_below(r, (uint64_t)LMn[k]);
            p2 = (int)vf_below(r, (uint64_t)LMn[k2]);
            x = &LN[LM[k][p1]]->n;
            y = &LN[LM[k2][p2]]->n;
            if (x == y || x->next == y || y->next == x) { VF_COUNT("swap-skipped-adjacent"); break; }
            opname = "swap_node";
            vf_log("list swap_node(node %d at %d of list %d, node %d at %d of list %d)", LM[k][p1], p1, k, LM[k2][p2], p2, k2);
            a_list_swap_node(x, y);
            {
                int t = LM[k][p1];
                LM[k][p1] = LM[k2][p2];
                LM[k2][p2] = t;
                Lwhere[LM[k][p1]] = k;
                Lwhere[LM[k2][p2]] = k2;
            }
            cell3(opname, k == k2, posc((size_t)p1, (size_t)LMn[k]), posc((size_t)p2, (size_t)LMn[k2]));
            break;
        }
        case 14:
        {
            /* swap_ of two sections: disjoint and non-adjacent in the ring sense */
            int k2 = (int)vf_below(r, 2), a1, b1, a2, b2;
            if (!LMn[k] || !LMn[k2]) { break; }
            a1 = (int)vf_below(r, (uint64_t)LMn[k]);
            b1 = a1 + (int)vf_below(r, (uint64_t)(LMn[k] - a1));
            a2 = (int)vf_below(r, (uint64_t)LMn[k2]);
            b2 = a2 + (int)vf_below(r, (uint64_t)(LMn[k2] - a2));
            if (k == k2)
            {
                if (a1 > a2) { int t = a1; a1 = a2; a2 = t; t = b1; b1 = b2; b2 = t; }
                if (b1 + 1 >= a2) { VF_COUNT("swap-skipped-adjacent"); break; } /* overlapping or adjacent */
            }
            {
                a_list *h1 = &LN[LM[k][a1]]->n, *t1 = &LN[LM[k][b1]]->n, *h2 = &LN[LM[k2][a2]]->n, *t2 = &LN[LM[k2][b2]]->n;
                if (t1->next == h2 || t2->next == h1) { VF_COUNT("swap-skipped-adjacent"); break; }
                opname = "swap_";
                vf_log("list swap_(section [%d..%d] of list %d, section [%d..%d] of list %d)", a1, b1, k, a2, b2, k2);
                a_list_swap_(h1, t1, h2, t2);
            }
            {
                int s1[NN], s2[NN], n1 = b1 - a1 + 1, n2 = b2 - a2 + 1;
                memcpy(s1, &LM[k][a1], (size_t)n1 * sizeof(int));
                memcpy(s2, &LM[k2][a2], (size_t)n2 * sizeof(int));
                /* remove the later section first when in the same list */
                for (int j = 0; j < n2; ++j) { lm_remove(k2, a2); }
                for (int j = 0; j < n1; ++j) { lm_remove(k, a1); }
                if (k == k2)
                {
                    for (int j = 0; j < n2; ++j) { lm_insert(k, a1 + j, s2[j]); }
                    {
                        int at = a2 - n1 + n2;
                        for (int j = 0; j < n1; ++j) { lm_insert(k, at + j, s1[j]); }
                    }
                }
                else
                {
                    for (int j = 0; j < n2; ++j) { lm_insert(k, a1 + j, s2[j]); }
                    for (int j = 0; j < n1; ++j) { lm_insert(k2, a2 + j, s1[j]); }
                }
                cell3(opname, k == k2, n1 > 1, n2 > 1);
            }
            break;
        }
        default:
        {
            /* iteration macros */
            int n = 0;
            opname = "foreach";
            VF_COUNT("list-foreach-macros");
            a_list_foreach_next(it, LH[k])
            {
                if (n >= LMn[k] || l_id_of(it) != LM[k][n]) { FAIL("foreach_next", "position %d", n); break; }
                ++n;
            }
            if (ok && n != LMn[k]) { FAIL("foreach_next", "visited %d of %d", n, LMn[k]); }
            n = 0;
            a_list_foreach_prev(it, LH[k])
            {
                if (n >= LMn[k] || l_id_of(it) != LM[k][LMn[k] - 1 - n]) { FAIL("foreach_prev", "position %d", n); break; }
                ++n;
            }
            if (ok && n != LMn[k]) { FAIL("foreach_prev", "visited %d of %d", n, LMn[k]); }
            n = 0;
            a_list_forsafe_next(it, at, LH[k])
            {
                if (n >= LMn[k] || l_id_of(it) != LM[k][n]) { FAIL("forsafe_next", "position %d", n); break; }
                ++n;
            }
            n = 0;
            a_list_forsafe_prev(it, at, LH[k])
            {
                if (n >= LMn[k] || l_id_of(it) != LM[k][LMn[k] - 1 - n]) { FAIL("forsafe_prev", "position %d", n); break; }
                ++n;
            }
            cell3(opname, emp((size_t)LMn[k]), 0, 0);
            break;
        }
        }
        (void)ok;
        alive = list_check();
        if (alive && (i & 3) == 3) { alive = list_forms(); } /* SURFACE: every public iteration / entry form against the model */
    }
    if (alive) { alive = list_coda(); } /* SURFACE: forms once more, removal passes through the forsafe forms, hand-built rings */
    for (int i = 0; i < NN; ++i) { free(LN[i]); }
    free(LH[0]);
    free(LH[1]);
}

/* ===================================================================== slist.h */
typedef struct
{
    a_slist_node n;
    int id;
} snode;
static snode *SN[NN];
static a_slist *SL[2];
static int SM[2][NN + 2], SMn[2], Swhere[NN];

static int s_id_of(a_slist_node *p)
{
    for (int i = 0; i < NN; ++i)
    {
        if (&SN[i]->n == p) { return i; }
    }
    return -1;
}
static int slist_check(void)
{
    int ok = 1;
    VF_COUNT("slist-walked");
    for (int k = 0; k < 2; ++k)
    {
        a_slist_node *it, *last = &SL[k]->head;
        int n = 0;
        for (it = SL[k]->head.next; it; it = it->next)
        {
            int id = s_id_of(it);
            if (id < 0) { FAIL("foreign-node", "slist %d step %d reaches %p", k, n, (void *)it); return 0; }
            if (n >= SMn[k]) { FAIL("walk-longer-than-model", "slist %d: more than %d nodes", k, SMn[k]); return 0; }
            if (id != SM[k][n]) { FAIL("sequence", "slist %d position %d: node %d, model %d", k, n, id, SM[k][n]); return 0; }
            last = it;
            ++n;
        }
        if (n != SMn[k]) { FAIL("walk-shorter-than-model", "slist %d: %d nodes, model %d", k, n, SMn[k]); return 0; }
        VF_COUNT("slist-tail-designates-last-node");
        if (SL[k]->tail != last) { FAIL("tail-not-last-node", "slist %d: tail %p, last node %p (%d nodes)", k, (void *)SL[k]->tail, (void *)last, n); return 0; }
    }
    return ok;
}
static void sm_insert(int k, int pos, int id)
{
    memmove(&SM[k][pos + 1], &SM[k][pos], (size_t)(SMn[k] - pos) * sizeof(int));
    SM[k][pos] = id;
    ++SMn[k];
    Swhere[id] = k;
}
static void sm_remove(int k, int pos)
{
    Swhere[SM[k][pos]] = -1;
    memmove(&SM[k][pos], &SM[k][pos + 1], (size_t)(SMn[k] - pos - 1) * sizeof(int));
    --SMn[k];
}
static int s_pick_detached(vf_rng *r)
{
    int c[NN], n = 0;
    for (int i = 0; i < NN; ++i)
    {
        if (Swhere[i] < 0) { c[n++] = i; }
    }
    return n ? c[vf_below(r, (uint64_t)n)] : -1;
}
static a_slist_node *s_member(int k, int pos) { return pos < 0 ? &SL[k]->head : &SN[SM[k][pos]]->n; }

static void slist_case(uint64_t c, vf_rng *r)
{
    int nops = 40 + (int)vf_below(r, 60), alive = 1;
    fam = "slist";
    xr_seed(c);
    for (int i = 0; i < NN; ++i)
    {
        SN[i] = (snode *)malloc(sizeof(snode));
        SN[i]->id = i;
        SN[i]->n.next = NULL;
        Swhere[i] = -1;
    }
    for (int k = 0; k < 2; ++k)
    {
        SL[k] = (a_slist *)malloc(sizeof(a_slist));
        a_slist_ctor(SL[k]);
        SMn[k] = 0;
    }
    if (vf_want_sample() && c % 9 == 1)
    {
        vf_sample("slist history %" PRIu64 ": 2 lists + %d nodes, %d ops from {add(prev,node), add_head, add_tail, del(prev), del_head, mov(all of one list after a node of the other), rot, foreach/forsafe}; walk == model and tail == last node (or the head sentinel) after every op", c, NN, nops);
    }
    for (int i = 0; i < nops && alive; ++i)
    {
        int op = (int)vf_below(r, 10), k = (int)vf_below(r, 2), ok = 1;
        ++vf.evals;
        switch (op)
        {
        case 0: case 1:
        {
            int id = s_pick_detached(r), pos;
            if (id < 0) { break; }
            pos = (int)vf_below(r, (uint64_t)SMn[k] + 1) - 1;
            if (op == 1 && vf_chance(r, 1, 2)) { pos = SMn[k] - 1; } /* after the last node: the tail must move */
            opname = "add";
            vf_log("slist add(list %d, prev=%s%d, node %d)", k, pos < 0 ? "head" : "position ", pos < 0 ? 0 : pos, id);
            a_slist_add(SL[k], s_member(k, pos), &SN[id]->n);
            sm_insert(k, pos + 1, id);
            cell3(opname, emp((size_t)SMn[k] - 1), posc((size_t)(pos + 1), (size_t)SMn[k]), 0);
            break;
        }
        case 2:
        {
            int id = s_pick_detached(r);
            if (id < 0) { break; }
            opname = "add_head";
            vf_log("slist add_head(list %d, node %d)", k, id);
            a_slist_add_head(SL[k], &SN[id]->n);
            sm_insert(k, 0, id);
            cell3(opname, emp((size_t)SMn[k] - 1), 0, 0);
            break;
        }
        case 3:
        {
            int id = s_pick_detached(r);
            if (id < 0) { break; }
            opname = "add_tail";
            vf_log("slist add_tail(list %d, node %d)", k, id);
            a_slist_add_tail(SL[k], &SN[id]->n);
            sm_insert(k, SMn[k], id);
            cell3(opname, emp((size_t)SMn[k] - 1), 0, 0);
            break;
        }
        case 4:
        {
            /* del(prev): removes prev->next (nothing if prev is the last node) */
            int pos = (int)vf_below(r, (uint64_t)SMn[k] + 1) - 1;
            opname = "del";
            vf_log("slist del(list %d, prev at position %d of %d)", k, pos, SMn[k]);
            a_slist_del(SL[k], s_member(k, pos));
            cell3(opname, emp((size_t)SMn[k]), posc((size_t)(pos + 1), (size_t)SMn[k]), 0);
            if (pos + 1 < SMn[k])
            {
                SN[SM[k][pos + 1]]->n.next = NULL;
                sm_remove(k, pos + 1);
            }
            break;
        }
        case 5:
            opname = "del_head";
            vf_log("slist del_head(list %d of %d)", k, SMn[k]);
            a_slist_del_head(SL[k]);
            cell3(opname, emp((size_t)SMn[k]), 0, 0);
            if (SMn[k])
            {
                SN[SM[k][0]]->n.next = NULL;
                sm_remove(k, 0);
            }
            break;
        case 6:
        {
            /* mov(ctx, to, at): all nodes of ctx go after node `at` of list `to`; ctx is re-initialised by the caller */
            int o = 1 - k, pos = (int)vf_below(r, (uint64_t)SMn[k] + 1) - 1, n2 = SMn[o];
            int ids[NN];
            opname = "mov";
            vf_log("slist mov(all %d nodes of list %d after position %d of list %d (%d nodes))", n2, o, pos, k, SMn[k]);
            a_slist_mov(SL[o], SL[k], s_member(k, pos));
            a_slist_init(SL[o]);
            memcpy(ids, SM[o], (size_t)n2 * sizeof(int));
            SMn[o] = 0;
            for (int j = 0; j < n2; ++j) { sm_insert(k, pos + 1 + j, ids[j]); }
            cell3(opname, emp((size_t)SMn[k] - (size_t)n2), emp((size_t)n2), pos + 1 == SMn[k] - n2);
            break;
        }
        case 7: case 8:
            opname = "rot";
            vf_log("slist rot(list %d of %d)", k, SMn[k]);
            a_slist_rot(SL[k]);
            if (SMn[k] > 1)
            {
                int first = SM[k][0];
                memmove(&SM[k][0], &SM[k][1], (size_t)(SMn[k] - 1) * sizeof(int));
                SM[k][SMn[k] - 1] = first;
            }
            cell3(opname, emp((size_t)SMn[k]), 0, 0);
            break;
        default:
        {
            int n = 0;
            opname = "foreach";
            VF_COUNT("slist-foreach-macros");
            a_slist_foreach(it, SL[k])
            {
                if (n >= SMn[k] || s_id_of(it) != SM[k][n]) { FAIL("foreach", "position %d", n); break; }
                ++n;
            }
            if (ok && n != SMn[k]) { FAIL("foreach", "visited %d of %d", n, SMn[k]); }
            n = 0;
            a_slist_forsafe(it, at, SL[k])
            {
                if (n >= SMn[k] || s_id_of(it) != SM[k][n]) { FAIL("forsafe", "position %d", n); break; }
                ++n;
            }
            break;
        }
        }
        (void)ok;
        alive = slist_check();
        if (alive && (i & 3) == 3) { alive = slist_forms(); } /* SURFACE */
    }
    if (alive) { alive = slist_coda(); } /* SURFACE */
    for (int i = 0; i < NN; ++i) { free(SN[i]); }
    free(SL[0]);
    free(SL[1]);
}

/* ===================================================================== que */
#define QMAX 48
#define QSZ 24
typedef struct
{
    a_que *q;
    size_t siz;
    size_t n;
    unsigned char pay[QMAX][QSZ]; /* payload bytes */
    void *addr[QMAX];             /* payload address while enqueued */
    int by_ctor;
} qmodel;
static qmodel Q[2];
static size_t q_siz_cb;
static uint32_t qserial;

/* The documented comparator contract is the SIGN of the result only. Every queue case picks one result style (logged):
 * 0: -1/0/+1   1: the key difference   2: INT_MIN/0/INT_MAX   3: magnitudes varying with the operands */
static int cmp_style;
static char const *const cmp_style_name[] = {"-1/0/+1", "key difference", "INT_MIN/0/INT_MAX", "varying magnitudes -2-(d%5) / 2+(d%7)"};
static int cmp_result(int64_t a, int64_t b)
{
    int64_t d = a - b;
    if (d == 0) { return 0; }
    switch (cmp_style)
    {
    case 1: return d < INT_MIN ? INT_MIN : d > INT_MAX ? INT_MAX : (int)d;
    case 2: return d < 0 ? INT_MIN : INT_MAX;
    case 3: return d < 0 ? -2 - (int)((-d) % 5) : 2 + (int)(d % 7);
    default: return d < 0 ? -1 : 1;
    }
}
static void cmp_pick_style(vf_rng *r)
{
    cmp_style = (int)vf_below(r, 4);
    switch (cmp_style)
    {
    case 0: VF_COUNT("comparator-returns-minus-one-zero-plus-one"); break;
    case 1: VF_COUNT("comparator-returns-key-difference"); break;
    case 2: VF_COUNT("comparator-returns-int-min-int-max"); break;
    default: VF_COUNT("comparator-returns-varying-magnitudes"); break;
    }
    vf_log("comparator result style: %s", cmp_style_name[cmp_style]);
}
/* The comparator contract speaks of elements: every pointer it receives must be an enqueued element (of either queue), the
 * key handed to a_que_push_sort, or the element pushed just before a_que_sort_fore / a_que_sort_back (not yet in the model).
 * Anything else (the ring sentinel of an empty or one-element queue taken for a node, a pooled node) is counted and judged
 * after the call ("comparator-received-non-element"); such a call is answered with 0 without touching the pointer. */
static void const *cmp_extra[2];
static int cmp_foreign;
static void cmp_arm(void const *key, void const *pushed)
{
    cmp_extra[0] = key;
    cmp_extra[1] = pushed;
    cmp_foreign = 0;
}
static int cmp_legit(void const *p)
{
    if (p && (p == cmp_extra[0] || p == cmp_extra[1])) { return 1; }
    for (int k = 0; k < 2; ++k)
    {
        for (size_t i = 0; i < Q[k].n; ++i)
        {
            if (Q[k].addr[i] == p) { return 1; }
        }
    }
    return 0;
}
static int q_cmp(void const *l, void const *r)
{
    if (!cmp_legit(l) || !cmp_legit(r))
    {
        ++cmp_foreign;
        return 0;
    }
    /* que.h documents the key of a_que_push_sort as "the key on the right": a comparator that tells elements (left) from keys
       (right) apart is a legitimate use.  A call with the key as the LEFT operand counts as foreign (seeded change C05-G: the
       scan rewritten as cmp(key, element) < 0). */
    if (cmp_extra[0] && l == cmp_extra[0]) { ++cmp_foreign; }
    return cmp_result(*(unsigned char const *)l, *(unsigned char const *)r);
}
/* Destructor accounting (SURFACE). Every API call that takes an element destructor (a_que_die, a_que_dtor, a_que_drop,
 * a_que_setz) runs between dt_begin and dt_end: the callback records the address of every call. Judged: every element
 * enqueued at the time of the call receives exactly one call and still holds its bytes when it does; no address receives
 * two calls; every other address that receives a call is a node of this queue's recycling pool (snapshot of ptr_[0..cur_)
 * taken before the call) - never a foreign address. Calls on pooled nodes (elements pulled earlier; the library does make
 * them) are counted, not judged, and no order is documented. Without a destructor no call may arrive. */
#define DTMAX 256
static struct
{
    void *seen[DTMAX], *pool[DTMAX], *enq[QMAX];
    int nseen, npool, nenq, overflow, changed, k;
} DT;
static void q_dtor(void *p)
{
    qmodel const *m = &Q[DT.k];
    if (DT.nseen < DTMAX) { DT.seen[DT.nseen++] = p; }
    else { DT.overflow = 1; }
    for (size_t i = 0; i < m->n; ++i)
    {
        if (m->addr[i] == p && memcmp(p, m->pay[i], m->siz) != 0) { ++DT.changed; }
    }
}
static void dt_begin(int k)
{
    qmodel const *m = &Q[k];
    a_que const *q = m->q;
    memset(&DT, 0, sizeof(DT));
    DT.k = k;
    for (size_t i = 0; i < m->n; ++i) { DT.enq[DT.nenq++] = m->addr[i]; }
    for (size_t i = 0; i < q->cur_ && DT.npool < DTMAX; ++i) { DT.pool[DT.npool++] = q->ptr_[i] + 1; }
}
static int dt_end(int k, int passed)
{
    int ok = 1, pooled = 0;
    VF_COUNT("que-destructor-calls-accounted");
    if (!passed)
    {
        if (DT.nseen) { FAIL("destructor-called-though-none-was-passed", "queue %d: %d calls of an earlier destructor", k, DT.nseen); }
        return ok;
    }
    VF_COUNT("que-destructor-passed");
    if (DT.overflow) { FAIL("destructor-call-count", "queue %d: more than %d calls for %d enqueued + %d pooled nodes", k, DTMAX, DT.nenq, DT.npool); return ok; }
    for (int i = 0; i < DT.nenq; ++i)
    {
        int cnt = 0;
        for (int j = 0; j < DT.nseen; ++j) { cnt += DT.seen[j] == DT.enq[i]; }
        if (cnt != 1) { FAIL("destructor-calls-per-enqueued-element", "queue %d: element %d of %d (at %p) received %d destructor calls (%d calls in all)", k, i, DT.nenq, DT.enq[i], cnt, DT.nseen); return ok; }
    }
    for (int j = 0; j < DT.nseen; ++j)
    {
        int known = 0, dup = 0;
        for (int i = 0; i < DT.nenq; ++i) { known |= DT.seen[j] == DT.enq[i]; }
        for (int i = 0; i < DT.npool; ++i)
        {
            if (DT.seen[j] == DT.pool[i]) { known = 1; ++pooled; }
        }
        for (int i = 0; i < j; ++i) { dup |= DT.seen[i] == DT.seen[j]; }
        if (!known) { FAIL("destructor-on-foreign-address", "queue %d: call %d received %p, neither an enqueued element nor a pooled node of this queue", k, j, DT.seen[j]); return ok; }
        if (dup) { FAIL("destructor-called-twice", "queue %d: %p received two calls within one API call", k, DT.seen[j]); return ok; }
    }
    if (DT.changed) { FAIL("destructor-sees-changed-element", "queue %d: %d enqueued elements no longer held their bytes when the destructor ran", k, DT.changed); }
    VF_ADD("que-destructor-calls-on-enqueued-elements", DT.nenq);
    VF_ADD("que-destructor-calls-on-pooled-nodes", pooled);
    return ok;
}

static void q_mk(vf_rng *r, qmodel *m, unsigned char *out, int key)
{
    uint32_t id = ++qserial;
    memset(out, 0, QSZ);
    out[0] = (unsigned char)(key >= 0 ? key : (int)vf_below(r, 20));
    for (size_t i = 1; i < m->siz; ++i) { out[i] = (unsigned char)(id >> (8 * ((i - 1) & 3))); }
}

static int que_check(void)
{
    int ok = 1;
    VF_COUNT("que-state-compared-with-model");
    for (int k = 0; k < 2; ++k)
    {
        qmodel *m = &Q[k];
        a_que *q = m->q;
        a_list *h = &q->head_, *it;
        size_t n = 0;
        if (a_que_siz(q) != m->siz) { FAIL("element-size", "queue %d: size %zu, model %zu", k, a_que_siz(q), m->siz); return 0; }
        if (a_que_num(q) != m->n) { FAIL("count", "queue %d: a_que_num %zu, model %zu", k, a_que_num(q), m->n); return 0; }
        for (it = h->next; it != h; it = it->next)
        {
            if (n >= m->n) { FAIL("ring-longer-than-model", "queue %d: ring has more than %zu nodes or is not closed on its own sentinel", k, m->n); return 0; }
            if ((void *)(it + 1) != m->addr[n]) { FAIL("element-address-changed", "queue %d position %zu: payload at %p, model %p", k, n, (void *)(it + 1), m->addr[n]); return 0; }
            if (it->next->prev != it || it->prev->next != it) { FAIL("ring-links-inconsistent", "queue %d position %zu", k, n); return 0; }
            if (memcmp(it + 1, m->pay[n], m->siz) != 0) { FAIL("contents", "queue %d position %zu payload differs", k, n); return 0; }
            ++n;
        }
        if (n != m->n) { FAIL("ring-shorter-than-model", "queue %d: %zu nodes, model %zu", k, n, m->n); return 0; }
        if (h->next->prev != h || h->prev->next != h) { FAIL("sentinel-links-inconsistent", "queue %d: ring not closed on its own sentinel", k); return 0; }
        /* fore/back/at from both ends */
        VF_COUNT("que-indexed-access");
        if (a_que_fore(q) != (m->n ? m->addr[0] : NULL)) { FAIL("fore", "queue %d", k); return 0; }
        if (a_que_back(q) != (m->n ? m->addr[m->n - 1] : NULL)) { FAIL("back", "queue %d", k); return 0; }
        for (size_t i = 0; i < m->n; ++i)
        {
            if (a_que_at(q, (a_diff)i) != m->addr[i]) { FAIL("at-from-front", "queue %d at(%zu)", k, i); return 0; }
            if (a_que_at(q, -(a_diff)i - 1) != m->addr[m->n - 1 - i]) { FAIL("at-from-back", "queue %d at(-%zu)", k, i + 1); return 0; }
        }
        if (a_que_at(q, (a_diff)m->n) || a_que_at(q, -(a_diff)m->n - 1)) { FAIL("at-out-of-range", "queue %d: at beyond either end is not null", k); return 0; }
    }
    return ok;
}
static void qm_insert(qmodel *m, size_t pos, unsigned char const *pay, void *addr)
{
    memmove(m->pay[pos + 1], m->pay[pos], (m->n - pos) * QSZ);
    memmove(&m->addr[pos + 1], &m->addr[pos], (m->n - pos) * sizeof(void *));
    memcpy(m->pay[pos], pay, QSZ);
    m->addr[pos] = addr;
    ++m->n;
}
static void qm_remove(qmodel *m, size_t pos)
{
    memmove(m->pay[pos], m->pay[pos + 1], (m->n - pos - 1) * QSZ);
    memmove(&m->addr[pos], &m->addr[pos + 1], (m->n - pos - 1) * sizeof(void *));
    --m->n;
}
static int q_enqueued(void *addr)
{
    for (int k = 0; k < 2; ++k)
    {
        for (size_t i = 0; i < Q[k].n; ++i)
        {
            if (Q[k].addr[i] == addr) { return 1; }
        }
    }
    return 0;
}
static int qm_sorted(qmodel *m)
{
    for (size_t i = 1; i < m->n; ++i)
    {
        if (m->pay[i - 1][0] > m->pay[i][0]) { return 0; }
    }
    return 1;
}
/* Indices "beyond the end" that are not simply num, num + 1 or SIZE_MAX: every one of them is >= num, so insert appends and remove
   takes the last element.  An index converted to a signed or narrower type on the way aliases an in-range position for exactly
   these values: SIZE_MAX - j is -(j + 1) as a_diff (seeded change C05-I: a_que_remove through the signed a_que_at takes the
   (j+1)-th element from the back), 2^63 + j is the most negative a_diff plus j, 2^32 + j is j in 32 bits. */
static size_t far_index(vf_rng *r, size_t n)
{
    size_t const j = (size_t)vf_below(r, n + 2);
    VF_COUNT("index-far-beyond-the-end");
    switch ((int)vf_below(r, 6))
    {
    case 0: return SIZE_MAX;
    case 1: return SIZE_MAX - j;
    case 2: return ((size_t)1 << (sizeof(size_t) * 8 - 1)) + j;
    case 3: return ((size_t)1 << (sizeof(size_t) * 8 - 1)) - 1 - j;
    case 4: return ((size_t)1 << (sizeof(size_t) * 4)) + j;
    default: return SIZE_MAX - (n ? n - 1 : 0) + (vf_chance(r, 1, 2) ? 0 : 1);
    }
}
static size_t q_index(vf_rng *r, size_t n, int *cls)
{
    int c = (int)vf_below(r, 7);
    *cls = c;
    switch (c)
    {
    case 0: return 0;
    case 1: return n / 2;
    case 2: return n ? n - 1 : 0;
    case 3: return n;
    case 4: return n + 1;
    case 5: return far_index(r, n);
    default: return (size_t)vf_below(r, n + 2);
    }
}

/* ---- caller idioms that RE-USE A PULLED ELEMENT (seeded change C05-J: a_que_new_ zero-fills every node it hands out)
 * A pulled element is not freed: the node goes to the queue's own pool and the next push on that queue hands it out again.
 * The pointer returned by pull/remove is therefore the caller's only copy of the element, and callers use it
 *   (key)    p = pull(q); p->key = NEW (or not); d = a_que_push_sort(q, p, cmp); if (d != p) memcpy(d, p, siz);
 *            p = pull(q); p->key = NEW; d = a_que_push_fore/back(q); if (d != p) memcpy(d, p, siz); a_que_sort_fore/back(q, cmp);
 *   (source) p = pull(q); d = a_que_push_fore / push_back / insert(q, i); if (d != p) memcpy(d, p, siz);      (rotate, move)
 * and the same with the push going to the OTHER queue (equal element size): the key / copy source then lives in the pool of
 * the queue it was pulled from. Oracle = the abstract sequence: the element leaves its position and re-appears at the position
 * the push prescribes (sorted insertion: any position that keeps the sequence sorted, the tie rule of the push_sort operation of
 * the histories) holding exactly the bytes the caller left in *p; everything else is unchanged (que_check after the call).
 * No library call is made on either queue between the pull and the push. Judged besides the model comparison:
 *   recycled-key/contents, recycled-source/contents   the element at d after the caller's conditional copy
 *   recycled-key/position                             sorted insertion compared against a key that was wiped/changed
 *   .../pulled-element-changed                        d != p: *p no longer holds the caller's bytes when the copy is made. On the
 *       unchanged library d != p happens only in the two-queue form (the pool is LIFO: the same queue hands the pulled node
 *       straight back), where no call at all was made on the queue that owns p. The stronger reading "a pooled element keeps
 *       its bytes across later pushes that return OTHER nodes" is NOT judged: neither que.h nor the property promises anything
 *       about the bytes of an element that is no longer enqueued beyond the pointer pull returns being usable.
 * The comparator monitor treats p as the key (right operand only). */
static int que_recycle(vf_rng *r, int ks, int as_key)
{
    int ok = 1, cls = 0, cls2 = 0, kd = ks, how, mod, variant;
    qmodel *ms = &Q[ks], *md = ms;
    char const *role = as_key ? "recycled-key" : "recycled-source";
    char clause[64];
    unsigned char el[QSZ];
    unsigned char *p, *d;
    size_t at, idx = 0, siz = ms->siz;
    if (!ms->n) { return 1; }
    if (vf_chance(r, 1, 3) && Q[1 - ks].siz == siz && Q[1 - ks].n + 1 < QMAX)
    {
        kd = 1 - ks;
        md = &Q[kd];
    }
    if (as_key && !qm_sorted(md)) /* as for push_sort: sorted insertion is defined on a sorted queue; otherwise rotate / move */
    {
        as_key = 0;
        role = "recycled-source";
    }
    how = (int)vf_below(r, 3);
    mod = (int)vf_below(r, 4);
    variant = (int)vf_below(r, 3);
    q_siz_cb = siz;
    /* ---- the pull, judged like the pulls of the histories */
    if (how == 0) { opname = "pull_fore"; vf_log("que %d pull_fore (num %zu), the returned pointer is kept", ks, ms->n); p = (unsigned char *)qx_pull_fore(ms->q); at = 0; }
    else if (how == 1) { opname = "pull_back"; vf_log("que %d pull_back (num %zu), the returned pointer is kept", ks, ms->n); p = (unsigned char *)qx_pull_back(ms->q); at = ms->n - 1; }
    else
    {
        opname = "remove";
        idx = q_index(r, ms->n, &cls);
        vf_log("que %d remove idx=%zu (num %zu), the returned pointer is kept", ks, idx, ms->n);
        p = (unsigned char *)qx_remove(ms->q, idx);
        at = idx < ms->n ? idx : ms->n - 1;
    }
    VF_COUNT("que-pull-returns-the-element");
    if (p != ms->addr[at]) { FAIL("wrong-element-returned", "returned %p, element %zu lives at %p", (void *)p, at, ms->addr[at]); return 0; }
    if (memcmp(p, ms->pay[at], siz) != 0) { FAIL("returned-element-not-intact", "payload changed"); return 0; }
    memcpy(el, ms->pay[at], QSZ);
    qm_remove(ms, at);
    xform = NULL;
    /* ---- the caller works on the element in place */
    switch (mod)
    {
    case 0: break;
    case 1: el[0] = (unsigned char)vf_below(r, 20); break;
    case 2: el[0] = (unsigned char)(vf_below(r, 2) * 255); break;
    default: q_mk(r, md, el, -1); break;
    }
    if (mod)
    {
        vf_log("  the caller rewrites the pulled element in place (%s, key byte %u)", mod == 3 ? "all bytes" : "key byte", el[0]);
        memcpy(p, el, siz);
    }
    /* ---- the push that re-uses it */
    ++vf.evals;
    if (as_key)
    {
        if (variant == 0)
        {
            opname = "push_sort";
            vf_log("que %d push_sort with key = the pulled pointer (key byte %u, num %zu); then if (d != p) memcpy(d, p, %zu)", kd, el[0], md->n, siz);
            cmp_arm(p, NULL);
            d = (unsigned char *)qx_push_sort(md->q, p, q_cmp);
        }
        else if (variant == 1)
        {
            opname = "sort_fore";
            vf_log("que %d push_fore, if (d != p) memcpy(d, p, %zu) from the pulled pointer (key byte %u), sort_fore (num %zu)", kd, siz, el[0], md->n);
            d = (unsigned char *)qx_push_fore(md->q);
        }
        else
        {
            opname = "sort_back";
            vf_log("que %d push_back, if (d != p) memcpy(d, p, %zu) from the pulled pointer (key byte %u), sort_back (num %zu)", kd, siz, el[0], md->n);
            d = (unsigned char *)qx_push_back(md->q);
        }
        if (variant) { role = "recycled-source"; }
    }
    else
    {
        if (variant == 0) { opname = "push_fore"; idx = 0; vf_log("que %d push_fore (num %zu); then if (d != p) memcpy(d, p, %zu) from the pulled pointer", kd, md->n, siz); d = (unsigned char *)qx_push_fore(md->q); }
        else if (variant == 1) { opname = "push_back"; idx = md->n; vf_log("que %d push_back (num %zu); then if (d != p) memcpy(d, p, %zu) from the pulled pointer", kd, md->n, siz); d = (unsigned char *)qx_push_back(md->q); }
        else
        {
            opname = "insert";
            idx = q_index(r, md->n, &cls2);
            vf_log("que %d insert idx=%zu (num %zu); then if (d != p) memcpy(d, p, %zu) from the pulled pointer", kd, idx, md->n, siz);
            d = (unsigned char *)qx_insert(md->q, idx);
            if (idx > md->n) { idx = md->n; }
        }
    }
    if (!d) { FAIL("unexpected-null", "push returned null"); return 0; }
    VF_COUNT("que-recycled-node-not-enqueued");
    if (q_enqueued(d)) { FAIL("handed-out-node-still-enqueued", "push returned %p which is the address of an enqueued element", (void *)d); return 0; }
    if (as_key && variant == 0)
    {
        VF_COUNT("que-comparator-receives-elements-only");
        if (cmp_foreign) { FAIL("comparator-received-non-element", "%d comparator calls with a pointer that is neither an enqueued element nor the key (the pulled element), or with the key on the left", cmp_foreign); return 0; }
    }
    if (as_key && variant == 0) { if (kd == ks) { VF_COUNT("que-recycled-node-as-push_sort-key"); } else { VF_COUNT("que-foreign-pooled-node-as-push_sort-key"); } }
    else if (as_key) { if (kd == ks) { VF_COUNT("que-recycled-node-pushed-and-sorted"); } else { VF_COUNT("que-foreign-pooled-node-as-copy-source"); } }
    else { if (kd == ks) { VF_COUNT("que-recycled-node-as-copy-source"); } else { VF_COUNT("que-foreign-pooled-node-as-copy-source"); } }
    /* ---- if (d != p) memcpy(d, p, siz) */
    if (d != p)
    {
        VF_COUNT("que-pulled-element-intact-after-push-of-another-node");
        if (memcmp(p, el, siz) != 0)
        {
            snprintf(clause, sizeof(clause), "%s/pulled-element-changed", role);
            FAIL(clause, "que %d handed out %p, not the pulled node %p (que %d), and the pulled element no longer holds the caller's bytes", kd, (void *)d, (void *)p, ks);
            return 0;
        }
        memcpy(d, p, siz);
    }
    else { VF_COUNT("que-pulled-node-handed-back-by-the-next-push"); }
    if (memcmp(d, el, siz) != 0)
    {
        size_t b = 0;
        while (b < siz && d[b] == el[b]) { ++b; }
        snprintf(clause, sizeof(clause), "%s/contents", role);
        FAIL(clause, "the re-inserted element (%s the pulled node) differs from what the caller left in it at byte %zu of %zu: %u, expected %u", d == p ? "in place," : "copied from", b, siz, d[b], el[b]);
        return 0;
    }
    if (as_key)
    {
        a_list *h = &md->q->head_, *it;
        size_t pos = 0, found = SIZE_MAX;
        if (variant)
        {
            xform = NULL;
            cmp_arm(NULL, d);
            if (variant == 1) { a_que_sort_fore(md->q, q_cmp); }
            else { a_que_sort_back(md->q, q_cmp); }
            VF_COUNT("que-comparator-receives-elements-only");
            if (cmp_foreign) { FAIL("comparator-received-non-element", "%d comparator calls with a pointer that is neither an enqueued element nor the pushed element", cmp_foreign); return 0; }
        }
        for (it = h->next; it != h && pos <= md->n; it = it->next, ++pos)
        {
            if ((unsigned char *)(it + 1) == d) { found = pos; break; }
        }
        VF_COUNT("que-sorted-insert-keeps-order-and-elements");
        if (found == SIZE_MAX) { FAIL("new-element-not-in-ring", "the pushed node is not linked into the queue"); return 0; }
        qm_insert(md, found, el, d);
        if (!qm_sorted(md))
        {
            snprintf(clause, sizeof(clause), "%s/position", role);
            FAIL(clause, "the element with key byte %u was re-inserted at position %zu of %zu: the sequence is no longer sorted", el[0], found, md->n);
            return 0;
        }
    }
    else { qm_insert(md, idx, el, d); }
    cell3(as_key ? "recycle-as-key" : "recycle-as-source", how * 4 + mod, (kd != ks) * 3 + variant, as_key ? emp(md->n - 1) : cls2);
    (void)cls;
    return ok;
}

static void que_case(uint64_t c, vf_rng *r)
{
    static size_t const sizes[] = {0, 1, 4, 8, 24};
    int nops = 40 + (int)vf_below(r, 70), alive = 1;
    size_t siz = sizes[vf_below(r, 5)];
    fam = "que";
    xr_seed(c);
    cmp_pick_style(r);
    qserial = (uint32_t)(c * 1000);
    for (int k = 0; k < 2; ++k)
    {
        memset(&Q[k], 0, sizeof(Q[k]));
        if ((c >> 2 ^ (uint64_t)k) & 1)
        {
            Q[k].q = (a_que *)malloc(sizeof(a_que)); /* constructor/destructor on caller-provided storage */
            memset(Q[k].q, 0x5A, sizeof(a_que));
            a_que_ctor(Q[k].q, siz);
            Q[k].by_ctor = 1;
            VF_COUNT("que-ctor-dtor-on-caller-storage");
        }
        else { Q[k].q = a_que_new(siz); }
        Q[k].siz = siz ? siz : 1;
    }
    if (vf_chance(&XR, 1, 2))
    {
        /* SURFACE: every entry point on the freshly constructed empty queue, then on a one-element queue */
        alive = que_check();
        for (int k = 0; k < 2 && alive; ++k) { alive = que_edges(k); }
        xform = NULL;
    }
    if (vf_want_sample() && c % 9 == 2)
    {
        vf_sample("queue history %" PRIu64 ": two a_que of element size %zu, %d ops from {push/pull both ends, insert, remove (indices 0, mid, last, num, num+1, SIZE_MAX), push_sort, push+sort_fore, push+sort_back, swap_ of two non-adjacent elements, whole-queue a_que_swap, drop, setz, foreach, pull + push_sort(key = the pulled pointer) / push_fore / push_back / insert + if (d != p) memcpy(d, p, siz) on the same or the other queue}; ring, num, fore/back/at(+-i), payload bytes and element addresses compared with the model after every call", c, siz, nops);
    }
    for (int i = 0; i < nops && alive; ++i)
    {
        int op = (int)vf_below(r, 25), k = (int)vf_below(r, 2), ok = 1, cls = 0;
        qmodel *m = &Q[k];
        unsigned char el[QSZ];
        void *p;
        size_t idx;
        q_siz_cb = m->siz;
        xform = NULL;
        ++vf.evals;
        switch (op)
        {
        case 0: case 1: case 2: case 3: case 4:
            if (m->n + 1 >= QMAX) { break; }
            q_mk(r, m, el, -1);
            if (op < 2) { opname = "push_back"; vf_log("que %d push_back (num %zu)", k, m->n); p = qx_push_back(m->q); idx = m->n; }
            else if (op < 4) { opname = "push_fore"; vf_log("que %d push_fore (num %zu)", k, m->n); p = qx_push_fore(m->q); idx = 0; }
            else
            {
                opname = "insert";
                idx = q_index(r, m->n, &cls);
                vf_log("que %d insert idx=%zu (num %zu)", k, idx, m->n);
                p = qx_insert(m->q, idx);
                if (idx > m->n) { idx = m->n; }
            }
            if (!p) { FAIL("unexpected-null", "push returned null"); alive = 0; break; }
            VF_COUNT("que-recycled-node-not-enqueued");
            if (q_enqueued(p)) { FAIL("handed-out-node-still-enqueued", "push returned %p which is the address of an enqueued element", p); alive = 0; break; }
            memcpy(p, el, m->siz);
            qm_insert(m, idx, el, p);
            cell3(opname, emp(m->n - 1), cls, (int)m->siz);
            break;
        case 5: case 6: case 7: case 8:
        {
            size_t at;
            if (op == 5) { opname = "pull_back"; vf_log("que %d pull_back (num %zu)", k, m->n); p = qx_pull_back(m->q); at = m->n ? m->n - 1 : 0; }
            else if (op == 6) { opname = "pull_fore"; vf_log("que %d pull_fore (num %zu)", k, m->n); p = qx_pull_fore(m->q); at = 0; }
            else
            {
                opname = "remove";
                idx = q_index(r, m->n, &cls);
                vf_log("que %d remove idx=%zu (num %zu)", k, idx, m->n);
                p = qx_remove(m->q, idx);
                at = idx < m->n ? idx : (m->n ? m->n - 1 : 0);
            }
            if (!m->n)
            {
                VF_COUNT("que-pull-from-empty-returns-null");
                if (p) { FAIL("non-null-from-empty", "returned %p", p); alive = 0; }
                break;
            }
            VF_COUNT("que-pull-returns-the-element");
            if (p != m->addr[at]) { FAIL("wrong-element-returned", "returned %p, element %zu lives at %p", p, at, m->addr[at]); alive = 0; break; }
            if (memcmp(p, m->pay[at], m->siz) != 0) { FAIL("returned-element-not-intact", "payload changed"); alive = 0; break; }
            qm_remove(m, at);
            cell3(opname, emp(m->n + 1), cls, (int)m->siz);
            break;
        }
        case 9: case 10: case 11:
        {
            /* sorted insertion on a sorted queue */
            int variant = op - 9;
            if (m->n + 1 >= QMAX) { break; }
            if (!qm_sorted(m)) { break; }
            q_mk(r, m, el, vf_chance(r, 1, 4) ? (int)vf_below(r, 2) * 255 : -1);
            if (variant == 0)
            {
                opname = "push_sort";
                vf_log("que %d push_sort key %u (num %zu)", k, el[0], m->n);
                cmp_arm(el, NULL);
                p = qx_push_sort(m->q, el, q_cmp);
            }
            else if (variant == 1)
            {
                opname = "sort_fore";
                vf_log("que %d push_fore key %u + sort_fore (num %zu)", k, el[0], m->n);
                p = qx_push_fore(m->q);
                if (p) { memcpy(p, el, m->siz); cmp_arm(NULL, p); a_que_sort_fore(m->q, q_cmp); }
            }
            else
            {
                opname = "sort_back";
                vf_log("que %d push_back key %u + sort_back (num %zu)", k, el[0], m->n);
                p = qx_push_back(m->q);
                if (p) { memcpy(p, el, m->siz); cmp_arm(NULL, p); a_que_sort_back(m->q, q_cmp); }
            }
            if (!p) { FAIL("unexpected-null", "push returned null"); alive = 0; break; }
            if (q_enqueued(p)) { FAIL("handed-out-node-still-enqueued", "push returned the address of an enqueued element"); alive = 0; break; }
            VF_COUNT("que-comparator-receives-elements-only");
            if (cmp_foreign) { FAIL("comparator-received-non-element", "%d comparator calls with a pointer that is neither an enqueued element, the key nor the pushed element", cmp_foreign); alive = 0; break; }
            if (variant == 0) { memcpy(p, el, m->siz); }
            /* locate the new element in the library's ring: the rest must be the old sequence, whole must be sorted */
            {
                a_list *h = &m->q->head_, *it;
                size_t pos = 0, found = SIZE_MAX;
                for (it = h->next; it != h && pos <= m->n; it = it->next, ++pos)
                {
                    if ((void *)(it + 1) == p) { found = pos; break; }
                }
                VF_COUNT("que-sorted-insert-keeps-order-and-elements");
                if (found == SIZE_MAX) { FAIL("new-element-not-in-ring", "the pushed node is not linked into the queue"); alive = 0; break; }
                qm_insert(m, found, el, p);
                if (!qm_sorted(m)) { FAIL("not-sorted", "sequence not sorted after sorted insertion of key %u at %zu", el[0], found); alive = 0; break; }
            }
            cell3(opname, emp(m->n - 1), el[0] == 0 ? 1 : el[0] == 255 ? 2 : 0, 0);
            break;
        }
        case 12: case 13:
        {
            /* element swap: two distinct non-adjacent elements, same or different queue */
            int k2 = (int)vf_below(r, 2);
            qmodel *m2 = &Q[k2];
            size_t p1, p2;
            a_list *x, *y;
            if (!m->n || !m2->n) { break; }
            if (m->siz != m2->siz) { break; } /* elements of different sizes cannot change places */
            p1 = (size_t)vf_below(r, m->n);
            p2 = (size_t)vf_below(r, m2->n);
            x = (a_list *)m->addr[p1] - 1;
            y = (a_list *)m2->addr[p2] - 1;
            if (x == y || x->next == y || y->next == x) { VF_COUNT("swap-skipped-adjacent"); break; }
            opname = "swap_";
            vf_log("que swap_(element %zu of queue %d, element %zu of queue %d)", p1, k, p2, k2);
            a_que_swap_(m->addr[p1], m2->addr[p2]);
            {
                unsigned char t[QSZ];
                void *ta = m->addr[p1];
                memcpy(t, m->pay[p1], QSZ);
                memcpy(m->pay[p1], m2->pay[p2], QSZ);
                memcpy(m2->pay[p2], t, QSZ);
                m->addr[p1] = m2->addr[p2];
                m2->addr[p2] = ta;
            }
            VF_COUNT("que-element-swap");
            cell3(opname, k == k2, posc(p1, m->n), posc(p2, m2->n));
            break;
        }
        case 14: case 15:
        {
            /* whole-queue swap: handles stay, contents change sides */
            qmodel t;
            a_que *q0 = Q[0].q, *q1 = Q[1].q;
            opname = "swap";
            vf_log("que a_que_swap (num %zu / %zu)", Q[0].n, Q[1].n);
            a_que_swap(q0, q1);
            VF_COUNT("que-whole-swap");
            cell3(opname, emp(Q[0].n), emp(Q[1].n), 0);
            t = Q[0];
            {
                int c0 = Q[0].by_ctor, c1 = Q[1].by_ctor;
                Q[0] = Q[1];
                Q[1] = t;
                Q[0].q = q0;
                Q[1].q = q1;
                Q[0].by_ctor = c0;
                Q[1].by_ctor = c1;
            }
            break;
        }
        case 16:
        {
            int rc;
            if (vf_chance(r, 1, 2)) { break; }
            opname = "drop";
            vf_log("que %d drop (num %zu)", k, m->n);
            {
                void (*d)(void *) = vf_chance(r, 1, 2) ? q_dtor : NULL;
                dt_begin(k);
                rc = a_que_drop(m->q, d);
                if (!dt_end(k, d != NULL)) { alive = 0; break; }
            }
            if (rc != A_SUCCESS) { FAIL("unexpected-error", "rc %d", rc); alive = 0; break; }
            VF_COUNT("que-drop");
            cell3(opname, emp(m->n), 0, 0);
            m->n = 0;
            break;
        }
        case 17:
        {
            int rc;
            size_t nz = sizes[vf_below(r, 5)];
            if (vf_chance(r, 2, 3)) { break; }
            opname = "setz";
            vf_log("que %d setz %zu (num %zu, size %zu)", k, nz, m->n, m->siz);
            {
                void (*d)(void *) = vf_chance(r, 1, 2) ? q_dtor : NULL;
                dt_begin(k);
                rc = a_que_setz(m->q, nz, d);
                if (!dt_end(k, d != NULL)) { alive = 0; break; }
            }
            if (rc != A_SUCCESS) { FAIL("unexpected-error", "rc %d", rc); alive = 0; break; }
            VF_COUNT("que-setz");
            cell3(opname, emp(m->n), nz > m->siz, 0);
            m->n = 0;
            m->siz = nz ? nz : 1;
            break;
        }
        case 22: case 23: case 24:
            /* caller idioms on a pulled element: 22 re-prioritise (the pulled element is the key of the sorted insertion),
               23 rotate / move (it is the source of the caller's copy), 24 either */
            alive = que_recycle(r, k, op == 24 ? (int)vf_below(r, 2) : op == 22);
            break;
        case 21:
            /* SURFACE: destruction followed by construction on the same storage (a_que_dtor + a_que_ctor) resp. a_que_die +
             * a_que_new: the queue must be usable again - the rest of the history is the judge */
            if (vf_chance(&XR, 1, 3))
            {
                size_t nz = sizes[vf_below(&XR, 5)];
                void (*d)(void *) = vf_chance(&XR, 2, 3) ? q_dtor : NULL;
                opname = m->by_ctor ? "dtor_ctor" : "die_new";
                vf_log("que %d %s: destroyed %s a destructor (num %zu), constructed again with element size %zu", k, opname, d ? "with" : "without", m->n, nz);
                dt_begin(k);
                if (m->by_ctor)
                {
                    a_que_dtor(m->q, d);
                    memset(m->q, 0x5A, sizeof(a_que));
                    a_que_ctor(m->q, nz);
                }
                else
                {
                    a_que_die(m->q, d);
                    m->q = a_que_new(nz);
                }
                cell3(opname, emp(m->n), d != NULL, (int)nz);
                m->n = 0;
                m->siz = nz ? nz : 1;
                if (!m->q) { FAIL("unexpected-null", "a_que_new returned null"); alive = 0; break; }
                if (!dt_end(k, d != NULL)) { alive = 0; break; }
                VF_COUNT("que-destroyed-and-constructed-again");
                break;
            }
            /* fall through */
        default:
            if (m->siz >= 8)
            {
                size_t n = 0;
                opname = "foreach";
                VF_COUNT("que-foreach-macros");
                a_que_foreach(uint64_t, *, it, m->q)
                {
                    if (n >= m->n || (void *)it != m->addr[n]) { FAIL("foreach", "position %zu", n); break; }
                    ++n;
                }
                if (ok && n != m->n) { FAIL("foreach", "visited %zu of %zu", n, m->n); }
                n = 0;
                a_que_foreach_reverse(uint64_t, *, it, m->q)
                {
                    if (n >= m->n || (void *)it != m->addr[m->n - 1 - n]) { FAIL("foreach_reverse", "position %zu", n); break; }
                    ++n;
                }
                if (ok && n != m->n) { FAIL("foreach_reverse", "visited %zu of %zu", n, m->n); }
            }
            break;
        }
        (void)ok;
        if (alive) { alive = que_check(); }
        xform = NULL;
        if (alive && (i & 3) == 3) { alive = que_forms(); } /* SURFACE: typed accessors and the four iteration macros against the model */
    }
    xform = NULL;
    if (alive) { alive = que_forms(); }
    /* SURFACE: drained by pulls, then every entry point on the empty queue whose nodes are all in the pool, and on one element */
    for (int k = 0; k < 2 && alive; ++k) { alive = que_drain(k) && que_edges(k); }
    xform = NULL;
    if (alive)
    {
        opname = "die";
        vf_log("que die both");
        for (int k = 0; k < 2; ++k)
        {
            int ok = 1;
            void (*d)(void *) = vf_chance(&XR, 2, 3) ? q_dtor : NULL;
            dt_begin(k);
            if (Q[k].by_ctor) { a_que_dtor(Q[k].q, d); free(Q[k].q); }
            else { a_que_die(Q[k].q, d); }
            Q[k].n = 0; /* the elements are gone: dt_end compares with the snapshot taken by dt_begin */
            ok = dt_end(k, d != NULL);
            (void)ok;
        }
        VF_COUNT("que-destroyed");
    }
}

/* Compile-time budget: the section is some 1300 lines of walks that exist once per macro form; under ASan+UBSan their
 * optimisation costs more build time than their execution saves, so the section (and only it) is compiled without optimisation. */
#pragma GCC push_options
#pragma GCC optimize("O0")
/* ===================================================================== SURFACE: every public entry point and macro form
 * "The other surface": the same functionality reached through a different door. Everything list.h, slist.h and que.h
 * define is listed here with the clause that executes AND judges it (counter `form/<name>`, all of them in `require`).
 *   [ops]    = the operation histories of list_case / slist_case / que_case above (lock-step model, ring walk after every call)
 *   [forms]  = list_forms / slist_forms / que_forms: after every 4th operation of a history and at its end the container is
 *              walked through the form and must yield exactly the model's sequence (addresses, contents, count, order)
 *   [remove] = list_forsafe_remove / slist_forsafe_remove: a pass at the end of the history that unlinks the current
 *              element inside the loop body (what the forsafe forms are documented for), model updated, rings re-walked
 *   [prims]  = list_prims / slist_prims: structures built by hand from the primitives on an enclosing struct whose link
 *              member is NOT the first member (so a_list_entry / a_slist_entry subtract a real offset)
 *   [typed]  = qx_*: the typed macro replaces the function in a random half of the queue operations (same model update,
 *              same clauses, key suffixed with the form)
 *
 * include/a/list.h - 21 functions (all A_INTERN), 17 function-like macros
 *   a_list_ctor [ops,prims]  a_list_init [ops,prims]  a_list_dtor [prims; que.c pull/remove/drop]  a_list_link [ops set_ chains, prims]
 *   a_list_loop [prims]  a_list_add_ [prims; every add/mov/rot/set/swap]  a_list_add_node [ops]  a_list_add_next [ops]  a_list_add_prev [ops]
 *   a_list_del_ [ops,prims]  a_list_del_node [ops,remove]  a_list_del_next [ops]  a_list_del_prev [ops]  a_list_set_ [ops,prims]
 *   a_list_set_node [ops]  a_list_mov_next [ops]  a_list_mov_prev [ops]  a_list_rot_next [ops]  a_list_rot_prev [ops]  a_list_swap_ [ops]
 *   a_list_swap_node [ops; a_que_swap_]
 *   A_LIST_INIT [prims: static and block-scope initialiser]  a_list_(_, x) [forms, with `*` and `const *`; a_que_foreach family]
 *   a_list_entry [forms,prims]  a_list_entry_next [forms,prims]  a_list_entry_prev [forms,prims]
 *   a_list_foreach_ [forms, both directions]  A_LIST_FOREACH_ [forms, both directions, iterator `a_list const *` on a const head]
 *   a_list_foreach_next / a_list_foreach_prev [ops,forms]  A_LIST_FOREACH_NEXT / A_LIST_FOREACH_PREV [forms; a_que_at, a_que_insert, a_que_remove]
 *   a_list_forsafe_ / A_LIST_FORSAFE_ [forms,remove, both directions]  a_list_forsafe_next / a_list_forsafe_prev [ops,forms,remove]
 *   A_LIST_FORSAFE_NEXT / A_LIST_FORSAFE_PREV [forms,remove; a_que_dtor]
 * include/a/slist.h - 11 functions (all A_INTERN), 8 function-like macros + the object-like initialiser A_SLIST_NODE
 *   a_slist_ctor [ops,prims]  a_slist_init [ops,prims]  a_slist_dtor [prims]  a_slist_link [prims; every add/del/mov/rot]
 *   a_slist_add [ops]  a_slist_add_head [ops]  a_slist_add_tail [ops,prims]  a_slist_del [ops,remove]  a_slist_del_head [ops,prims]
 *   a_slist_mov [ops]  a_slist_rot [ops,prims]
 *   A_SLIST_NODE [prims]  A_SLIST_INIT [prims: static and block-scope]  a_slist_(_, x) [forms, `*` and `const *`]
 *   a_slist_entry [forms,prims]  a_slist_entry_next [forms,prims]  a_slist_foreach [ops,forms]  A_SLIST_FOREACH [forms, also with a const iterator]
 *   a_slist_forsafe [ops,forms,remove]  A_SLIST_FORSAFE [forms,remove]
 * include/a/que.h + src/que.c - 7 A_INTERN + 17 A_EXTERN functions, 16 function-like macros
 *   a_que_siz a_que_num a_que_fore a_que_back a_que_swap_ [ops: que_check after every call]  a_que_fore_ a_que_back_ [forms; via fore/back]
 *   a_que_new a_que_die a_que_ctor a_que_dtor a_que_swap a_que_drop a_que_setz a_que_at a_que_sort_fore a_que_sort_back a_que_push_sort
 *   a_que_push_fore a_que_push_back a_que_pull_fore a_que_pull_back a_que_insert a_que_remove [ops]
 *   A_QUE_FORE_ A_QUE_BACK_ A_QUE_FORE A_QUE_BACK A_QUE_AT [forms, T in {unsigned char, unsigned char const, uint64_t, uint64_t const, 24-byte struct}]
 *   A_QUE_PUSH_SORT A_QUE_PUSH_FORE A_QUE_PUSH_BACK A_QUE_PULL_FORE A_QUE_PULL_BACK A_QUE_INSERT A_QUE_REMOVE [typed, T in {unsigned char,
 *   unsigned char const, uint64_t}]
 *   a_que_foreach a_que_foreach_reverse (T, S = *) A_QUE_FOREACH A_QUE_FOREACH_REVERSE (T = element pointer type) [forms, the five T above;
 *   the const instantiations walk through an `a_que const *`]
 * Not judged: the value of the forsafe helper variable `at` by itself (documented only as "temporary storage"; it is judged
 * through what it is for - a_slist_del(ctx, at) must unlink the current node, the list forms must survive the unlinking).
 * a_que_foreach* save the successor like a forsafe form, but their documentation promises iteration only: no removal inside.
 *
 * All random choices of this section come from XR, a stream forked from (seed, "C05S", case): the operation histories
 * of the cases above are what they were before the section existed.
 * Violation keys: "<family>_<forms|forsafe_remove|prims>/<clause>/<form>", typed operations "<family>_<op>/<clause>/<FORM>".
 */
static void xr_seed(uint64_t c)
{
    vf_rng_seed(&XR, vf.seed, vf_hash_str("C05S"), c);
    xform = NULL;
}

/* "Poisoned" link fields point at these foreign objects: a form that fails to write a link leaves the foreign address in
 * the structure and the walkers report it (the process does not have to die on a wild pointer first). */
static a_list x_poison = A_LIST_INIT(x_poison);
static a_slist_node x_spoison = A_SLIST_NODE;
static a_slist x_static_slist = A_SLIST_INIT(x_static_slist);

/* ------------------------------------------------------------------ list.h: observation forms */
/* body of one step of a walk of list k (rev: backward); the loop it sits in is left on the first disagreement */
__attribute__((noinline)) static int lw_step(char const *form, a_list const *it, int k, int rev, int *n)
{
    int ok = 1, id = l_id_of((a_list *)it), want;
    if (*n >= LMn[k]) { XFAIL("walk-longer-than-model", form, "list %d: more than %d nodes visited", k, LMn[k]); return 0; }
    want = LM[k][rev ? LMn[k] - 1 - *n : *n];
    if (id != want) { XFAIL("sequence", form, "list %d visit %d: node %d, model %d", k, *n, id, want); return 0; }
    ++*n;
    return ok;
}
__attribute__((noinline)) static int lw_end(char const *form, int k, int n)
{
    int ok = 1;
    if (n != LMn[k]) { XFAIL("count", form, "list %d: visited %d of %d nodes", k, n, LMn[k]); }
    return ok;
}
#define LW_STEP(form, itv, k, rev) \
    {                              \
        if (!lw_step(form, itv, k, rev, &n)) { ok = 0; break; } \
    }
#define LW_END(form, k) \
    if (ok) { ok = lw_end(form, k, n); }
/* one evaluation of every walking form (list_forms executes each of them once per list, the generic `_` forms twice) */
__attribute__((noinline)) static void lf_count(void)
{
    VF_COUNT("form/a_list_foreach_next");
    VF_COUNT("form/a_list_foreach_prev");
    VF_ADD("form/a_list_foreach_", 2);
    VF_COUNT("form/A_LIST_FOREACH_NEXT");
    VF_COUNT("form/A_LIST_FOREACH_PREV");
    VF_ADD("form/A_LIST_FOREACH_", 2);
    VF_COUNT("form/a_list_forsafe_next");
    VF_COUNT("form/a_list_forsafe_prev");
    VF_ADD("form/a_list_forsafe_", 2);
    VF_COUNT("form/A_LIST_FORSAFE_NEXT");
    VF_COUNT("form/A_LIST_FORSAFE_PREV");
    VF_ADD("form/A_LIST_FORSAFE_", 2);
}

static int list_forms(void)
{
    int ok = 1, n;
    char const *op_ = opname;
    opname = "forms";
    for (int k = 0; k < 2 && ok; ++k)
    {
        a_list *h = LH[k], *it, *at;
        a_list const *ch = LH[k], *cit, *cat;
        lf_count();
        /* foreach, lower case (the form declares its iterator) */
        n = 0; a_list_foreach_next(p, h) LW_STEP("a_list_foreach_next", p, k, 0) LW_END("a_list_foreach_next", k)
        n = 0; a_list_foreach_prev(p, h) LW_STEP("a_list_foreach_prev", p, k, 1) LW_END("a_list_foreach_prev", k)
        n = 0; a_list_foreach_(p, ch, next) LW_STEP("a_list_foreach_", p, k, 0) LW_END("a_list_foreach_", k)
        n = 0; a_list_foreach_(p, h, prev) LW_STEP("a_list_foreach_", p, k, 1) LW_END("a_list_foreach_", k)
        /* foreach, upper case (iterator supplied; second instantiation: pointer to const on a const head) */
        n = 0; A_LIST_FOREACH_NEXT(it, h) LW_STEP("A_LIST_FOREACH_NEXT", it, k, 0) LW_END("A_LIST_FOREACH_NEXT", k)
        n = 0; A_LIST_FOREACH_PREV(it, h) LW_STEP("A_LIST_FOREACH_PREV", it, k, 1) LW_END("A_LIST_FOREACH_PREV", k)
        n = 0; A_LIST_FOREACH_(it, h, next) LW_STEP("A_LIST_FOREACH_", it, k, 0) LW_END("A_LIST_FOREACH_", k)
        n = 0; A_LIST_FOREACH_(cit, ch, prev) LW_STEP("A_LIST_FOREACH_", cit, k, 1) LW_END("A_LIST_FOREACH_", k)
        /* forsafe without removal */
        n = 0; a_list_forsafe_next(p, q, h) LW_STEP("a_list_forsafe_next", p, k, 0) LW_END("a_list_forsafe_next", k)
        n = 0; a_list_forsafe_prev(p, q, h) LW_STEP("a_list_forsafe_prev", p, k, 1) LW_END("a_list_forsafe_prev", k)
        n = 0; a_list_forsafe_(p, q, h, next) LW_STEP("a_list_forsafe_", p, k, 0) LW_END("a_list_forsafe_", k)
        n = 0; a_list_forsafe_(p, q, ch, prev) LW_STEP("a_list_forsafe_", p, k, 1) LW_END("a_list_forsafe_", k)
        n = 0; A_LIST_FORSAFE_NEXT(it, at, h) LW_STEP("A_LIST_FORSAFE_NEXT", it, k, 0) LW_END("A_LIST_FORSAFE_NEXT", k)
        n = 0; A_LIST_FORSAFE_PREV(it, at, h) LW_STEP("A_LIST_FORSAFE_PREV", it, k, 1) LW_END("A_LIST_FORSAFE_PREV", k)
        n = 0; A_LIST_FORSAFE_(it, at, h, next) LW_STEP("A_LIST_FORSAFE_", it, k, 0) LW_END("A_LIST_FORSAFE_", k)
        n = 0; A_LIST_FORSAFE_(cit, cat, ch, prev) LW_STEP("A_LIST_FORSAFE_", cit, k, 1) LW_END("A_LIST_FORSAFE_", k)
        /* entry forms and the cast form on every ring member (pos -1: the head sentinel) */
        for (int pos = -1; pos < LMn[k] && ok; ++pos)
        {
            a_list *mb = ring_member(k, pos);
            int nx = pos + 1 < LMn[k] ? LM[k][pos + 1] : -1;                     /* node after mb, -1: the head */
            int pv = pos > 0 ? LM[k][pos - 1] : pos < 0 && LMn[k] ? LM[k][LMn[k] - 1] : -1; /* node before mb */
            if (pos >= 0)
            {
                lnode *e = a_list_entry(mb, lnode, n);
                lnode const *ce = a_list_entry((a_list const *)mb, lnode const, n);
                VF_COUNT("form/a_list_entry");
                if (e != LN[LM[k][pos]] || ce != e || e->id != LM[k][pos]) { XFAIL("entry", "a_list_entry", "list %d position %d: %p is not node %d", k, pos, (void *)e, LM[k][pos]); }
                VF_COUNT("form/a_list_");
                if (a_list_(*, e) != mb || a_list_(const *, ce) != mb) { XFAIL("cast", "a_list_", "list %d position %d", k, pos); }
            }
            if (nx >= 0)
            {
                lnode *e = a_list_entry_next(mb, lnode, n);
                VF_COUNT("form/a_list_entry_next");
                if (e != LN[nx]) { XFAIL("entry", "a_list_entry_next", "list %d ring position %d: %p is not node %d", k, pos, (void *)e, nx); }
            }
            if (pv >= 0)
            {
                lnode const *e = a_list_entry_prev((a_list const *)mb, lnode const, n);
                VF_COUNT("form/a_list_entry_prev");
                if (e != LN[pv]) { XFAIL("entry", "a_list_entry_prev", "list %d ring position %d: %p is not node %d", k, pos, (void const *)e, pv); }
            }
        }
    }
    opname = op_;
    return ok;
}

/* ------------------------------------------------------------------ list.h: removal inside the forsafe forms */
static char const *const lr_name[8] = {"a_list_forsafe_next", "a_list_forsafe_prev", "A_LIST_FORSAFE_NEXT", "A_LIST_FORSAFE_PREV",
                                       "a_list_forsafe_(next)", "a_list_forsafe_(prev)", "A_LIST_FORSAFE_(next)", "A_LIST_FORSAFE_(prev)"};
/* One pass over list k through forsafe form `form` (odd: backward). The node of visit j is unlinked inside the body when
 * bit j of the mask is set and left as a one-node ring (next == prev == itself): a form that reads the successor from the
 * current node after the body stays on that node for ever (bounded: the visit count) instead of reaching the saved one. */
static int list_forsafe_remove(int k, int form)
{
    int ok = 1, n = 0, cnt = LMn[k], rev = form & 1, gone[NN + 2];
    uint32_t mask;
    a_list *h = LH[k], *it, *at;
    switch ((int)vf_below(&XR, 4))
    {
    case 0: mask = ~0u; break;
    case 1: mask = (uint32_t)vf_u64(&XR); break;
    case 2: mask = (uint32_t)(vf_u64(&XR) & vf_u64(&XR)); break;
    default: mask = 1u | (cnt ? 1u << (cnt - 1) : 0u); break;
    }
    memset(gone, 0, sizeof(gone));
    opname = "forsafe_remove";
    vf_log("list forsafe pass over list %d (%d nodes) through %s, a_list_del_node of the current node at the visits in mask %#x", k, cnt, lr_name[form], mask);
#define LR_BODY(form_, itv)                        \
    {                                              \
        LW_STEP(form_, itv, k, rev)                \
        if (mask >> (n - 1) & 1u)                  \
        {                                          \
            a_list_del_node(itv);                  \
            a_list_init(itv);                      \
            gone[rev ? cnt - n : n - 1] = 1;       \
        }                                          \
    }
    switch (form)
    {
    case 0: a_list_forsafe_next(p, q, h) LR_BODY("a_list_forsafe_next", p) VF_COUNT("form-removal/a_list_forsafe_next"); break;
    case 1: a_list_forsafe_prev(p, q, h) LR_BODY("a_list_forsafe_prev", p) VF_COUNT("form-removal/a_list_forsafe_prev"); break;
    case 2: A_LIST_FORSAFE_NEXT(it, at, h) LR_BODY("A_LIST_FORSAFE_NEXT", it) VF_COUNT("form-removal/A_LIST_FORSAFE_NEXT"); break;
    case 3: A_LIST_FORSAFE_PREV(it, at, h) LR_BODY("A_LIST_FORSAFE_PREV", it) VF_COUNT("form-removal/A_LIST_FORSAFE_PREV"); break;
    case 4: a_list_forsafe_(p, q, h, next) LR_BODY("a_list_forsafe_", p) VF_COUNT("form-removal/a_list_forsafe_"); break;
    case 5: a_list_forsafe_(p, q, h, prev) LR_BODY("a_list_forsafe_", p) VF_COUNT("form-removal/a_list_forsafe_"); break;
    case 6: A_LIST_FORSAFE_(it, at, h, next) LR_BODY("A_LIST_FORSAFE_", it) VF_COUNT("form-removal/A_LIST_FORSAFE_"); break;
    default: A_LIST_FORSAFE_(it, at, h, prev) LR_BODY("A_LIST_FORSAFE_", it) VF_COUNT("form-removal/A_LIST_FORSAFE_"); break;
    }
    if (ok && n != cnt) { XFAIL("count", lr_name[form], "list %d: %d of %d nodes visited while removing", k, n, cnt); }
    for (int j = cnt - 1; j >= 0; --j)
    {
        if (gone[j]) { lm_remove(k, j); }
    }
    cell3(opname, emp((size_t)cnt), form, LMn[k] == 0 ? 0 : LMn[k] == cnt ? 2 : 1);
    return ok;
}

/* ------------------------------------------------------------------ list.h: structures built by hand from the primitives */
typedef struct
{
    int id;
    a_list n; /* NOT the first member */
} enode;
#define EN 12
static enode *EE[EN];
static a_list *EH;
static int EM[EN + 1], EMn, Efree[EN], Enfree;

static int e_id_of(a_list const *p)
{
    for (int i = 0; i < EN; ++i)
    {
        if (&EE[i]->n == p) { return i; }
    }
    return -1;
}
static void e_poison(a_list *p) { p->next = p->prev = &x_poison; }
static a_list *e_member(int pos) { return pos < 0 || pos >= EMn ? EH : &EE[EM[pos]]->n; }
static void em_insert(int pos, int id)
{
    memmove(&EM[pos + 1], &EM[pos], (size_t)(EMn - pos) * sizeof(int));
    EM[pos] = id;
    ++EMn;
}
static void em_remove(int pos)
{
    memmove(&EM[pos], &EM[pos + 1], (size_t)(EMn - pos - 1) * sizeof(int));
    --EMn;
}
/* the hand-built ring EH must be exactly EM, both directions, links mutually consistent, entry forms exact */
static int e_ring_check(char const *form)
{
    int ok = 1, n = 0;
    a_list *it;
    for (it = EH->next; it != EH; it = it->next)
    {
        int id = e_id_of(it);
        if (id < 0) { XFAIL("foreign-node-in-ring", form, "forward step %d reaches %p, neither a node nor the head", n, (void *)it); return 0; }
        if (n >= EMn) { XFAIL("forward-walk-longer-than-model", form, "more than %d nodes", EMn); return 0; }
        if (id != EM[n]) { XFAIL("forward-sequence", form, "position %d: node %d, model %d", n, id, EM[n]); return 0; }
        if (it->next->prev != it || it->prev->next != it) { XFAIL("links-inconsistent", form, "node %d at %d", id, n); return 0; }
        ++n;
    }
    if (n != EMn) { XFAIL("forward-walk-shorter-than-model", form, "%d nodes, model %d", n, EMn); return 0; }
    if (EH->next->prev != EH || EH->prev->next != EH) { XFAIL("head-links-inconsistent", form, "head"); return 0; }
    n = 0;
    for (it = EH->prev; it != EH; it = it->prev)
    {
        int id = e_id_of(it);
        if (id < 0 || n >= EMn || id != EM[EMn - 1 - n]) { XFAIL("backward-sequence", form, "backward position %d", n); return 0; }
        ++n;
    }
    if (n != EMn) { XFAIL("backward-walk-length", form, "%d nodes backward, model %d", n, EMn); return 0; }
    for (int pos = -1; pos < EMn; ++pos)
    {
        a_list *mb = e_member(pos);
        if (pos >= 0)
        {
            enode *e = a_list_entry(mb, enode, n);
            VF_COUNT("form/a_list_entry");
            if (e != EE[EM[pos]] || e->id != EM[pos]) { XFAIL("entry", "a_list_entry", "position %d: %p is not the enclosing struct of node %d", pos, (void *)e, EM[pos]); return 0; }
        }
        if (pos + 1 < EMn)
        {
            enode *e = a_list_entry_next(mb, enode, n);
            VF_COUNT("form/a_list_entry_next");
            if (e != EE[EM[pos + 1]] || e->id != EM[pos + 1]) { XFAIL("entry", "a_list_entry_next", "ring position %d", pos); return 0; }
        }
        if (pos > 0 || (pos < 0 && EMn))
        {
            int pv = pos > 0 ? EM[pos - 1] : EM[EMn - 1];
            enode *e = a_list_entry_prev(mb, enode, n);
            VF_COUNT("form/a_list_entry_prev");
            if (e != EE[pv] || e->id != pv) { XFAIL("entry", "a_list_entry_prev", "ring position %d", pos); return 0; }
        }
    }
    return ok;
}
/* take cn (<= 3) free nodes and link them into an open chain with a_list_link (outer links stay poisoned) */
static int e_chain(int *chain, int want)
{
    int cn = 0;
    while (cn < want && Enfree)
    {
        int j = (int)vf_below(&XR, (uint64_t)Enfree);
        chain[cn++] = Efree[j];
        Efree[j] = Efree[--Enfree];
    }
    for (int j = 0; j + 1 < cn; ++j) { a_list_link(&EE[chain[j]]->n, &EE[chain[j + 1]]->n); }
    return cn;
}
static void e_release(int id)
{
    e_poison(&EE[id]->n);
    Efree[Enfree++] = id;
}

static int list_prims(void)
{
    int ok = 1, m;
    opname = "prims";
    ++vf.evals;
    for (int i = 0; i < EN; ++i)
    {
        EE[i] = (enode *)malloc(sizeof(enode));
        EE[i]->id = i;
        e_poison(&EE[i]->n);
    }
    EH = (a_list *)malloc(sizeof(a_list));
    EMn = 0;
    Enfree = 0;
    /* initialiser form: static object, block-scope object */
    {
        a_list tmp = A_LIST_INIT(*EH);
        *EH = tmp;
        VF_COUNT("form/A_LIST_INIT");
        if (EH->next != EH || EH->prev != EH) { XFAIL("not-an-empty-ring", "A_LIST_INIT", "block-scope initialiser: next %p prev %p, object %p", (void *)EH->next, (void *)EH->prev, (void *)EH); }
        if (x_poison.next != &x_poison || x_poison.prev != &x_poison) { XFAIL("not-an-empty-ring", "A_LIST_INIT", "static initialiser (or a library call wrote to a foreign object)"); }
    }
    /* ctor / init / dtor turn any block into an empty ring */
    for (int v = 0; v < 3 && ok; ++v)
    {
        static char const *const nm[3] = {"a_list_ctor", "a_list_init", "a_list_dtor"};
        a_list *p = v == 2 ? &EE[vf_below(&XR, EN)]->n : EH;
        e_poison(p);
        vf_log("list prims: %s on a block whose links point elsewhere", nm[v]);
        if (v == 0) { a_list_ctor(p); VF_COUNT("form/a_list_ctor"); }
        else if (v == 1) { a_list_init(p); VF_COUNT("form/a_list_init"); }
        else { a_list_dtor(p); VF_COUNT("form/a_list_dtor"); }
        if (p->next != p || p->prev != p) { XFAIL("not-an-empty-ring", nm[v], "next %p prev %p, object %p", (void *)p->next, (void *)p->prev, (void *)p); }
        if (v == 2) { e_poison(p); }
    }
    /* a ring of m nodes: open chain by a_list_link, closed on the head by a_list_link(head, first) + a_list_loop(head, last) */
    m = (int)vf_below(&XR, EN - 4);
    e_poison(EH);
    vf_log("list prims: ring of %d nodes from a_list_link (chain, head->first) and a_list_loop(head, last)", m);
    for (int i = 0; i < m; ++i) { EM[EMn++] = i; }
    for (int i = m; i < EN; ++i) { Efree[Enfree++] = i; }
    for (int i = 0; i + 1 < m; ++i) { a_list_link(&EE[i]->n, &EE[i + 1]->n); }
    if (m) { a_list_link(EH, &EE[0]->n); }
    else { a_list_link(EH, EH); }
    a_list_loop(EH, m ? &EE[m - 1]->n : EH);
    VF_COUNT("form/a_list_link");
    VF_COUNT("form/a_list_loop");
    if (ok) { ok = e_ring_check("a_list_loop"); }
    cell3("prims-build", emp((size_t)m), 0, 0);
    for (int step = 0; step < 8 && ok; ++step)
    {
        int chain[3], cn, a, b, pos;
        switch ((int)vf_below(&XR, 4))
        {
        case 0: /* a_list_add_(head1, tail1, head2, tail2): the chain head2..tail2 goes between tail1 and head1 */
            cn = e_chain(chain, 1 + (int)vf_below(&XR, 3));
            if (!cn) { break; }
            pos = (int)vf_below(&XR, (uint64_t)EMn + 1) - 1;
            vf_log("list prims: a_list_add_ of a hand-linked chain of %d nodes between ring position %d and its successor (%d nodes)", cn, pos, EMn);
            a_list_add_(e_member(pos + 1), e_member(pos), &EE[chain[0]]->n, &EE[chain[cn - 1]]->n);
            for (int j = 0; j < cn; ++j) { em_insert(pos + 1 + j, chain[j]); }
            VF_COUNT("form/a_list_add_");
            ok = e_ring_check("a_list_add_");
            cell3("prims-add_", emp((size_t)EMn - (size_t)cn), cn, pos < 0);
            break;
        case 1: /* a_list_del_(head, tail) detaches a section; a_list_loop(head, tail) closes the section into a ring of its own */
            if (!EMn) { break; }
            a = (int)vf_below(&XR, (uint64_t)EMn);
            b = a + (int)vf_below(&XR, (uint64_t)(EMn - a));
            vf_log("list prims: a_list_del_ of section [%d..%d] of %d nodes, section closed with a_list_loop(first, last)", a, b, EMn);
            {
                int sec[EN], sn = b - a + 1, n = 0;
                a_list *first = &EE[EM[a]]->n, *last = &EE[EM[b]]->n, *it;
                memcpy(sec, &EM[a], (size_t)sn * sizeof(int));
                a_list_del_(first, last);
                for (int j = b; j >= a; --j) { em_remove(j); }
                VF_COUNT("form/a_list_del_");
                ok = e_ring_check("a_list_del_");
                if (!ok) { break; }
                first->prev = &x_poison;
                last->next = &x_poison;
                a_list_loop(first, last);
                VF_COUNT("form/a_list_loop");
                it = first;
                do {
                    if (n >= sn || e_id_of(it) != sec[n]) { XFAIL("section-ring-forward", "a_list_loop", "headless ring of %d nodes, step %d", sn, n); break; }
                    if (it->next->prev != it || it->prev->next != it) { XFAIL("section-ring-links", "a_list_loop", "headless ring of %d nodes, step %d", sn, n); break; }
                    ++n;
                    it = it->next;
                } while (it != first);
                if (ok && n != sn) { XFAIL("section-ring-length", "a_list_loop", "%d of %d nodes", n, sn); }
                for (int j = 0; j < sn; ++j) { e_release(sec[j]); }
                cell3("prims-del_", emp((size_t)EMn + (size_t)sn), sn > 1, 0);
            }
            break;
        case 2: /* a_list_set_(head1, tail1, head2, tail2): the chain takes the place of the section */
            if (!EMn) { break; }
            cn = e_chain(chain, 1 + (int)vf_below(&XR, 3));
            if (!cn) { break; }
            a = (int)vf_below(&XR, (uint64_t)EMn);
            b = a + (int)vf_below(&XR, (uint64_t)(EMn - a));
            vf_log("list prims: a_list_set_ section [%d..%d] of %d nodes replaced by a hand-linked chain of %d", a, b, EMn, cn);
            {
                int sec[EN], sn = b - a + 1;
                memcpy(sec, &EM[a], (size_t)sn * sizeof(int));
                a_list_set_(&EE[EM[a]]->n, &EE[EM[b]]->n, &EE[chain[0]]->n, &EE[chain[cn - 1]]->n);
                for (int j = b; j >= a; --j) { em_remove(j); }
                for (int j = 0; j < cn; ++j) { em_insert(a + j, chain[j]); }
                for (int j = 0; j < sn; ++j) { e_release(sec[j]); }
                VF_COUNT("form/a_list_set_");
                ok = e_ring_check("a_list_set_");
                cell3("prims-set_", emp((size_t)EMn), sn > 1, cn);
            }
            break;
        default: /* the head moves to between positions j-1 and j: link(last, first), link(head, node j), loop(head, node j-1) */
            if (EMn < 2) { break; }
            a = 1 + (int)vf_below(&XR, (uint64_t)EMn - 1);
            vf_log("list prims: head of a ring of %d nodes moved in front of position %d by a_list_link x2 + a_list_loop", EMn, a);
            {
                int old[EN], on = EMn;
                memcpy(old, EM, (size_t)on * sizeof(int));
                a_list_link(&EE[old[on - 1]]->n, &EE[old[0]]->n);
                a_list_link(EH, &EE[old[a]]->n);
                a_list_loop(EH, &EE[old[a - 1]]->n);
                for (int j = 0; j < on; ++j) { EM[j] = old[(a + j) % on]; }
                VF_COUNT("form/a_list_link");
                VF_COUNT("form/a_list_loop");
                ok = e_ring_check("a_list_loop");
                cell3("prims-rehead", emp((size_t)on), 0, 0);
            }
            break;
        }
    }
    if (ok)
    {
        /* ctor / init / dtor on the USED head, then the head takes nodes again */
        static char const *const nm[3] = {"a_list_ctor", "a_list_init", "a_list_dtor"};
        int v = (int)vf_below(&XR, 3), cnt = 1 + (int)vf_below(&XR, 3);
        vf_log("list prims: %s on the head of the ring of %d nodes, then %d nodes added", nm[v], EMn, cnt);
        if (v == 0) { a_list_ctor(EH); }
        else if (v == 1) { a_list_init(EH); }
        else { a_list_dtor(EH); }
        while (EMn) { e_release(EM[--EMn]); }
        ok = e_ring_check(nm[v]);
        for (int j = 0; j < cnt && ok && Enfree; ++j)
        {
            int id = Efree[--Enfree];
            if (vf_chance(&XR, 1, 2)) { a_list_add_prev(EH, &EE[id]->n); em_insert(EMn, id); }
            else { a_list_add_next(EH, &EE[id]->n); em_insert(0, id); }
            ok = e_ring_check(nm[v]);
        }
    }
    if (x_poison.next != &x_poison || x_poison.prev != &x_poison)
    {
        XFAIL("foreign-object-written", "prims", "a primitive wrote through a link it should have replaced");
        x_poison.next = x_poison.prev = &x_poison;
    }
    for (int i = 0; i < EN; ++i) { free(EE[i]); }
    free(EH);
    return ok;
}

static int list_coda(void)
{
    int alive = list_forms(), passes = 8 + (int)vf_below(&XR, 5);
    for (int i = 0; i < passes && alive; ++i)
    {
        int k = (int)vf_below(&XR, 2), form = (int)vf_below(&XR, 8), id;
        if (vf_chance(&XR, 1, 3))
        {
            /* ctor / init / dtor on a USED head: its nodes are abandoned, the head must be an empty ring that takes nodes again */
            int v = (int)vf_below(&XR, 3);
            opname = v == 0 ? "ctor" : v == 1 ? "init" : "dtor";
            vf_log("list a_list_%s(head of list %d holding %d nodes), nodes abandoned, head re-used", opname, k, LMn[k]);
            if (v == 0) { a_list_ctor(LH[k]); }
            else if (v == 1) { a_list_init(LH[k]); }
            else { a_list_dtor(LH[k]); }
            cell3(opname, emp((size_t)LMn[k]), 0, 0);
            while (LMn[k])
            {
                a_list_init(&LN[LM[k][LMn[k] - 1]]->n);
                lm_remove(k, LMn[k] - 1);
            }
            VF_COUNT("list-used-head-reset-and-reused");
            alive = list_check();
            if (!alive) { break; }
        }
        /* refill list k from the detached nodes so that the pass has something to remove */
        while ((id = pick_detached(&XR)) >= 0 && vf_chance(&XR, 5, 6))
        {
            int pos = (int)vf_below(&XR, (uint64_t)LMn[k] + 1) - 1;
            if (vf_chance(&XR, 1, 2))
            {
                opname = "add_next";
                vf_log("list add_next(ctx ring position %d of list %d, node %d)", pos, k, id);
                a_list_add_next(ring_member(k, pos), &LN[id]->n);
                lm_insert(k, pos + 1, id);
            }
            else
            {
                opname = "add_prev";
                vf_log("list add_prev(ctx ring position %d of list %d, node %d)", pos, k, id);
                a_list_add_prev(ring_member(k, pos), &LN[id]->n);
                lm_insert(k, pos < 0 ? LMn[k] : pos, id);
            }
        }
        alive = list_check();
        if (!alive) { break; }
        ++vf.evals;
        alive = list_forsafe_remove(k, form);
        if (!list_check()) { alive = 0; }
        if (alive) { alive = list_forms(); }
    }
    for (int i = 0; i < 2 && alive; ++i) { alive = list_prims(); }
    return alive;
}

/* ------------------------------------------------------------------ slist.h: observation forms */
__attribute__((noinline)) static int sw_step(char const *form, a_slist_node const *it, int k, int *n)
{
    int ok = 1, id = s_id_of((a_slist_node *)it), want;
    if (*n >= SMn[k]) { XFAIL("walk-longer-than-model", form, "slist %d: more than %d nodes visited", k, SMn[k]); return 0; }
    want = SM[k][*n];
    if (id != want) { XFAIL("sequence", form, "slist %d visit %d: node %d, model %d", k, *n, id, want); return 0; }
    ++*n;
    return ok;
}
__attribute__((noinline)) static int sw_end(char const *form, int k, int n)
{
    int ok = 1;
    if (n != SMn[k]) { XFAIL("count", form, "slist %d: visited %d of %d nodes", k, n, SMn[k]); }
    return ok;
}
#define SW_STEP(form, itv, k) \
    {                         \
        if (!sw_step(form, itv, k, &n)) { ok = 0; break; } \
    }
#define SW_END(form, k) \
    if (ok) { ok = sw_end(form, k, n); }
__attribute__((noinline)) static void sf_count(void)
{
    VF_ADD("form/a_slist_foreach", 2);
    VF_ADD("form/A_SLIST_FOREACH", 2);
    VF_COUNT("form/a_slist_forsafe");
    VF_ADD("form/A_SLIST_FORSAFE", 2);
}

static int slist_forms(void)
{
    int ok = 1, n;
    char const *op_ = opname;
    opname = "forms";
    for (int k = 0; k < 2 && ok; ++k)
    {
        a_slist *l = SL[k];
        a_slist const *cl = SL[k];
        a_slist_node *it, *at;
        a_slist_node const *cit, *cat;
        sf_count();
        n = 0; a_slist_foreach(p, l) SW_STEP("a_slist_foreach", p, k) SW_END("a_slist_foreach", k)
        n = 0; a_slist_foreach(p, cl) SW_STEP("a_slist_foreach", p, k) SW_END("a_slist_foreach", k)
        n = 0; A_SLIST_FOREACH(it, l) SW_STEP("A_SLIST_FOREACH", it, k) SW_END("A_SLIST_FOREACH", k)
        n = 0; A_SLIST_FOREACH(cit, cl) SW_STEP("A_SLIST_FOREACH", cit, k) SW_END("A_SLIST_FOREACH", k)
        n = 0; a_slist_forsafe(p, q, l) SW_STEP("a_slist_forsafe", p, k) SW_END("a_slist_forsafe", k)
        n = 0; A_SLIST_FORSAFE(it, at, l) SW_STEP("A_SLIST_FORSAFE", it, k) SW_END("A_SLIST_FORSAFE", k)
        n = 0; A_SLIST_FORSAFE(cit, cat, cl) SW_STEP("A_SLIST_FORSAFE", cit, k) SW_END("A_SLIST_FORSAFE", k)
        for (int pos = -1; pos < SMn[k] && ok; ++pos)
        {
            a_slist_node *mb = s_member(k, pos);
            if (pos >= 0)
            {
                snode *e = a_slist_entry(mb, snode, n);
                snode const *ce = a_slist_entry((a_slist_node const *)mb, snode const, n);
                VF_COUNT("form/a_slist_entry");
                if (e != SN[SM[k][pos]] || ce != e || e->id != SM[k][pos]) { XFAIL("entry", "a_slist_entry", "slist %d position %d: %p is not node %d", k, pos, (void *)e, SM[k][pos]); }
                VF_COUNT("form/a_slist_");
                if (a_slist_(*, e) != mb || a_slist_(const *, ce) != mb) { XFAIL("cast", "a_slist_", "slist %d position %d", k, pos); }
            }
            if (pos + 1 < SMn[k])
            {
                snode *e = a_slist_entry_next(mb, snode, n);
                VF_COUNT("form/a_slist_entry_next");
                if (e != SN[SM[k][pos + 1]]) { XFAIL("entry", "a_slist_entry_next", "slist %d position %d: %p is not node %d", k, pos, (void *)e, SM[k][pos + 1]); }
            }
        }
    }
    opname = op_;
    return ok;
}

/* ------------------------------------------------------------------ slist.h: removal inside the forsafe forms
 * Documented use (and test/slist.h): `at` is the predecessor of the current node; the body calls a_slist_del(ctx, at) and
 * sets `it` to null, the form then continues with the new successor of `at`. */
static int slist_forsafe_remove(int k, int form)
{
    static char const *const nm[2] = {"a_slist_forsafe", "A_SLIST_FORSAFE"};
    int ok = 1, n = 0, cnt = SMn[k], gone[NN + 2];
    uint32_t mask;
    a_slist *l = SL[k];
    a_slist_node *it, *at;
    switch ((int)vf_below(&XR, 4))
    {
    case 0: mask = ~0u; break;
    case 1: mask = (uint32_t)vf_u64(&XR); break;
    case 2: mask = (uint32_t)(vf_u64(&XR) & vf_u64(&XR)); break;
    default: mask = 1u | (cnt ? 1u << (cnt - 1) : 0u); break;
    }
    memset(gone, 0, sizeof(gone));
    opname = "forsafe_remove";
    vf_log("slist forsafe pass over list %d (%d nodes) through %s, a_slist_del(list, at) + it = null at the visits in mask %#x", k, cnt, nm[form], mask);
#define SR_BODY(form_, itv, atv)                   \
    {                                              \
        SW_STEP(form_, itv, k)                     \
        if (mask >> (n - 1) & 1u)                  \
        {                                          \
            a_slist_del(l, atv);                   \
            (itv)->next = &x_spoison;              \
            gone[n - 1] = 1;                       \
            itv = NULL;                            \
        }                                          \
    }
    if (form == 0) { a_slist_forsafe(p, q, l) SR_BODY("a_slist_forsafe", p, q) VF_COUNT("form-removal/a_slist_forsafe"); }
    else { A_SLIST_FORSAFE(it, at, l) SR_BODY("A_SLIST_FORSAFE", it, at) VF_COUNT("form-removal/A_SLIST_FORSAFE"); }
    if (ok && n != cnt) { XFAIL("count", nm[form], "slist %d: %d of %d nodes visited while removing", k, n, cnt); }
    for (int j = cnt - 1; j >= 0; --j)
    {
        if (gone[j])
        {
            SN[SM[k][j]]->n.next = NULL;
            sm_remove(k, j);
        }
    }
    if (x_spoison.next) { XFAIL("foreign-object-written", nm[form], "the pass wrote to a removed node's successor"); x_spoison.next = NULL; }
    cell3(opname, emp((size_t)cnt), form, SMn[k] == 0 ? 0 : SMn[k] == cnt ? 2 : 1);
    return ok;
}

/* ------------------------------------------------------------------ slist.h: structures built by hand from the primitives */
typedef struct
{
    int id;
    a_slist_node n; /* NOT the first member */
} esnode;
static esnode *ES[EN];
static a_slist *EL;
static int ESM[EN + 1], ESMn;

static int es_check(char const *form)
{
    int ok = 1, n = 0;
    a_slist_node *it, *last = &EL->head;
    for (it = EL->head.next; it; it = it->next)
    {
        int id = -1;
        for (int i = 0; i < EN; ++i)
        {
            if (&ES[i]->n == it) { id = i; }
        }
        if (id < 0) { XFAIL("foreign-node", form, "step %d reaches %p", n, (void *)it); return 0; }
        if (n >= ESMn) { XFAIL("walk-longer-than-model", form, "more than %d nodes", ESMn); return 0; }
        if (id != ESM[n]) { XFAIL("sequence", form, "position %d: node %d, model %d", n, id, ESM[n]); return 0; }
        VF_COUNT("form/a_slist_entry");
        if (a_slist_entry(it, esnode, n) != ES[id] || a_slist_entry(it, esnode, n)->id != id) { XFAIL("entry", "a_slist_entry", "position %d", n); return 0; }
        VF_COUNT("form/a_slist_entry_next");
        if (a_slist_entry_next(last, esnode, n) != ES[id]) { XFAIL("entry", "a_slist_entry_next", "successor of position %d", n - 1); return 0; }
        last = it;
        ++n;
    }
    if (n != ESMn) { XFAIL("walk-shorter-than-model", form, "%d nodes, model %d", n, ESMn); return 0; }
    if (EL->tail != last) { XFAIL("tail-not-last-node", form, "tail %p, last node %p (%d nodes)", (void *)EL->tail, (void *)last, n); return 0; }
    return ok;
}

static int slist_prims(void)
{
    int ok = 1, m;
    opname = "prims";
    ++vf.evals;
    for (int i = 0; i < EN; ++i)
    {
        ES[i] = (esnode *)malloc(sizeof(esnode));
        ES[i]->id = i;
        ES[i]->n.next = &x_spoison;
    }
    EL = (a_slist *)malloc(sizeof(a_slist));
    ESMn = 0;
    /* initialiser forms */
    {
        a_slist tmp = A_SLIST_INIT(*EL);
        a_slist_node nd = A_SLIST_NODE;
        *EL = tmp;
        VF_COUNT("form/A_SLIST_INIT");
        if (EL->head.next || EL->tail != &EL->head) { XFAIL("not-an-empty-list", "A_SLIST_INIT", "block-scope initialiser: head.next %p tail %p, head %p", (void *)EL->head.next, (void *)EL->tail, (void *)&EL->head); }
        if (x_static_slist.head.next || x_static_slist.tail != &x_static_slist.head) { XFAIL("not-an-empty-list", "A_SLIST_INIT", "static initialiser"); }
        VF_COUNT("form/A_SLIST_NODE");
        if (nd.next || x_spoison.next) { XFAIL("not-a-detached-node", "A_SLIST_NODE", "next %p / %p", (void *)nd.next, (void *)x_spoison.next); x_spoison.next = NULL; }
    }
    for (int v = 0; v < 3 && ok; ++v)
    {
        static char const *const nm[3] = {"a_slist_ctor", "a_slist_init", "a_slist_dtor"};
        EL->head.next = &x_spoison;
        EL->tail = &x_spoison;
        vf_log("slist prims: %s on a block whose fields point elsewhere", nm[v]);
        if (v == 0) { a_slist_ctor(EL); VF_COUNT("form/a_slist_ctor"); }
        else if (v == 1) { a_slist_init(EL); VF_COUNT("form/a_slist_init"); }
        else { a_slist_dtor(EL); VF_COUNT("form/a_slist_dtor"); }
        if (EL->head.next || EL->tail != &EL->head) { XFAIL("not-an-empty-list", nm[v], "head.next %p tail %p, head %p", (void *)EL->head.next, (void *)EL->tail, (void *)&EL->head); }
    }
    /* a list of m >= 1 nodes linked by hand: a_slist_link along the chain, null after the last node, tail set by the caller */
    m = 1 + (int)vf_below(&XR, EN - 3);
    vf_log("slist prims: list of %d nodes from a_slist_link only", m);
    a_slist_link(&EL->head, &ES[0]->n);
    for (int i = 0; i + 1 < m; ++i) { a_slist_link(&ES[i]->n, &ES[i + 1]->n); }
    a_slist_link(&ES[m - 1]->n, A_NULL);
    EL->tail = &ES[m - 1]->n;
    for (int i = 0; i < m; ++i) { ESM[ESMn++] = i; }
    VF_COUNT("form/a_slist_link");
    if (ok) { ok = es_check("a_slist_link"); }
    cell3("prims-build", emp((size_t)m), 0, 0);
    for (int step = 0; step < 6 && ok; ++step)
    {
        int pos, id;
        switch ((int)vf_below(&XR, 5))
        {
        case 0: /* insertion after position pos by two a_slist_link calls */
            if (ESMn >= EN) { break; }
            for (id = 0; id < EN && ES[id]->n.next != &x_spoison; ++id) {}
            if (id == EN) { break; }
            pos = (int)vf_below(&XR, (uint64_t)ESMn + 1) - 1;
            vf_log("slist prims: node %d linked in after position %d of %d by a_slist_link x2", id, pos, ESMn);
            {
                a_slist_node *prev = pos < 0 ? &EL->head : &ES[ESM[pos]]->n;
                a_slist_link(&ES[id]->n, prev->next);
                a_slist_link(prev, &ES[id]->n);
                if (pos + 1 == ESMn) { EL->tail = &ES[id]->n; }
            }
            memmove(&ESM[pos + 2], &ESM[pos + 1], (size_t)(ESMn - pos - 1) * sizeof(int));
            ESM[pos + 1] = id;
            ++ESMn;
            VF_COUNT("form/a_slist_link");
            ok = es_check("a_slist_link");
            cell3("prims-link-in", emp((size_t)ESMn - 1), pos < 0, pos + 2 == ESMn);
            break;
        case 1: /* removal of the node after position pos by one a_slist_link call */
            if (ESMn < 1) { break; }
            pos = (int)vf_below(&XR, (uint64_t)ESMn) - 1;
            vf_log("slist prims: node after position %d of %d unlinked by a_slist_link", pos, ESMn);
            {
                a_slist_node *prev = pos < 0 ? &EL->head : &ES[ESM[pos]]->n, *gone = prev->next;
                a_slist_link(prev, gone->next);
                if (!gone->next) { EL->tail = prev; }
                gone->next = &x_spoison;
            }
            memmove(&ESM[pos + 1], &ESM[pos + 2], (size_t)(ESMn - pos - 2) * sizeof(int));
            --ESMn;
            VF_COUNT("form/a_slist_link");
            ok = es_check("a_slist_link");
            cell3("prims-link-out", emp((size_t)ESMn + 1), pos < 0, pos + 1 == ESMn);
            break;
        case 2: /* the library accepts the hand-built list: rotation */
            vf_log("slist prims: a_slist_rot on the hand-built list of %d", ESMn);
            a_slist_rot(EL);
            if (ESMn > 1)
            {
                int first = ESM[0];
                memmove(&ESM[0], &ESM[1], (size_t)(ESMn - 1) * sizeof(int));
                ESM[ESMn - 1] = first;
            }
            ok = es_check("a_slist_rot");
            break;
        case 3:
            vf_log("slist prims: a_slist_del_head on the hand-built list of %d", ESMn);
            a_slist_del_head(EL);
            if (ESMn)
            {
                ES[ESM[0]]->n.next = &x_spoison;
                memmove(&ESM[0], &ESM[1], (size_t)(ESMn - 1) * sizeof(int));
                --ESMn;
            }
            ok = es_check("a_slist_del_head");
            break;
        default:
            if (ESMn >= EN) { break; }
            for (id = 0; id < EN && ES[id]->n.next != &x_spoison; ++id) {}
            if (id == EN) { break; }
            vf_log("slist prims: a_slist_add_tail(node %d) on the hand-built list of %d", id, ESMn);
            a_slist_add_tail(EL, &ES[id]->n);
            ESM[ESMn++] = id;
            ok = es_check("a_slist_add_tail");
            break;
        }
    }
    if (ok)
    {
        static char const *const nm[3] = {"a_slist_ctor", "a_slist_init", "a_slist_dtor"};
        int v = (int)vf_below(&XR, 3), cnt = 1 + (int)vf_below(&XR, 3);
        vf_log("slist prims: %s on the list of %d nodes, then %d nodes added at the tail", nm[v], ESMn, cnt);
        if (v == 0) { a_slist_ctor(EL); }
        else if (v == 1) { a_slist_init(EL); }
        else { a_slist_dtor(EL); }
        while (ESMn) { ES[ESM[--ESMn]]->n.next = &x_spoison; }
        ok = es_check(nm[v]);
        for (int j = 0; j < cnt && ok; ++j)
        {
            a_slist_add_tail(EL, &ES[j]->n);
            ESM[ESMn++] = j;
            ok = es_check(nm[v]);
        }
    }
    if (x_spoison.next) { XFAIL("foreign-object-written", "prims", "a primitive wrote through a link it should have replaced"); x_spoison.next = NULL; }
    for (int i = 0; i < EN; ++i) { free(ES[i]); }
    free(EL);
    return ok;
}

static int slist_coda(void)
{
    int alive = slist_forms(), passes = 3 + (int)vf_below(&XR, 3);
    for (int i = 0; i < passes && alive; ++i)
    {
        int k = (int)vf_below(&XR, 2), form = (int)vf_below(&XR, 2), id;
        if (vf_chance(&XR, 1, 2))
        {
            /* ctor / init / dtor on a USED list: its nodes are abandoned, the list must be empty and take nodes again */
            int v = (int)vf_below(&XR, 3);
            opname = v == 0 ? "ctor" : v == 1 ? "init" : "dtor";
            vf_log("slist a_slist_%s(list %d holding %d nodes), nodes abandoned, list re-used", opname, k, SMn[k]);
            if (v == 0) { a_slist_ctor(SL[k]); }
            else if (v == 1) { a_slist_init(SL[k]); }
            else { a_slist_dtor(SL[k]); }
            cell3(opname, emp((size_t)SMn[k]), 0, 0);
            while (SMn[k])
            {
                SN[SM[k][SMn[k] - 1]]->n.next = NULL;
                sm_remove(k, SMn[k] - 1);
            }
            VF_COUNT("slist-used-list-reset-and-reused");
            alive = slist_check();
            if (!alive) { break; }
        }
        while ((id = s_pick_detached(&XR)) >= 0 && vf_chance(&XR, 5, 6))
        {
            int how = (int)vf_below(&XR, 3), pos = (int)vf_below(&XR, (uint64_t)SMn[k] + 1) - 1;
            if (how == 0)
            {
                opname = "add_tail";
                vf_log("slist add_tail(list %d, node %d)", k, id);
                a_slist_add_tail(SL[k], &SN[id]->n);
                sm_insert(k, SMn[k], id);
            }
            else if (how == 1)
            {
                opname = "add_head";
                vf_log("slist add_head(list %d, node %d)", k, id);
                a_slist_add_head(SL[k], &SN[id]->n);
                sm_insert(k, 0, id);
            }
            else
            {
                opname = "add";
                vf_log("slist add(list %d, prev=%s%d, node %d)", k, pos < 0 ? "head" : "position ", pos < 0 ? 0 : pos, id);
                a_slist_add(SL[k], s_member(k, pos), &SN[id]->n);
                sm_insert(k, pos + 1, id);
            }
            alive = slist_check();
            if (!alive) { break; }
        }
        if (!alive) { break; }
        alive = slist_check();
        if (!alive) { break; }
        ++vf.evals;
        alive = slist_forsafe_remove(k, form);
        if (!slist_check()) { alive = 0; }
        if (alive) { alive = slist_forms(); }
    }
    for (int i = 0; i < 2 && alive; ++i) { alive = slist_prims(); }
    return alive;
}

/* ------------------------------------------------------------------ que.h: typed accessors and iteration macros */
typedef struct
{
    unsigned char b[QSZ];
} q24;

__attribute__((noinline)) static int qw_step(char const *form, int k, void const *it, size_t tsz, int rev, size_t *n)
{
    int ok = 1;
    qmodel const *m = &Q[k];
    size_t at;
    if (*n >= m->n) { XFAIL("walk-longer-than-model", form, "queue %d: more than %zu elements visited", k, m->n); return 0; }
    at = rev ? m->n - 1 - *n : *n;
    if (it != m->addr[at]) { XFAIL("sequence", form, "queue %d visit %zu: element at %p, model element %zu at %p", k, *n, it, at, m->addr[at]); return 0; }
    if (memcmp(it, m->pay[at], tsz) != 0) { XFAIL("contents", form, "queue %d visit %zu: the first %zu bytes differ from the model", k, *n, tsz); return 0; }
    ++*n;
    return ok;
}
__attribute__((noinline)) static int qw_end(char const *form, int k, size_t n)
{
    int ok = 1;
    if (n != Q[k].n) { XFAIL("count", form, "queue %d: visited %zu of %zu elements", k, n, Q[k].n); }
    return ok;
}
/* a typed accessor's result e must be element i of queue k (i == SIZE_MAX: null), its first tsz bytes the model's */
__attribute__((noinline)) static int qa_same(char const *clause, char const *form, char const *tag, int k, void const *e, size_t i, size_t tsz)
{
    int ok = 1;
    qmodel const *m = &Q[k];
    if (i == SIZE_MAX ? e != NULL : (e != m->addr[i] || memcmp(e, m->pay[i], tsz) != 0))
    {
        XFAIL(clause, form, "queue %d (%zu elements) as %s: %p is not element %zd with the model's bytes", k, m->n, tag, e, (ssize_t)i);
    }
    return ok;
}
/* one evaluation of every typed observation form (QF_TYPED below executes each of them exactly once per call) */
__attribute__((noinline)) static void qf_count(int nonempty)
{
    VF_COUNT("form/A_QUE_FORE");
    VF_COUNT("form/A_QUE_BACK");
    VF_COUNT("form/A_QUE_AT");
    VF_COUNT("form/a_que_foreach");
    VF_COUNT("form/a_que_foreach_reverse");
    VF_COUNT("form/A_QUE_FOREACH");
    VF_COUNT("form/A_QUE_FOREACH_REVERSE");
    if (nonempty)
    {
        VF_COUNT("form/A_QUE_FORE_");
        VF_COUNT("form/A_QUE_BACK_");
    }
}
#define QW_STEP(form, itv, rev) \
    {                           \
        if (!qw_step(form, k, (void const *)(itv), sizeof(*(itv)), rev, &n)) { ok = 0; break; } \
    }
#define QW_END(form) \
    if (ok) { ok = qw_end(form, k, n); }
#define QA(clause, form, tag, e, i) \
    if (!qa_same(clause, form, tag, k, (void const *)(e), i, sizeof(*(e)))) { ok = 0; }
/* every typed form for element type T through the queue handle qh (a_que * or a_que const *) */
#define QF_TYPED(T, tag, qh)                                                                                             \
    {                                                                                                                    \
        T *it, *at, *e_;                                                                                                 \
        size_t n;                                                                                                        \
        VF_COUNT("form-instantiation/" tag);                                                                             \
        qf_count(m->n != 0);                                                                                             \
        e_ = A_QUE_FORE(T, qh); QA("fore", "A_QUE_FORE", tag, e_, m->n ? 0 : SIZE_MAX)                                   \
        e_ = A_QUE_BACK(T, qh); QA("back", "A_QUE_BACK", tag, e_, m->n ? m->n - 1 : SIZE_MAX)                            \
        if (m->n)                                                                                                        \
        {                                                                                                                \
            size_t const ix[3] = {0, m->n / 2, m->n - 1};                                                                \
            e_ = A_QUE_FORE_(T, qh); QA("fore", "A_QUE_FORE_", tag, e_, 0)                                               \
            e_ = A_QUE_BACK_(T, qh); QA("back", "A_QUE_BACK_", tag, e_, m->n - 1)                                        \
            for (int j = 0; j < 3; ++j)                                                                                  \
            {                                                                                                            \
                e_ = A_QUE_AT(T, qh, (a_diff)ix[j]); QA("at-from-front", "A_QUE_AT", tag, e_, ix[j])                     \
                e_ = A_QUE_AT(T, qh, -(a_diff)ix[j] - 1); QA("at-from-back", "A_QUE_AT", tag, e_, m->n - 1 - ix[j])      \
            }                                                                                                            \
        }                                                                                                                \
        e_ = A_QUE_AT(T, qh, (a_diff)m->n); QA("at-out-of-range", "A_QUE_AT", tag, e_, SIZE_MAX)                         \
        e_ = A_QUE_AT(T, qh, -(a_diff)m->n - 1); QA("at-out-of-range", "A_QUE_AT", tag, e_, SIZE_MAX)                    \
        n = 0; a_que_foreach(T, *, p, qh) QW_STEP("a_que_foreach", p, 0) QW_END("a_que_foreach")                         \
        n = 0; a_que_foreach_reverse(T, *, p, qh) QW_STEP("a_que_foreach_reverse", p, 1) QW_END("a_que_foreach_reverse") \
        n = 0; A_QUE_FOREACH(T *, it, at, qh) QW_STEP("A_QUE_FOREACH", it, 0) QW_END("A_QUE_FOREACH")                    \
        n = 0; A_QUE_FOREACH_REVERSE(T *, it, at, qh) QW_STEP("A_QUE_FOREACH_REVERSE", it, 1) QW_END("A_QUE_FOREACH_REVERSE") \
    }

static int que_forms(void)
{
    int ok = 1;
    char const *op_ = opname;
    opname = "forms";
    for (int k = 0; k < 2 && ok; ++k)
    {
        qmodel *m = &Q[k];
        a_que *q = m->q;
        a_que const *cq = m->q;
        if (m->n)
        {
            VF_COUNT("form/a_que_fore_");
            if (a_que_fore_(cq) != m->addr[0]) { XFAIL("fore", "a_que_fore_", "queue %d (%zu elements)", k, m->n); }
            VF_COUNT("form/a_que_back_");
            if (a_que_back_(cq) != m->addr[m->n - 1]) { XFAIL("back", "a_que_back_", "queue %d (%zu elements)", k, m->n); }
        }
        QF_TYPED(unsigned char, "unsigned-char", q)
        if (m->siz >= sizeof(uint64_t)) { QF_TYPED(uint64_t const, "uint64_t-const", cq) }
        if (m->siz == QSZ) { QF_TYPED(q24, "struct-of-24-bytes", q) }
    }
    opname = op_;
    return ok;
}

/* ------------------------------------------------------------------ que: every entry point on an EMPTY and on a ONE-ELEMENT queue
 * que_edges(k) needs queue k empty (model and library). It is run on a random half of the cases on the freshly constructed
 * queues (no node was ever allocated) and at the end of every history after the queue was drained by pulls (all its nodes
 * are in the recycling pool). On the empty queue: a_que_sort_fore, a_que_sort_back (nothing to do, state unchanged),
 * a_que_at at 0, +-1, +-2 and the extreme indices, a_que_fore/back (null), a_que_pull_fore/pull_back/remove(0)/remove(SIZE_MAX)
 * (null, state unchanged), a_que_drop with and without destructor (success, no call), a_que_push_sort (the element becomes
 * the only one). On the one-element queue: sort_fore/sort_back (unchanged), at(0) == at(-1) == fore == back == the element,
 * everything else null, push_sort of a key below / equal / above (position judged) and removal of the new element again,
 * pull_fore / pull_back / remove(0) / remove(1) / remove(SIZE_MAX) each returning the element and emptying the queue
 * (refilled by push_fore / push_back / insert(0) / insert(SIZE_MAX) in turn), the caller idioms of que_recycle on the only
 * element (pull_fore + push_back + copy-if-another-node; pull_back + key rewritten in place + push_sort with key = the pulled
 * pointer: keys .../recycled-source/contents/one-element-queue, .../recycled-key/contents/one-element-queue),
 * a_que_drop with destructor (exactly one call,
 * on the element). The complete state comparison (que_check: ring, num, fore/back, at(+-i), bytes, addresses) follows
 * every call. Keys: "que_<api>/<clause>/empty-queue" and ".../one-element-queue". */
static int qe_cmp(void)
{
    int ok = 1;
    VF_COUNT("que-comparator-receives-elements-only");
    if (cmp_foreign) { FAIL("comparator-received-non-element", "%d comparator calls with a pointer that is neither an enqueued element nor the key", cmp_foreign); }
    return ok && que_check();
}
static int qe_null(void *p)
{
    int ok = 1;
    if (p) { FAIL("non-null-from-empty", "returned %p", p); }
    return ok && que_check();
}
static int qe_one(int k, void *p, unsigned char const *el)
{
    int ok = 1;
    qmodel *m = &Q[k];
    if (!p) { FAIL("unexpected-null", "push returned null"); return 0; }
    if (q_enqueued(p)) { FAIL("handed-out-node-still-enqueued", "push returned %p which is the address of an enqueued element", p); return 0; }
    memcpy(p, el, m->siz);
    qm_insert(m, 0, el, p);
    return que_check();
}
static int qe_gone(int k, void *p)
{
    int ok = 1;
    qmodel *m = &Q[k];
    if (p != m->addr[0]) { FAIL("wrong-element-returned", "returned %p, the only element lives at %p", p, m->addr[0]); return 0; }
    if (memcmp(p, m->pay[0], m->siz) != 0) { FAIL("returned-element-not-intact", "payload changed"); return 0; }
    qm_remove(m, 0);
    return que_check();
}
static int que_edges(int k)
{
    static a_diff const far[] = {0, -1, 1, -2, 2, PTRDIFF_MAX, PTRDIFF_MIN};
    int ok = 1, rc;
    qmodel *m = &Q[k];
    a_que *q = m->q;
    unsigned char el[QSZ], el2[QSZ];
    void *p;
    if (m->n) { return 1; }
    q_siz_cb = m->siz;
    xform = "empty-queue";
    VF_COUNT("que-entry-points-on-empty-queue");
    vf_log("que %d: every entry point on the empty queue (%zu nodes in the pool), then on a one-element queue", k, q->cur_);
    cell3("edges", q->cur_ == 0 ? 0 : q->cur_ == 1 ? 1 : 2, (int)m->siz, 0);
    opname = "sort_fore"; vf_log("que %d sort_fore (num 0)", k); cmp_arm(NULL, NULL); a_que_sort_fore(q, q_cmp); if (!qe_cmp()) { return 0; }
    opname = "sort_back"; vf_log("que %d sort_back (num 0)", k); cmp_arm(NULL, NULL); a_que_sort_back(q, q_cmp); if (!qe_cmp()) { return 0; }
    opname = "at";
    for (size_t i = 0; i < sizeof(far) / sizeof(far[0]); ++i)
    {
        vf_log("que %d at(%td) (num 0)", k, far[i]);
        if (a_que_at(q, far[i])) { FAIL("at-out-of-range", "at(%td) on the empty queue is not null", far[i]); return 0; }
    }
    opname = "pull_fore"; vf_log("que %d pull_fore (num 0)", k); if (!qe_null(a_que_pull_fore(q))) { return 0; }
    opname = "pull_back"; vf_log("que %d pull_back (num 0)", k); if (!qe_null(a_que_pull_back(q))) { return 0; }
    opname = "remove"; vf_log("que %d remove idx=0 (num 0)", k); if (!qe_null(a_que_remove(q, 0))) { return 0; }
    vf_log("que %d remove idx=SIZE_MAX (num 0)", k); if (!qe_null(a_que_remove(q, SIZE_MAX))) { return 0; }
    for (int v = 0; v < 2; ++v)
    {
        opname = "drop"; vf_log("que %d drop %s destructor (num 0)", k, v ? "with" : "without");
        dt_begin(k);
        rc = a_que_drop(q, v ? q_dtor : NULL);
        if (!dt_end(k, v)) { return 0; }
        if (rc != A_SUCCESS) { FAIL("unexpected-error", "rc %d", rc); return 0; }
        if (!que_check()) { return 0; }
    }
    q_mk(&XR, m, el, 1 + (int)vf_below(&XR, 254));
    opname = "push_sort"; vf_log("que %d push_sort key %u (num 0)", k, el[0]);
    cmp_arm(el, NULL);
    p = a_que_push_sort(q, el, q_cmp);
    if (cmp_foreign) { FAIL("comparator-received-non-element", "%d comparator calls although the queue was empty", cmp_foreign); return 0; }
    if (!qe_one(k, p, el)) { return 0; }
    /* ---- one element */
    xform = "one-element-queue";
    VF_COUNT("que-entry-points-on-one-element-queue");
    opname = "sort_fore"; vf_log("que %d sort_fore (num 1)", k); cmp_arm(NULL, NULL); a_que_sort_fore(q, q_cmp); if (!qe_cmp()) { return 0; }
    opname = "sort_back"; vf_log("que %d sort_back (num 1)", k); cmp_arm(NULL, NULL); a_que_sort_back(q, q_cmp); if (!qe_cmp()) { return 0; }
    opname = "at";
    for (size_t i = 0; i < sizeof(far) / sizeof(far[0]); ++i)
    {
        void *want = far[i] == 0 || far[i] == -1 ? m->addr[0] : NULL;
        vf_log("que %d at(%td) (num 1)", k, far[i]);
        if (a_que_at(q, far[i]) != want) { FAIL(want ? "at-from-front" : "at-out-of-range", "at(%td) on the one-element queue", far[i]); return 0; }
    }
    for (int v = 0; v < 3; ++v)
    {
        size_t pos, found = SIZE_MAX;
        a_list *it;
        q_mk(&XR, m, el2, v == 0 ? el[0] - 1 : v == 1 ? el[0] : el[0] + 1);
        opname = "push_sort"; vf_log("que %d push_sort key %u beside the only element of key %u", k, el2[0], el[0]);
        cmp_arm(el2, NULL);
        p = a_que_push_sort(q, el2, q_cmp);
        if (cmp_foreign) { FAIL("comparator-received-non-element", "%d comparator calls with a pointer that is neither the only element nor the key", cmp_foreign); return 0; }
        if (!p) { FAIL("unexpected-null", "push returned null"); return 0; }
        if (q_enqueued(p)) { FAIL("handed-out-node-still-enqueued", "push returned the address of the enqueued element"); return 0; }
        memcpy(p, el2, m->siz);
        for (it = q->head_.next, pos = 0; it != &q->head_ && pos < 3; it = it->next, ++pos)
        {
            if ((void *)(it + 1) == p) { found = pos; }
        }
        if (found > 1 || (v == 0 && found != 0) || (v == 2 && found != 1)) { FAIL("not-sorted", "key %u went to position %zd beside key %u", el2[0], (ssize_t)found, el[0]); return 0; }
        qm_insert(m, found, el2, p);
        if (!que_check()) { return 0; }
        opname = "remove"; vf_log("que %d remove idx=%zu (num 2)", k, found);
        p = a_que_remove(q, found);
        if (p != m->addr[found]) { FAIL("wrong-element-returned", "returned %p, element %zu lives at %p", p, found, m->addr[found]); return 0; }
        qm_remove(m, found);
        if (!que_check()) { return 0; }
    }
    for (int v = 0; v < 5; ++v)
    {
        switch (v)
        {
        case 0: opname = "pull_fore"; vf_log("que %d pull_fore (num 1)", k); p = a_que_pull_fore(q); break;
        case 1: opname = "pull_back"; vf_log("que %d pull_back (num 1)", k); p = a_que_pull_back(q); break;
        case 2: opname = "remove"; vf_log("que %d remove idx=0 (num 1)", k); p = a_que_remove(q, 0); break;
        case 3: opname = "remove"; vf_log("que %d remove idx=1 (num 1)", k); p = a_que_remove(q, 1); break;
        default: opname = "remove"; vf_log("que %d remove idx=SIZE_MAX (num 1)", k); p = a_que_remove(q, SIZE_MAX); break;
        }
        if (!qe_gone(k, p)) { return 0; }
        q_mk(&XR, m, el, -1);
        switch (v)
        {
        case 0: opname = "push_fore"; vf_log("que %d push_fore (num 0)", k); p = a_que_push_fore(q); break;
        case 1: opname = "push_back"; vf_log("que %d push_back (num 0)", k); p = a_que_push_back(q); break;
        case 2: opname = "insert"; vf_log("que %d insert idx=0 (num 0)", k); p = a_que_insert(q, 0); break;
        case 3: opname = "insert"; vf_log("que %d insert idx=1 (num 0)", k); p = a_que_insert(q, 1); break;
        default: opname = "insert"; vf_log("que %d insert idx=SIZE_MAX (num 0)", k); p = a_que_insert(q, SIZE_MAX); break;
        }
        if (!qe_one(k, p, el)) { return 0; }
    }
    /* the caller idioms of que_recycle on the only element: rotate (pull_fore, push_back, copy if another node came back) and
       re-prioritise (pull_back, new key written in place, push_sort with key = the pulled pointer into the now empty queue) */
    for (int v = 0; v < 2; ++v)
    {
        unsigned char *pp, *d;
        memcpy(el, m->pay[0], QSZ);
        if (v == 0) { opname = "pull_fore"; vf_log("que %d pull_fore (num 1), the returned pointer is kept", k); pp = (unsigned char *)a_que_pull_fore(q); }
        else { opname = "pull_back"; vf_log("que %d pull_back (num 1), the returned pointer is kept", k); pp = (unsigned char *)a_que_pull_back(q); }
        if (pp != m->addr[0]) { FAIL("wrong-element-returned", "returned %p, the only element lives at %p", (void *)pp, m->addr[0]); return 0; }
        if (memcmp(pp, m->pay[0], m->siz) != 0) { FAIL("returned-element-not-intact", "payload changed"); return 0; }
        qm_remove(m, 0);
        if (v == 0)
        {
            opname = "push_back"; vf_log("que %d push_back (num 0); then if (d != p) memcpy(d, p, %zu) from the pulled pointer", k, m->siz);
            d = (unsigned char *)a_que_push_back(q);
        }
        else
        {
            el[0] = (unsigned char)(1 + vf_below(&XR, 254));
            pp[0] = el[0];
            opname = "push_sort"; vf_log("que %d push_sort with key = the pulled pointer (key byte %u rewritten in place, num 0); then if (d != p) memcpy(d, p, %zu)", k, el[0], m->siz);
            cmp_arm(pp, NULL);
            d = (unsigned char *)a_que_push_sort(q, pp, q_cmp);
            if (cmp_foreign) { FAIL("comparator-received-non-element", "%d comparator calls although the queue was empty", cmp_foreign); return 0; }
        }
        if (!d) { FAIL("unexpected-null", "push returned null"); return 0; }
        if (d != pp)
        {
            if (memcmp(pp, el, m->siz) != 0) { FAIL(v ? "recycled-key/pulled-element-changed" : "recycled-source/pulled-element-changed", "the push returned another node and the pulled element no longer holds the caller's bytes"); return 0; }
            memcpy(d, pp, m->siz);
        }
        if (v == 0) { VF_COUNT("que-recycled-node-as-copy-source"); }
        else { VF_COUNT("que-recycled-node-as-push_sort-key"); }
        if (memcmp(d, el, m->siz) != 0) { FAIL(v ? "recycled-key/contents" : "recycled-source/contents", "the re-inserted only element (%s the pulled node) differs from what the caller left in it", d == pp ? "in place," : "copied from"); return 0; }
        qm_insert(m, 0, el, d);
        if (!que_check()) { return 0; }
    }
    opname = "drop"; vf_log("que %d drop with destructor (num 1)", k);
    dt_begin(k);
    rc = a_que_drop(q, q_dtor);
    if (!dt_end(k, 1)) { return 0; }
    if (rc != A_SUCCESS) { FAIL("unexpected-error", "rc %d", rc); return 0; }
    m->n = 0;
    if (!que_check()) { return 0; }
    xform = NULL;
    vf.evals += 46; /* API calls judged above */
    return ok;
}
/* the queue is emptied by pulls (every node goes to the recycling pool), each judged like the pulls of the history */
static int que_drain(int k)
{
    qmodel *m = &Q[k];
    a_que *q = m->q;
    xform = NULL;
    while (m->n)
    {
        int ok = 1, how = (int)vf_below(&XR, 3);
        size_t at = how == 0 ? 0 : how == 1 ? m->n - 1 : (size_t)vf_below(&XR, m->n);
        void *p;
        if (how == 0) { opname = "pull_fore"; vf_log("que %d pull_fore (num %zu)", k, m->n); p = a_que_pull_fore(q); }
        else if (how == 1) { opname = "pull_back"; vf_log("que %d pull_back (num %zu)", k, m->n); p = a_que_pull_back(q); }
        else { opname = "remove"; vf_log("que %d remove idx=%zu (num %zu)", k, at, m->n); p = a_que_remove(q, at); }
        if (p != m->addr[at]) { FAIL("wrong-element-returned", "returned %p, element %zu lives at %p", p, at, m->addr[at]); return 0; }
        if (memcmp(p, m->pay[at], m->siz) != 0) { FAIL("returned-element-not-intact", "payload changed"); return 0; }
        qm_remove(m, at);
        if (!que_check()) { return 0; }
    }
    return 1;
}

/* ------------------------------------------------------------------ que.h: typed mutation macros in place of the functions
 * XR decides per call: 1/4 FORM(unsigned char, ..), 1/4 FORM(uint64_t, ..) (element size >= 8, else FORM(unsigned char const, ..)),
 * 1/2 the function. The caller applies the same model update and clauses; `xform` suffixes the key while the form is in flight. */
#define QX_PICK(FORM, call_uc, call_u64, call_ucc, call_fn)                                      \
    switch ((int)vf_below(&XR, 4))                                                               \
    {                                                                                            \
    case 0:                                                                                      \
        xform = #FORM; VF_COUNT("form/" #FORM); vf_log("  through " #FORM "(unsigned char, ..)"); \
        return (void *)call_uc;                                                                  \
    case 1:                                                                                      \
        xform = #FORM; VF_COUNT("form/" #FORM);                                                  \
        if (a_que_siz(q) >= sizeof(uint64_t)) { vf_log("  through " #FORM "(uint64_t, ..)"); return (void *)call_u64; } \
        vf_log("  through " #FORM "(unsigned char const, ..)");                                  \
        return (void *)call_ucc;                                                                 \
    default: return call_fn;                                                                     \
    }
static void *qx_push_back(a_que *q) { QX_PICK(A_QUE_PUSH_BACK, A_QUE_PUSH_BACK(unsigned char, q), A_QUE_PUSH_BACK(uint64_t, q), A_QUE_PUSH_BACK(unsigned char const, q), a_que_push_back(q)) }
static void *qx_push_fore(a_que *q) { QX_PICK(A_QUE_PUSH_FORE, A_QUE_PUSH_FORE(unsigned char, q), A_QUE_PUSH_FORE(uint64_t, q), A_QUE_PUSH_FORE(unsigned char const, q), a_que_push_fore(q)) }
static void *qx_pull_back(a_que *q) { QX_PICK(A_QUE_PULL_BACK, A_QUE_PULL_BACK(unsigned char, q), A_QUE_PULL_BACK(uint64_t, q), A_QUE_PULL_BACK(unsigned char const, q), a_que_pull_back(q)) }
static void *qx_pull_fore(a_que *q) { QX_PICK(A_QUE_PULL_FORE, A_QUE_PULL_FORE(unsigned char, q), A_QUE_PULL_FORE(uint64_t, q), A_QUE_PULL_FORE(unsigned char const, q), a_que_pull_fore(q)) }
static void *qx_insert(a_que *q, size_t idx) { QX_PICK(A_QUE_INSERT, A_QUE_INSERT(unsigned char, q, idx), A_QUE_INSERT(uint64_t, q, idx), A_QUE_INSERT(unsigned char const, q, idx), a_que_insert(q, idx)) }
static void *qx_remove(a_que *q, size_t idx) { QX_PICK(A_QUE_REMOVE, A_QUE_REMOVE(unsigned char, q, idx), A_QUE_REMOVE(uint64_t, q, idx), A_QUE_REMOVE(unsigned char const, q, idx), a_que_remove(q, idx)) }
static void *qx_push_sort(a_que *q, void const *key, int (*cmp)(void const *, void const *))
{
    QX_PICK(A_QUE_PUSH_SORT, A_QUE_PUSH_SORT(unsigned char, q, key, cmp), A_QUE_PUSH_SORT(uint64_t, q, key, cmp), A_QUE_PUSH_SORT(unsigned char const, q, key, cmp), a_que_push_sort(q, key, cmp))
}

#pragma GCC pop_options

/* ===================================================================== LARGE-SIZE / LONG-HISTORY workloads
 * One case in 41 (quick) / 1201 (thorough) drives one container family to thousands .. 65537 (thorough: up to ~200000)
 * nodes/elements. Each large case keeps its own sequence model (a double-ended array of {address, id, key}) and
 * compares the COMPLETE ring with it (every node, both directions / every payload byte) at checkpoints placed at
 * every n with |n - 2^k| <= 2 while the container grows or shrinks, and after every structural operation performed
 * at large size. Bulk phases log one line per operation but rewind the journal to the phase header, so the journal
 * always holds the phase description and the operation in flight.
 * Violation keys: "<family>_<api>/<clause>/large".
 */
#define LFAIL(clause, ...)                                                   \
    do {                                                                     \
        char key_[128];                                                      \
        snprintf(key_, sizeof(key_), "%s_%s/%s/large", fam, opname, clause); \
        vf_viol(key_, __VA_ARGS__);                                          \
        ok = 0;                                                              \
    } while (0)

typedef struct
{
    void *addr; /* queue: payload address while enqueued */
    uint32_t id, key;
} lge;
typedef struct
{
    lge *base;
    size_t cap, off, n;
} lseq;
#define LS(s, i) ((s)->base[(s)->off + (i)])

static void ls_init(lseq *s, size_t cap)
{
    s->base = (lge *)malloc(cap * sizeof(lge));
    if (!s->base) { fprintf(stderr, "vf: out of memory (large model)\n"); exit(2); }
    s->cap = cap;
    s->off = cap / 2;
    s->n = 0;
}
static void ls_free(lseq *s)
{
    free(s->base);
    s->base = NULL;
}
static void ls_clear(lseq *s)
{
    s->n = 0;
    s->off = s->cap / 2;
}
/* open a hole of cnt entries at position pos */
static void ls_open(lseq *s, size_t pos, size_t cnt)
{
    size_t front = s->off, back = s->cap - s->off - s->n;
    int use_front = pos <= s->n - pos;
    if (use_front ? front < cnt : back < cnt)
    {
        /* no room on the cheap side: re-centre (amortised over the next (cap - n) / 2 insertions at that end) */
        size_t noff;
        if (s->cap < s->n + 2 * cnt + 2) { fprintf(stderr, "vf: large model capacity exceeded\n"); exit(2); }
        noff = (s->cap - s->n) / 2;
        memmove(s->base + noff, s->base + s->off, s->n * sizeof(lge));
        s->off = noff;
    }
    if (use_front)
    {
        memmove(s->base + s->off - cnt, s->base + s->off, pos * sizeof(lge));
        s->off -= cnt;
    }
    else
    {
        memmove(s->base + s->off + pos + cnt, s->base + s->off + pos, (s->n - pos) * sizeof(lge));
    }
    s->n += cnt;
}
static void ls_close(lseq *s, size_t pos, size_t cnt)
{
    if (pos <= s->n - pos - cnt)
    {
        memmove(s->base + s->off + cnt, s->base + s->off, pos * sizeof(lge));
        s->off += cnt;
    }
    else
    {
        memmove(s->base + s->off + pos, s->base + s->off + pos + cnt, (s->n - pos - cnt) * sizeof(lge));
    }
    s->n -= cnt;
    if (!s->n) { s->off = s->cap / 2; }
}
static void ls_insert(lseq *s, size_t pos, lge e)
{
    ls_open(s, pos, 1);
    LS(s, pos) = e;
}
static void ls_insert_n(lseq *s, size_t pos, lge const *src, size_t cnt)
{
    if (!cnt) { return; }
    ls_open(s, pos, cnt);
    memcpy(&LS(s, pos), src, cnt * sizeof(lge));
}
static void ls_remove_n(lseq *s, size_t pos, size_t cnt, lge *out)
{
    if (!cnt) { return; }
    if (out) { memcpy(out, &LS(s, pos), cnt * sizeof(lge)); }
    ls_close(s, pos, cnt);
}
static lge *lg_tmp, *lg_tmp2; /* scratch, capacity = all nodes of the case */

static int lg_near_pow2(size_t n)
{
    for (size_t p = 1; p; p <<= 1)
    {
        size_t d = n > p ? n - p : p - n;
        if (d <= 2) { return 1; }
        if (p > n) { break; }
    }
    return 0;
}
static int lg_log2(size_t n)
{
    int k = 0;
    while (n > 1) { n >>= 1; ++k; }
    return k;
}
/* a position in [0, n), n > 0: ends, middle, 2^k-1 / 2^k / 2^k+1, random */
static size_t lg_pos(vf_rng *r, size_t n, int *cls)
{
    int c = (int)vf_below(r, 8);
    size_t p;
    *cls = c > 5 ? 6 : c == 4 ? 3 : c;
    switch (c)
    {
    case 0: return 0;
    case 1: return n - 1;
    case 2: return n / 2;
    case 3: case 4:
        p = ((size_t)1 << vf_below(r, 18)) + (size_t)vf_below(r, 3);
        p = p ? p - 1 : 0;
        return p < n ? p : n - 1 - (size_t)vf_below(r, n < 3 ? n : 3);
    case 5: return n > 1 ? n - 2 : 0;
    default: return (size_t)vf_below(r, n);
    }
}
/* a length in [1, n], n > 0: 1, 2, whole, whole-1, half, third, 2^k +- 1, random */
static size_t lg_len(vf_rng *r, size_t n)
{
    size_t l;
    switch ((int)vf_below(r, 9))
    {
    case 0: l = 1; break;
    case 1: l = 2; break;
    case 2: l = n; break;
    case 3: l = n - 1; break;
    case 4: l = n / 2; break;
    case 5: l = n / 3; break;
    case 6: case 7:
        l = ((size_t)1 << vf_below(r, 18)) + (size_t)vf_below(r, 3);
        l = l > 1 ? l - 1 : 1;
        break;
    default: l = 1 + (size_t)vf_below(r, n); break;
    }
    if (l < 1) { l = 1; }
    if (l > n) { l = n; }
    return l;
}
/* a repetition count for rotations on a ring of n: 1, 2, n-1, n, n+1, 2^k +- 1, random */
static size_t lg_reps(vf_rng *r, size_t n)
{
    switch ((int)vf_below(r, 7))
    {
    case 0: return 1;
    case 1: return 2;
    case 2: return n ? n - 1 : 1;
    case 3: return n;
    case 4: return n + 1;
    case 5: return ((size_t)1 << vf_below(r, 17)) + (size_t)vf_below(r, 3) - 1;
    default: return 1 + (size_t)vf_below(r, n + 2);
    }
}
/* target sizes: slot 0..11; odd rounds of the thorough tier use the larger variants */
static size_t lg_target(unsigned slot, int big, vf_rng *r)
{
    switch (slot)
    {
    case 0: return 4097;
    case 1: return 65537;
    case 2: return 65536;
    case 3: return 1023;
    case 4: return (size_t)vf_range(r, 300, 5000);
    case 5: return 65535;
    case 6: return big ? 131073 : 16385;
    case 7: return big ? 131072 : 32767;
    case 8: return big ? (size_t)vf_range(r, 70000, 200000) : (size_t)vf_range(r, 40000, 70000);
    case 9: return 257;
    case 10: return ((size_t)1 << vf_range(r, 8, 15)) + (size_t)vf_below(r, 3) - 1;
    default: return (size_t)vf_range(r, 5000, 40000);
    }
}

/* --------------------------------------------------------------------- large: list.h */
static lnode **GL;
static size_t GLn;
static uint32_t *GLfree;
static size_t GLnfree;
static a_list *GH[2];
static lseq GS[2];

static int ll_id(a_list const *p)
{
    uint32_t id;
    if (p == GH[0] || p == GH[1]) { return -1; }
    id = (uint32_t)((lnode const *)(void const *)p)->id;
    return id < GLn && &GL[id]->n == p ? (int)id : -1;
}
#define LLN(k, i) (&GL[LS(&GS[k], i).id]->n)
static a_list *ll_member(int k, long pos) { return pos < 0 ? GH[k] : LLN(k, (size_t)pos); }

static int ll_check(void)
{
    int ok = 1;
    VF_COUNT("large-list-rings-walked");
    for (int k = 0; k < 2; ++k)
    {
        a_list *h = GH[k], *it;
        lseq *s = &GS[k];
        size_t n = 0;
        for (it = h->next; it != h; it = it->next)
        {
            int id = ll_id(it);
            if (id < 0) { LFAIL("foreign-node-in-ring", "list %d forward step %zu reaches %p which is neither a pool node nor this head", k, n, (void *)it); return 0; }
            if (n >= s->n) { LFAIL("forward-walk-longer-than-model", "list %d: more than %zu nodes (or ring not closed on its head)", k, s->n); return 0; }
            if ((uint32_t)id != LS(s, n).id) { LFAIL("forward-sequence", "list %d position %zu of %zu: node %d, model %u", k, n, s->n, id, LS(s, n).id); return 0; }
            if (it->next->prev != it) { LFAIL("next-prev-inconsistent", "list %d node %d at %zu: next->prev != node", k, id, n); return 0; }
            if (it->prev->next != it) { LFAIL("prev-next-inconsistent", "list %d node %d at %zu: prev->next != node", k, id, n); return 0; }
            ++n;
        }
        if (n != s->n) { LFAIL("forward-walk-shorter-than-model", "list %d: %zu nodes, model %zu", k, n, s->n); return 0; }
        if (h->next->prev != h || h->prev->next != h) { LFAIL("head-links-inconsistent", "list %d head", k); return 0; }
        n = 0;
        for (it = h->prev; it != h; it = it->prev)
        {
            int id = ll_id(it);
            if (id < 0 || n >= s->n || (uint32_t)id != LS(s, s->n - 1 - n).id) { LFAIL("backward-sequence", "list %d backward position %zu of %zu", k, n, s->n); return 0; }
            ++n;
        }
        if (n != s->n) { LFAIL("backward-walk-length", "list %d: %zu nodes backward, model %zu", k, n, s->n); return 0; }
        VF_ADD("large-list-nodes-compared", 2 * n);
    }
    ++vf.evals;
    return ok;
}
/* a detached chain first..last must be internally linked like the model section */
static int ll_chain_check(lge const *sec, size_t cnt)
{
    int ok = 1;
    VF_COUNT("large-list-detached-chain-walked");
    for (size_t i = 0; i + 1 < cnt; ++i)
    {
        a_list *a = &GL[sec[i].id]->n, *b = &GL[sec[i + 1].id]->n;
        if (a->next != b || b->prev != a) { LFAIL("detached-chain-links", "chain position %zu of %zu: interior links changed", i, cnt); return 0; }
    }
    return ok;
}
static lge ll_take_free(vf_rng *r)
{
    lge e;
    size_t i = (size_t)vf_below(r, GLnfree);
    e.addr = NULL;
    e.key = 0;
    e.id = GLfree[i];
    GLfree[i] = GLfree[--GLnfree];
    return e;
}
static void ll_give_free(uint32_t id)
{
    a_list_init(&GL[id]->n);
    GLfree[GLnfree++] = id;
}
/* one single-node addition at ring position pos (-1 = head) by variant v: 0 add_next 1 add_prev 2 add_node */
static void ll_add1(int k, long pos, int v, lge e)
{
    lseq *s = &GS[k];
    a_list *ctx = ll_member(k, pos), *node = &GL[e.id]->n;
    if (v == 0) { opname = "add_next"; a_list_add_next(ctx, node); ls_insert(s, (size_t)(pos + 1), e); }
    else if (v == 1) { opname = "add_prev"; a_list_add_prev(ctx, node); ls_insert(s, pos < 0 ? s->n : (size_t)pos, e); }
    else { opname = "add_node"; a_list_add_node(ctx->next, ctx, node); ls_insert(s, (size_t)(pos + 1), e); }
}

static void list_large(uint64_t c, vf_rng *r, size_t N)
{
    int alive = 1, cls = 0, nops;
    uint32_t mark;
    fam = "list";
    GLn = N;
    GL = (lnode **)malloc(N * sizeof(*GL));
    GLfree = (uint32_t *)malloc(N * sizeof(*GLfree));
    lg_tmp = (lge *)malloc(N * sizeof(lge));
    lg_tmp2 = (lge *)malloc(N * sizeof(lge));
    for (size_t i = 0; i < N; ++i)
    {
        GL[i] = (lnode *)malloc(sizeof(lnode));
        GL[i]->id = (int)i;
        a_list_init(&GL[i]->n);
        GLfree[i] = (uint32_t)(N - 1 - i);
    }
    GLnfree = N;
    for (int k = 0; k < 2; ++k)
    {
        GH[k] = (a_list *)malloc(sizeof(a_list));
        a_list_ctor(GH[k]);
        ls_init(&GS[k], 3 * N + 64);
    }
    nops = 30 + (int)vf_below(r, 30);
    if (vf_want_sample())
    {
        vf_sample("large list history %" PRIu64 ": ring grown node by node to %zu nodes (add_prev/add_next/add_node, full forward+backward walk at every n within 2 of a power of two), then %d structural operations at that size (del_+add_ of long sections, set_, mov_next/mov_prev of whole rings, rot xR, swap_ of long sections, swap_node, single add/del/set_node at positions 0, 2^k+-1, n-1), both rings walked completely after each", c, N, nops);
    }
    vf_log("large list: grow ring 0 to %zu nodes (each node its own malloc block)", N);
    mark = vf_log_mark();
    while (GS[0].n < N && alive)
    {
        size_t n = GS[0].n;
        unsigned x = (unsigned)vf_below(r, 512);
        lge e;
        e.addr = NULL;
        e.key = 0;
        e.id = GLfree[--GLnfree];
        vf_log_rewind(mark);
        if (n && (x < 2 || (x < 24 && n < 3000)))
        {
            long pos = (long)lg_pos(r, n, &cls);
            int v = (int)vf_below(r, 3);
            vf_log("list add variant %d at ring position %ld of %zu, node %u", v, pos, n, e.id);
            ll_add1(0, pos, v, e);
        }
        else if (x < 440)
        {
            vf_log("list add_prev(head) node %u (num %zu)", e.id, n);
            ll_add1(0, -1, 1, e);
        }
        else if (x < 490)
        {
            vf_log("list add_next(head) node %u (num %zu)", e.id, n);
            ll_add1(0, -1, 0, e);
        }
        else
        {
            vf_log("list add_node(head, last) node %u (num %zu)", e.id, n);
            ll_add1(0, n ? (long)n - 1 : -1, 2, e);
        }
        if (lg_near_pow2(n + 1) || n + 1 == N)
        {
            VF_COUNT("large-list-growth-checkpoints");
            cell3("large-grow", lg_log2(n + 1), 0, 0);
            alive = ll_check();
        }
    }
    vf_log_rewind(mark);
    vf_log("large list: ring 0 holds %zu nodes; structural operations follow", GS[0].n);
    for (int i = 0; i < nops && alive; ++i)
    {
        int op = (int)vf_below(r, 16), k = (int)vf_below(r, 2), ok = 1;
        lseq *s = &GS[k];
        if (!s->n && GS[1 - k].n) { k = 1 - k; s = &GS[k]; }
        switch (op)
        {
        case 0: case 1: case 2:
        {
            /* del_ of a long section, then add_ of the detached chain into either ring */
            size_t len, a, n2;
            long at;
            int k2 = (int)vf_below(r, 2);
            if (!s->n) { break; }
            len = op == 2 ? (s->n + 1) / 2 : lg_len(r, s->n);
            a = vf_chance(r, 1, 3) ? 0 : vf_chance(r, 1, 2) ? s->n - len : (size_t)vf_below(r, s->n - len + 1);
            opname = "del_";
            vf_log("list del_(section [%zu..%zu] of list %d holding %zu)", a, a + len - 1, k, s->n);
            a_list_del_(LLN(k, a), LLN(k, a + len - 1));
            cell3("large-del_", posc(a, s->n), lg_log2(len), lg_log2(s->n));
            ls_remove_n(s, a, len, lg_tmp);
            VF_COUNT("large-list-section-ops");
            if (!(alive = ll_chain_check(lg_tmp, len) && ll_check())) { break; }
            n2 = GS[k2].n;
            at = (long)vf_below(r, n2 + 1) - 1;
            if (vf_chance(r, 1, 3)) { at = (long)n2 - 1; }
            opname = "add_";
            vf_log("list add_(ctx->next, ctx = ring position %ld of list %d holding %zu, chain of %zu nodes)", at, k2, n2, len);
            {
                a_list *ctx = ll_member(k2, at);
                a_list_add_(ctx->next, ctx, &GL[lg_tmp[0].id]->n, &GL[lg_tmp[len - 1].id]->n);
            }
            ls_insert_n(&GS[k2], (size_t)(at + 1), lg_tmp, len);
            cell3("large-add_", at < 0 ? 9 : posc((size_t)at, n2), lg_log2(len), k == k2);
            break;
        }
        case 3:
        {
            /* set_: a section of list k is replaced by a chain cut out of the other list */
            int o = 1 - k;
            size_t l1, a1, l2, a2;
            if (!s->n || !GS[o].n) { break; }
            l2 = lg_len(r, GS[o].n);
            a2 = (size_t)vf_below(r, GS[o].n - l2 + 1);
            l1 = lg_len(r, s->n);
            a1 = (size_t)vf_below(r, s->n - l1 + 1);
            opname = "del_";
            vf_log("list del_(section [%zu..%zu] of list %d holding %zu) to obtain a chain", a2, a2 + l2 - 1, o, GS[o].n);
            a_list_del_(LLN(o, a2), LLN(o, a2 + l2 - 1));
            ls_remove_n(&GS[o], a2, l2, lg_tmp);
            opname = "set_";
            vf_log("list set_(section [%zu..%zu] of list %d holding %zu replaced by the chain of %zu)", a1, a1 + l1 - 1, k, s->n, l2);
            a_list_set_(LLN(k, a1), LLN(k, a1 + l1 - 1), &GL[lg_tmp[0].id]->n, &GL[lg_tmp[l2 - 1].id]->n);
            cell3("large-set_", posc(a1, s->n), lg_log2(l1), lg_log2(l2));
            ls_remove_n(s, a1, l1, lg_tmp2);
            ls_insert_n(s, a1, lg_tmp, l2);
            VF_COUNT("large-list-section-ops");
            if (!(alive = ll_chain_check(lg_tmp2, l1))) { break; }
            for (size_t j = 0; j < l1; ++j) { ll_give_free(lg_tmp2[j].id); }
            break;
        }
        case 4: case 5:
        {
            int o = 1 - k;
            size_t n2 = GS[o].n;
            long pos;
            if (!n2) { break; }
            pos = s->n ? (long)lg_pos(r, s->n, &cls) : -1;
            if (vf_chance(r, 1, 4)) { pos = -1; }
            opname = op == 4 ? "mov_next" : "mov_prev";
            vf_log("list %s(ctx ring position %ld of list %d holding %zu, all %zu nodes of list %d)", opname, pos, k, s->n, n2, o);
            if (op == 4) { a_list_mov_next(ll_member(k, pos), GH[o]); }
            else { a_list_mov_prev(ll_member(k, pos), GH[o]); }
            a_list_init(GH[o]);
            cell3(op == 4 ? "large-mov_next" : "large-mov_prev", pos < 0 ? 9 : posc((size_t)pos, s->n), lg_log2(n2), lg_log2(s->n + 1));
            ls_remove_n(&GS[o], 0, n2, lg_tmp);
            ls_insert_n(s, op == 4 ? (size_t)(pos + 1) : (pos < 0 ? s->n : (size_t)pos), lg_tmp, n2);
            VF_COUNT("large-list-section-ops");
            break;
        }
        case 6: case 7:
        {
            size_t reps = lg_reps(r, s->n), m;
            opname = op == 6 ? "rot_next" : "rot_prev";
            vf_log("list %s(head of list %d holding %zu) x %zu", opname, k, s->n, reps);
            for (size_t j = 0; j < reps; ++j)
            {
                if (op == 6) { a_list_rot_next(GH[k]); }
                else { a_list_rot_prev(GH[k]); }
            }
            VF_ADD("large-list-rotations", reps);
            cell3(op == 6 ? "large-rot_next" : "large-rot_prev", lg_log2(s->n + 1), reps > s->n ? 2 : reps == s->n, 0);
            if (s->n > 1 && (m = reps % s->n) != 0)
            {
                if (op == 6) { ls_remove_n(s, s->n - m, m, lg_tmp); ls_insert_n(s, 0, lg_tmp, m); }
                else { ls_remove_n(s, 0, m, lg_tmp); ls_insert_n(s, s->n, lg_tmp, m); }
            }
            break;
        }
        case 8: case 9:
        {
            /* swap_ of two sections, disjoint and not adjacent */
            int k2 = op == 8 ? k : 1 - k;
            lseq *s2 = &GS[k2];
            size_t a1, l1, a2, l2;
            if (!s->n || !s2->n) { break; }
            if (k == k2)
            {
                /* [a1, a1+l1) < gap >= 1 < [a2, a2+l2) */
                size_t n = s->n, g;
                if (n < 3) { break; }
                l1 = lg_len(r, n - 2);
                l2 = lg_len(r, n - 1 - l1);
                g = 1 + (vf_chance(r, 1, 2) ? 0 : (size_t)vf_below(r, n - l1 - l2));
                a1 = (size_t)vf_below(r, n - l1 - l2 - g + 1);
                a2 = a1 + l1 + g;
            }
            else
            {
                l1 = lg_len(r, s->n);
                a1 = (size_t)vf_below(r, s->n - l1 + 1);
                l2 = lg_len(r, s2->n);
                a2 = (size_t)vf_below(r, s2->n - l2 + 1);
            }
            {
                a_list *h1 = LLN(k, a1), *t1 = LLN(k, a1 + l1 - 1), *h2 = LLN(k2, a2), *t2 = LLN(k2, a2 + l2 - 1);
                if (t1->next == h2 || t2->next == h1) { VF_COUNT("swap-skipped-adjacent"); break; }
                opname = "swap_";
                vf_log("list swap_(section [%zu..%zu] of list %d holding %zu, section [%zu..%zu] of list %d holding %zu)", a1, a1 + l1 - 1, k, s->n, a2, a2 + l2 - 1, k2, s2->n);
                a_list_swap_(h1, t1, h2, t2);
            }
            cell3("large-swap_", k == k2, lg_log2(l1), lg_log2(l2));
            /* later section first */
            ls_remove_n(s2, a2, l2, lg_tmp2);
            ls_remove_n(s, a1, l1, lg_tmp);
            ls_insert_n(s, a1, lg_tmp2, l2);
            ls_insert_n(s2, k == k2 ? a2 - l1 + l2 : a2, lg_tmp, l1);
            VF_COUNT("large-list-section-ops");
            break;
        }
        case 10:
        {
            int k2 = (int)vf_below(r, 2);
            lseq *s2 = &GS[k2];
            size_t p1, p2;
            a_list *x, *y;
            if (!s->n || !s2->n) { break; }
            p1 = lg_pos(r, s->n, &cls);
            p2 = lg_pos(r, s2->n, &cls);
            x = LLN(k, p1);
            y = LLN(k2, p2);
            if (x == y || x->next == y || y->next == x) { VF_COUNT("swap-skipped-adjacent"); break; }
            opname = "swap_node";
            vf_log("list swap_node(position %zu of list %d holding %zu, position %zu of list %d holding %zu)", p1, k, s->n, p2, k2, s2->n);
            a_list_swap_node(x, y);
            {
                lge t = LS(s, p1);
                LS(s, p1) = LS(s2, p2);
                LS(s2, p2) = t;
            }
            cell3("large-swap_node", k == k2, posc(p1, s->n), posc(p2, s2->n));
            break;
        }
        case 11:
        {
            long pos;
            int v = (int)vf_below(r, 3);
            if (!GLnfree) { break; }
            pos = s->n ? (long)lg_pos(r, s->n, &cls) : -1;
            if (vf_chance(r, 1, 6)) { pos = -1; }
            vf_log("list add variant %d (0 add_next 1 add_prev 2 add_node) at ring position %ld of list %d holding %zu", v, pos, k, s->n);
            ll_add1(k, pos, v, ll_take_free(r));
            cell3("large-add1", v, pos < 0 ? 9 : cls, lg_log2(s->n));
            break;
        }
        case 12:
        {
            size_t pos;
            int v = (int)vf_below(r, 3);
            a_list *gone;
            if (!s->n) { break; }
            pos = lg_pos(r, s->n, &cls);
            gone = LLN(k, pos);
            opname = v == 0 ? "del_node" : v == 1 ? "del_next" : "del_prev";
            vf_log("list %s removing position %zu of list %d holding %zu", opname, pos, k, s->n);
            if (v == 0) { a_list_del_node(gone); }
            else if (v == 1) { a_list_del_next(ll_member(k, (long)pos - 1)); }
            else { a_list_del_prev(pos + 1 < s->n ? LLN(k, pos + 1) : GH[k]); }
            cell3("large-del1", v, cls, lg_log2(s->n));
            {
                uint32_t id = LS(s, pos).id;
                ls_remove_n(s, pos, 1, NULL);
                ll_give_free(id);
            }
            break;
        }
        case 13:
        {
            size_t pos;
            lge e;
            uint32_t old;
            if (!s->n || !GLnfree) { break; }
            pos = lg_pos(r, s->n, &cls);
            e = ll_take_free(r);
            old = LS(s, pos).id;
            opname = "set_node";
            vf_log("list set_node(position %zu of list %d holding %zu replaced by node %u)", pos, k, s->n, e.id);
            a_list_set_node(&GL[old]->n, &GL[e.id]->n);
            LS(s, pos) = e;
            ll_give_free(old);
            cell3("large-set_node", cls, lg_log2(s->n), 0);
            break;
        }
        case 14:
        {
            /* all detached nodes back, one by one at alternating ends (one walk at the end) */
            size_t cnt = GLnfree;
            if (!cnt) { break; }
            vf_log("list %zu detached nodes re-added to list %d holding %zu by add_prev(head)/add_next(head)", cnt, k, s->n);
            while (GLnfree)
            {
                lge e = ll_take_free(r);
                ll_add1(k, -1, GLnfree & 1 ? 1 : 0, e);
            }
            break;
        }
        default:
        {
            size_t n = 0;
            opname = "foreach";
            vf_log("list foreach/forsafe over list %d holding %zu", k, s->n);
            VF_COUNT("large-list-foreach-macros");
            a_list_foreach_next(it, GH[k])
            {
                if (n >= s->n || ll_id(it) != (int)LS(s, n).id) { LFAIL("foreach_next", "position %zu", n); break; }
                ++n;
            }
            if (ok && n != s->n) { LFAIL("foreach_next", "visited %zu of %zu", n, s->n); }
            n = 0;
            a_list_forsafe_prev(it, at, GH[k])
            {
                if (n >= s->n || ll_id(it) != (int)LS(s, s->n - 1 - n).id) { LFAIL("forsafe_prev", "position %zu", n); break; }
                ++n;
            }
            if (ok && n != s->n) { LFAIL("forsafe_prev", "visited %zu of %zu", n, s->n); }
            break;
        }
        }
        (void)ok;
        if (alive)
        {
            VF_COUNT("large-list-structural-ops-judged");
            alive = ll_check();
        }
    }
    for (size_t i = 0; i < N; ++i) { free(GL[i]); }
    free(GL);
    free(GLfree);
    free(lg_tmp);
    free(lg_tmp2);
    for (int k = 0; k < 2; ++k)
    {
        free(GH[k]);
        ls_free(&GS[k]);
    }
}

/* --------------------------------------------------------------------- large: slist.h */
static snode **GN;
static size_t GNn;
static uint32_t *GNfree;
static size_t GNnfree;
static a_slist *GSL[2];
static lseq GT[2];

static int sl_id(a_slist_node const *p)
{
    uint32_t id;
    if (p == &GSL[0]->head || p == &GSL[1]->head) { return -1; }
    id = (uint32_t)((snode const *)(void const *)p)->id;
    return id < GNn && &GN[id]->n == p ? (int)id : -1;
}
#define SLN(k, i) (&GN[LS(&GT[k], i).id]->n)
static a_slist_node *sl_member(int k, long pos) { return pos < 0 ? &GSL[k]->head : SLN(k, (size_t)pos); }

static int sl_check(void)
{
    int ok = 1;
    VF_COUNT("large-slist-walked");
    for (int k = 0; k < 2; ++k)
    {
        a_slist_node *it, *last = &GSL[k]->head;
        lseq *s = &GT[k];
        size_t n = 0;
        for (it = GSL[k]->head.next; it; it = it->next)
        {
            int id = sl_id(it);
            if (id < 0) { LFAIL("foreign-node", "slist %d step %zu reaches %p", k, n, (void *)it); return 0; }
            if (n >= s->n) { LFAIL("walk-longer-than-model", "slist %d: more than %zu nodes", k, s->n); return 0; }
            if ((uint32_t)id != LS(s, n).id) { LFAIL("sequence", "slist %d position %zu of %zu: node %d, model %u", k, n, s->n, id, LS(s, n).id); return 0; }
            last = it;
            ++n;
        }
        if (n != s->n) { LFAIL("walk-shorter-than-model", "slist %d: %zu nodes, model %zu", k, n, s->n); return 0; }
        VF_COUNT("large-slist-tail-designates-last-node");
        if (GSL[k]->tail != last) { LFAIL("tail-not-last-node", "slist %d: tail %p, last node %p (%zu nodes)", k, (void *)GSL[k]->tail, (void *)last, n); return 0; }
        VF_ADD("large-slist-nodes-compared", n);
    }
    ++vf.evals;
    return ok;
}
static lge sl_take_free(void)
{
    lge e;
    e.addr = NULL;
    e.key = 0;
    e.id = GNfree[--GNnfree];
    return e;
}
static void sl_give_free(uint32_t id)
{
    GN[id]->n.next = NULL;
    GNfree[GNnfree++] = id;
}

static void slist_large(uint64_t c, vf_rng *r, size_t N)
{
    int alive = 1, cls = 0, nops;
    uint32_t mark;
    fam = "slist";
    GNn = N;
    GN = (snode **)malloc(N * sizeof(*GN));
    GNfree = (uint32_t *)malloc(N * sizeof(*GNfree));
    lg_tmp = (lge *)malloc(N * sizeof(lge));
    for (size_t i = 0; i < N; ++i)
    {
        GN[i] = (snode *)malloc(sizeof(snode));
        GN[i]->id = (int)i;
        GN[i]->n.next = NULL;
        GNfree[i] = (uint32_t)(N - 1 - i);
    }
    GNnfree = N;
    for (int k = 0; k < 2; ++k)
    {
        GSL[k] = (a_slist *)malloc(sizeof(a_slist));
        a_slist_ctor(GSL[k]);
        ls_init(&GT[k], 3 * N + 64);
    }
    nops = 30 + (int)vf_below(r, 30);
    if (vf_want_sample())
    {
        vf_sample("large slist history %" PRIu64 ": list grown node by node to %zu nodes (add_tail/add_head/add after the last and at inner positions; full walk + tail check at every n within 2 of a power of two), then %d operations at that size (add/del at positions 0, 2^k+-1, last; mov of a whole long list into the head/middle/tail of the other; rot xR; bulk transfer of n/3 nodes), both lists walked completely after each", c, N, nops);
    }
    vf_log("large slist: grow list 0 to %zu nodes (each node its own malloc block)", N);
    mark = vf_log_mark();
    while (GT[0].n < N && alive)
    {
        lseq *s = &GT[0];
        size_t n = s->n;
        unsigned x = (unsigned)vf_below(r, 512);
        lge e = sl_take_free();
        vf_log_rewind(mark);
        if (n && (x < 2 || (x < 24 && n < 3000)))
        {
            long pos = (long)lg_pos(r, n, &cls) - 1;
            opname = "add";
            vf_log("slist add(list 0, prev = position %ld of %zu, node %u)", pos, n, e.id);
            a_slist_add(GSL[0], sl_member(0, pos), &GN[e.id]->n);
            ls_insert(s, (size_t)(pos + 1), e);
        }
        else if (x < 400)
        {
            opname = "add_tail";
            vf_log("slist add_tail(list 0, node %u) (num %zu)", e.id, n);
            a_slist_add_tail(GSL[0], &GN[e.id]->n);
            ls_insert(s, n, e);
        }
        else if (x < 450)
        {
            opname = "add";
            vf_log("slist add(list 0, prev = last node, node %u) (num %zu)", e.id, n);
            a_slist_add(GSL[0], sl_member(0, (long)n - 1), &GN[e.id]->n);
            ls_insert(s, n, e);
        }
        else
        {
            opname = "add_head";
            vf_log("slist add_head(list 0, node %u) (num %zu)", e.id, n);
            a_slist_add_head(GSL[0], &GN[e.id]->n);
            ls_insert(s, 0, e);
        }
        if (lg_near_pow2(n + 1) || n + 1 == N)
        {
            VF_COUNT("large-slist-growth-checkpoints");
            cell3("large-grow", lg_log2(n + 1), 0, 0);
            alive = sl_check();
        }
    }
    vf_log_rewind(mark);
    vf_log("large slist: list 0 holds %zu nodes; operations at that size follow", GT[0].n);
    for (int i = 0; i < nops && alive; ++i)
    {
        int op = (int)vf_below(r, 12), k = (int)vf_below(r, 2), ok = 1;
        lseq *s = &GT[k];
        if (!s->n && GT[1 - k].n && op != 6 && op != 7) { k = 1 - k; s = &GT[k]; }
        switch (op)
        {
        case 0: case 1:
        {
            long pos;
            lge e;
            if (!GNnfree) { break; }
            pos = s->n ? (long)lg_pos(r, s->n, &cls) - (long)vf_below(r, 2) : -1;
            e = sl_take_free();
            opname = "add";
            vf_log("slist add(list %d holding %zu, prev = position %ld, node %u)", k, s->n, pos, e.id);
            a_slist_add(GSL[k], sl_member(k, pos), &GN[e.id]->n);
            cell3("large-add", pos < 0 ? 9 : cls, lg_log2(s->n + 1), pos + 1 == (long)s->n);
            ls_insert(s, (size_t)(pos + 1), e);
            break;
        }
        case 2:
        {
            lge e;
            int head = vf_chance(r, 1, 2);
            if (!GNnfree) { break; }
            e = sl_take_free();
            opname = head ? "add_head" : "add_tail";
            vf_log("slist %s(list %d holding %zu, node %u)", opname, k, s->n, e.id);
            if (head) { a_slist_add_head(GSL[k], &GN[e.id]->n); }
            else { a_slist_add_tail(GSL[k], &GN[e.id]->n); }
            cell3(head ? "large-add_head" : "large-add_tail", lg_log2(s->n + 1), 0, 0);
            ls_insert(s, head ? 0 : s->n, e);
            break;
        }
        case 3: case 4:
        {
            /* del(prev): removes prev->next, nothing if prev is the last node */
            long pos = s->n ? (long)lg_pos(r, s->n, &cls) - (long)vf_below(r, 2) : -1;
            opname = "del";
            vf_log("slist del(list %d holding %zu, prev = position %ld)", k, s->n, pos);
            a_slist_del(GSL[k], sl_member(k, pos));
            cell3("large-del", pos < 0 ? 9 : cls, lg_log2(s->n + 1), pos + 1 == (long)s->n);
            if ((size_t)(pos + 1) < s->n)
            {
                uint32_t id = LS(s, (size_t)(pos + 1)).id;
                ls_remove_n(s, (size_t)(pos + 1), 1, NULL);
                sl_give_free(id);
            }
            break;
        }
        case 5:
            opname = "del_head";
            vf_log("slist del_head(list %d holding %zu)", k, s->n);
            a_slist_del_head(GSL[k]);
            cell3("large-del_head", lg_log2(s->n + 1), 0, 0);
            if (s->n)
            {
                uint32_t id = LS(s, 0).id;
                ls_remove_n(s, 0, 1, NULL);
                sl_give_free(id);
            }
            break;
        case 6: case 7:
        {
            /* mov(ctx, to, at): all nodes of list o go after position pos of list k */
            int o = 1 - k;
            size_t n2 = GT[o].n;
            long pos = s->n ? (long)lg_pos(r, s->n, &cls) : -1;
            if (vf_chance(r, 1, 4)) { pos = -1; }
            else if (vf_chance(r, 1, 3)) { pos = (long)s->n - 1; }
            opname = "mov";
            vf_log("slist mov(all %zu nodes of list %d after position %ld of list %d holding %zu)", n2, o, pos, k, s->n);
            a_slist_mov(GSL[o], GSL[k], sl_member(k, pos));
            a_slist_init(GSL[o]);
            cell3("large-mov", pos < 0 ? 9 : posc((size_t)pos, s->n), lg_log2(n2 + 1), lg_log2(s->n + 1));
            ls_remove_n(&GT[o], 0, n2, lg_tmp);
            ls_insert_n(s, (size_t)(pos + 1), lg_tmp, n2);
            VF_COUNT("large-slist-whole-list-moves");
            break;
        }
        case 8: case 9:
        {
            size_t reps = lg_reps(r, s->n), m;
            opname = "rot";
            vf_log("slist rot(list %d holding %zu) x %zu", k, s->n, reps);
            for (size_t j = 0; j < reps; ++j) { a_slist_rot(GSL[k]); }
            VF_ADD("large-slist-rotations", reps);
            cell3("large-rot", lg_log2(s->n + 1), reps > s->n ? 2 : reps == s->n, 0);
            if (s->n > 1 && (m = reps % s->n) != 0)
            {
                ls_remove_n(s, 0, m, lg_tmp);
                ls_insert_n(s, s->n, lg_tmp, m);
            }
            break;
        }
        case 10:
        {
            /* bulk transfer: del_head of list k, add_tail / add_head to the other list, cnt times; one walk at the end */
            int o = 1 - k, tail = vf_chance(r, 2, 3);
            size_t cnt;
            if (!s->n) { break; }
            cnt = lg_len(r, s->n);
            vf_log("slist %zu x { del_head(list %d holding %zu); %s(list %d holding %zu) }", cnt, k, s->n, tail ? "add_tail" : "add_head", o, GT[o].n);
            opname = tail ? "add_tail" : "add_head";
            for (size_t j = 0; j < cnt; ++j)
            {
                lge e = LS(s, 0);
                a_slist_del_head(GSL[k]);
                ls_remove_n(s, 0, 1, NULL);
                if (tail) { a_slist_add_tail(GSL[o], &GN[e.id]->n); ls_insert(&GT[o], GT[o].n, e); }
                else { a_slist_add_head(GSL[o], &GN[e.id]->n); ls_insert(&GT[o], 0, e); }
            }
            VF_ADD("large-slist-bulk-transfers", cnt);
            cell3("large-transfer", lg_log2(cnt), tail, 0);
            break;
        }
        default:
        {
            size_t n = 0;
            opname = "foreach";
            vf_log("slist foreach/forsafe over list %d holding %zu", k, s->n);
            VF_COUNT("large-slist-foreach-macros");
            a_slist_foreach(it, GSL[k])
            {
                if (n >= s->n || sl_id(it) != (int)LS(s, n).id) { LFAIL("foreach", "position %zu", n); break; }
                ++n;
            }
            if (ok && n != s->n) { LFAIL("foreach", "visited %zu of %zu", n, s->n); }
            n = 0;
            a_slist_forsafe(it, at, GSL[k])
            {
                if (n >= s->n || sl_id(it) != (int)LS(s, n).id) { LFAIL("forsafe", "position %zu", n); break; }
                ++n;
            }
            if (ok && n != s->n) { LFAIL("forsafe", "visited %zu of %zu", n, s->n); }
            break;
        }
        }
        (void)ok;
        if (alive)
        {
            VF_COUNT("large-slist-ops-judged");
            alive = sl_check();
        }
    }
    for (size_t i = 0; i < N; ++i) { free(GN[i]); }
    free(GN);
    free(GNfree);
    free(lg_tmp);
    for (int k = 0; k < 2; ++k)
    {
        free(GSL[k]);
        ls_free(&GT[k]);
    }
}

/* --------------------------------------------------------------------- large: que */
/* which payload addresses are enqueued right now (either queue); verdicts only, never decisions */
typedef struct
{
    uintptr_t key;
    uint32_t st, ep; /* st: 0 neither, 1 enqueued, 2 seen in a recycling pool at the last check */
} lg_ent;
static lg_ent *lg_tab;
static size_t lg_tabcap, lg_tabused;
static uint32_t lg_epoch;

static lg_ent *lg_find(void const *p)
{
    uintptr_t k = (uintptr_t)p;
    size_t i = (size_t)vf_hash64(0x51ED, (uint64_t)k) & (lg_tabcap - 1);
    while (lg_tab[i].key && lg_tab[i].key != k) { i = (i + 1) & (lg_tabcap - 1); }
    if (!lg_tab[i].key)
    {
        lg_tab[i].key = k;
        lg_tab[i].st = 0;
        ++lg_tabused;
    }
    return &lg_tab[i];
}
/* room for `extra` more keys; a rebuild keeps the enqueued and the pooled addresses */
static void lg_reserve(size_t extra)
{
    lg_ent *old = lg_tab;
    size_t oldcap = lg_tabcap, live = 0, ncap = 4096;
    if (old && (lg_tabused + extra) * 2 <= lg_tabcap) { return; }
    for (size_t i = 0; i < oldcap; ++i) { live += old[i].key && old[i].st != 0; }
    while (ncap < 4 * (live + extra)) { ncap <<= 1; }
    lg_tab = (lg_ent *)calloc(ncap, sizeof(lg_ent));
    if (!lg_tab) { fprintf(stderr, "vf: out of memory (address map)\n"); exit(2); }
    lg_tabcap = ncap;
    lg_tabused = 0;
    for (size_t i = 0; i < oldcap; ++i)
    {
        if (old[i].key && old[i].st != 0) { lg_find((void const *)old[i].key)->st = old[i].st; }
    }
    free(old);
}

#define LQZMAX 64
typedef struct
{
    a_que *q;
    size_t siz;
    lseq s;
    int by_ctor;
    /* pool slots [0, low) were verified at the last check and the pool cursor has not dipped below `low` since:
     * if they still hold the same nodes (shadow copy) they need no new look-up */
    a_list **shadow;
    size_t shn, shcap, low;
} lqm;
static void lq_touch(lqm *m)
{
    if (m->q->cur_ < m->low) { m->low = m->q->cur_; }
}
/* forget what is known about the pool of m (its nodes are about to be re-allocated or freed) */
static void lq_pool_forget(lqm *m);
static lqm LQ[2];
static uint32_t lq_serial;
static size_t lq_cmp_siz;
static uint64_t lq_dtor_calls;
static unsigned char *lq_keybuf; /* exact-size block handed to a_que_push_sort */

/* element bytes: sort key in the first 4 bytes (1 byte if the element is shorter), the rest derived from the id */
static void lq_bytes(unsigned char *out, size_t siz, uint32_t id, uint32_t key)
{
    uint64_t w = vf_hash64(0x9E37, id);
    for (size_t j = 0; j < siz; j += 8)
    {
        uint64_t v = w + j * 0x0101010101010101ULL;
        memcpy(out + j, &v, siz - j < 8 ? siz - j : 8);
    }
    if (siz >= 4) { memcpy(out, &key, 4); }
    else { out[0] = (unsigned char)key; }
}
/* payload of an enqueued element against (id, key); the element block is 16 + siz bytes, so every byte read is inside it */
static inline int lq_same(void const *p, size_t siz, uint32_t id, uint32_t key)
{
    unsigned char exp[LQZMAX];
    unsigned char const *b = (unsigned char const *)p;
    size_t j = 0;
    lq_bytes(exp, siz, id, key);
    for (; j + 8 <= siz; j += 8)
    {
        uint64_t x, y;
        memcpy(&x, b + j, 8);
        memcpy(&y, exp + j, 8);
        if (x != y) { return 0; }
    }
    for (; j < siz; ++j)
    {
        if (b[j] != exp[j]) { return 0; }
    }
    return 1;
}
static int lq_key_left;
static int lq_cmp(void const *l, void const *r)
{
    if (l == (void const *)lq_keybuf) { ++lq_key_left; }
    if (lq_cmp_siz >= 4)
    {
        uint32_t a, b;
        memcpy(&a, l, 4);
        memcpy(&b, r, 4);
        return cmp_result(a, b);
    }
    else { return cmp_result(*(unsigned char const *)l, *(unsigned char const *)r); }
}
/* element destructor: the pointer must designate a live element (one byte read under ASan) */
static void lq_dtor(void *p)
{
    ++lq_dtor_calls;
    (void)*(unsigned char volatile *)p;
}
static void lq_pool_forget(lqm *m)
{
    for (size_t i = 0; i < m->shn; ++i)
    {
        lg_ent *e = lg_find(m->shadow[i] + 1);
        if (e->st == 2) { e->st = 0; }
    }
    m->shn = m->low = 0;
}
static uint32_t lq_randkey(vf_rng *r, size_t siz) { return siz >= 4 ? (uint32_t)vf_u64(r) : (uint32_t)vf_below(r, 256); }

/* full: every ring node, payload byte, address, indexed access, pool. light (pool-driven checkpoints of the bulk phases):
 * element size, count, fore/back and the pool only */
static int lq_check_(vf_rng *r, int full);
static int lq_check(vf_rng *r) { return lq_check_(r, 1); }
static int lq_check_(vf_rng *r, int full)
{
    int ok = 1;
    if (full) { VF_COUNT("large-que-state-compared-with-model"); }
    else { VF_COUNT("large-que-light-checks-count-ends-pool"); }
    ++lg_epoch;
    for (int k = 0; k < 2; ++k)
    {
        a_que const *q = LQ[k].q;
        if (q->cur_ > q->mem_ || (q->cur_ && !q->ptr_)) { LFAIL("pool-cursor-beyond-capacity", "queue %d: pool cursor %zu, pool capacity %zu", k, q->cur_, q->mem_); return 0; }
    }
    lg_reserve(LQ[0].q->cur_ + LQ[1].q->cur_ + 2);
    for (int k = 0; k < 2; ++k)
    {
        lqm *m = &LQ[k];
        lseq *s = &m->s;
        a_que *q = m->q;
        a_list *h = &q->head_, *it;
        size_t n = 0, N = s->n;
        if (a_que_siz(q) != m->siz) { LFAIL("element-size", "queue %d: size %zu, model %zu", k, a_que_siz(q), m->siz); return 0; }
        if (a_que_num(q) != N) { LFAIL("count", "queue %d: a_que_num %zu, model %zu", k, a_que_num(q), N); return 0; }
        for (it = h->next; full && it != h; it = it->next)
        {
            lge const *e;
            if (n >= N) { LFAIL("ring-longer-than-model", "queue %d: ring has more than %zu nodes or is not closed on its own sentinel", k, N); return 0; }
            e = &LS(s, n);
            if ((void *)(it + 1) != e->addr) { LFAIL("element-address-changed", "queue %d position %zu of %zu: payload at %p, model %p", k, n, N, (void *)(it + 1), e->addr); return 0; }
            if (it->next->prev != it || it->prev->next != it) { LFAIL("ring-links-inconsistent", "queue %d position %zu of %zu", k, n, N); return 0; }
            if (!lq_same(it + 1, m->siz, e->id, e->key)) { LFAIL("contents", "queue %d position %zu of %zu: payload differs (element id %u)", k, n, N, e->id); return 0; }
            ++n;
        }
        if (full && n != N) { LFAIL("ring-shorter-than-model", "queue %d: %zu nodes, model %zu", k, n, N); return 0; }
        if (h->next->prev != h || h->prev->next != h) { LFAIL("sentinel-links-inconsistent", "queue %d: ring not closed on its own sentinel", k); return 0; }
        if (full) { VF_ADD("large-que-elements-compared", N); }
        /* indexed access from both ends: at(0), at(-1) always; at(n-1), at(-n), at(i), at(-i-1), at(n), at(-n-1) all below
         * 4096 elements, one of them in rotation at every second check above (each walks O(n) nodes) */
        if (full) { VF_COUNT("large-que-indexed-access"); }
        if (a_que_fore(q) != (N ? LS(s, 0).addr : NULL)) { LFAIL("fore", "queue %d", k); return 0; }
        if (a_que_back(q) != (N ? LS(s, N - 1).addr : NULL)) { LFAIL("back", "queue %d", k); return 0; }
        {
            unsigned sel = !full ? 0u : N < 4096 ? 63u : (lg_epoch & 1) ? 0u : 1u << ((lg_epoch >> 1) % 6);
            int cls;
            size_t i = N ? lg_pos(r, N, &cls) : 0;
            if (N && full)
            {
                if (a_que_at(q, 0) != LS(s, 0).addr) { LFAIL("at-from-front", "queue %d at(0)", k); return 0; }
                if (a_que_at(q, -1) != LS(s, N - 1).addr) { LFAIL("at-from-back", "queue %d at(-1)", k); return 0; }
                if ((sel & 1) && a_que_at(q, (a_diff)N - 1) != LS(s, N - 1).addr) { LFAIL("at-from-front", "queue %d at(%zu) of %zu", k, N - 1, N); return 0; }
                if ((sel & 2) && a_que_at(q, -(a_diff)N) != LS(s, 0).addr) { LFAIL("at-from-back", "queue %d at(-%zu) of %zu", k, N, N); return 0; }
                if ((sel & 4) && a_que_at(q, (a_diff)i) != LS(s, i).addr) { LFAIL("at-from-front", "queue %d at(%zu) of %zu", k, i, N); return 0; }
                if ((sel & 8) && a_que_at(q, -(a_diff)i - 1) != LS(s, N - 1 - i).addr) { LFAIL("at-from-back", "queue %d at(-%zu) of %zu", k, i + 1, N); return 0; }
            }
            if ((sel & 16) && a_que_at(q, (a_diff)N)) { LFAIL("at-out-of-range", "queue %d holding %zu: at(num) is not null", k, N); return 0; }
            if ((sel & 32) && a_que_at(q, -(a_diff)N - 1)) { LFAIL("at-out-of-range", "queue %d holding %zu: at(-num-1) is not null", k, N); return 0; }
        }
        /* the recycling pool: what it will hand out next must not be enqueued anywhere, and no node twice */
        {
            size_t cur = q->cur_, valid = m->low < m->shn ? m->low : m->shn;
            if (valid > cur) { valid = cur; }
            if (valid && memcmp(q->ptr_, m->shadow, valid * sizeof(a_list *)) != 0) { valid = 0; }
            for (size_t i = valid; i < m->shn; ++i)
            {
                lg_ent *e = lg_find(m->shadow[i] + 1);
                if (e->st == 2) { e->st = 0; }
            }
            if (cur > m->shcap)
            {
                m->shcap = cur + cur / 2 + 64;
                m->shadow = (a_list **)realloc(m->shadow, m->shcap * sizeof(a_list *));
                if (!m->shadow) { fprintf(stderr, "vf: out of memory (pool shadow)\n"); exit(2); }
            }
            for (size_t i = valid; i < cur; ++i)
            {
                lg_ent *e = lg_find(q->ptr_[i] + 1);
                if (e->st == 1) { LFAIL("pooled-node-still-enqueued", "queue %d: pool slot %zu of %zu holds the node of an enqueued element", k, i, cur); m->shn = m->low = i; return 0; }
                if (e->st == 2) { LFAIL("node-pooled-twice", "queue %d: pool slot %zu of %zu holds a node that is in a pool already", k, i, cur); m->shn = m->low = i; return 0; }
                e->st = 2;
                m->shadow[i] = q->ptr_[i];
            }
            m->shn = m->low = cur;
        }
        VF_ADD("large-que-pooled-nodes-checked", q->cur_);
    }
    ++vf.evals;
    return ok;
}

/* how: 0 push_back, 1 push_fore, 2 insert(idx) */
static int lq_push(int k, int how, size_t idx, uint32_t key)
{
    lqm *m = &LQ[k];
    size_t n = m->s.n, pos;
    void *p;
    lg_ent *ent;
    lge e;
    int ok = 1;
    if (how == 0) { opname = "push_back"; vf_log("que %d push_back (num %zu)", k, n); p = a_que_push_back(m->q); pos = n; }
    else if (how == 1) { opname = "push_fore"; vf_log("que %d push_fore (num %zu)", k, n); p = a_que_push_fore(m->q); pos = 0; }
    else { opname = "insert"; vf_log("que %d insert idx=%zu (num %zu)", k, idx, n); p = a_que_insert(m->q, idx); pos = idx < n ? idx : n; }
    lq_touch(m);
    if (!p) { LFAIL("unexpected-null", "push returned null at num %zu", n); return 0; }
    VF_COUNT("large-que-recycled-node-not-enqueued");
    lg_reserve(1);
    ent = lg_find(p);
    if (ent->st == 1) { LFAIL("handed-out-node-still-enqueued", "push at num %zu returned %p which is the address of an enqueued element", n, p); return 0; }
    ent->st = 1;
    e.addr = p;
    e.id = ++lq_serial;
    e.key = key;
    lq_bytes((unsigned char *)p, m->siz, e.id, e.key);
    ls_insert(&m->s, pos, e);
    return ok;
}
/* how: 0 pull_back, 1 pull_fore, 2 remove(idx) */
static int lq_pull(int k, int how, size_t idx)
{
    lqm *m = &LQ[k];
    size_t n = m->s.n, at;
    void *p;
    unsigned char exp[LQZMAX];
    int ok = 1;
    if (how == 0) { opname = "pull_back"; vf_log("que %d pull_back (num %zu)", k, n); p = a_que_pull_back(m->q); at = n ? n - 1 : 0; }
    else if (how == 1) { opname = "pull_fore"; vf_log("que %d pull_fore (num %zu)", k, n); p = a_que_pull_fore(m->q); at = 0; }
    else { opname = "remove"; vf_log("que %d remove idx=%zu (num %zu)", k, idx, n); p = a_que_remove(m->q, idx); at = idx < n ? idx : (n ? n - 1 : 0); }
    lq_touch(m);
    if (!n)
    {
        if (p) { LFAIL("non-null-from-empty", "returned %p", p); return 0; }
        return ok;
    }
    VF_COUNT("large-que-pull-returns-the-element");
    if (p != LS(&m->s, at).addr) { LFAIL("wrong-element-returned", "returned %p, element %zu of %zu lives at %p", p, at, n, LS(&m->s, at).addr); return 0; }
    lq_bytes(exp, m->siz, LS(&m->s, at).id, LS(&m->s, at).key);
    if (memcmp(p, exp, m->siz) != 0) { LFAIL("returned-element-not-intact", "payload of element %zu of %zu changed", at, n); return 0; }
    lg_find(p)->st = 0;
    ls_remove_n(&m->s, at, 1, NULL);
    return ok;
}
static size_t lq_idx(vf_rng *r, size_t n, int *cls)
{
    switch ((int)vf_below(r, 5))
    {
    case 0: *cls = 7; return n;
    case 1: *cls = 8; return n + 1;
    case 2: *cls = 9; return far_index(r, n);
    default: return n ? lg_pos(r, n, cls) : 0;
    }
}
/* the O(1) index classes of insert/remove (bulk phases): first, num, num+1, SIZE_MAX */
static size_t lq_end_idx(vf_rng *r, size_t n)
{
    switch ((int)vf_below(r, 4))
    {
    case 0: return 0;
    case 1: return n;
    case 2: return n + 1;
    default: return SIZE_MAX;
    }
}
/* fill queue k up to `target` elements; checkpoints near powers of two, at pool exhaustion and at the target */
static int lq_fill(int k, size_t target, vf_rng *r, char const *why)
{
    lqm *m = &LQ[k];
    uint32_t mark;
    int alive = 1, cls;
    vf_log("large que %d: fill from %zu to %zu (%s; element size %zu, %zu pooled nodes)", k, m->s.n, target, why, m->siz, m->q->cur_);
    mark = vf_log_mark();
    while (m->s.n < target && alive)
    {
        size_t n = m->s.n, cur = m->q->cur_;
        unsigned x = (unsigned)vf_below(r, 512);
        vf_log_rewind(mark);
        if (n && (x < 2 || (x < 24 && n < 3000))) { alive = lq_push(k, 2, lg_pos(r, n, &cls), lq_randkey(r, m->siz)); }
        else if (x < 40) { alive = lq_push(k, 2, lq_end_idx(r, n), lq_randkey(r, m->siz)); }
        else if (x < 140) { alive = lq_push(k, 1, 0, lq_randkey(r, m->siz)); }
        else { alive = lq_push(k, 0, 0, lq_randkey(r, m->siz)); }
        if (alive && (lg_near_pow2(n + 1) || n + 1 == target))
        {
            VF_COUNT("large-que-fill-checkpoints");
            cell3("large-fill", lg_log2(n + 1), cur ? 1 : 0, (int)m->siz);
            alive = lq_check(r);
        }
        else if (alive && cur && lg_near_pow2(cur - 1)) { alive = lq_check_(r, 0); }
    }
    vf_log_rewind(mark);
    return alive;
}
/* drain queue k down to `target`; checkpoints near powers of two of the count and of the pool fill, and at every pool growth step */
static int lq_drain(int k, size_t target, vf_rng *r)
{
    lqm *m = &LQ[k];
    uint32_t mark;
    int alive = 1, cls;
    vf_log("large que %d: drain from %zu to %zu (element size %zu, %zu pooled nodes, pool capacity %zu)", k, m->s.n, target, m->siz, m->q->cur_, m->q->mem_);
    mark = vf_log_mark();
    while (m->s.n > target && alive)
    {
        size_t n = m->s.n, mem = m->q->mem_;
        unsigned x = (unsigned)vf_below(r, 512);
        vf_log_rewind(mark);
        if (x < 2 || (x < 24 && n < 3000)) { alive = lq_pull(k, 2, lg_pos(r, n, &cls)); }
        else if (x < 40) { alive = lq_pull(k, 2, lq_end_idx(r, n)); }
        else if (x < 270) { alive = lq_pull(k, 1, 0); }
        else { alive = lq_pull(k, 0, 0); }
        if (alive && m->q->mem_ != mem) { VF_COUNT("large-que-pool-growth-steps-checked"); }
        if (alive && (lg_near_pow2(n - 1) || n - 1 == target))
        {
            VF_COUNT("large-que-drain-checkpoints");
            cell3("large-drain", lg_log2(n), lg_log2(m->q->cur_ + 1), (int)m->siz);
            alive = lq_check(r);
        }
        else if (alive && (lg_near_pow2(m->q->cur_) || m->q->mem_ != mem)) { alive = lq_check_(r, 0); }
    }
    vf_log_rewind(mark);
    return alive;
}
static void lq_forget(lqm *m)
{
    for (size_t i = 0; i < m->s.n; ++i) { lg_find(LS(&m->s, i).addr)->st = 0; }
    ls_clear(&m->s);
}
static int lq_drop(int k, vf_rng *r)
{
    lqm *m = &LQ[k];
    int rc, ok = 1;
    opname = "drop";
    vf_log("que %d drop (num %zu, %zu pooled nodes)", k, m->s.n, m->q->cur_);
    rc = a_que_drop(m->q, vf_chance(r, 1, 2) ? lq_dtor : NULL);
    if (rc != A_SUCCESS) { LFAIL("unexpected-error", "rc %d", rc); return 0; }
    VF_COUNT("large-que-drop");
    cell3("large-drop", lg_log2(m->s.n + 1), 0, 0);
    lq_forget(m);
    return ok && lq_check(r);
}
static int lq_setz(int k, size_t nz, vf_rng *r)
{
    lqm *m = &LQ[k];
    int rc, ok = 1;
    opname = "setz";
    vf_log("que %d setz %zu (num %zu, size %zu, %zu pooled nodes)", k, nz, m->s.n, m->siz, m->q->cur_);
    lq_pool_forget(m);
    rc = a_que_setz(m->q, nz, vf_chance(r, 1, 2) ? lq_dtor : NULL);
    if (rc != A_SUCCESS) { LFAIL("unexpected-error", "rc %d", rc); return 0; }
    VF_COUNT("large-que-setz");
    cell3("large-setz", lg_log2(m->s.n + 1), nz > m->siz, lg_log2(m->q->cur_ + 1));
    lq_forget(m);
    m->siz = nz ? nz : 1;
    return ok && lq_check(r);
}
static void lq_swap_model(void)
{
    lqm t = LQ[0];
    LQ[0] = LQ[1];
    LQ[1] = t;
    LQ[1].q = LQ[0].q; /* handles and their storage class stay */
    LQ[1].by_ctor = LQ[0].by_ctor;
    LQ[0].q = t.q;
    LQ[0].by_ctor = t.by_ctor;
}
/* sorted insertion of `key` into the sorted queue k by variant 0 push_sort, 1 push_fore+sort_fore, 2 push_back+sort_back */
static int lq_sorted_insert(int k, int variant, uint32_t key)
{
    lqm *m = &LQ[k];
    lseq *s = &m->s;
    size_t n = s->n, lo, hi, found = SIZE_MAX, a, b;
    void *p;
    lg_ent *ent;
    lge e;
    int ok = 1;
    /* admissible positions: after every smaller key, before every larger key */
    for (a = 0, b = n; a < b;) { size_t mid = a + (b - a) / 2; if (LS(s, mid).key < key) { a = mid + 1; } else { b = mid; } }
    lo = a;
    for (b = n; a < b;) { size_t mid = a + (b - a) / 2; if (LS(s, mid).key <= key) { a = mid + 1; } else { b = mid; } }
    hi = a;
    e.id = ++lq_serial;
    e.key = key;
    lq_bytes(lq_keybuf, m->siz, e.id, e.key);
    lq_cmp_siz = m->siz;
    if (variant == 0)
    {
        opname = "push_sort";
        vf_log("que %d push_sort key %u (num %zu, admissible positions %zu..%zu)", k, key, n, lo, hi);
        lq_key_left = 0;
        p = a_que_push_sort(m->q, lq_keybuf, lq_cmp);
        if (lq_key_left) { LFAIL("comparator-key-on-the-left", "%d comparator calls had the key as the left operand (documented: the key on the right)", lq_key_left); return; }
        if (p) { memcpy(p, lq_keybuf, m->siz); }
    }
    else if (variant == 1)
    {
        opname = "sort_fore";
        vf_log("que %d push_fore key %u + sort_fore (num %zu, admissible positions %zu..%zu)", k, key, n, lo, hi);
        p = a_que_push_fore(m->q);
        if (p) { memcpy(p, lq_keybuf, m->siz); a_que_sort_fore(m->q, lq_cmp); }
    }
    else
    {
        opname = "sort_back";
        vf_log("que %d push_back key %u + sort_back (num %zu, admissible positions %zu..%zu)", k, key, n, lo, hi);
        p = a_que_push_back(m->q);
        if (p) { memcpy(p, lq_keybuf, m->siz); a_que_sort_back(m->q, lq_cmp); }
    }
    lq_touch(m);
    if (!p) { LFAIL("unexpected-null", "push returned null at num %zu", n); return 0; }
    lg_reserve(1);
    ent = lg_find(p);
    if (ent->st == 1) { LFAIL("handed-out-node-still-enqueued", "push at num %zu returned the address of an enqueued element", n); return 0; }
    ent->st = 1;
    e.addr = p;
    VF_COUNT("large-que-sorted-insert-position");
    if (a_que_back(m->q) == p) { found = n; }
    else if (a_que_fore(m->q) == p) { found = 0; }
    else
    {
        a_list *h = &m->q->head_, *it;
        size_t pos = 0;
        for (it = h->next; it != h && pos <= n; it = it->next, ++pos)
        {
            if ((void *)(it + 1) == p) { found = pos; break; }
        }
    }
    if (found == SIZE_MAX) { LFAIL("new-element-not-in-ring", "the pushed node is not linked into the queue (num %zu)", n); return 0; }
    if (found < lo || found > hi) { LFAIL("not-sorted", "key %u placed at %zu of %zu, admissible positions %zu..%zu", key, found, n, lo, hi); return 0; }
    ls_insert(s, found, e);
    return ok;
}
/* `count` single operations at the present (large) size on either queue, the complete state compared after each */
static int lq_edge_ops(int count, vf_rng *r)
{
    int alive = 1;
    for (int i = 0; i < count && alive; ++i)
    {
        int op = (int)vf_below(r, 12), k = vf_chance(r, 1, 4) ? 1 : 0, cls = 0, ok = 1;
        lqm *m = &LQ[k];
        size_t n = m->s.n, idx;
        switch (op)
        {
        case 0: case 1: case 2:
            idx = lq_idx(r, n, &cls);
            alive = lq_push(k, 2, idx, lq_randkey(r, m->siz));
            cell3("large-insert", cls, lg_log2(n + 1), (int)m->siz);
            break;
        case 3: case 4: case 5:
            idx = lq_idx(r, n, &cls);
            alive = lq_pull(k, 2, idx);
            cell3("large-remove", cls, lg_log2(n + 1), (int)m->siz);
            break;
        case 6: alive = lq_push(k, op & 1, 0, lq_randkey(r, m->siz)); break;
        case 7: alive = lq_push(k, op & 1, 0, lq_randkey(r, m->siz)); break;
        case 8: alive = lq_pull(k, 0, 0); break;
        case 9: alive = lq_pull(k, 1, 0); break;
        case 10:
        {
            int k2 = vf_chance(r, 1, 3) ? 1 - k : k;
            lqm *m2 = &LQ[k2];
            size_t p1, p2;
            a_list *x, *y;
            if (!n || !m2->s.n || m->siz != m2->siz) { break; }
            p1 = lg_pos(r, n, &cls);
            p2 = lg_pos(r, m2->s.n, &cls);
            x = (a_list *)LS(&m->s, p1).addr - 1;
            y = (a_list *)LS(&m2->s, p2).addr - 1;
            if (x == y || x->next == y || y->next == x) { VF_COUNT("swap-skipped-adjacent"); break; }
            opname = "swap_";
            vf_log("que swap_(element %zu of queue %d holding %zu, element %zu of queue %d holding %zu)", p1, k, n, p2, k2, m2->s.n);
            a_que_swap_(LS(&m->s, p1).addr, LS(&m2->s, p2).addr);
            {
                lge t = LS(&m->s, p1);
                LS(&m->s, p1) = LS(&m2->s, p2);
                LS(&m2->s, p2) = t;
            }
            VF_COUNT("large-que-element-swap");
            cell3("large-swap_", k == k2, posc(p1, n), posc(p2, m2->s.n));
            break;
        }
        default:
        {
            size_t j = 0;
            opname = "foreach";
            vf_log("que %d foreach / foreach_reverse (num %zu)", k, n);
            VF_COUNT("large-que-foreach-macros");
            a_que_foreach(unsigned char, *, it, m->q)
            {
                if (j >= n || (void *)it != LS(&m->s, j).addr) { LFAIL("foreach", "position %zu of %zu", j, n); break; }
                ++j;
            }
            if (ok && j != n) { LFAIL("foreach", "visited %zu of %zu", j, n); }
            j = 0;
            a_que_foreach_reverse(unsigned char, *, it, m->q)
            {
                if (j >= n || (void *)it != LS(&m->s, n - 1 - j).addr) { LFAIL("foreach_reverse", "position %zu of %zu", j, n); break; }
                ++j;
            }
            if (ok && j != n) { LFAIL("foreach_reverse", "visited %zu of %zu", j, n); }
            if (!ok) { alive = 0; }
            break;
        }
        }
        if (alive)
        {
            VF_COUNT("large-que-single-ops-at-size-judged");
            alive = lq_check(r);
        }
    }
    return alive;
}

/* deterministic sweep at the present size of queue k: insert at, then remove at, every index 2^j-1, 2^j, 2^j+1 for the three
 * largest powers of two <= num, and num-1, num (complete comparison after each call) */
static int lq_boundary_sweep(int k, vf_rng *r)
{
    lqm *m = &LQ[k];
    int alive = 1, top = lg_log2(m->s.n ? m->s.n : 1);
    size_t idx[11];
    int ni = 0;
    for (int j = top; j >= 1 && j > top - 3; --j)
    {
        for (int d = -1; d <= 1; ++d) { idx[ni++] = ((size_t)1 << j) + (size_t)d; }
    }
    idx[ni++] = m->s.n ? m->s.n - 1 : 0;
    idx[ni++] = m->s.n;
    vf_log("large que %d: boundary sweep of insert(idx) / remove(idx) at num %zu", k, m->s.n);
    for (int i = 0; i < ni && alive; ++i)
    {
        alive = lq_push(k, 2, idx[i], lq_randkey(r, m->siz)) && lq_check(r);
        if (alive) { alive = lq_pull(k, 2, idx[i]) && lq_check(r); }
        VF_ADD("large-que-boundary-sweep-ops", 2);
        cell3("large-sweep", i, lg_log2(m->s.n + 1), 0);
    }
    return alive;
}

static void que_large(uint64_t c, uint64_t L, vf_rng *r, size_t N)
{
    static size_t const zs[] = {1, 3, 4, 8, 24, 64};
    size_t siz = zs[vf_below(r, 6)], maxn = N + N / 8 + 64;
    int alive, big = 0;
    fam = "que";
    cmp_pick_style(r);
    lq_serial = 0;
    lg_tab = NULL;
    lg_tabcap = lg_tabused = 0;
    lg_reserve(N);
    for (int k = 0; k < 2; ++k)
    {
        if ((L >> 1 ^ (uint64_t)k) & 1)
        {
            LQ[k].q = (a_que *)malloc(sizeof(a_que));
            memset(LQ[k].q, 0x5A, sizeof(a_que));
            a_que_ctor(LQ[k].q, siz);
            LQ[k].by_ctor = 1;
        }
        else
        {
            LQ[k].q = a_que_new(siz);
            LQ[k].by_ctor = 0;
        }
        LQ[k].siz = siz;
        LQ[k].shadow = NULL;
        LQ[k].shn = LQ[k].shcap = LQ[k].low = 0;
        ls_init(&LQ[k].s, 2 * maxn + 64);
    }
    if (vf_want_sample())
    {
        vf_sample("large queue history %" PRIu64 ": element size %zu, filled to %zu elements (push_back/push_fore/insert; every ring node, payload byte, element address, num, fore/back/at(+-i) and the recycling pool compared at every n within 2 of a power of two), single insert/remove at indices {0, 2^k+-1, n-1, n, n+1, SIZE_MAX}, element swap, fill/drain cycles through the node pool (checkpoints at every pool growth step), whole-queue swap with a small queue, drop + refill, setz to another element size + refill past the pool, long sorted queue with push_sort/sort_fore/sort_back of keys below/inside/above", c, siz, N);
    }
    /* 1. first fill, then single operations at that size */
    alive = lq_fill(0, N, r, "first fill: every node freshly allocated");
    if (alive) { alive = lq_boundary_sweep(0, r); }
    if (alive) { alive = lq_edge_ops(8 + (int)vf_below(r, 8), r); }
    /* 2. fill/drain cycles through the recycling pool */
    for (int cyc = 0, ncyc = 1 + (int)vf_below(r, 3); cyc < ncyc && alive; ++cyc)
    {
        size_t n = LQ[0].s.n, lo, hi, amp = ((size_t)1 << vf_below(r, (uint64_t)lg_log2(n + 2) + 1)) + (size_t)vf_below(r, 3);
        switch ((int)vf_below(r, cyc ? 5 : 3))
        {
        case 0: lo = 0; break;
        case 1: lo = vf_chance(r, 1, 2) ? 1 : n / 3; break;
        default: lo = amp < n ? n - amp : 0; break;
        }
        alive = lq_drain(0, lo, r);
        if (!alive) { break; }
        switch ((int)vf_below(r, 4))
        {
        case 0: hi = N + 1; break;
        case 1: hi = N + N / 8; break;
        case 2: hi = lo + amp + 1; break;
        default: hi = N; break;
        }
        if (hi > maxn - 32) { hi = maxn - 32; }
        alive = lq_fill(0, hi, r, "refill: pooled nodes first, fresh ones once the pool is empty");
        VF_COUNT("large-que-fill-drain-cycles");
    }
    /* 3. whole-queue swap of the large queue with a small (sometimes also large) one, traffic on both */
    if (alive)
    {
        static size_t const small[] = {0, 1, 2, 5, 33};
        size_t n1 = vf_chance(r, 1, 6) ? N / 2 + 1 : small[vf_below(r, 5)];
        alive = lq_fill(1, n1, r, "the other queue");
        for (int rep = 0, nrep = 1 + (int)vf_below(r, 2); rep < nrep && alive; ++rep)
        {
            int ok = 1;
            opname = "swap";
            vf_log("que a_que_swap (num %zu / %zu)", LQ[0].s.n, LQ[1].s.n);
            a_que_swap(LQ[0].q, LQ[1].q);
            lq_swap_model();
            VF_COUNT("large-que-whole-swap");
            cell3("large-swap", lg_log2(LQ[0].s.n + 1), lg_log2(LQ[1].s.n + 1), 0);
            (void)ok;
            alive = lq_check(r) && lq_edge_ops(4 + (int)vf_below(r, 4), r);
        }
        big = LQ[1].s.n > LQ[0].s.n;
    }
    /* 4. drop everything into the pool, refill out of it */
    if (alive) { alive = lq_drop(big, r); }
    if (alive) { alive = lq_fill(big, N / 2 + (size_t)vf_below(r, N / 2 + 1), r, "refill after drop: every node comes out of the pool"); }
    /* 5. element-size change after heavy use: pooled nodes are re-allocated, then a refill past the pool */
    if (alive) { alive = lq_drain(big, LQ[big].s.n - LQ[big].s.n / (1 + (size_t)vf_below(r, 4)), r); }
    if (alive)
    {
        size_t nz = zs[vf_below(r, 6)];
        if (nz == LQ[big].siz) { nz = zs[(vf_below(r, 5) + 1) % 6]; }
        if (vf_chance(r, 1, 8)) { nz = 0; }
        alive = lq_setz(big, nz, r);
    }
    if (alive) { alive = lq_fill(big, N + (size_t)vf_below(r, N / 8 + 2), r, "refill after setz: re-allocated pooled nodes first, then fresh ones; every byte of the new element size is written"); }
    if (alive) { alive = lq_edge_ops(4 + (int)vf_below(r, 4), r); }
    /* 6. a long sorted queue: sorted insertion of keys below all, above all, equal to runs, in between */
    if (alive) { alive = lq_drop(big, r); }
    if (alive)
    {
        lqm *m = &LQ[big];
        size_t run = (size_t[]){1, 3, 64}[vf_below(r, 3)];
        uint32_t kmax = 0, mark;
        int nsort = 10 + (int)vf_below(r, 8);
        lq_keybuf = (unsigned char *)malloc(m->siz);
        vf_log("large que %d: build a sorted queue of %zu elements (element size %zu, runs of %zu equal keys) by push_back / push_sort / push_back+sort_back of ascending keys", big, N, m->siz, run);
        mark = vf_log_mark();
        while (m->s.n < N && alive)
        {
            size_t i = m->s.n;
            uint32_t key = m->siz >= 4 ? (uint32_t)(10 + 2 * (i / run)) : (uint32_t)(1 + i * 254 / N);
            unsigned x = (unsigned)vf_below(r, 8);
            vf_log_rewind(mark);
            kmax = key;
            if (x < 5) { alive = lq_push(big, 0, 0, key); }
            else { alive = lq_sorted_insert(big, x == 7 ? 2 : 0, key); }
            if (alive && (lg_near_pow2(i + 1) || i + 1 == N))
            {
                VF_COUNT("large-que-sorted-build-checkpoints");
                alive = lq_check(r);
            }
        }
        vf_log_rewind(mark);
        for (int i = 0; i < nsort && alive; ++i)
        {
            int kc = (int)vf_below(r, 6), variant = (int)vf_below(r, 3);
            uint32_t key;
            if (m->siz >= 4)
            {
                uint32_t j = (uint32_t)vf_below(r, (kmax - 10) / 2 + 1);
                key = kc == 0 ? 0 : kc == 1 ? kmax + 5 : kc == 2 ? 10 : kc == 3 ? kmax : kc == 4 ? 10 + 2 * j : 11 + 2 * j;
            }
            else { key = kc == 0 ? 0 : kc == 1 ? 255 : kc == 2 ? 1 : kc == 3 ? kmax : (uint32_t)vf_range(r, 1, 254); }
            alive = lq_sorted_insert(big, variant, key);
            cell3(variant == 0 ? "large-push_sort" : variant == 1 ? "large-sort_fore" : "large-sort_back", kc, lg_log2(m->s.n), 0);
            if (alive)
            {
                VF_COUNT("large-que-sorted-inserts-judged");
                alive = lq_check(r);
            }
        }
        free(lq_keybuf);
        lq_keybuf = NULL;
    }
    if (alive)
    {
        opname = "die";
        vf_log("que die both (num %zu / %zu)", LQ[0].s.n, LQ[1].s.n);
        for (int k = 0; k < 2; ++k)
        {
            if (LQ[k].by_ctor) { a_que_dtor(LQ[k].q, k ? lq_dtor : NULL); free(LQ[k].q); }
            else { a_que_die(LQ[k].q, k ? lq_dtor : NULL); }
        }
        VF_COUNT("large-que-destroyed");
    }
    for (int k = 0; k < 2; ++k)
    {
        ls_free(&LQ[k].s);
        free(LQ[k].shadow);
    }
    free(lg_tab);
    lg_tab = NULL;
}

/* Large case number L (= case / 41 quick, case / 1201 thorough; the worker index is L mod the worker count), round = L / 48:
 * j = (L % 48 + 13 * round) % 48 (so the expensive combinations wander over the workers from round to round),
 * family = j / 12 (0 queue A, 1 list, 2 queue B, 3 slist), size slot = j % 12 (lg_target).
 * Bounds. list/slist: every slot at face value in both tiers (up to 65537 nodes; odd rounds of thorough up to 131073 and
 * random sizes up to 200000). queue: a case of n >= 32767 elements costs about 2 s under ASan, therefore queue A runs the
 * slots at face value in round 0 of quick (one case each of 65535, 65536, 65537, 32767 and a random size in 40000..70000
 * per quick run) and in every round of thorough; queue A in the later quick rounds and queue B everywhere divide the
 * sizes >= 32767 by 8 (quick) / 4 (thorough). */
static void large_case(uint64_t L, uint64_t c, vf_rng *r)
{
    uint64_t round = L / 48;
    unsigned j = (unsigned)((L % 48 + 13 * round) % 48), fam_ = j / 12, slot = j % 12;
    int big = vf.tier && (round & 1);
    size_t N = lg_target(slot, big, r);
    VF_COUNT("large-cases");
    switch (fam_)
    {
    case 1:
        if (N >= 65537) { VF_COUNT("large-list-cases-reaching-65537"); }
        list_large(c, r, N);
        break;
    case 3:
        if (N >= 65537) { VF_COUNT("large-slist-cases-reaching-65537"); }
        slist_large(c, r, N);
        break;
    default:
        if (N >= 32767 && (fam_ == 2 || (!vf.tier && round > 0))) { N = N / (vf.tier ? 4 : 8) + (size_t)vf_below(r, 3); }
        if (N >= 65537) { VF_COUNT("large-que-cases-reaching-65537"); }
        que_large(c, L, r, N);
        break;
    }
}

#define LG_MOD_QUICK 41
#define LG_MOD_THOROUGH 1201
static uint64_t vf_ncases(int tier) { return tier ? 1200000 : 6000; }
/* Nodes that change QUEUES and then meet an element-size change. a_que_swap_ takes two elements and no queue, so it exchanges elements of two queues of equal element size
   (sound on the pinned tree); what a queue believes about "its" nodes (how much storage each has) is then no longer true of all of them. The scenario: A holds elements of
   S1 bytes, B of S2 < S1; A shrinks to S2 and recycles; one element of A and one of B change places; A grows to S3 with S2 < S3 <= S1, recycles again and is filled, every
   element written with a_que_siz() bytes; both queues are walked and compared with what was written. An element handed out with less storage than the queue's element
   size is a heap overflow at the harness's own write (ASan) or shows up in the neighbour's bytes (seeded change C05-N: setz skips the node reallocation while the new size
   is within what "every node of this queue" once had). Random histories meet the five ordered steps over two objects and three related sizes too rarely. */
static void que_cross_size_scenario(vf_rng *r)
{
    static size_t const S[] = {1, 4, 8, 16, 24, 40, 64, 200};
    size_t const i2 = (size_t)vf_below(r, 6), i1 = i2 + 1 + (size_t)vf_below(r, 7 - i2), s2 = S[i2], s1 = S[i1];
    size_t const s3 = vf_chance(r, 1, 3) ? s1 : s2 + 1 + (size_t)vf_below(r, s1 - s2);
    unsigned const na = 4 + (unsigned)vf_below(r, 6), nb = 4 + (unsigned)vf_below(r, 6);
    a_que *A = a_que_new(s1), *B = a_que_new(s2);
    unsigned char tagB[16];
    unsigned i;
    void *ea, *eb;
    vf_log("two queues, element sizes %zu and %zu; A shrinks to %zu, one element of each changes places, A grows to %zu and is refilled", s1, s2, s2, s3);
    for (i = 0; i < na; ++i) { memset(a_que_push_back(A), (int)(0x10 + i), a_que_siz(A)); }
    for (i = 0; i < nb; ++i) { memset(a_que_push_back(B), (int)(0x40 + i), a_que_siz(B)); }
    if (a_que_setz(A, s2, NULL) != A_SUCCESS) { vf_viol("que_setz/unexpected-error", "shrinking %zu -> %zu", s1, s2); goto out; }
    for (i = 0; i < na; ++i) { memset(a_que_push_back(A), (int)(0x20 + i), a_que_siz(A)); }
    ea = a_que_at(A, 1);
    eb = a_que_at(B, (a_diff)(nb - 2));
    a_que_swap_(ea, eb);
    /* B now holds A's element (value 0x21) at position nb-2, A holds B's (0x40 + nb - 2) at position 1 */
    for (i = 0; i < nb; ++i) { tagB[i] = (unsigned char)(i == nb - 2 ? 0x21 : 0x40 + i); }
    if (*(unsigned char *)a_que_at(A, 1) != (unsigned char)(0x40 + nb - 2) || *(unsigned char *)a_que_at(B, (a_diff)(nb - 2)) != 0x21) { vf_viol("que_swap_/elements-of-two-queues-did-not-change-places", "sizes %zu", s2); goto out; }
    if (a_que_setz(A, s3, NULL) != A_SUCCESS) { vf_viol("que_setz/unexpected-error", "growing %zu -> %zu", s2, s3); goto out; }
    for (i = 0; i < na + 3; ++i)
    {
        void *p = a_que_push_back(A);
        if (!p) { vf_viol("que_push_back/unexpected-null", "after setz(%zu)", s3); goto out; }
        memset(p, (int)(0x60 + i), a_que_siz(A)); /* the caller fills ITS element: a_que_siz() bytes */
    }
    ++vf.evals;
    VF_COUNT("que-nodes-changed-queues-then-element-size-changed");
    for (i = 0; i < na + 3; ++i)
    {
        unsigned char const *p = (unsigned char const *)a_que_at(A, (a_diff)i);
        for (size_t b = 0; b < s3; ++b) { if (p[b] != (unsigned char)(0x60 + i)) { vf_viol("que/element-bytes-changed-by-a-neighbour/after-cross-queue-swap", "A element %u byte %zu of %zu is 0x%02X", i, b, s3, p[b]); goto out; } }
    }
    for (i = 0; i < nb; ++i)
    {
        unsigned char const *p = (unsigned char const *)a_que_at(B, (a_diff)i);
        for (size_t b = 0; b < s2; ++b) { if (p[b] != tagB[i]) { vf_viol("que/element-bytes-changed-by-a-neighbour/after-cross-queue-swap", "B element %u byte %zu of %zu is 0x%02X, written 0x%02X (B was not operated on)", i, b, s2, p[b], tagB[i]); goto out; } }
    }
    if (a_que_num(A) != na + 3 || a_que_num(B) != nb) { vf_viol("que/count-after-cross-queue-swap", "A %zu (expected %u), B %zu (expected %u)", (size_t)a_que_num(A), na + 3, (size_t)a_que_num(B), nb); }
out:
    a_que_die(A, NULL);
    a_que_die(B, NULL);
}

static void vf_case(uint64_t c, vf_rng *r)
{
    uint64_t const mod = vf.tier ? LG_MOD_THOROUGH : LG_MOD_QUICK;
    if (c % 4 == 2) { vf_rng qr; vf_rng_seed(&qr, vf.seed, vf_hash_str("C05-cross-size"), c); for (int i = 0; i < 4; ++i) { que_cross_size_scenario(&qr); } }
    if (c % mod == mod - 1)
    {
        large_case(c / mod, c, r);
        return;
    }
    switch (c % 3)
    {
    case 0: list_case(c, r); break;
    case 1: slist_case(c, r); break;
    default: que_case(c, r); break;
    }
}
