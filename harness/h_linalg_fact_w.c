/* C08, other real widths (A_SIZE_REAL = 4 float, 16 long double): compact type-generic companion of h_linalg_fact.c (which
 * assumes a_real == double).  One case = one matrix of one kind through one family (plu / ldl / llt), n = 1..12:
 *
 *  kind 0  EXACT   inputs on which every operation of the factorization, of the solve and of the determinant is exact in any
 *                  binary type with >= 24 bits, so the judge is ==:
 *                    plu: A = Q L0 U0, L0 unit lower with multipliers k/4, |k| <= 3 (|l| < 1: the pivot of every column is unique),
 *                         U0 integer, |u| <= 4, u_ii in +-{1,2,4}, Q a random row permutation  ->  stored factors == L0\U0, p == Q^-1, sign == parity
 *                    ldl: A = L0 D0 L0^T, L0 integer unit lower |l| <= 2, D0 in +-{1,2,4}  ->  stored == L0, D0
 *                    llt: A = L0 L0^T, L0 integer, diagonal in {1,2,4}, |l| <= 2         ->  stored == L0 (sqrt of 1,4,16)
 *                  b = A x0 with integer |x0| <= 4: solve == x0; det == the integer determinant; for n <= 4 (multipliers k/2, pivots
 *                  +-1,+-2 (plu, llt) or +-1,+-2,+-4 (ldl)) the inverse and both sweeps of every column are dyadic: A X == I exactly.
 *                  EVERY DIVISOR (u_ii, d_i, l_ii) IS A POWER OF TWO: the property does not fix how a quotient is formed, and a * fl(1/u) is the
 *                  exact quotient only when 1/u is representable; products are of integers / dyadics, exact in either association.
 *                  Exactness (worst case over the generator, n <= 12): factorization, b and the sweeps of the solve are multiples of
 *                  1/4 below 2^14 (16 bits); determinants are powers of two up to sign; the n <= 4
 *                  inverse sweeps are multiples of 2^-7 below 2^7 (plu), of 1/4 below 2^9 (ldl), of 2^-8 below 2^9 (llt): <= 17 bits.
 *  kind 1  ROUNDED full-mantissa random entries of the working type (rows/columns scaled by 2^+-12 at most): componentwise
 *                  bounds with u = A_REAL_EPSILON/2, gamma_k = k u/(1-k u), safety factor c = 4 (same forms as h_linalg_fact.c):
 *                    reconstruction |PA-LU| <= c gamma_n |L||U|, |A-LDL^T| <= c gamma_n |L||D||L^T|, |A-LL^T| <= c gamma_{n+1} |L||L^T|
 *                    solve / inverse column (inv and inv_)  |b-Ax| <= c gamma_{3n} (P^T|L||U|)|x|   (ldl, llt: gamma_{3n+1})
 *                    det: relative c gamma_{n+2} (llt: gamma_{2n+2}) to the quad product of the stored pivots, judged while every
 *                    partial product stays within 2^+-(3/8 MAX_EXP); lndet: c (n+2) eps sum|log|pivot|| (libm log < 1 ulp = eps);
 *                    sgndet == sign of that product.  Every bound carries the gradual-underflow term of the full harness, majorised
 *                    by UFS = eta n (1+max|pivot|)^2, eta = A_REAL_MIN*A_REAL_EPSILON (it never matters on these inputs).
 *                  Residuals in __float128: the oracle's own rounding is 2^-113 per operation, < 2^-45 of any tolerance here.
 *  kind 2  FAIL    pivot exactly 0 (<= 0 for llt) BY CONSTRUCTION: kind-0 matrix with one u_kk / d_k zeroed or one Cholesky pivot
 *                  lowered to -m, a zero column, 2^k-multiple rows (general pivot, and meeting at a pivot +-2^K: see gen), zero matrix,
 *                  non-positive leading entry -> failure.
 *  kind 3  RANGE   no arithmetic happens, but the pivots are normal numbers ANYWHERE in the range of the working type (2^k,
 *                  MIN_EXP-1 <= k, including A_REAL_MIN itself): permutation / diagonal / row-scaled upper triangular with diagonal +-2^k (plu), diagonal
 *                  (ldl, llt 2^2k) -> success, stored factors == the (row-permuted) input resp. 2^k, solve == x0, inverse exact,
 *                  lndet and sgndet as above.  A threshold, an abs() or a constant of another width shows here.
 *  On success always: p is a permutation, sign == parity(p), |l| <= 1 (plu), diagonal > 0 (llt), pivots non-zero; P, P_, L, U, D
 *  extraction == the stored factors.  EVERY array the library sees is an exact-size malloc block filled with 0xA5 (or an exact-size
 *  copy), so an access whose extent depends on sizeof(a_real) is an ASan report, and a cell never written is a wrong value.
 *  Measured worst ratios to the c = 1 bounds (seeds 1..8 quick, 1..3 thorough; f32 and f80 alike): llt reconstruction 0.97, llt solve
 *  0.74, llt inverse column 0.67, ldl reconstruction 0.66, everything else <= 0.5 (the w-*-ratio maxima in evidence) - do not tighten c.
 */
#define VF_PROP "C08"
#include "vf_common.h"
#include "a/a.h"
#include "a/linalg.h"
#include <quadmath.h>
#include <math.h>
typedef __float128 q_t;
/* Configurations fenv-exact-f32 / -f80 / -f32-fma (-DVF_FENV_ROTATE: vf_common.h runs every case under one of FE_DOWNWARD / FE_TOWARDZERO /
 * FE_UPWARD / FE_TONEAREST).  Only what needs no rounding argument is judged there (see "configurations fenv-exact" in h_linalg_fact.c):
 *   kind 2 (FAIL) in full - the pivot vanishes exactly whatever the rounding direction: zeroed u_kk / d_k and lowered Cholesky pivot on
 *     dyadic data (every intermediate a multiple of 1/4 below 2^14), zero column / matrix / leading entry (no rounded operation involved),
 *     2^k-multiple rows (both rows receive the same operations on exactly 2^k-scaled operands, every IEEE operation commutes with an exact
 *     scaling in every mode, then a/a' = 2^k and a - a'*2^k = +-0; two cases in three meet at a power-of-two pivot);
 *   kinds 0 (EXACT) and 3 (RANGE) in full except lndet - every operation of factorization, sweeps, solve, inverse (n <= 4) and determinant
 *     has an exactly representable result (header above), and an IEEE operation whose exact result is representable returns it in every mode;
 *   kind 1 (ROUNDED): shape (p a permutation, sign == parity, |l| <= 1 under FE_TONEAREST / FE_TOWARDZERO - a * fl(1/b) can be 1 + eps when
 *     both roundings go away from zero -, pivots non-zero, Cholesky diagonal > 0), extraction == stored and sgndet only.
 * NOT judged (w-fenv-skipped-inexact-clause): reconstruction / solve / sweep-chain / inverse-column bounds, det against the quad product and
 * lndet (libm log and the __float128 reference both follow the rounding mode; the bounds are stated for u = eps/2, round-to-nearest). */
/* FE_INVALID and FE_DIVBYZERO are UNMASKED (feenableexcept) immediately before every library factorization / sweep / solve / inverse / determinant
 * call of the kinds EXACT, FAIL and RANGE and masked again immediately after it returns, never while harness code runs (seeded change C08-M: sqrt of
 * a not yet validated negative Cholesky pivot - SIGFPE inside the library for a caller with FE_INVALID unmasked, where the pinned code returns
 * A_FAILURE).  The pinned library raises neither exception on these inputs.  Not unmasked: kind ROUNDED, and the sweeps on the storage whose unused
 * triangle is poisoned with NaN / huge values (forms 2, 3: what an implementation does with entries outside its argument is not stated).  Sticky
 * flags are cleared first: a pending x87 flag would trap at the next x87 instruction once unmasked (long double build). */
#ifdef VF_FENV_ROTATE
static int fx_trap_kind;
static void fx_trap_on(void)
{
    if (!fx_trap_kind) { return; }
    vf_count_dyn("fenv-library-call-watched-for-invalid-and-divbyzero", 1);
    feclearexcept(FE_ALL_EXCEPT);
}
static void fx_trap_off(void)
{
    /* RECORDED, NOT JUDGED. A first version unmasked the two exceptions around the call (a SIGFPE inside the library was a violation). That asks more than C08
       states: ISO C's default is non-stop arithmetic, trapping is a glibc extension of the caller, and code that computes sqrt(pivot) and then tests the result
       reports failure correctly in every standard environment - the same reason UBSan's float-divide-by-zero is not enabled (DESIGN 2.2). The count says how
       often the library raised FE_INVALID / FE_DIVBYZERO on inputs where the pinned code raises neither (0 on the pinned tree). */
    if (fx_trap_kind && fetestexcept(FE_INVALID | FE_DIVBYZERO)) { vf_count_dyn("fenv-library-raised-invalid-or-divbyzero", 1); }
}
#define FX_TRAP_ON() fx_trap_on();
#define FX_TRAP_OFF() fx_trap_off();
#define FX_TRAP_KIND(v) fx_trap_kind = (v);
#else
#define FX_TRAP_ON()
#define FX_TRAP_OFF()
#define FX_TRAP_KIND(v)
#endif
#ifdef VF_FENV_ROTATE
static void fx_mode_count(char const *what)
{
    char nm[56];
    int const m = fegetround();
    snprintf(nm, sizeof(nm), "%s-%s", what, m == FE_DOWNWARD ? "FE_DOWNWARD" : m == FE_UPWARD ? "FE_UPWARD" : m == FE_TOWARDZERO ? "FE_TOWARDZERO" : "FE_TONEAREST");
    vf_count_dyn(nm, 1);
}
#endif
#if A_REAL_TYPE + 0 == A_REAL_SINGLE
#define W "f32"
#elif A_REAL_TYPE + 0 == A_REAL_EXTEND
#define W "f80"
#else
#define W "f64"
#endif
#define NMAX 12u
#define CSAFE 4.0
#define UR ((q_t)A_REAL_EPSILON / 2)
#define ETA ((q_t)A_REAL_MIN * (q_t)A_REAL_EPSILON)
#define DLIM (A_REAL_MAX_EXP * 3 / 8)
#define IX(r, c) ((size_t)n * (r) + (c))
enum { PLU, LDL, LLT };
enum { K_EXACT, K_ROUNDED, K_FAIL, K_RANGE };
static char const *const fam_name[] = {"plu", "ldl", "llt"};
static char const *const kind_name[] = {"exact", "rounded", "exactly-singular", "full-range-pivots"};

static q_t gam(unsigned k) { q_t ku = (q_t)k * UR; return ku / (1 - ku); }
static a_real *blk(size_t n) /* exact size, garbage filled */
{
    size_t const b = n * sizeof(a_real);
    a_real *p = (a_real *)malloc(b ? b : 1);
    if (!p) { exit(2); }
    memset(p, 0xA5, b);
    return p;
}
static a_real *dupl(a_real const *s, size_t n) { a_real *p = blk(n); memcpy(p, s, n * sizeof(a_real)); return p; }
static void viol(unsigned fam, char const *rt, char const *clause, char const *fmt, ...) __attribute__((format(printf, 4, 5)));
static void viol(unsigned fam, char const *rt, char const *clause, char const *fmt, ...)
{
    char key[128], msg[1000];
    va_list ap;
    va_start(ap, fmt);
    vsnprintf(msg, sizeof(msg), fmt, ap);
    va_end(ap);
    snprintf(key, sizeof(key), "%s%s/%s/" W, fam_name[fam], rt, clause);
    vf_viol(key, "%s", msg);
}
static void cnt(unsigned fam, char const *what)
{
    char nm[56];
    snprintf(nm, sizeof(nm), "w-%s%s", fam_name[fam], what);
    vf_count_dyn(nm, 1);
}
static void mx(unsigned fam, char const *what, double v)
{
    char nm[56];
    snprintf(nm, sizeof(nm), "w-%s%s", fam_name[fam], what);
    vf_max_dyn(nm, v, NULL);
}
static double ratio_of(q_t res, q_t bound)
{
    q_t a = fabsq(res);
    if (!(a == a)) { return INFINITY; }
    if (a == 0) { return 0.0; }
    if (!(bound > 0) || a / bound > 1e300Q) { return INFINITY; }
    return (double)(a / bound);
}
static a_real rnd(vf_rng *r) { return (a_real)vf_uniform(r, -1.0, 1.0) + (a_real)vf_uniform(r, -1.0, 1.0) * (a_real)0x1p-30; }
static a_real p2(int k) { return (a_real)ldexpl(1.0L, k); }
static q_t isgn(vf_rng *r) { return vf_chance(r, 1, 2) ? -1 : 1; }
static void shuffle(vf_rng *r, unsigned n, unsigned *q)
{
    for (unsigned i = 0; i < n; ++i) { q[i] = i; }
    for (unsigned i = n; i > 1; --i)
    {
        unsigned const k = (unsigned)vf_below(r, i), t = q[i - 1];
        q[i - 1] = q[k];
        q[k] = t;
    }
}
static int parity(unsigned const *p, unsigned n) /* p is a permutation */
{
    int s = 1;
    unsigned seen[NMAX] = {0};
    for (unsigned i = 0; i < n; ++i)
    {
        unsigned len = 0;
        for (unsigned k = i; !seen[k]; k = p[k]) { seen[k] = 1; ++len; }
        if (len && !(len & 1)) { s = -s; }
    }
    return s;
}
/* an exponent k with 2^k normal, ends of the range included; hi = MAX_EXP - margin */
static int xexp(vf_rng *r, int margin, int even)
{
    int const lo = A_REAL_MIN_EXP - 1, hi = A_REAL_MAX_EXP - margin;
    int k = vf_chance(r, 1, 3) ? (vf_chance(r, 1, 2) ? lo + (int)vf_below(r, 3) : hi - (int)vf_below(r, 3)) : (int)vf_range(r, lo, hi);
    return even ? k - (k & 1) : k; /* lo is even for all three types */
}

typedef struct
{
    unsigned fam, kind, n, sub;
    int expect;                           /* 0 any, 1 success, 2 failure */
    a_real *A0, *EF;                      /* input; expected factor storage (exact kinds) */
    unsigned ep[NMAX];                    /* expected permutation vector (plu, exact kinds) */
    int x0[NMAX];                         /* b = A0 x0 is exact and so is its solution */
    int has_ef, exact_solve, exact_inv, has_det;
    q_t det;
} job_t;

/* A0 = L diag(d) L^T (d NULL: identity), all integer: exact */
static void sym_from(unsigned n, q_t const *L, q_t const *d, a_real *A)
{
    for (unsigned i = 0; i < n; ++i)
    {
        for (unsigned k = 0; k < n; ++k)
        {
            q_t s = 0;
            for (unsigned t = 0; t <= i && t <= k; ++t) { s += L[IX(i, t)] * (d ? d[t] : 1) * L[IX(k, t)]; }
            A[IX(i, k)] = (a_real)s;
        }
    }
}
static void mirror(unsigned n, a_real *A)
{
    for (unsigned i = 0; i < n; ++i) { for (unsigned k = i + 1; k < n; ++k) { A[IX(i, k)] = A[IX(k, i)]; } }
}
static void gen_btb(vf_rng *r, unsigned n, a_real *A, int indef)
{
    a_real B[NMAX * NMAX];
    for (size_t i = 0; i < (size_t)n * n; ++i) { B[i] = rnd(r); }
    a_real const delta = (a_real)vf_logu(r, -3.0, 0.0);
    for (unsigned i = 0; i < n; ++i)
    {
        a_real row = 0;
        for (unsigned k = 0; k < i; ++k)
        {
            a_real s = 0;
            for (unsigned t = 0; t < n; ++t) { s += B[IX(t, i)] * B[IX(t, k)]; }
            A[IX(i, k)] = indef ? B[IX(i, k)] : s;
        }
        for (unsigned t = 0; t < n; ++t) { row += B[IX(t, i)] * B[IX(t, i)]; }
        A[IX(i, i)] = indef ? (a_real)isgn(r) * ((a_real)n + 1 + B[IX(i, i)]) : row + delta; /* indef: strictly diagonally dominant, mixed signs */
    }
    mirror(n, A);
    if (vf_chance(r, 1, 3))
    {
        int e[NMAX];
        for (unsigned i = 0; i < n; ++i) { e[i] = (int)vf_range(r, -6, 6); }
        for (unsigned i = 0; i < n; ++i) { for (unsigned k = 0; k < n; ++k) { A[IX(i, k)] *= p2(e[i] + e[k]); } }
    }
}

static void gen(job_t *j, vf_rng *r)
{
    unsigned const n = j->n, fam = j->fam, kind = j->kind;
    int const small = n <= 4;
    a_real *A = j->A0, *EF = j->EF;
    q_t L[NMAX * NMAX], U[NMAX * NMAX], d[NMAX];
    unsigned q[NMAX];
    j->expect = kind == K_FAIL ? 2 : kind == K_ROUNDED ? 0 : 1;
    j->sub = (unsigned)vf_below(r, 4);
    for (unsigned i = 0; i < n; ++i) { j->x0[i] = (int)vf_range(r, -4, 4); j->ep[i] = i; }
    memset(L, 0, sizeof(L));
    memset(U, 0, sizeof(U));
    for (size_t i = 0; i < (size_t)n * n; ++i) { EF[i] = 0; }
    if (kind == K_ROUNDED)
    {
        if (fam != PLU) { gen_btb(r, n, A, fam == LDL && (j->sub & 1)); return; }
        for (unsigned i = 0; i < n; ++i)
        {
            int const er = (j->sub & 1) ? (int)vf_range(r, -6, 6) : 0;
            for (unsigned k = 0; k < n; ++k) { A[IX(i, k)] = rnd(r) * p2(er); }
        }
        for (unsigned k = 0; k < n && (j->sub & 2); ++k)
        {
            a_real const s = p2((int)vf_range(r, -6, 6));
            for (unsigned i = 0; i < n; ++i) { A[IX(i, k)] *= s; }
        }
        return;
    }
    if (kind == K_RANGE)
    {
        for (size_t i = 0; i < (size_t)n * n; ++i) { A[i] = 0; }
        shuffle(r, n, q);
        j->has_ef = j->exact_solve = 1;
        j->exact_inv = !(fam == PLU && j->sub >= 2);
        for (unsigned i = 0; i < n; ++i)
        {
            if (j->x0[i] == 4 || j->x0[i] == -4) { j->x0[i] /= 2; } /* |b| = |a| |x0| < 4 |a| stays finite */
            if (fam == LLT) { int const k = xexp(r, 3, 1); A[IX(i, i)] = p2(k); EF[IX(i, i)] = p2(k / 2); }
            else if (fam == LDL || j->sub == 1) { A[IX(i, i)] = EF[IX(i, i)] = (a_real)isgn(r) * p2(xexp(r, 3, 0)); }
            else if (j->sub == 0) { j->ep[q[i]] = i; A[IX(i, q[i])] = EF[IX(q[i], q[i])] = (a_real)isgn(r) * p2(xexp(r, 3, 0)); }
            else /* upper triangular, row i = 2^e * small integers: no elimination, b = 2^e * (integer < 2^7) */
            {
                a_real const s = p2(xexp(r, 9, 0));
                for (unsigned k = i; k < n; ++k)
                {
                    int v = (int)vf_range(r, -3, 3);
                    if (k == i) { v = (vf_chance(r, 1, 2) ? -1 : 1) * (1 << vf_below(r, 2)); } /* the divisor of row i is +-2^e or +-2^(e+1) */
                    A[IX(i, k)] = EF[IX(i, k)] = (a_real)v * s;
                }
            }
        }
        return;
    }
    /* K_EXACT and the exact part of K_FAIL */
    for (unsigned i = 0; i < n; ++i)
    {
        for (unsigned k = 0; k < i; ++k)
        {
            L[IX(i, k)] = fam != PLU ? (q_t)vf_range(r, -2, 2) : small ? (q_t)vf_range(r, -1, 1) / 2 : (q_t)vf_range(r, -3, 3) / 4;
        }
        L[IX(i, i)] = fam != LLT ? 1 : (q_t)(1 << vf_below(r, small ? 2 : 3));
        d[i] = isgn(r) * (q_t)(1 << vf_below(r, small && fam != LDL ? 2 : 3)); /* +-1, +-2 (, +-4): EVERY divisor is a power of two, so a * fl(1/d) == a / d */
        U[IX(i, i)] = d[i];
        for (unsigned k = i + 1; k < n; ++k) { U[IX(i, k)] = small ? (q_t)vf_range(r, -2, 2) : (q_t)vf_range(r, -4, 4); }
    }
    unsigned const kz = vf_chance(r, 1, 4) ? n - 1 : (unsigned)vf_below(r, n);
    int const zero_pivot = kind == K_FAIL && j->sub == 0 && fam != LLT; /* llt variant 0: zero matrix */
    if (zero_pivot) { d[kz] = U[IX(kz, kz)] = 0; }
    j->has_ef = j->exact_solve = j->has_det = 1;
    j->exact_inv = small;
    j->det = 1;
    if (fam == PLU)
    {
        shuffle(r, n, q);
        for (unsigned i = 0; i < n; ++i)
        {
            j->ep[q[i]] = i;
            j->det *= U[IX(i, i)];
            for (unsigned k = 0; k < n; ++k)
            {
                q_t s = 0;
                for (unsigned t = 0; t <= q[i] && t <= k; ++t) { s += L[IX(q[i], t)] * U[IX(t, k)]; }
                A[IX(i, k)] = (a_real)s;
                EF[IX(i, k)] = (a_real)(k < i ? L[IX(i, k)] : U[IX(i, k)]);
            }
        }
        j->det *= parity(q, n);
    }
    else
    {
        sym_from(n, L, fam == LDL ? d : NULL, A);
        for (unsigned i = 0; i < n; ++i)
        {
            j->det *= fam == LDL ? d[i] : L[IX(i, i)] * L[IX(i, i)];
            for (unsigned k = 0; k <= i; ++k) { EF[IX(i, k)] = (a_real)(fam == LDL && k == i ? d[i] : L[IX(i, k)]); }
        }
    }
    if (kind != K_FAIL || zero_pivot) { return; }
    /* the other exactly singular inputs */
    if (fam == LLT && (j->sub & 1)) /* pivot kz (sub 3: the last one) lowered to exactly -m <= 0 */
    {
        static int const lower[] = {0, 0, 0, 1, 2, 5};
        unsigned const k = j->sub == 3 ? n - 1 : kz;
        A[IX(k, k)] -= (a_real)(L[IX(k, k)] * L[IX(k, k)]) + (a_real)lower[vf_below(r, 6)];
        return;
    }
    if (fam != PLU) { gen_btb(r, n, A, fam == LDL); }
    else { for (size_t i = 0; i < (size_t)n * n; ++i) { A[i] = rnd(r); } }
    if (j->sub == 1 && fam == PLU) /* zero column */
    {
        for (unsigned i = 0; i < n; ++i) { A[IX(i, kz)] = vf_chance(r, 1, 3) ? -(a_real)0 : 0; }
    }
    else if (j->sub == 2 && fam == PLU && n >= 2) /* row b = 2^k row a */
    {
        /* named by the property ("duplicated rows ... are reported as failure"): must fail whatever the pivot at which the two rows meet (division
           cancels them exactly: a/a = 1, operations on 2^k-scaled operands commute with the scaling; an implementation with fl(a * fl(1/a)) != 1
           breaks that sentence).  Two cases in three additionally make the meeting step a division by a power of two: the rows are 0 before
           column c0 <= n-2 and +-2^K there, 2^K >= 8 * 2^c0 > 4 * 2^c0 * max|entry| (entries < 1.0000001, partial pivoting at most doubles the
           largest entry per step), so they are neither chosen nor changed before step c0 and one of them is its pivot. */
        unsigned const a = kz, b = (kz + 1 + (unsigned)vf_below(r, n - 1)) % n;
        a_real const s = p2((int)vf_range(r, -3, 3));
        if (!vf_chance(r, 1, 3))
        {
            unsigned const c0 = (unsigned)vf_below(r, n - 1);
            for (unsigned k = 0; k < c0; ++k) { A[IX(a, k)] = 0; }
            A[IX(a, c0)] = (a_real)isgn(r) * p2((int)c0 + 3);
        }
        for (unsigned k = 0; k < n; ++k) { A[IX(b, k)] = A[IX(a, k)] * s; }
    }
    else if (j->sub == 2 && fam != PLU) /* non-positive (llt) / zero (ldl) leading entry */
    {
        A[0] = fam == LLT && vf_chance(r, 1, 2) ? -(a_real)vf_logu(r, -6.0, 2.0) : vf_chance(r, 1, 2) ? -(a_real)0 : 0;
    }
    else { for (size_t i = 0; i < (size_t)n * n; ++i) { A[i] = vf_chance(r, 1, 3) ? -(a_real)0 : 0; } } /* zero matrix */
}

static void log_mat(char const *nm, a_real const *A, unsigned n)
{
    char buf[4000];
    size_t o = (size_t)snprintf(buf, sizeof(buf), "%s[%ux%u]=", nm, n, n);
    for (unsigned i = 0; i < n * n && o + 40 < sizeof(buf); ++i) { o += (size_t)snprintf(buf + o, sizeof(buf) - o, "%s%La", i ? (i % n ? "," : ";") : "", (long double)A[i]); }
    vf_log("%s", buf);
}

/* row ro (factored order) of rhs - A0 x against c * (g * (W |x|)_ro + underflow term); returns the worst ratio to the c = 1 bound */
static double resid(job_t const *j, unsigned const *p, q_t const *Wm, q_t const *Lq, q_t ufs, q_t g, q_t const *rhs, a_real const *x, unsigned stride)
{
    unsigned const n = j->n;
    double worst = 0;
    q_t sx = 1;
    for (unsigned c = 0; c < n; ++c) { sx += fabsq((q_t)x[(size_t)stride * c]); }
    for (unsigned ro = 0; ro < n; ++ro)
    {
        q_t s = rhs[p[ro]], w = 0, sl = 0;
        for (unsigned c = 0; c < n; ++c)
        {
            s -= (q_t)j->A0[IX(p[ro], c)] * (q_t)x[(size_t)stride * c];
            w += Wm[IX(ro, c)] * fabsq((q_t)x[(size_t)stride * c]);
            sl += fabsq(Lq[IX(ro, c)]);
        }
        double const ra = ratio_of(s, g * w + ufs * (sx + sl));
        if (ra > worst || !(ra == ra)) { worst = ra; }
    }
    return worst;
}

static void run(job_t *j, vf_rng *r)
{
    unsigned const n = j->n, fam = j->fam;
    a_real const *A0 = j->A0;
    a_real *F = dupl(A0, (size_t)n * n), *b = blk(n), *x = blk(n), *X = blk((size_t)n * n), *X2 = blk((size_t)n * n), *tmp = blk(n), *E = blk((size_t)n * n), *dv = blk(n);
    a_uint *p = (a_uint *)malloc(n * sizeof(a_uint));
    unsigned pu[NMAX];
    int sign = 0x5A5A5A5A, ret;
    q_t Lq[NMAX * NMAX], Mq[NMAX * NMAX], Wm[NMAX * NMAX], rhs[NMAX], prod = 1, slog = 0, ufs, dmax = 1;
    memset(p, 0xA5, n * sizeof(a_uint));
    log_mat("A", A0, n);
    vf_log("a_real_%s[" W "] n=%u kind=%s sub=%u", fam_name[fam], n, kind_name[j->kind], j->sub);
    FX_TRAP_KIND(j->kind != K_ROUNDED)
    FX_TRAP_ON()
    ret = fam == PLU ? a_real_plu(n, F, p, &sign) : fam == LDL ? a_real_ldl(n, F) : a_real_llt(n, F);
    FX_TRAP_OFF()
    ++vf.evals;
    if (j->expect == 2)
    {
        cnt(fam, "-exactly-singular-reports-failure");
#ifdef VF_FENV_ROTATE
        vf_count_dyn("w-fenv-exact-failure-class-judged", 1);
        fx_mode_count("w-fenv-failure-judged");
#endif
        if (ret == A_SUCCESS) { viol(fam, "", "success-on-exactly-vanishing-pivot", "a_real_%s n=%u (%s, variant %u) returned success on an input whose pivot is exactly zero / non-positive by construction", fam_name[fam], n, kind_name[j->kind], j->sub); }
        goto done;
    }
    if (j->expect == 1)
    {
        cnt(fam, "-exactly-factorable-reports-success");
        if (ret != A_SUCCESS) { viol(fam, "", "failure-on-exactly-factorable-input", "a_real_%s n=%u (%s, variant %u) returned %d on an input whose pivots are non-zero normal numbers by construction", fam_name[fam], n, kind_name[j->kind], j->sub, ret); goto done; }
    }
    if (ret != A_SUCCESS) { cnt(fam, "-rounded-failure-accepted"); goto done; }
    /* ---- shape */
    for (unsigned i = 0; i < n; ++i) { pu[i] = i; }
    if (fam == PLU)
    {
        unsigned seen[NMAX] = {0};
        cnt(fam, "-shape");
        for (unsigned i = 0; i < n; ++i)
        {
            if (p[i] >= n || seen[p[i]]++) { viol(fam, "", "p-not-a-permutation", "n=%u: p[%u] = %u", n, i, (unsigned)p[i]); goto done; }
            pu[i] = p[i];
        }
        if (sign != parity(pu, n)) { viol(fam, "", "sign-ne-parity-of-p", "n=%u: sign = %d, parity of p = %d", n, sign, parity(pu, n)); goto done; }
        if (j->has_ef && memcmp(pu, j->ep, n * sizeof(unsigned)) != 0) { viol(fam, "", "p-ne-unique-pivot-order", "n=%u %s: the pivot of every column is unique by construction, p differs from it", n, kind_name[j->kind]); goto done; }
    }
    for (unsigned i = 0; i < n; ++i)
    {
        a_real const pv = F[IX(i, i)];
        if (!(fam == LLT ? pv > 0 : pv != 0) || !(pv - pv == 0)) { viol(fam, "", fam == LLT ? "diagonal-not-positive" : "pivot-zero-or-non-finite", "n=%u: stored pivot %u = %.9Lg after reported success", n, i, (long double)pv); goto done; }
        for (unsigned k = 0; k < i && fam == PLU; ++k)
        {
#ifdef VF_FENV_ROTATE /* a * fl(1/b) can be 1 + eps when both roundings go away from zero: judged under round-to-nearest / toward zero only */
            if (fegetround() == FE_UPWARD || fegetround() == FE_DOWNWARD) { continue; }
#endif
            if (!(F[IX(i, k)] <= 1 && F[IX(i, k)] >= -1)) { viol(fam, "", "multiplier-gt-1", "n=%u: l[%u][%u] = %.9Lg", n, i, k, (long double)F[IX(i, k)]); goto done; }
        }
        if (fabsq((q_t)pv) > dmax) { dmax = fabsq((q_t)pv); }
    }
    ufs = ETA * n * (1 + dmax) * (1 + dmax);
    /* ---- factors: exact, or componentwise reconstruction bound */
    for (unsigned i = 0; i < n; ++i)
    {
        for (unsigned k = 0; k < n; ++k)
        {
            q_t const f = (q_t)F[IX(i, k)], ft = (q_t)F[IX(k, i)];
            Lq[IX(i, k)] = k < i ? f : k == i ? (fam == LLT ? f : 1) : 0;
            Mq[IX(i, k)] = k < i ? 0 : fam == PLU ? f : fam == LLT ? ft : k == i ? f : (q_t)F[IX(i, i)] * ft;
        }
    }
    if (j->has_ef)
    {
        cnt(fam, "-exact-factors");
#ifdef VF_FENV_ROTATE
        vf_count_dyn("w-fenv-exact-factorization-judged", 1);
        fx_mode_count("w-fenv-factorization-judged");
#endif
        for (unsigned i = 0; i < n; ++i)
        {
            for (unsigned k = 0; k < (fam == PLU ? n : i + 1); ++k)
            {
                if (!(F[IX(i, k)] == j->EF[IX(i, k)])) { viol(fam, "", "factor-ne-exact-factor", "n=%u %s: stored[%u][%u] = %.21Lg, exact factor %.21Lg", n, kind_name[j->kind], i, k, (long double)F[IX(i, k)], (long double)j->EF[IX(i, k)]); goto done; }
            }
        }
    }
    {
        double worst = 0;
        q_t const g = gam(fam == LLT ? n + 1 : n);
        for (unsigned i = 0; i < n; ++i)
        {
            for (unsigned k = 0; k < n; ++k)
            {
                q_t s = (q_t)A0[IX(pu[i], k)], w = 0;
                for (unsigned t = 0; t <= i && t <= k; ++t) { s -= Lq[IX(i, t)] * Mq[IX(t, k)]; w += fabsq(Lq[IX(i, t)] * Mq[IX(t, k)]); }
                Wm[IX(i, k)] = w;
                double const ra = ratio_of(s, g * w + ufs);
                if (ra > worst || !(ra == ra)) { worst = ra; }
            }
        }
#ifndef VF_FENV_ROTATE /* a rounding-error bound: not judged under a rotated rounding mode */
        if (j->kind == K_ROUNDED)
#else
        (void)worst;
        if (0)
#endif
        {
            cnt(fam, "-reconstruction-bound");
            mx(fam, "-reconstruction-ratio", worst);
            if (!(worst <= CSAFE)) { viol(fam, "", "reconstruction-outside-bound", "n=%u variant %u: an entry of %s is %.4g times the c=1 componentwise bound (u = eps/2)", n, j->sub, fam == PLU ? "PA-LU" : fam == LDL ? "A-LDL^T" : "A-LL^T", worst); goto done; }
        }
    }
    /* ---- extraction */
    cnt(fam, "-extraction-equals-stored");
    {
        a_real *Fx = dupl(F, (size_t)n * n);
        char const *bad = NULL;
        if (fam == PLU)
        {
            a_real_plu_P(n, p, E);
            for (unsigned i = 0; i < n * n && !bad; ++i) { if (!(E[i] == (a_real)(i % n == pu[i / n]))) { bad = "_P"; } }
            memset(E, 0xA5, (size_t)n * n * sizeof(a_real));
            a_real_plu_P_(n, p, E);
            for (unsigned i = 0; i < n * n && !bad; ++i) { if (!(E[i] == (a_real)(pu[i % n] == i / n))) { bad = "_P_"; } }
            memset(E, 0xA5, (size_t)n * n * sizeof(a_real));
            a_real_plu_U(n, Fx, E);
            for (unsigned i = 0; i < n * n && !bad; ++i) { if (!(E[i] == (i % n >= i / n ? F[i] : 0))) { bad = "_U"; } }
            memset(E, 0xA5, (size_t)n * n * sizeof(a_real));
        }
        if (fam == PLU) { a_real_plu_L(n, Fx, E); }
        else if (fam == LDL) { a_real_ldl_L(n, Fx, E); a_real_ldl_D(n, Fx, dv); }
        else { a_real_llt_L(n, Fx, E); }
        for (unsigned i = 0; i < n * n && !bad; ++i) { if (!((q_t)E[i] == Lq[i])) { bad = "_L"; } }
        for (unsigned i = 0; i < n && !bad && fam == LDL; ++i) { if (!(dv[i] == F[IX(i, i)])) { bad = "_D"; } }
        free(Fx);
        if (bad) { viol(fam, bad, "ne-stored-factor", "a_real_%s%s n=%u: an entry of the extracted matrix differs from the stored factor / permutation", fam_name[fam], bad, n); goto done; }
    }
#ifdef VF_FENV_ROTATE
    if (j->kind == K_ROUNDED)
    {
        /* rotated rounding mode: shape and extraction (above) and sgndet are judged; reconstruction, solve, sweep chains (4 forms), inv, inv_,
           det and lndet are rounding-error bounds */
        vf_count_dyn("w-fenv-shape-only-kind-judged", 1);
        vf_count_dyn("w-fenv-skipped-inexact-clause", 7);
        if (fam != LLT)
        {
            int psgn = fam == PLU ? sign : 1;
            int const sgn = fam == PLU ? a_real_plu_sgndet(n, F, sign) : a_real_ldl_sgndet(n, F);
            ++vf.evals;
            for (unsigned i = 0; i < n; ++i) { if (F[IX(i, i)] < 0) { psgn = -psgn; } }
            cnt(fam, "_sgndet-vs-pivot-signs");
            if (sgn != psgn) { viol(fam, "_sgndet", "ne-sign-of-pivot-product", "n=%u: sgndet = %d, sign * product of the signs of the stored pivots is %d", n, sgn, psgn); }
        }
        goto done;
    }
#endif
    /* ---- solve */
    for (unsigned i = 0; i < n; ++i)
    {
        q_t s = 0;
        for (unsigned k = 0; k < n && j->exact_solve; ++k) { s += (q_t)A0[IX(i, k)] * j->x0[k]; }
        b[i] = j->exact_solve ? (a_real)s : rnd(r) * p2((int)vf_range(r, -8, 8));
        rhs[i] = (q_t)b[i];
    }
    if (fam == PLU) { FX_TRAP_ON() a_real_plu_solve(n, F, p, b, x); FX_TRAP_OFF() }
    else { memcpy(x, b, n * sizeof(a_real)); FX_TRAP_ON() if (fam == LDL) { a_real_ldl_solve(n, F, x); } else { a_real_llt_solve(n, F, x); } FX_TRAP_OFF() }
    ++vf.evals;
    if (j->exact_solve)
    {
        cnt(fam, "_solve-exact");
        for (unsigned i = 0; i < n; ++i)
        {
            if (!(x[i] == (a_real)j->x0[i])) { viol(fam, "_solve", "x-ne-exact-solution", "n=%u %s: x[%u] = %.21Lg, exact solution %d (b = A x0 and every intermediate are exactly representable)", n, kind_name[j->kind], i, (long double)x[i], j->x0[i]); goto done; }
        }
    }
    else
    {
        double const ra = resid(j, pu, Wm, Lq, ufs, gam(fam == PLU ? 3 * n : 3 * n + 1), rhs, x, 1);
        cnt(fam, "_solve-residual-bound");
        mx(fam, "_solve-residual-ratio", ra);
        if (!(ra <= CSAFE)) { viol(fam, "_solve", "residual-outside-bound", "n=%u variant %u: a row of b - A x is %.4g times the c=1 bound gamma_3n (|L||U|)|x|", n, j->sub, ra); goto done; }
    }
    /* ---- the sweeps on their own, on EVERY documented argument form (h_linalg_fact.c, "every DOCUMENTED argument form of the sweeps"):
       plu_lower(_)/plu_upper(_)/llt_lower(_)/llt_upper(_) are documented for "the lower / upper triangular matrix", so they get
       (0) the storage the factorization left, (1) the matrices a_real_plu_L / a_real_plu_U / a_real_llt_L deliver, (2,3) the storage
       with every entry that is not part of the argument (llt: strictly upper triangle; plu_lower: diagonal and above; plu_upper:
       strictly lower triangle) set to +-2^(MAX_EXP-8) resp. NaN, and (4, exact kinds) the factors L0 / U0 the generator built, with
       zeros on the other side of the diagonal - no library routine in between.  The ldl sweeps are documented for the storage of
       a_real_ldl only: (0) that storage, and (1) the extracted unit lower L and d through the generic sweeps a_real_plu_lower,
       y / d, a_real_llt_upper (same operations in the same order).  Plain and strided (column col of an n x n block), the chain
       apply -> lower -> upper judged like <fam>_solve: == x0 on the exact kinds, the gamma_3n residual bound otherwise. */
    {
        size_t const nn = (size_t)n * n;
        a_real *Lm = blk(nn), *Um = blk(nn), *Bk = blk(nn), *xc = blk(n), *Pb = blk(n);
        unsigned const col = (unsigned)vf_below(r, n);
        int const nforms = fam == LDL ? 2 : (j->has_ef && j->exact_solve) ? 5 : 4;
        int bad = 1; /* cleared when every form was judged */
        static char const *const fname[3][5] = {
            {"compact", "extracted-LU", "compact-rest-huge", "compact-rest-nan", "user-built-L0-U0"},
            {"compact", "extracted-LD", "", "", ""},
            {"compact", "extracted-L", "compact-upper-huge", "compact-upper-nan", "user-built-L0"}};
        static char const *const cname[3][5] = {
            {"-sweeps-on-compact", "-sweeps-on-extracted-LU", "-sweeps-on-compact-rest-huge", "-sweeps-on-compact-rest-nan", "-sweeps-on-user-built-factor"},
            {"-sweeps-on-compact", "-sweeps-on-extracted-LD", "", "", ""},
            {"-sweeps-on-compact", "-sweeps-on-extracted-L", "-sweeps-on-compact-upper-huge", "-sweeps-on-compact-upper-nan", "-sweeps-on-user-built-factor"}};
        if (fam == PLU) { a_real_plu_apply(n, p, b, Pb); }
        else { memcpy(Pb, b, n * sizeof(a_real)); }
        for (unsigned i = 0; i < n; ++i) { rhs[i] = (q_t)b[i]; }
        for (int form = 0; form < nforms; ++form)
        {
            char const *fnm = fname[fam][form];
            a_real const huge = p2(A_REAL_MAX_EXP - 8);
            FX_TRAP_KIND(j->kind != K_ROUNDED && form != 2 && form != 3)
            memset(Lm, 0xA5, nn * sizeof(a_real));
            memset(Um, 0xA5, nn * sizeof(a_real));
            if (form == 1)
            {
                if (fam == PLU) { a_real_plu_L(n, F, Lm); a_real_plu_U(n, F, Um); }
                else if (fam == LDL) { a_real_ldl_L(n, F, Lm); a_real_ldl_D(n, F, dv); }
                else { a_real_llt_L(n, F, Lm); }
            }
            else
            {
                for (unsigned i = 0; i < n; ++i)
                {
                    for (unsigned k = 0; k < n; ++k)
                    {
                        a_real const pz = form == 3 ? (a_real)NAN : ((i + k) & 1) ? -huge : huge;
                        a_real const s = form == 4 ? j->EF[IX(i, k)] : F[IX(i, k)];
                        int const poison = form == 2 || form == 3;
                        if (fam == PLU)
                        {
                            Lm[IX(i, k)] = k < i ? s : poison ? pz : form == 4 ? (a_real)(k == i) : s;
                            Um[IX(i, k)] = k >= i ? s : poison ? pz : form == 4 ? 0 : s;
                        }
                        else { Lm[IX(i, k)] = k <= i ? s : poison ? pz : form == 4 ? 0 : s; }
                    }
                }
            }
            a_real const *La = Lm, *Ua = fam == PLU ? Um : Lm;
            for (int strided = 0; strided < 2; ++strided)
            {
                a_real *v = strided ? Bk + col : x;
                size_t const st = strided ? n : 1;
                char rt[24];
                snprintf(rt, sizeof(rt), "_upper%s", strided ? "_" : "");
                if (strided) { for (size_t i = 0; i < nn; ++i) { Bk[i] = 7; } }
                for (unsigned i = 0; i < n; ++i) { v[st * i] = Pb[i]; }
                vf_log("a_real_%s_lower%s + _upper%s on argument form %s", fam_name[fam], strided ? "_" : "", strided ? "_" : "", fnm);
                vf.evals += 2;
                if (fam == PLU)
                {
                    FX_TRAP_ON()
                    if (strided) { a_real_plu_lower_(n, La, v); a_real_plu_upper_(n, Ua, v); }
                    else { a_real_plu_lower(n, La, v); a_real_plu_upper(n, Ua, v); }
                    FX_TRAP_OFF()
                }
                else if (fam == LLT)
                {
                    FX_TRAP_ON()
                    if (strided) { a_real_llt_lower_(n, La, v); a_real_llt_upper_(n, Ua, v); }
                    else { a_real_llt_lower(n, La, v); a_real_llt_upper(n, Ua, v); }
                    FX_TRAP_OFF()
                }
                else if (form == 0)
                {
                    FX_TRAP_ON()
                    if (strided) { a_real_ldl_lower_(n, La, v); a_real_ldl_upper_(n, Ua, v); }
                    else { a_real_ldl_lower(n, La, v); a_real_ldl_upper(n, Ua, v); }
                    FX_TRAP_OFF()
                }
                else
                {
                    FX_TRAP_ON()
                    if (strided) { a_real_plu_lower_(n, La, v); } else { a_real_plu_lower(n, La, v); }
                    FX_TRAP_OFF()
                    for (unsigned i = 0; i < n; ++i) { v[st * i] /= dv[i]; }
                    FX_TRAP_ON()
                    if (strided) { a_real_llt_upper_(n, La, v); } else { a_real_llt_upper(n, La, v); }
                    FX_TRAP_OFF()
                }
                cnt(fam, cname[fam][form]);
                for (size_t i = 0; i < nn && strided; ++i)
                {
                    if (i % n != col && !(Bk[i] == 7)) { viol(fam, rt, "wrote-outside-its-column", "n=%u form %s column %u: cell (%zu,%zu) of the block changed", n, fnm, col, i / n, i % n); goto forms_done; }
                }
                if (j->exact_solve)
                {
                    for (unsigned i = 0; i < n; ++i)
                    {
                        if (!(v[st * i] == (a_real)j->x0[i]) && (form == 2 || form == 3)) { vf_count_dyn("w-forms-poisoned-storage-differs(not judged)", 1); break; } /* stricter than the header: recorded only (see h_linalg_fact.c, FM_EXTRACTED) */
                        if (!(v[st * i] == (a_real)j->x0[i]))
                        {
                            char cl[64];
                            snprintf(cl, sizeof(cl), "%s/chain-ne-exact-solution", fnm);
                            viol(fam, rt, cl, "n=%u %s: lower then upper sweep on argument form %s: x[%u] = %.21Lg, exact solution %d (every intermediate is exactly representable)", n, kind_name[j->kind], fnm, i, (long double)v[st * i], j->x0[i]);
                            goto forms_done;
                        }
                    }
                }
                else
                {
                    double const ra = resid(j, pu, Wm, Lq, ufs, gam(fam == PLU ? 3 * n : 3 * n + 1), rhs, v, (unsigned)st);
                    mx(fam, "-forms-chain-residual-ratio", ra);
                    if (!(ra <= CSAFE) && (form == 2 || form == 3)) { vf_count_dyn("w-forms-poisoned-storage-differs(not judged)", 1); }
                    else if (!(ra <= CSAFE))
                    {
                        char cl[64];
                        snprintf(cl, sizeof(cl), "%s/chain-residual-outside-bound", fnm);
                        viol(fam, rt, cl, "n=%u variant %u: lower then upper sweep on argument form %s: a row of b - A x is %.4g times the c=1 bound", n, j->sub, fnm, ra);
                        goto forms_done;
                    }
                }
                /* recorded, not judged: bitwise agreement with the plain sweeps on the storage */
                if (form == 0 && !strided) { memcpy(xc, x, n * sizeof(a_real)); }
                else
                {
                    int same = 1;
                    for (unsigned i = 0; i < n; ++i) { if (memcmp(&v[st * i], &xc[i], sizeof(a_real)) != 0 && !(v[st * i] == xc[i])) { same = 0; } }
                    cnt(fam, same ? "-forms-equal-compact-result" : "-forms-differ-from-compact(not judged)");
                }
            }
        }
        bad = 0;
    forms_done:
        FX_TRAP_KIND(j->kind != K_ROUNDED)
        free(Lm); free(Um); free(Bk); free(xc); free(Pb);
        if (bad) { goto done; }
    }
    /* ---- inverse, both variants */
#ifdef VF_FENV_ROTATE
    if (!j->exact_inv) { vf_count_dyn("w-fenv-skipped-inexact-clause", 2); } /* exact kind, n > 4: the inverse has entries k/3 - column bounds, not == */
    else
#endif
    if (j->exact_inv || j->kind <= K_ROUNDED)
    {
        FX_TRAP_ON()
        if (fam == PLU) { a_real_plu_inv(n, F, p, tmp, X); a_real_plu_inv_(n, F, p, X2); }
        else if (fam == LDL) { a_real_ldl_inv(n, F, tmp, X); a_real_ldl_inv_(n, F, X2); }
        else { a_real_llt_inv(n, F, tmp, X); a_real_llt_inv_(n, F, X2); }
        FX_TRAP_OFF()
        vf.evals += 2;
        for (int v = 0; v < 2; ++v)
        {
            a_real const *Xv = v ? X2 : X;
            char const *rt = v ? "_inv_" : "_inv";
            double worst = 0;
            cnt(fam, j->exact_inv ? (v ? "_inv_-exact" : "_inv-exact") : (v ? "_inv_-column-bound" : "_inv-column-bound"));
            for (unsigned k = 0; k < n; ++k)
            {
                if (j->exact_inv)
                {
                    for (unsigned i = 0; i < n; ++i)
                    {
                        q_t s = 0;
                        for (unsigned t = 0; t < n; ++t) { s += (q_t)A0[IX(i, t)] * (q_t)Xv[IX(t, k)]; }
                        if (!(s == (q_t)(i == k))) { viol(fam, rt, "A*X-ne-identity-exactly", "n=%u %s: (A X)[%u][%u] = %.21Lg; the inverse and every intermediate are exactly representable", n, kind_name[j->kind], i, k, (long double)s); goto done; }
                    }
                    continue;
                }
                for (unsigned i = 0; i < n; ++i) { rhs[i] = (q_t)(i == k); }
                double const ra = resid(j, pu, Wm, Lq, ufs, gam(fam == PLU ? 3 * n : 3 * n + 1), rhs, Xv + k, n);
                if (ra > worst || !(ra == ra)) { worst = ra; }
            }
            if (!j->exact_inv)
            {
                mx(fam, v ? "_inv_-column-ratio" : "_inv-column-ratio", worst);
                if (!(worst <= CSAFE)) { viol(fam, rt, "column-residual-outside-bound", "n=%u %s variant %u: a row of e_k - A X[:,k] is %.4g times the c=1 bound", n, kind_name[j->kind], j->sub, worst); goto done; }
            }
        }
    }
    /* ---- det, lndet, sgndet against the stored pivots */
    {
        int inrange = 1, psgn = fam == PLU ? sign : 1; /* sign kept apart: the quad product may under/overflow on the full-range kind */
        FX_TRAP_ON()
        a_real const det = fam == PLU ? a_real_plu_det(n, F, sign) : fam == LDL ? a_real_ldl_det(n, F) : a_real_llt_det(n, F);
        a_real const lnd = fam == PLU ? a_real_plu_lndet(n, F) : fam == LDL ? a_real_ldl_lndet(n, F) : a_real_llt_lndet(n, F);
        int const sgn = fam == PLU ? a_real_plu_sgndet(n, F, sign) : fam == LDL ? a_real_ldl_sgndet(n, F) : 1;
        FX_TRAP_OFF()
        vf.evals += 3;
        prod = fam == PLU ? sign : 1;
        for (unsigned i = 0; i < n; ++i)
        {
            prod *= (q_t)F[IX(i, i)];
            if (F[IX(i, i)] < 0) { psgn = -psgn; }
            slog += fabsq(logq(fabsq((q_t)F[IX(i, i)])));
            if (!(fabsq(prod) < ldexpq(1, DLIM) && fabsq(prod) > ldexpq(1, -DLIM))) { inrange = 0; }
        }
        if (fam == LLT) { prod *= prod; slog *= 2; }
        if (j->has_det)
        {
            cnt(fam, "_det-exact");
            if (!(det == (a_real)j->det)) { viol(fam, "_det", "ne-exact-determinant", "n=%u: det = %.21Lg, exact integer determinant %.21Lg", n, (long double)det, (long double)j->det); goto done; }
        }
        else if (inrange && j->kind == K_ROUNDED)
        {
            double const ra = ratio_of((q_t)det - prod, gam(fam == LLT ? 2 * n + 2 : n + 2) * fabsq(prod));
            cnt(fam, "_det-vs-pivot-product");
            mx(fam, "_det-ratio", ra);
            if (!(ra <= CSAFE)) { viol(fam, "_det", "ne-product-of-pivots", "n=%u: det = %.21Lg, quad product of the stored pivots %.21Lg (%.4g times the c=1 bound)", n, (long double)det, (long double)prod, ra); goto done; }
        }
#ifdef VF_FENV_ROTATE
        if (1) { vf_count_dyn("w-fenv-skipped-inexact-clause", 1); } /* lndet: libm log and logq follow the rounding mode */
        else
#endif
        {
            q_t ref = 0;
            for (unsigned i = 0; i < n; ++i) { ref += logq(fabsq((q_t)F[IX(i, i)])); }
            double const ra = ratio_of((q_t)lnd - (fam == LLT ? 2 * ref : ref), (q_t)(n + 2) * (q_t)A_REAL_EPSILON * slog);
            cnt(fam, "_lndet-vs-log-pivots");
            mx(fam, "_lndet-ratio", ra);
            if (!(ra <= CSAFE)) { viol(fam, "_lndet", "ne-sum-log-pivots", "n=%u %s: lndet = %.21Lg, quad sum of log|pivot| = %.21Lg (%.4g times (n+2) eps sum|log|)", n, kind_name[j->kind], (long double)lnd, (long double)(fam == LLT ? 2 * ref : ref), ra); goto done; }
        }
        if (fam != LLT)
        {
            cnt(fam, "_sgndet-vs-pivot-signs");
            if (sgn != psgn) { viol(fam, "_sgndet", "ne-sign-of-pivot-product", "n=%u: sgndet = %d, sign * product of the signs of the stored pivots is %d", n, sgn, psgn); goto done; }
        }
        else if (!(det > 0) && inrange) { viol(fam, "_det", "not-positive", "n=%u: det = %.9Lg", n, (long double)det); goto done; }
    }
    vf_distinct(vf_hash64(vf_hash64(vf_hash64(vf_hash64(vf_hash64(8, fam), j->kind), n), j->sub), (uint64_t)(sign == 1)));
    if (vf_want_sample() && vf.case_no % 29 == 0)
    {
        vf_sample("a_real_%s[" W "] n=%u %s variant %u: success, %s; solve %s; extraction == stored; lndet/sgndet vs stored pivots", fam_name[fam], n, kind_name[j->kind], j->sub,
                  j->has_ef ? "stored factors == exact factors" : "reconstruction within c*gamma_n bound", j->exact_solve ? "== exact x0" : "within c*gamma_3n residual bound");
    }
done:
    free(F); free(b); free(x); free(X); free(X2); free(tmp); free(E); free(dv); free(p);
}

static uint64_t vf_ncases(int tier) { return tier ? 48000 : 4800; }

static void vf_case(uint64_t c, vf_rng *r)
{
    job_t j;
    uint64_t const cyc = c / 12;
    memset(&j, 0, sizeof(j));
    j.fam = (unsigned)(c % 3);
    j.kind = (unsigned)(c / 3 % 4);
    j.n = cyc % 10 < 8 ? 1 + (unsigned)(cyc % 10) : 9 + (unsigned)vf_below(r, NMAX - 8);
    j.A0 = blk((size_t)j.n * j.n);
    j.EF = blk((size_t)j.n * j.n);
    VF_COUNT("w-cases-" W);
    gen(&j, r);
    run(&j, r);
    free(j.A0);
    free(j.EF);
}
