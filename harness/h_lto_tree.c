/* C01 / C02, configuration "lto": library AND harness compiled -O3 -DNDEBUG -flto with strict aliasing and without a sanitizer (-DVF_TREE_RBT selects the
 * red-black tree), so that a_avl_insert / a_avl_remove / a_avl_search are inlined into the client below - the repository's own LIBA_IPO=ON option builds
 * applications this way, and so does a unity build.
 *
 * Why: across translation units a call into the library is opaque and the client re-reads root.node from memory after it.  Once the call is inlined the
 * optimiser decides from the TYPES of the accesses whether the call can have changed root.node; a library that stores the root pointer through an lvalue of
 * another type (seeded change C01-K: the tree root treated as a pseudo-node, `((a_avl_node *)root)->left = child`) is correct in every separately compiled
 * build and leaves the client with the OLD root here - a node that now has a parent, or that was just removed.
 *
 * One call site per library routine in the whole program ("called once" is what makes the link-time inliner inline a routine of this size for certain; see
 * h_lto_codec.c).  The client reads root.node through its own type directly before and directly after each call, with no opaque call in between, and
 * everything is judged from the value read after: root has no parent, the nodes below it are exactly the model's, in order, parent links consistent,
 * subtree heights differ by at most one (AVL) / no path more than twice as long as another (red-black).  This file is valid under strict aliasing. */
#ifdef VF_TREE_RBT
#define VF_PROP "C02"
#else
#define VF_PROP "C01"
#endif
#include "vf_common.h"
#include "a/a.h"
#ifdef VF_TREE_RBT
#include "a/rbt.h"
#define T_(x) a_rbt_##x
#define TN "rbt"
typedef a_rbt troot;
typedef a_rbt_node tnode;
#else
#include "a/avl.h"
#define T_(x) a_avl_##x
#define TN "avl"
typedef a_avl troot;
typedef a_avl_node tnode;
#endif

#define NPOOL 600
typedef struct { tnode n; int key; int live; } hn;
static int cmp_node(void const *l, void const *r)
{
    int const a = ((hn const *)l)->key, b = ((hn const *)r)->key;
    return (a > b) - (a < b);
}

typedef struct { int count, ok, minh, maxh; char const *why; } wres;
static void walk(tnode *x, tnode *parent, long lo, long hi, int depth, wres *w)
{
    hn *h;
    if (!x) { if (depth < w->minh) { w->minh = depth; } if (depth > w->maxh) { w->maxh = depth; } return; }
    if (depth > 64 || w->count > NPOOL) { w->ok = 0; w->why = "walk does not terminate"; return; }
    h = (hn *)x; /* n is the first member */
    ++w->count;
    if (T_(parent)(x) != parent) { w->ok = 0; w->why = parent ? "parent link does not point back to the parent" : "the node read from root.node has a parent"; }
    if (!h->live) { w->ok = 0; w->why = "a removed (or never inserted) node is reachable"; }
    if (!(h->key > lo && h->key < hi)) { w->ok = 0; w->why = "search-tree order violated"; }
    if (!w->ok) { return; }
    walk(x->left, x, lo, h->key, depth + 1, w);
    if (w->ok) { walk(x->right, x, h->key, hi, depth + 1, w); }
}
#ifndef VF_TREE_RBT
static int height(tnode *x, int *bal_ok)
{
    int l, r;
    if (!x) { return 0; }
    l = height(x->left, bal_ok);
    r = height(x->right, bal_ok);
    if (l - r > 1 || r - l > 1) { *bal_ok = 0; }
    return 1 + (l > r ? l : r);
}
#endif

static void judge(char const *op, tnode *after, int expect, int key)
{
    wres w = {0, 1, 1 << 30, 0, ""};
    char k[96];
    ++vf.evals;
    VF_COUNT("lto-root-read-right-after-inlined-call");
    walk(after, NULL, -1, 1L << 40, 0, &w);
    if (w.ok && w.count != expect) { w.ok = 0; w.why = "number of elements below the root read after the call differs from the model"; }
#ifdef VF_TREE_RBT
    if (w.ok && expect && w.maxh > 2 * w.minh) { w.ok = 0; w.why = "a path more than twice as long as another"; }
#else
    if (w.ok) { int b = 1; (void)height(after, &b); if (!b) { w.ok = 0; w.why = "subtree heights differ by more than one"; } }
#endif
    if (!w.ok)
    {
        snprintf(k, sizeof k, TN "/%s/root-read-after-inlined-call", op);
        vf_viol(k, "%s key %d (LTO build, library inlined into the client): judged from root.node as the client reads it directly after the call: %s (reached %d nodes, model has %d)", op, key,
                w.why, w.count, expect);
    }
}

static uint64_t vf_ncases(int tier) { return tier ? 400 : 40; }

static void vf_case(uint64_t c, vf_rng *r)
{
    static hn pool[NPOOL];
    troot root;
    int live = 0;
    unsigned const nops = 200 + (unsigned)vf_below(r, 1200), keys = 8 + (unsigned)vf_below(r, NPOOL - 8), pat = (unsigned)vf_below(r, 4);
    (void)c;
    T_(root)(&root);
    for (int i = 0; i < NPOOL; ++i) { pool[i].live = 0; pool[i].key = i; }
    vf_log(TN " history of %u operations over %u keys, pattern %u, every result judged from root.node read right after the inlined call", nops, keys, pat);
    for (unsigned op = 0; op < nops && !vf.case_viol; ++op)
    {
        /* ascending / descending fills and drains rotate at the root most often; random mixes the rest */
        unsigned const i = pat == 1 ? op % keys : pat == 2 ? keys - 1 - op % keys : (unsigned)vf_below(r, keys);
        unsigned const what = (unsigned)vf_below(r, 8);
        /* one operation in eight removes whatever the client currently sees as the root (the drain idiom `while (root.node) remove(root.node)`) */
        hn *const h = (what == 7 && root.node) ? (hn *)root.node : &pool[i];
        tnode *before = root.node, *after; /* typed read before the call */
        if (!h->live && (what < 5 || pat))
        {
            tnode *res = T_(insert)(&root, &h->n, cmp_node); /* the only call site of insert */
            after = root.node;                                /* typed read directly after */
            if (res) { vf_viol(TN "/insert/new-key-refused", "insert of absent key %d returned a node", h->key); break; }
            h->live = 1; ++live;
            judge("insert", after, live, h->key);
        }
        else if (h->live && (what >= 3 || pat))  /* what == 7: the root itself */
        {
            T_(remove)(&root, &h->n); /* the only call site of remove */
            after = root.node;
            h->live = 0; --live;
            judge("remove", after, live, h->key);
        }
        else
        {
            tnode *res = T_(search)(&root, h, cmp_node); /* the only call site of search */
            after = root.node;
            if ((res != NULL) != (h->live != 0) || (res && res != &h->n)) { vf_viol(TN "/search/disagrees-with-model", "key %d", h->key); break; }
            judge("search", after, live, h->key);
        }
        if (before == after) { VF_COUNT("lto-root-unchanged-by-call"); } else { VF_COUNT("lto-root-changed-by-call"); }
    }
    vf_distinct(vf_hash64(0x1701, pat));
    vf_distinct(vf_hash64(0x1702, nops / 200));
}
