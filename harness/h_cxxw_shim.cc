/* C++ side of the member-function equivalence monitor (h_cxxw.c): every C++ member that the liba headers add to a
 * struct anchored by C12, C14, C15 or C16 is reachable here through an extern "C" trampoline, so that the C harness can
 * apply "the C function" and "the C++ member" to the SAME object bytes and compare.  Compiled with g++ against the same
 * configuration header and the same sanitised library as the C side.  Nothing here re-states library logic: each
 * trampoline is one member call, with defaulted arguments left defaulted where the header defaults them.
 */
#include "a/a.h"
#include "a/pid.h"
#include "a/pid_fuzzy.h"
#include "a/pid_neuro.h"
#include "a/tf.h"
#include "a/lpf.h"
#include "a/hpf.h"
#include "a/trajtrap.h"
#include "a/trajbell.h"
#include "a/trajpoly3.h"
#include "a/trajpoly5.h"
#include "a/trajpoly7.h"

extern "C" {

/* ---- C12 ---- */
void xx_pid_init(a_pid *c) { c->init(); }
void xx_pid_set_kpid(a_pid *c, a_real kp, a_real ki, a_real kd) { c->set_kpid(kp, ki, kd); }
a_real xx_pid_run(a_pid *c, a_real s, a_real f) { return c->run(s, f); }
a_real xx_pid_pos(a_pid *c, a_real s, a_real f) { return c->pos(s, f); }
a_real xx_pid_inc(a_pid *c, a_real s, a_real f) { return c->inc(s, f); }
void xx_pid_zero(a_pid *c) { c->zero(); }

void xx_pid_neuro_init(a_pid_neuro *c) { c->init(); }
void xx_pid_neuro_set_kpid(a_pid_neuro *c, a_real k, a_real kp, a_real ki, a_real kd) { c->set_kpid(k, kp, ki, kd); }
void xx_pid_neuro_set_wpid(a_pid_neuro *c, a_real wp, a_real wi, a_real wd) { c->set_wpid(wp, wi, wd); }
a_real xx_pid_neuro_run(a_pid_neuro *c, a_real s, a_real f) { return c->run(s, f); }
a_real xx_pid_neuro_inc(a_pid_neuro *c, a_real s, a_real f) { return c->inc(s, f); }
void xx_pid_neuro_zero(a_pid_neuro *c) { c->zero(); }

void xx_pid_fuzzy_init(a_pid_fuzzy *c) { c->init(); }
void xx_pid_fuzzy_set_opr(a_pid_fuzzy *c, unsigned int opr) { c->set_opr(opr); }
void *xx_pid_fuzzy_bfuzz(a_pid_fuzzy const *c) { return c->bfuzz(); }
void xx_pid_fuzzy_set_bfuzz(a_pid_fuzzy *c, void *p, a_size n) { c->set_bfuzz(p, n); }
void xx_pid_fuzzy_set_rule(a_pid_fuzzy *c, unsigned int n, a_real const *me, a_real const *mec, a_real const *mkp, a_real const *mki, a_real const *mkd)
{
    c->set_rule(n, me, mec, mkp, mki, mkd);
}
void xx_pid_fuzzy_set_kpid(a_pid_fuzzy *c, a_real kp, a_real ki, a_real kd) { c->set_kpid(kp, ki, kd); }
a_real xx_pid_fuzzy_run(a_pid_fuzzy *c, a_real s, a_real f) { return c->run(s, f); }
a_real xx_pid_fuzzy_pos(a_pid_fuzzy *c, a_real s, a_real f) { return c->pos(s, f); }
a_real xx_pid_fuzzy_inc(a_pid_fuzzy *c, a_real s, a_real f) { return c->inc(s, f); }
void xx_pid_fuzzy_zero(a_pid_fuzzy *c) { c->zero(); }

/* ---- C16 ---- */
void xx_tf_init(a_tf *c, unsigned int nn, a_real const *np, a_real *in, unsigned int dn, a_real const *dp, a_real *out) { c->init(nn, np, in, dn, dp, out); }
void xx_tf_set_num(a_tf *c, unsigned int nn, a_real const *np, a_real *in) { c->set_num(nn, np, in); }
void xx_tf_set_den(a_tf *c, unsigned int dn, a_real const *dp, a_real *out) { c->set_den(dn, dp, out); }
a_real xx_tf_iter(a_tf const *c, a_real x) { return (*c)(x); }
void xx_tf_zero(a_tf const *c) { c->zero(); }

void xx_lpf_gen(a_lpf *c, a_real fc, a_real ts) { c->gen(fc, ts); }
a_real xx_lpf_iter(a_lpf *c, a_real x) { return (*c)(x); }
void xx_lpf_zero(a_lpf *c) { c->zero(); }
void xx_hpf_gen(a_hpf *c, a_real fc, a_real ts) { c->gen(fc, ts); }
a_real xx_hpf_iter(a_hpf *c, a_real x) { return (*c)(x); }
void xx_hpf_zero(a_hpf *c) { c->zero(); }

/* ---- C14 ---- */
a_real xx_trajtrap_gen(a_trajtrap *c, a_real vm, a_real ac, a_real de, a_real p0, a_real p1, a_real v0, a_real v1) { return c->gen(vm, ac, de, p0, p1, v0, v1); }
a_real xx_trajtrap_gen5(a_trajtrap *c, a_real vm, a_real ac, a_real de, a_real p0, a_real p1) { return c->gen(vm, ac, de, p0, p1); }
a_real xx_trajtrap_gen6(a_trajtrap *c, a_real vm, a_real ac, a_real de, a_real p0, a_real p1, a_real v0) { return c->gen(vm, ac, de, p0, p1, v0); }
a_real xx_trajtrap_pos(a_trajtrap const *c, a_real x) { return c->pos(x); }
a_real xx_trajtrap_vel(a_trajtrap const *c, a_real x) { return c->vel(x); }
a_real xx_trajtrap_acc(a_trajtrap const *c, a_real x) { return c->acc(x); }

a_real xx_trajbell_gen(a_trajbell *c, a_real jm, a_real am, a_real vm, a_real p0, a_real p1, a_real v0, a_real v1) { return c->gen(jm, am, vm, p0, p1, v0, v1); }
a_real xx_trajbell_gen5(a_trajbell *c, a_real jm, a_real am, a_real vm, a_real p0, a_real p1) { return c->gen(jm, am, vm, p0, p1); }
a_real xx_trajbell_gen6(a_trajbell *c, a_real jm, a_real am, a_real vm, a_real p0, a_real p1, a_real v0) { return c->gen(jm, am, vm, p0, p1, v0); }
a_real xx_trajbell_pos(a_trajbell const *c, a_real x) { return c->pos(x); }
a_real xx_trajbell_vel(a_trajbell const *c, a_real x) { return c->vel(x); }
a_real xx_trajbell_acc(a_trajbell const *c, a_real x) { return c->acc(x); }
a_real xx_trajbell_jer(a_trajbell const *c, a_real x) { return c->jer(x); }

/* ---- C15 ---- */
/* v[] = p0 p1 v0 v1 a0 a1 j0 j1; na = how many of the defaultable trailing arguments are passed explicitly */
void xx_trajpoly3_gen(a_trajpoly3 *c, a_real ts, a_real const *v, int na)
{
    switch (na)
    {
    case 0: c->gen(ts, v[0], v[1]); break;
    case 1: c->gen(ts, v[0], v[1], v[2]); break;
    default: c->gen(ts, v[0], v[1], v[2], v[3]); break;
    }
}
a_real xx_trajpoly3_pos(a_trajpoly3 const *c, a_real x) { return c->pos(x); }
a_real xx_trajpoly3_vel(a_trajpoly3 const *c, a_real x) { return c->vel(x); }
a_real xx_trajpoly3_acc(a_trajpoly3 const *c, a_real x) { return c->acc(x); }
void xx_trajpoly3_c(a_trajpoly3 const *c, int d, a_real *x)
{
    switch (d)
    {
    case 0: c->c0(x); break;
    case 1: c->c1(x); break;
    default: c->c2(x); break;
    }
}

void xx_trajpoly5_gen(a_trajpoly5 *c, a_real ts, a_real const *v, int na)
{
    switch (na)
    {
    case 0: c->gen(ts, v[0], v[1]); break;
    case 1: c->gen(ts, v[0], v[1], v[2]); break;
    case 2: c->gen(ts, v[0], v[1], v[2], v[3]); break;
    case 3: c->gen(ts, v[0], v[1], v[2], v[3], v[4]); break;
    default: c->gen(ts, v[0], v[1], v[2], v[3], v[4], v[5]); break;
    }
}
a_real xx_trajpoly5_pos(a_trajpoly5 const *c, a_real x) { return c->pos(x); }
a_real xx_trajpoly5_vel(a_trajpoly5 const *c, a_real x) { return c->vel(x); }
a_real xx_trajpoly5_acc(a_trajpoly5 const *c, a_real x) { return c->acc(x); }
void xx_trajpoly5_c(a_trajpoly5 const *c, int d, a_real *x)
{
    switch (d)
    {
    case 0: c->c0(x); break;
    case 1: c->c1(x); break;
    default: c->c2(x); break;
    }
}

void xx_trajpoly7_gen(a_trajpoly7 *c, a_real ts, a_real const *v, int na)
{
    switch (na)
    {
    case 0: c->gen(ts, v[0], v[1]); break;
    case 1: c->gen(ts, v[0], v[1], v[2]); break;
    case 2: c->gen(ts, v[0], v[1], v[2], v[3]); break;
    case 3: c->gen(ts, v[0], v[1], v[2], v[3], v[4]); break;
    case 4: c->gen(ts, v[0], v[1], v[2], v[3], v[4], v[5]); break;
    case 5: c->gen(ts, v[0], v[1], v[2], v[3], v[4], v[5], v[6]); break;
    default: c->gen(ts, v[0], v[1], v[2], v[3], v[4], v[5], v[6], v[7]); break;
    }
}
a_real xx_trajpoly7_pos(a_trajpoly7 const *c, a_real x) { return c->pos(x); }
a_real xx_trajpoly7_vel(a_trajpoly7 const *c, a_real x) { return c->vel(x); }
a_real xx_trajpoly7_acc(a_trajpoly7 const *c, a_real x) { return c->acc(x); }
a_real xx_trajpoly7_jer(a_trajpoly7 const *c, a_real x) { return c->jer(x); }
void xx_trajpoly7_c(a_trajpoly7 const *c, int d, a_real *x)
{
    switch (d)
    {
    case 0: c->c0(x); break;
    case 1: c->c1(x); break;
    case 2: c->c2(x); break;
    default: c->c3(x); break;
    }
}

} /* extern "C" */
