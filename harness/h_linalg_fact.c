/* C08 - LU (partial pivoting), LDL^T and Cholesky factorizations: reconstruct, solve and fail correctly.
 *
 * One case = one matrix of one structure class, run through one family (plu / ldl / llt):
 *   factor -> shape of the factors (permutation, parity==sign, |l|<=1, positive diagonal)
 *          -> componentwise reconstruction bound (residual in __float128)
 *          -> extraction routines (P, P_, L, U, D), apply, lower/upper (plain and strided), solve,
 *             inv / inv_ (column residuals), det / lndet / sgndet against the stored pivots
 *          -> (one judged case in three, instead of the second right-hand side) the sweeps on every OTHER argument form the
 *             header documents for them: extracted L / U matrices, storage with the entries outside the argument poisoned
 *             (check_forms); one case in four: sweeps on integer factors built here, expected result exact (check_user_built)
 *   exact-failure classes (pivot exactly 0 / <= 0 in floating point BY CONSTRUCTION) must report failure;
 *   exactly factorable classes (permutation, diagonal, upper triangular, integer L0 D0 L0^T, integer L0 L0^T)
 *   must report success.  "Nearly singular" inputs are judged only if the library reports success.
 *
 * Constants (DESIGN.md C08): u = 2^-53, gamma_k = k u / (1 - k u), safety factor c = 4.
 *   reconstruction  |PA - LU|     <= c gamma_n     |L||U|
 *                   |A - LDL^T|   <= c gamma_n     |L||D||L^T|
 *                   |A - LL^T|    <= c gamma_{n+1} |L||L^T|
 *   solve / inverse column  |b - Ax| <= c gamma_{3n} (P^T|L||U|)|x|   (LDL, LLT: gamma_{3n+1}, same form)
 *   triangular sweeps (lower/upper) |b - Tx| <= c gamma_{n+1} |T||x|
 *   det: relative c gamma_{n+2} (LLT, which squares the product: c gamma_{2n+2}) to the quad product of the stored pivots;
 *   lndet: c gamma_{n+2} sum|log|pivot||
 * Measured with c = 1 (design probes): worst ratio 0.98 (LLT reconstruction) - do not tighten.
 * Residuals are accumulated in __float128 (products of two doubles are exact there), bounds in long double.
 *
 * UNDERFLOW TERMS (every bound above is the no-underflow result; the "xscale" classes scale rows/columns by 2^+-1000).
 * Model with gradual underflow (Higham, ASNA 2nd ed. (2.8)): fl(a*b) = ab(1+d) + e, fl(a/b) = (a/b)(1+d) + e, |d| <= u,
 * |e| <= eta = 2^-1074 (round to nearest gives eta/2; eta is used), fl(a+-b) = (a+-b)(1+d) exactly as before (a sum that
 * lands in the subnormal range is exact).  Carrying the e's through the usual derivations (each e is multiplied by at
 * most (1+gamma)^2, absorbed in ETA_Q) adds to the c = 1 bound of each clause:
 *   PLU entry (r,c):  a_rc = sum_{k<min(r,c)} fl(l_rk u_kc) ... ; min(r,c) products, and for r > c the division
 *        l_rc = fl(t/u_cc) = (t/u_cc)(1+d) + e  <=>  t = (l_rc u_cc - e u_cc)/(1+d):
 *        E(r,c) = eta (min(r,c) + [r>c] |u_cc|)
 *        (the error of a stored multiplier only enters entry (r,c) itself because the residual uses the STORED l).
 *   LDL entry (r,c), c <= r: the library forms fl(fl(l_ri l_ci) d_i) = l_ri l_ci d_i (1+th_2) + e1 d_i (1+d) + e2, then
 *        divides by d_c:  E(r,c) = eta (sum_{i<c} (|d_i| + 1) + [r>c] |d_c|)
 *        (note the |d_i| amplification: it belongs to this operation order and is part of the a-priori bound).
 *   LLT entry (r,c), c <= r: c products, division by l_cc for r > c, sqrt of a normal pivot does not underflow:
 *        E(r,c) = eta (c + [r>c] |l_cc|)
 *   triangular sweeps, row r:  unit lower (PLU, LDL)      e1_r = eta r
 *                              lower with division (LLT)   e1_r = eta (r + |l_rr|)
 *                              upper U / L^T               e2_r = eta (n-1-r + |u_rr| resp. |l_rr|)
 *                              D L^T (x_r = y_r/d_r - sum) e2_r = eta |d_r| (n-r)     (one division, n-1-r products, all times d_r)
 *   solve / inverse column: (L+dL) y = Pb + e1', (M+dM) x = y + e2', PA = LM + E'  =>
 *        Pb - PAx = [(L+dL)(M+dM) - LM - E'] x - (L+dL) e2' - e1'   so row r of the c = 1 bound gains
 *        UF_r = sum_c E(r,c)|x_c| + sum_{k<=r} |L_rk| e2_k + e1_r        (L_rr = 1 for PLU/LDL, l_rr for LLT).
 * All of it is multiplied by the same safety factor c = 4 as the rounding part.  Overflow: a non-finite factor or
 * solution on an xscale class (or on plain LDL^T of an indefinite matrix) is counted and skipped, never flagged; the
 * library never turns an inf back into a finite number (inf stays in the factor storage / the solution vector).
 * Measured on the xscale classes with c = 1 (seeds 1..5, thorough): see the *-xscale-*-ratio maxima in evidence.
 */
#define VF_PROP "C08"
#include "vf_common.h"
#include "a/a.h"
#include "a/linalg.h"
#include <quadmath.h>
#include <math.h>
#include <float.h>

typedef __float128 q_t;
typedef long double ld_t;

/* Configurations fenv-exact* (seeded change C08-M: a_real_llt took sqrt(pivot) BEFORE validating the pivot - an IEEE invalid operation for a negative
   pivot, harmless by default, SIGFPE inside the library when the calling thread has FE_INVALID unmasked, where the pinned code returns A_FAILURE):
   on the must-fail, exactly factorable and must-succeed classes (fx_trap_class, set by fx_case) FE_INVALID and FE_DIVBYZERO are UNMASKED (first version; now only WATCHED through the sticky flags, see fx_trap_off)
   immediately before every library factorization / sweep / solve / inverse / determinant call and masked again immediately after it returns -
   never while harness or oracle code runs.  The pinned library raises neither exception on these inputs (pivots are validated before they are
   divided by or rooted; no NaN, no inf - inf, no 0/0 occurs); a trap kills the worker inside the call and bin/check reports it under a key
   san/asan:FPE@<library function> with the journal of the case.  The sticky flags are cleared first (an x87 flag left pending by earlier harness
   arithmetic would trap at the next x87 instruction once unmasked).  Both macros expand to nothing in the default configurations. */
#ifdef VF_FENV_ROTATE
static int fx_trap_class;
static void fx_trap_on(void)
{
    if (!fx_trap_class) { return; }
    VF_COUNT("fenv-library-call-watched-for-invalid-and-divbyzero");
    feclearexcept(FE_ALL_EXCEPT);
}
static void fx_trap_off(void)
{
    /* RECORDED, NOT JUDGED. A first version unmasked the two exceptions around the call (a SIGFPE inside the library was a violation). That asks more than C08
       states: ISO C's default is non-stop arithmetic, trapping is a glibc extension of the caller, and code that computes sqrt(pivot) and then tests the result
       reports failure correctly in every standard environment - the same reason UBSan's float-divide-by-zero is not enabled (DESIGN 2.2). The count says how
       often the library raised FE_INVALID / FE_DIVBYZERO on inputs where the pinned code raises neither (0 on the pinned tree). */
    if (fx_trap_class && fetestexcept(FE_INVALID | FE_DIVBYZERO)) { vf_count_dyn("fenv-library-raised-invalid-or-divbyzero", 1); }
}
#define FX_TRAP_ON() fx_trap_on();
#define FX_TRAP_OFF() fx_trap_off();
#else
#define FX_TRAP_ON()
#define FX_TRAP_OFF()
#endif

#define NMAX 48u
#define GUARD 8u
#define CSAFE 4.0
#define U_RO 0x1p-53L
#define ETA_Q (0x1p-1074L * (1 + 0x1p-30L)) /* eta times the (1+gamma_k)^2 <= 1 + 2^-30 factors (k <= 3*48+1) */

static ld_t gam(unsigned k)
{
    ld_t ku = (ld_t)k * U_RO;
    return ku / (1 - ku);
}

enum { FAM_PLU, FAM_LDL, FAM_LLT };
static char const *const fam_name[] = {"plu", "ldl", "llt"};

enum { EXP_ANY, EXP_SUCCESS, EXP_FAIL };

/* ------------------------------------------------------------------ structure classes */
enum
{
    /* general (PLU) */
    G_RANDOM, G_SMALLINT, G_ROWSCALE, G_COLSCALE, G_HILBERT, G_NEARDEP, G_EXCH_EVERY, G_EXCH_LAST,
    G_PERM, G_TRIU, G_TRIL, G_DIAG, G_SPD, G_SYMINDEF,
    G_X_ROW, G_X_COL, G_X_BOTH, G_X_GLOBAL, G_X_BLOCK, G_X_EXACT,
    G_F_ZEROCOL, G_F_ZEROROW, G_F_ZEROMAT, G_F_DUPROW, G_F_SCALEDDUP,
    G_NCLS
};
static char const *const g_name[] = {
    "random-dense", "small-integer", "row-scaled-2^k", "col-scaled-2^k", "hilbert-like", "nearly-dependent-rows",
    "exchange-every-step", "exchange-last-step-only", "permutation-matrix", "upper-triangular", "lower-triangular",
    "diagonal", "spd-BtB+dI", "symmetric-indefinite",
    "xscale-rows-2^+-960", "xscale-cols-2^+-960", "xscale-rows-and-cols-2^+-480", "xscale-global-near-overflow-or-underflow",
    "xscale-huge-rows-over-tiny-columns", "xscale-exact-perm-diag-triu",
    "FAIL:zero-column", "FAIL:zero-row", "FAIL:zero-matrix", "FAIL:duplicated-rows", "FAIL:2^k-multiple-row"};
enum
{
    /* symmetric (LDL) */
    S_SPD, S_SPD_INT, S_INDEF, S_INT_LDL, S_SCALED, S_HILBERT, S_DIAG, S_NEARDEP, S_TRIDIAG,
    S_X_SPD, S_X_INDEF, S_X_GLOBAL, S_X_DIAG,
    S_F_ZERO_D, S_F_ZEROMAT, S_F_LEAD0,
    S_NCLS
};
static char const *const s_name[] = {
    "spd-BtB+dI", "spd-integer-L0L0t", "symmetric-indefinite", "integer-L0D0L0t", "sym-scaled-2^k", "hilbert",
    "diagonal", "sym-nearly-dependent", "tridiagonal",
    "xscale-D*spd*D-2^+-480", "xscale-D*indefinite*D-2^+-480", "xscale-global-near-overflow-or-underflow", "xscale-diagonal",
    "FAIL:integer-L0D0L0t-with-zero-d", "FAIL:zero-matrix", "FAIL:zero-leading-entry"};
enum
{
    /* symmetric positive definite (LLT) */
    C_SPD, C_SPD_INT, C_SCALED, C_HILBERT, C_DIAG, C_TRIDIAG, C_NEARSING,
    C_X_SPD, C_X_GLOBAL, C_X_DIAG,
    C_F_LEAD, C_F_LOWERED_LAST, C_F_LOWERED_ANY, C_F_ZEROMAT,
    C_NCLS
};
static char const *const c_name[] = {
    "spd-BtB+dI", "spd-integer-L0L0t", "spd-scaled-2^k", "hilbert", "positive-diagonal", "spd-tridiagonal",
    "spd-nearly-singular",
    "xscale-D*spd*D-2^+-480", "xscale-global-near-overflow-or-underflow", "xscale-positive-diagonal",
    "FAIL:non-positive-leading-entry", "FAIL:integer-L0L0t-last-diagonal-lowered", "FAIL:integer-L0L0t-diagonal-k-lowered",
    "FAIL:zero-matrix"};

static unsigned ncls(int fam) { return fam == FAM_PLU ? G_NCLS : fam == FAM_LDL ? S_NCLS : C_NCLS; }
#ifdef VF_FENV_ROTATE
/* configurations fenv-exact*: one more PLU class outside the case plan of the default configurations (generator fx_gen_intlu below) */
#define G_FX_INTLU ((unsigned)G_NCLS)
static char const *cls_name(int fam, unsigned c)
{
    if (fam == FAM_PLU && c == G_FX_INTLU) { return "fenv:exact-Q*L0*U0-multipliers-k/4-integer-U0"; }
    return fam == FAM_PLU ? g_name[c] : fam == FAM_LDL ? s_name[c] : c_name[c];
}
#else
static char const *cls_name(int fam, unsigned c) { return fam == FAM_PLU ? g_name[c] : fam == FAM_LDL ? s_name[c] : c_name[c]; }
#endif
/* extreme-scaling classes: entries stay finite and normal-or-zero, but multipliers, products and solution components
   may underflow (and products may overflow) inside the library */
static int is_xscale(int fam, unsigned c)
{
    return fam == FAM_PLU ? (c >= G_X_ROW && c <= G_X_EXACT) : fam == FAM_LDL ? (c >= S_X_SPD && c <= S_X_DIAG) : (c >= C_X_SPD && c <= C_X_DIAG);
}

/* ------------------------------------------------------------------ guarded / exact-size buffers */
static uint64_t const GPAT = 0x7FF4DEADBEEF0000ull; /* signalling-NaN payload + cell index */
static uint64_t const FILL = 0x7FFCBAD0BAD0BAD0ull; /* quiet NaN: an output cell the library never wrote */
typedef struct { double *base, *v; size_t n; } gd_t;

static gd_t gd_new(size_t n)
{
    gd_t g;
    g.n = n;
    g.base = (double *)malloc((n + 2 * GUARD) * sizeof(double));
    if (!g.base) { fprintf(stderr, "vf: out of memory\n"); exit(2); }
    g.v = g.base + GUARD;
    for (size_t i = 0; i < GUARD; ++i)
    {
        uint64_t a = GPAT + i, b = GPAT + 0x100 + i;
        memcpy(g.base + i, &a, 8);
        memcpy(g.v + n + i, &b, 8);
    }
    for (size_t i = 0; i < n; ++i) { memcpy(g.v + i, &FILL, 8); }
    return g;
}
static int gd_ok(gd_t const *g)
{
    for (size_t i = 0; i < GUARD; ++i)
    {
        uint64_t a, b;
        memcpy(&a, g->base + i, 8);
        memcpy(&b, g->v + g->n + i, 8);
        if (a != GPAT + i || b != GPAT + 0x100 + i) { return 0; }
    }
    return 1;
}
static void gd_free(gd_t *g) { free(g->base); g->base = g->v = NULL; }
static void gd_fill(gd_t *g)
{
    for (size_t i = 0; i < g->n; ++i) { memcpy(g->v + i, &FILL, 8); }
}
static void gd_guard(gd_t const *g, char const *routine, char const *what)
{
    VF_COUNT("guard-cells-intact");
    if (!gd_ok(g))
    {
        char key[96];
        snprintf(key, sizeof(key), "%s/wrote-outside-array", routine);
        vf_viol(key, "%s: guard cell next to the %s array (%zu reals) was overwritten", routine, what, g->n);
    }
}

typedef struct { a_uint *base, *v; size_t n; } gu_t;
static gu_t gu_new(size_t n)
{
    gu_t g;
    g.n = n;
    g.base = (a_uint *)malloc((n + 2 * GUARD) * sizeof(a_uint));
    if (!g.base) { fprintf(stderr, "vf: out of memory\n"); exit(2); }
    g.v = g.base + GUARD;
    for (size_t i = 0; i < GUARD; ++i)
    {
        g.base[i] = 0xC0DE0000u + (a_uint)i;
        g.v[n + i] = 0xC0DF0000u + (a_uint)i;
    }
    for (size_t i = 0; i < n; ++i) { g.v[i] = 0xBAD00000u + (a_uint)i; }
    return g;
}
static int gu_ok(gu_t const *g)
{
    for (size_t i = 0; i < GUARD; ++i)
    {
        if (g->base[i] != 0xC0DE0000u + (a_uint)i || g->v[g->n + i] != 0xC0DF0000u + (a_uint)i) { return 0; }
    }
    return 1;
}

/* exact-size copies for everything the library only reads: one element past the contract is an ASan red zone */
static double *xd_copy(double const *src, size_t n)
{
    double *p = (double *)malloc((n ? n : 1) * sizeof(double));
    if (!p) { fprintf(stderr, "vf: out of memory\n"); exit(2); }
    memcpy(p, src, n * sizeof(double));
    return p;
}
static a_uint *xu_copy(a_uint const *src, size_t n)
{
    a_uint *p = (a_uint *)malloc((n ? n : 1) * sizeof(a_uint));
    if (!p) { fprintf(stderr, "vf: out of memory\n"); exit(2); }
    memcpy(p, src, n * sizeof(a_uint));
    return p;
}
static void const_intact(char const *routine, char const *what, void const *now, void const *ref, size_t bytes)
{
    VF_COUNT("const-input-intact");
    if (memcmp(now, ref, bytes) != 0)
    {
        char key[96];
        snprintf(key, sizeof(key), "%s/modified-const-input", routine);
        vf_viol(key, "%s changed its read-only argument %s", routine, what);
    }
}

/* ------------------------------------------------------------------ small helpers */
static int all_finite(double const *x, size_t n)
{
    for (size_t i = 0; i < n; ++i)
    {
        if (!isfinite(x[i])) { return 0; }
    }
    return 1;
}
static double pow2i(int k) { return ldexp(1.0, k); }

/* judge |res| against c*g*W; returns the ratio to the c = 1 bound (inf if the bound is 0 and res is not) */
static double ratio_of(q_t res, ld_t gW)
{
    q_t a = fabsq(res);
    if (!(a == a)) { return INFINITY; }
    if (a == 0) { return 0.0; }
    if (!(gW > 0)) { return INFINITY; }
    q_t r = a / (q_t)gW;
    if (r > 1e300Q) { return INFINITY; }
    return (double)r;
}

static void log_matrix(char const *name, double const *A, unsigned rows, unsigned cols)
{
    if (rows * cols > 64) { return; }
    char buf[2400];
    size_t o = 0;
    o += (size_t)snprintf(buf + o, sizeof(buf) - o, "%s[%ux%u]=", name, rows, cols);
    for (unsigned i = 0; i < rows * cols && o + 32 < sizeof(buf); ++i)
    {
        o += (size_t)snprintf(buf + o, sizeof(buf) - o, "%s%a", i ? (i % cols ? "," : ";") : "", A[i]);
    }
    vf_log("%s", buf);
}

/* ------------------------------------------------------------------ matrix generators */
static void mirror_lower(unsigned n, double *A)
{
    for (unsigned i = 0; i < n; ++i)
    {
        for (unsigned j = i + 1; j < n; ++j) { A[(size_t)n * i + j] = A[(size_t)n * j + i]; }
    }
}
static void gen_uniform(vf_rng *r, unsigned n, double *A)
{
    int wide = vf_chance(r, 1, 4);
    for (size_t i = 0; i < (size_t)n * n; ++i)
    {
        A[i] = wide ? vf_sign(r) * vf_logu(r, -3.0, 3.0) : vf_uniform(r, -1.0, 1.0);
    }
}
static void gen_smallint(vf_rng *r, unsigned n, double *A)
{
    for (size_t i = 0; i < (size_t)n * n; ++i) { A[i] = (double)vf_range(r, -3, 3); }
}
/* A = L0 U0 with |l| <= 0.9 and |u_ii| in [1,2): partial pivoting on it needs no exchange */
static void gen_lu_nopivot(vf_rng *r, unsigned n, double *A)
{
    double *L = (double *)calloc((size_t)n * n, sizeof(double)), *U = (double *)calloc((size_t)n * n, sizeof(double));
    for (unsigned i = 0; i < n; ++i)
    {
        for (unsigned j = 0; j < n; ++j)
        {
            if (j < i) { L[(size_t)n * i + j] = vf_uniform(r, -0.9, 0.9); }
            else if (j == i) { L[(size_t)n * i + j] = 1; U[(size_t)n * i + j] = vf_sign(r) * vf_uniform(r, 1.0, 2.0); }
            else { U[(size_t)n * i + j] = vf_uniform(r, -2.0, 2.0); }
        }
    }
    for (unsigned i = 0; i < n; ++i)
    {
        for (unsigned j = 0; j < n; ++j)
        {
            double s = 0;
            for (unsigned k = 0; k <= i && k <= j; ++k) { s += L[(size_t)n * i + k] * U[(size_t)n * k + j]; }
            A[(size_t)n * i + j] = s;
        }
    }
    free(L);
    free(U);
}
/* lower triangle of B^T B + delta I (B random m x n), mirrored */
static void gen_btb(vf_rng *r, unsigned n, double delta, int neardep, double *A)
{
    double *B = (double *)malloc((size_t)n * n * sizeof(double));
    for (size_t i = 0; i < (size_t)n * n; ++i) { B[i] = vf_uniform(r, -1.0, 1.0); }
    if (neardep && n >= 2)
    {
        unsigned t = (unsigned)vf_below(r, n), s = (unsigned)vf_below(r, n - 1);
        double eps = vf_logu(r, -12.0, -5.0);
        if (s >= t) { ++s; }
        for (unsigned k = 0; k < n; ++k) { B[(size_t)n * k + t] = B[(size_t)n * k + s] + eps * vf_uniform(r, -1.0, 1.0); }
    }
    for (unsigned i = 0; i < n; ++i)
    {
        for (unsigned j = 0; j <= i; ++j)
        {
            double s = 0;
            for (unsigned k = 0; k < n; ++k) { s += B[(size_t)n * k + i] * B[(size_t)n * k + j]; }
            A[(size_t)n * i + j] = s + (i == j ? delta : 0.0);
        }
    }
    mirror_lower(n, A);
    free(B);
}
/* integer L0 (entries -3..3; diagonal 1 if unit, else 1, 2 or 4), optional integer D0; A = L0 D0 L0^T exactly.
   DIVISORS ARE POWERS OF TWO (here and in every class that is judged with == or must fail by exact cancellation): the property does not fix
   how a quotient is formed, and an implementation that multiplies by the correctly rounded reciprocal, a * fl(1/u), returns the exact quotient
   only when 1/u is representable.  With l_kk in {1,2,4} (Cholesky pivots 1, 4, 16; LDL^T pivots the same) and D0 in +-{1,2,4} every quotient,
   product (either association) and partial sum below is an exactly representable integer or dyadic for division and reciprocal alike. */
static void gen_int_ldlt(vf_rng *r, unsigned n, int unit, double const *D0, double *L0out, double *A)
{
    double *L = (double *)calloc((size_t)n * n, sizeof(double));
    for (unsigned i = 0; i < n; ++i)
    {
        for (unsigned j = 0; j < i; ++j) { L[(size_t)n * i + j] = (double)vf_range(r, -3, 3); }
        L[(size_t)n * i + i] = unit ? 1.0 : (double)(1 << vf_below(r, 3));
    }
    for (unsigned i = 0; i < n; ++i)
    {
        for (unsigned j = 0; j <= i; ++j)
        {
            double s = 0;
            for (unsigned k = 0; k <= j; ++k) { s += L[(size_t)n * i + k] * (D0 ? D0[k] : 1.0) * L[(size_t)n * j + k]; }
            A[(size_t)n * i + j] = s; /* all intermediates are integers < 2^53: exact */
        }
    }
    mirror_lower(n, A);
    if (L0out) { memcpy(L0out, L, (size_t)n * n * sizeof(double)); }
    free(L);
}
static void sym_scale(vf_rng *r, unsigned n, int kmax, double *A)
{
    int k[NMAX];
    for (unsigned i = 0; i < n; ++i) { k[i] = (int)vf_range(r, -kmax, kmax); }
    for (unsigned i = 0; i < n; ++i)
    {
        for (unsigned j = 0; j < n; ++j) { A[(size_t)n * i + j] = ldexp(A[(size_t)n * i + j], k[i] + k[j]); }
    }
}
static double mzero(vf_rng *r) { return vf_chance(r, 1, 3) ? -0.0 : 0.0; }

/* ---- extreme scaling helpers.  Base matrices have |entry| in [2^-30, 2^12] or 0 (xs_clamp), the exponent sums stay within
   +-960, so every scaled entry is finite and normal-or-zero; xs_sanitize is a belt-and-braces pass that never fires
   (xs_wide_sym below decides itself which entries are exact zeros). */
static void xs_clamp(double *A, size_t cnt)
{
    for (size_t i = 0; i < cnt; ++i)
    {
        if (A[i] != 0 && fabs(A[i]) < 0x1p-30) { A[i] = copysign(0x1p-30, A[i]); }
    }
}
static void xs_sanitize(double *A, size_t cnt)
{
    for (size_t i = 0; i < cnt; ++i)
    {
        if (!isfinite(A[i])) { A[i] = copysign(DBL_MAX, A[i]); }
        else if (A[i] != 0 && fabs(A[i]) < DBL_MIN) { A[i] = 0; }
    }
}
static char const *const xs_mode_name[] = {"spread", "two-level", "graded", "outliers", "three-level"};
/* exponents in [-lim, lim]: spread uniformly / two levels +-h / graded h..-h / a few outliers +-h among zeros / {-h,0,h} */
static unsigned xs_exps(vf_rng *r, unsigned n, int lim, int *e)
{
    unsigned const mode = (unsigned)vf_below(r, 5);
    int const h = (int)vf_range(r, lim / 2, lim);
    switch (mode)
    {
    case 0:
        for (unsigned i = 0; i < n; ++i) { e[i] = (int)vf_range(r, -lim, lim); }
        break;
    case 1:
        for (unsigned i = 0; i < n; ++i) { e[i] = vf_chance(r, 1, 2) ? h : -h; }
        break;
    case 2:
    {
        int const dir = vf_chance(r, 1, 2) ? 1 : -1;
        for (unsigned i = 0; i < n; ++i) { e[i] = dir * (n > 1 ? h - (int)((2L * h * (long)i) / (long)(n - 1)) : h); }
        break;
    }
    case 3:
    {
        for (unsigned i = 0; i < n; ++i) { e[i] = 0; }
        unsigned const k = 1 + (unsigned)vf_below(r, 2);
        for (unsigned j = 0; j < k; ++j) { e[vf_below(r, n)] = vf_chance(r, 1, 2) ? h : -h; }
        break;
    }
    default:
        for (unsigned i = 0; i < n; ++i) { e[i] = (int)vf_range(r, -1, 1) * h; }
        break;
    }
    return mode;
}
/* A := D1 A D2 with D1 = diag(2^er), D2 = diag(2^ec) (either may be NULL) */
static void xs_apply(unsigned n, double *A, int const *er, int const *ec)
{
    for (unsigned i = 0; i < n; ++i)
    {
        for (unsigned j = 0; j < n; ++j) { A[(size_t)n * i + j] = ldexp(A[(size_t)n * i + j], (er ? er[i] : 0) + (ec ? ec[j] : 0)); }
    }
    xs_sanitize(A, (size_t)n * n);
}
/* A := 2^g A with g chosen so that the largest entry has exponent 1023-(0..2) (top) or the smallest non-zero entry has
   exponent -1022+(0..2) (bottom): everything stays finite and normal, one doubling away from overflow / underflow */
static void xs_global(vf_rng *r, unsigned n, double *A, char *note, size_t nlen)
{
    int emax = -100000, emin = 100000;
    for (size_t i = 0; i < (size_t)n * n; ++i)
    {
        if (A[i] != 0)
        {
            int const e = ilogb(A[i]);
            if (e > emax) { emax = e; }
            if (e < emin) { emin = e; }
        }
    }
    if (emax < emin) { return; }
    int const top = vf_chance(r, 1, 2);
    int const g = top ? 1023 - (int)vf_range(r, 0, 2) - emax : -1022 + (int)vf_range(r, 0, 2) - emin;
    for (size_t i = 0; i < (size_t)n * n; ++i) { A[i] = ldexp(A[i], g); }
    xs_sanitize(A, (size_t)n * n);
    snprintf(note, nlen, "global scale 2^%d (%s)", g, top ? "largest entry next to DBL_MAX" : "smallest entry next to DBL_MIN");
}
/* sign * m * 2^k, a normal number anywhere in the double range, the range ends included */
static double xs_pow(vf_rng *r)
{
    static int const edge[] = {-1022, -1021, 1022, 1023};
    int const k = vf_chance(r, 1, 4) ? edge[vf_below(r, 4)] : (int)vf_range(r, -1022, 1023);
    double const m = vf_chance(r, 1, 2) ? 1.0 : vf_uniform(r, 1.0, 1.984375);
    return vf_sign(r) * ldexp(m, k);
}
/* A = D B D built directly, D = diag(2^e_i), B symmetric and strictly diagonally dominant: |b_ii| in [1,2), off-diagonals
   b_ij = +-m 2^-g, m in [1/2,1), g >= g0 = 7 + ceil(log2 n) (a row's off-diagonals sum to < 2^-7), or exactly 0.  B is well
   conditioned (positive definite unless indef) but its own multipliers are tiny.  g is either spread over g0..700 or
   aimed so that a_ij lands within 2^60 of the bottom of the normal range; then the quotients a_rc/d_c resp. a_rc/l_cc and the
   fill-in products underflow, partly or completely.  B itself is never formed (2^-g need not be representable); an entry
   whose exponent e_i+e_j-g falls below the normal range is an exact 0 (symmetrically). */
static void xs_wide_sym(vf_rng *r, unsigned n, int indef, int const *e, double *A)
{
    int g0 = 7;
    while ((1u << (g0 - 7)) < n) { ++g0; }
    for (unsigned i = 0; i < n; ++i)
    {
        A[(size_t)n * i + i] = (indef ? vf_sign(r) : 1.0) * ldexp(vf_uniform(r, 1.0, 2.0), 2 * e[i]);
        for (unsigned j = 0; j < i; ++j)
        {
            unsigned const k = (unsigned)vf_below(r, 8);
            int g = (int)vf_range(r, g0, 700);
            if (k >= 4)
            {
                int const aim = e[i] + e[j] + 1022 - (int)vf_range(r, 0, 60);
                if (aim >= g0) { g = aim; }
            }
            int const t = e[i] + e[j] - g;
            A[(size_t)n * i + j] = (k == 0 || t < -1021) ? 0.0 : vf_sign(r) * ldexp(vf_uniform(r, 0.5, 1.0), t);
        }
    }
    mirror_lower(n, A);
    xs_sanitize(A, (size_t)n * n);
}
/* well conditioned (usually) dense base for the PLU xscale classes */
static void xs_base_general(vf_rng *r, unsigned n, double *A)
{
    unsigned const b = (unsigned)vf_below(r, 4);
    if (b == 0) { gen_smallint(r, n, A); }
    else if (b == 1) { gen_lu_nopivot(r, n, A); }
    else { gen_uniform(r, n, A); }
    xs_clamp(A, (size_t)n * n);
}

/* general matrices for PLU; *aux = step/row information for the log */
static int gen_general(unsigned cls, unsigned n, vf_rng *r, double *A, char *note, size_t nlen)
{
    int expect = EXP_ANY;
    note[0] = 0;
    switch (cls)
    {
    default:
    case G_RANDOM: gen_uniform(r, n, A); break;
    case G_SMALLINT: gen_smallint(r, n, A); break;
    case G_ROWSCALE:
    case G_COLSCALE:
        gen_uniform(r, n, A);
        for (unsigned i = 0; i < n; ++i)
        {
            int k = (int)vf_range(r, -40, 40);
            for (unsigned j = 0; j < n; ++j)
            {
                size_t ix = cls == G_ROWSCALE ? (size_t)n * i + j : (size_t)n * j + i;
                A[ix] = ldexp(A[ix], k);
            }
        }
        break;
    case G_HILBERT:
    {
        unsigned s = (unsigned)vf_below(r, 4);
        for (unsigned i = 0; i < n; ++i)
        {
            for (unsigned j = 0; j < n; ++j) { A[(size_t)n * i + j] = 1.0 / (double)(i + j + 1 + s); }
        }
        snprintf(note, nlen, "1/(i+j+%u)", 1 + s);
        break;
    }
    case G_NEARDEP:
    {
        gen_uniform(r, n, A);
        double eps = vf_logu(r, -14.0, -6.0);
        if (n >= 2)
        {
            unsigned t = (unsigned)vf_below(r, n), s = (unsigned)vf_below(r, n - 1), s2 = (unsigned)vf_below(r, n);
            double c1 = vf_uniform(r, -2.0, 2.0), c2 = (s2 != t && vf_chance(r, 1, 2)) ? vf_uniform(r, -2.0, 2.0) : 0.0;
            if (s >= t) { ++s; }
            for (unsigned j = 0; j < n; ++j)
            {
                A[(size_t)n * t + j] = c1 * A[(size_t)n * s + j] + c2 * A[(size_t)n * s2 + j] + eps * vf_uniform(r, -1.0, 1.0);
            }
            snprintf(note, nlen, "row %u = %.3g*row %u + %.3g*row %u + %.1e*noise", t, c1, s, c2, s2, eps);
        }
        else { A[0] = eps; }
        break;
    }
    case G_EXCH_EVERY:
    case G_EXCH_LAST:
    {
        double *B = (double *)malloc((size_t)n * n * sizeof(double));
        gen_lu_nopivot(r, n, B);
        for (unsigned i = 0; i < n; ++i)
        {
            unsigned src = i;
            if (cls == G_EXCH_EVERY) { src = i ? i - 1 : n - 1; }
            else if (n >= 2 && i + 2 >= n) { src = (i == n - 1) ? n - 2 : n - 1; }
            memcpy(A + (size_t)n * i, B + (size_t)n * src, n * sizeof(double));
        }
        free(B);
        break;
    }
    case G_PERM:
    {
        unsigned q[NMAX];
        for (unsigned i = 0; i < n; ++i) { q[i] = i; }
        for (unsigned i = n; i > 1; --i)
        {
            unsigned j = (unsigned)vf_below(r, i), t = q[i - 1];
            q[i - 1] = q[j];
            q[j] = t;
        }
        memset(A, 0, (size_t)n * n * sizeof(double));
        int scaled = vf_chance(r, 1, 2);
        for (unsigned i = 0; i < n; ++i) { A[(size_t)n * i + q[i]] = scaled ? vf_sign(r) * pow2i((int)vf_range(r, -30, 30)) : 1.0; }
        expect = EXP_SUCCESS; /* every pivot is the single non-zero of its column */
        break;
    }
    case G_TRIU:
    case G_TRIL:
        gen_uniform(r, n, A);
        for (unsigned i = 0; i < n; ++i)
        {
            for (unsigned j = 0; j < n; ++j)
            {
                if ((cls == G_TRIU && j < i) || (cls == G_TRIL && j > i)) { A[(size_t)n * i + j] = 0; }
            }
            A[(size_t)n * i + i] = vf_sign(r) * vf_uniform(r, 0.5, 2.0);
        }
        if (cls == G_TRIU) { expect = EXP_SUCCESS; } /* no elimination happens: pivots are the non-zero diagonal */
        break;
    case G_DIAG:
        memset(A, 0, (size_t)n * n * sizeof(double));
        for (unsigned i = 0; i < n; ++i) { A[(size_t)n * i + i] = vf_sign(r) * vf_logu(r, -10.0, 10.0); }
        expect = EXP_SUCCESS;
        break;
    case G_SPD: gen_btb(r, n, vf_logu(r, -3.0, 0.0), 0, A); break;
    case G_SYMINDEF:
        gen_uniform(r, n, A);
        mirror_lower(n, A);
        break;
    case G_X_ROW:
    case G_X_COL:
    case G_X_BOTH:
    {
        int er[NMAX], ec[NMAX];
        unsigned mr = 0, mc = 0;
        xs_base_general(r, n, A);
        if (cls != G_X_COL) { mr = xs_exps(r, n, cls == G_X_BOTH ? 480 : 960, er); }
        if (cls != G_X_ROW) { mc = xs_exps(r, n, cls == G_X_BOTH ? 480 : 960, ec); }
        xs_apply(n, A, cls != G_X_COL ? er : NULL, cls != G_X_ROW ? ec : NULL);
        snprintf(note, nlen, "row exponents %s, column exponents %s", cls != G_X_COL ? xs_mode_name[mr] : "none", cls != G_X_ROW ? xs_mode_name[mc] : "none");
        break;
    }
    case G_X_GLOBAL:
        xs_base_general(r, n, A);
        if (vf_chance(r, 1, 2))
        {
            for (unsigned i = 0; i < n; ++i)
            {
                int const k = (int)vf_range(r, -20, 20);
                for (unsigned j = 0; j < n; ++j) { A[(size_t)n * i + j] = ldexp(A[(size_t)n * i + j], k); }
            }
        }
        xs_global(r, n, A, note, nlen);
        break;
    case G_X_BLOCK:
    {
        /* k rows int * 2^E, upper trapezoidal with non-zero diagonal, over rows [ int * 2^-E' | T ], E + E' >= 1080: the pivots
           of the first k steps are the diagonal of the top block, every multiplier of a bottom row is a NON-ZERO entry divided
           by a pivot and underflows to exactly 0 (<= 3*2^-1080 < eta/2), the multipliers inside the top block are 0/pivot;
           so all updates subtract u*0 and T is factored untouched.  T permuted-triangular / scaled permutation: every later
           pivot is the single non-zero left in its column, all multipliers are 0 - success by construction. */
        int const E = (int)vf_range(r, 540, 1000), E2 = (int)vf_range(r, 1080 - E, 1000);
        unsigned const k = n > 1 ? 1 + (unsigned)vf_below(r, n - 1) : 1, m = n - (n > 1 ? k : 0);
        unsigned const tk = (unsigned)vf_below(r, 4);
        memset(A, 0, (size_t)n * n * sizeof(double));
        if (n == 1)
        {
            A[0] = vf_sign(r) * ldexp((double)vf_range(r, 1, 3), vf_chance(r, 1, 2) ? E : -E);
            expect = EXP_SUCCESS;
            snprintf(note, nlen, "1x1");
            break;
        }
        double *T = (double *)calloc((size_t)m * m, sizeof(double));
        if (tk == 0) { gen_uniform(r, m, T); xs_clamp(T, (size_t)m * m); }
        else if (tk == 1) { gen_smallint(r, m, T); }
        else if (tk == 2)
        {
            for (unsigned i = 0; i < m; ++i)
            {
                for (unsigned j = i; j < m; ++j) { T[(size_t)m * i + j] = j == i ? vf_sign(r) * vf_uniform(r, 0.5, 2.0) : vf_uniform(r, -2.0, 2.0); }
            }
            expect = EXP_SUCCESS;
        }
        else
        {
            unsigned q[NMAX];
            for (unsigned i = 0; i < m; ++i) { q[i] = i; }
            for (unsigned i = m; i > 1; --i)
            {
                unsigned const j = (unsigned)vf_below(r, i), t = q[i - 1];
                q[i - 1] = q[j];
                q[j] = t;
            }
            for (unsigned i = 0; i < m; ++i) { T[(size_t)m * i + q[i]] = vf_sign(r) * pow2i((int)vf_range(r, -30, 30)); }
            expect = EXP_SUCCESS;
        }
        double *B = (double *)calloc((size_t)n * n, sizeof(double));
        for (unsigned i = 0; i < k; ++i)
        {
            for (unsigned j = i; j < n; ++j)
            {
                int v = (int)vf_range(r, -3, 3);
                if (j == i && v == 0) { v = vf_chance(r, 1, 2) ? 2 : -1; }
                B[(size_t)n * i + j] = ldexp((double)v, E);
            }
        }
        for (unsigned i = k; i < n; ++i)
        {
            for (unsigned j = 0; j < k; ++j)
            {
                int const v = (int)vf_range(r, 1, 3);
                B[(size_t)n * i + j] = vf_sign(r) * ldexp((double)v, -E2);
            }
            for (unsigned j = k; j < n; ++j) { B[(size_t)n * i + j] = T[(size_t)m * (i - k) + (j - k)]; }
        }
        /* rows in random order (the exchanges are then non-trivial) */
        unsigned q[NMAX];
        for (unsigned i = 0; i < n; ++i) { q[i] = i; }
        if (vf_chance(r, 2, 3))
        {
            for (unsigned i = n; i > 1; --i)
            {
                unsigned const j = (unsigned)vf_below(r, i), t = q[i - 1];
                q[i - 1] = q[j];
                q[j] = t;
            }
        }
        for (unsigned i = 0; i < n; ++i) { memcpy(A + (size_t)n * i, B + (size_t)n * q[i], n * sizeof(double)); }
        snprintf(note, nlen, "%u rows *2^%d over tiny columns *2^-%d, trailing block kind %u", k, E, E2, tk);
        free(B);
        free(T);
        break;
    }
    case G_X_EXACT:
    {
        unsigned const kind = (unsigned)vf_below(r, 3);
        memset(A, 0, (size_t)n * n * sizeof(double));
        if (kind == 0) /* permutation matrix with entries anywhere in the normal range */
        {
            unsigned q[NMAX];
            for (unsigned i = 0; i < n; ++i) { q[i] = i; }
            for (unsigned i = n; i > 1; --i)
            {
                unsigned const j = (unsigned)vf_below(r, i), t = q[i - 1];
                q[i - 1] = q[j];
                q[j] = t;
            }
            for (unsigned i = 0; i < n; ++i) { A[(size_t)n * i + q[i]] = xs_pow(r); }
        }
        else if (kind == 1)
        {
            for (unsigned i = 0; i < n; ++i) { A[(size_t)n * i + i] = xs_pow(r); }
        }
        else /* upper triangular, rows scaled: no elimination happens (every multiplier is 0/pivot) */
        {
            int er[NMAX];
            xs_exps(r, n, 960, er);
            for (unsigned i = 0; i < n; ++i)
            {
                for (unsigned j = i; j < n; ++j) { A[(size_t)n * i + j] = j == i ? vf_sign(r) * vf_uniform(r, 0.5, 2.0) : vf_uniform(r, -2.0, 2.0); }
            }
            xs_clamp(A, (size_t)n * n);
            xs_apply(n, A, er, NULL);
        }
        snprintf(note, nlen, "%s", kind == 0 ? "permutation" : kind == 1 ? "diagonal" : "upper triangular, rows scaled");
        expect = EXP_SUCCESS; /* every pivot is a normal number (>= DBL_MIN) and the only non-zero candidate of its column */
        break;
    }
    case G_F_ZEROCOL:
    case G_F_ZEROROW:
    case G_F_DUPROW:
    case G_F_SCALEDDUP:
    case G_F_ZEROMAT:
    {
        unsigned base = (unsigned)vf_below(r, 3);
        if (base == 0) { gen_uniform(r, n, A); }
        else if (base == 1) { gen_smallint(r, n, A); }
        else
        {
            gen_uniform(r, n, A);
            for (unsigned i = 0; i < n; ++i)
            {
                int k = (int)vf_range(r, -40, 40);
                for (unsigned j = 0; j < n; ++j) { A[(size_t)n * i + j] = ldexp(A[(size_t)n * i + j], k); }
            }
        }
        expect = EXP_FAIL;
        if (cls == G_F_ZEROMAT || (n == 1 && (cls == G_F_DUPROW || cls == G_F_SCALEDDUP)))
        {
            for (size_t i = 0; i < (size_t)n * n; ++i) { A[i] = mzero(r); }
            snprintf(note, nlen, "all entries +-0");
        }
        else if (cls == G_F_ZEROCOL)
        {
            unsigned j = (unsigned)vf_below(r, n);
            if (vf_chance(r, 1, 4)) { j = n - 1; }
            for (unsigned i = 0; i < n; ++i) { A[(size_t)n * i + j] = mzero(r); }
            snprintf(note, nlen, "column %u is zero", j);
        }
        else if (cls == G_F_ZEROROW)
        {
            unsigned i = (unsigned)vf_below(r, n);
            for (unsigned j = 0; j < n; ++j) { A[(size_t)n * i + j] = mzero(r); }
            snprintf(note, nlen, "row %u is zero", i);
        }
        else
        {
            /* row b = 2^k * row a: the property names this input ("duplicated rows ... are reported as failure"), whatever the pivot at
               which the two rows meet.  With the quotient formed by division the elimination cancels row b exactly (a/a = 1, operations on
               exactly 2^k-scaled operands commute with the scaling).  An implementation for which fl(a * fl(1/a)) != 1 (one double in eight
               in round-to-nearest) lets such an input through and breaks that sentence: both variants below MUST fail.
               Two cases in three additionally make the meeting step a division by a power of two, so that the class also contains inputs
               whose failure does not hinge on a/a = 1: rows a and b are 0 in the columns before j (multiplier 0, update x - u*0 = x: neither
               chosen nor changed before step j) and carry +-2^K in column j with 2^K > 4 * 2^j * max|A| >= every other candidate of column j
               (partial pivoting at most doubles the largest entry per step), so one of them is the pivot of step j and the multiplier of the
               other is 2^-k or 2^k exactly.  j <= n-2 leaves enough other rows for the steps before j. */
            unsigned a = (unsigned)vf_below(r, n), b = (unsigned)vf_below(r, n - 1);
            int k = 0;
            if (b >= a) { ++b; }
            if (cls == G_F_SCALEDDUP)
            {
                k = (int)vf_range(r, 1, 20);
                if (vf_chance(r, 1, 2)) { k = -k; }
            }
            if (!vf_chance(r, 1, 3))
            {
                unsigned const j = (unsigned)vf_below(r, n - 1);
                double mxa = 0;
                for (size_t i = 0; i < (size_t)n * n; ++i) { if (fabs(A[i]) > mxa) { mxa = fabs(A[i]); } }
                int const K = (mxa > 0 ? ilogb(mxa) : 0) + 3 + (int)j;
                for (unsigned c = 0; c < j; ++c) { A[(size_t)n * a + c] = 0; }
                A[(size_t)n * a + j] = vf_sign(r) * ldexp(1.0, K);
                snprintf(note, nlen, "row %u = 2^%d * row %u, both 0 before column %u and +-2^%d (resp. 2^%d) in it", b, k, a, j, K, K + k);
            }
            else { snprintf(note, nlen, "row %u = 2^%d * row %u", b, k, a); }
            for (unsigned j = 0; j < n; ++j) { A[(size_t)n * b + j] = ldexp(A[(size_t)n * a + j], k); }
        }
        break;
    }
    }
    return expect;
}

/* symmetric matrices for LDL */
static int gen_sym(unsigned cls, unsigned n, vf_rng *r, double *A, char *note, size_t nlen)
{
    int expect = EXP_ANY;
    note[0] = 0;
    switch (cls)
    {
    default:
    case S_SPD: gen_btb(r, n, vf_logu(r, -3.0, 0.0), 0, A); break;
    case S_SPD_INT: gen_int_ldlt(r, n, 0, NULL, NULL, A); break;
    case S_INDEF:
        gen_uniform(r, n, A);
        mirror_lower(n, A);
        break;
    case S_INT_LDL:
    case S_F_ZERO_D:
    {
        double D0[NMAX];
        for (unsigned i = 0; i < n; ++i)
        {
            int d = 1 << vf_below(r, 3); /* +-1, +-2, +-4: see gen_int_ldlt */
            D0[i] = vf_chance(r, 1, 2) ? -d : d;
        }
        if (cls == S_F_ZERO_D)
        {
            unsigned k = (unsigned)vf_below(r, n);
            if (vf_chance(r, 1, 4)) { k = n - 1; }
            D0[k] = 0;
            if (vf_chance(r, 1, 4)) { D0[vf_below(r, n)] = 0; }
            snprintf(note, nlen, "D0[%u]=0", k);
            expect = EXP_FAIL; /* all intermediates are integers: the pivot is exactly D0[k] = 0 */
        }
        else { expect = EXP_SUCCESS; } /* exact: computed factors are L0, D0 */
        gen_int_ldlt(r, n, 1, D0, NULL, A);
        break;
    }
    case S_SCALED:
        if (vf_chance(r, 1, 2)) { gen_btb(r, n, vf_logu(r, -3.0, 0.0), 0, A); }
        else { gen_uniform(r, n, A); mirror_lower(n, A); }
        sym_scale(r, n, 20, A);
        break;
    case S_HILBERT:
        for (unsigned i = 0; i < n; ++i)
        {
            for (unsigned j = 0; j < n; ++j) { A[(size_t)n * i + j] = 1.0 / (double)(i + j + 1); }
        }
        break;
    case S_DIAG:
        memset(A, 0, (size_t)n * n * sizeof(double));
        for (unsigned i = 0; i < n; ++i) { A[(size_t)n * i + i] = vf_sign(r) * vf_logu(r, -10.0, 10.0); }
        expect = EXP_SUCCESS;
        break;
    case S_NEARDEP: gen_btb(r, n, vf_chance(r, 1, 2) ? 0.0 : vf_logu(r, -14.0, -8.0), 1, A); break;
    case S_TRIDIAG:
        memset(A, 0, (size_t)n * n * sizeof(double));
        for (unsigned i = 0; i < n; ++i)
        {
            A[(size_t)n * i + i] = vf_uniform(r, -2.0, 2.0);
            if (i + 1 < n) { A[(size_t)n * (i + 1) + i] = A[(size_t)n * i + i + 1] = vf_uniform(r, -1.0, 1.0); }
        }
        break;
    case S_X_SPD:
    case S_X_INDEF:
    {
        int e[NMAX];
        unsigned const b = (unsigned)vf_below(r, 3);
        unsigned const m = xs_exps(r, n, 480, e);
        if (b == 2) { xs_wide_sym(r, n, cls == S_X_INDEF, e, A); }
        else
        {
            if (cls == S_X_INDEF) { gen_uniform(r, n, A); mirror_lower(n, A); xs_clamp(A, (size_t)n * n); }
            else if (b == 0) { gen_int_ldlt(r, n, 0, NULL, NULL, A); }
            else { gen_btb(r, n, vf_logu(r, -2.0, 0.0), 0, A); xs_clamp(A, (size_t)n * n); }
            xs_apply(n, A, e, e);
        }
        snprintf(note, nlen, "D B D, B %s, exponents %s", b == 2 ? "diagonally dominant with off-diagonals down to the bottom of the normal range" : "dense", xs_mode_name[m]);
        break;
    }
    case S_X_GLOBAL:
        if (vf_chance(r, 1, 2)) { gen_btb(r, n, vf_logu(r, -2.0, 0.0), 0, A); }
        else { gen_uniform(r, n, A); mirror_lower(n, A); }
        xs_clamp(A, (size_t)n * n);
        if (vf_chance(r, 1, 2)) { sym_scale(r, n, 10, A); }
        xs_global(r, n, A, note, nlen);
        break;
    case S_X_DIAG:
        memset(A, 0, (size_t)n * n * sizeof(double));
        for (unsigned i = 0; i < n; ++i) { A[(size_t)n * i + i] = xs_pow(r); }
        expect = EXP_SUCCESS; /* every pivot is a normal number; nothing is computed */
        break;
    case S_F_ZEROMAT:
        for (size_t i = 0; i < (size_t)n * n; ++i) { A[i] = mzero(r); }
        expect = EXP_FAIL;
        break;
    case S_F_LEAD0:
        gen_uniform(r, n, A);
        mirror_lower(n, A);
        A[0] = mzero(r);
        expect = EXP_FAIL;
        break;
    }
    return expect;
}

/* symmetric positive definite (or deliberately not) matrices for LLT */
static int gen_spd(unsigned cls, unsigned n, vf_rng *r, double *A, char *note, size_t nlen)
{
    int expect = EXP_ANY;
    note[0] = 0;
    switch (cls)
    {
    default:
    case C_SPD: gen_btb(r, n, vf_logu(r, -3.0, 0.0), 0, A); break;
    case C_SPD_INT:
        gen_int_ldlt(r, n, 0, NULL, NULL, A);
        expect = EXP_SUCCESS; /* exact: every pivot is the perfect square l0_kk^2 in {1, 4, 16} */
        break;
    case C_SCALED:
        gen_btb(r, n, vf_logu(r, -3.0, 0.0), 0, A);
        sym_scale(r, n, 20, A);
        break;
    case C_HILBERT:
        for (unsigned i = 0; i < n; ++i)
        {
            for (unsigned j = 0; j < n; ++j) { A[(size_t)n * i + j] = 1.0 / (double)(i + j + 1); }
        }
        break;
    case C_DIAG:
        memset(A, 0, (size_t)n * n * sizeof(double));
        for (unsigned i = 0; i < n; ++i) { A[(size_t)n * i + i] = vf_logu(r, -10.0, 10.0); }
        expect = EXP_SUCCESS;
        break;
    case C_TRIDIAG:
    {
        double e[NMAX + 1];
        e[0] = 0;
        for (unsigned i = 1; i <= n; ++i) { e[i] = i < n ? vf_uniform(r, -1.0, 1.0) : 0.0; }
        memset(A, 0, (size_t)n * n * sizeof(double));
        for (unsigned i = 0; i < n; ++i)
        {
            A[(size_t)n * i + i] = fabs(e[i]) + fabs(e[i + 1]) + vf_logu(r, -3.0, 0.0);
            if (i + 1 < n) { A[(size_t)n * (i + 1) + i] = A[(size_t)n * i + i + 1] = e[i + 1]; }
        }
        break;
    }
    case C_NEARSING: gen_btb(r, n, vf_logu(r, -13.0, -8.0), 1, A); break;
    case C_X_SPD:
    {
        int e[NMAX];
        unsigned const b = (unsigned)vf_below(r, 3);
        unsigned const m = xs_exps(r, n, 480, e);
        if (b == 2) { xs_wide_sym(r, n, 0, e, A); }
        else
        {
            if (b == 0) { gen_int_ldlt(r, n, 0, NULL, NULL, A); }
            else { gen_btb(r, n, vf_logu(r, -2.0, 0.0), 0, A); xs_clamp(A, (size_t)n * n); }
            xs_apply(n, A, e, e);
        }
        snprintf(note, nlen, "D B D, B %s, exponents %s", b == 2 ? "diagonally dominant with off-diagonals down to the bottom of the normal range" : b == 0 ? "integer L0L0t" : "BtB+dI", xs_mode_name[m]);
        break;
    }
    case C_X_GLOBAL:
        gen_btb(r, n, vf_logu(r, -2.0, 0.0), 0, A);
        xs_clamp(A, (size_t)n * n);
        if (vf_chance(r, 1, 2)) { sym_scale(r, n, 10, A); }
        xs_global(r, n, A, note, nlen);
        break;
    case C_X_DIAG:
        memset(A, 0, (size_t)n * n * sizeof(double));
        for (unsigned i = 0; i < n; ++i) { A[(size_t)n * i + i] = fabs(xs_pow(r)); }
        expect = EXP_SUCCESS; /* every pivot is a positive normal number */
        break;
    case C_F_LEAD:
    {
        gen_btb(r, n, 1.0, 0, A);
        unsigned w = (unsigned)vf_below(r, 3);
        A[0] = w == 0 ? 0.0 : w == 1 ? -0.0 : -vf_logu(r, -6.0, 2.0);
        snprintf(note, nlen, "A[0][0]=%g", A[0]);
        expect = EXP_FAIL;
        break;
    }
    case C_F_LOWERED_LAST:
    case C_F_LOWERED_ANY:
    {
        double *L0 = (double *)malloc((size_t)n * n * sizeof(double));
        gen_int_ldlt(r, n, 0, NULL, L0, A);
        unsigned k = cls == C_F_LOWERED_LAST ? n - 1 : (unsigned)vf_below(r, n);
        static int const lower[] = {0, 0, 0, 1, 2, 5};
        int m = lower[vf_below(r, 6)];
        double lkk = L0[(size_t)n * k + k];
        A[(size_t)n * k + k] -= lkk * lkk + m; /* integer arithmetic: pivot k is exactly -m <= 0 */
        snprintf(note, nlen, "pivot %u lowered to %d", k, -m);
        free(L0);
        expect = EXP_FAIL;
        break;
    }
    case C_F_ZEROMAT:
        for (size_t i = 0; i < (size_t)n * n; ++i) { A[i] = mzero(r); }
        expect = EXP_FAIL;
        break;
    }
    return expect;
}

/* ------------------------------------------------------------------ factorization record */
typedef struct
{
    int fam;
    unsigned cls, n;
    int expect;
    char const *cname;
    double const *A0; /* the input matrix (harness-owned) */
    int ok;           /* library reported success */
    int judged;       /* factors are finite and were judged */
    double *F, *Fref; /* exact-size copy of the factor storage handed to the read-only entry points, and its reference */
    a_uint *p, *pref; /* PLU: permutation (exact-size copy) */
    int sign;
    unsigned rowmap[NMAX]; /* factored row r is row rowmap[r] of A0 */
    ld_t *W;               /* n*n bound matrix |L||U| / |L||D||L^T| / |L||L^T| in factored row order */
    ld_t *E;               /* n*n underflow term of the reconstruction bound (header comment), same order */
    ld_t e1[NMAX], e2[NMAX]; /* underflow terms of the lower / upper sweep, per row */
    int xscale;            /* extreme-scaling class: overflow is counted and skipped */
    int uflow;             /* some product the library formed from the stored factors is non-zero and below DBL_MIN */
    uint64_t sig;          /* pivoting-pattern signature */
} fact_t;

static void fact_free(fact_t *f)
{
    free(f->F);
    free(f->Fref);
    free(f->p);
    free(f->pref);
    free(f->W);
    free(f->E);
    f->F = f->Fref = NULL;
    f->p = f->pref = NULL;
    f->W = f->E = NULL;
}

/* plain LDL^T (no pivoting) on matrices that are not positive definite - random indefinite, Hilbert beyond n ~ 12, rank
   deficient - may legitimately produce huge or overflowing factors after a tiny pivot: non-finite results there are skipped */
static int ldl_wild(fact_t const *f)
{
    return f->fam == FAM_LDL && (f->cls == S_INDEF || f->cls == S_SCALED || f->cls == S_NEARDEP || f->cls == S_TRIDIAG || f->cls == S_HILBERT);
}
/* a non-finite factor / solution is legitimate (overflow): count it, skip the numeric clause.  Returns 0 if it must be flagged. */
static int nonfinite_skip(fact_t const *f, char const *what)
{
    char nm[56];
    if (f->xscale)
    {
        snprintf(nm, sizeof(nm), "%s-xscale-overflow-skipped", fam_name[f->fam]);
        vf_count_dyn(nm, 1);
        snprintf(nm, sizeof(nm), "%s-xscale-skipped-nonfinite-%s", fam_name[f->fam], what);
        vf_count_dyn(nm, 1);
        return 1;
    }
    if (ldl_wild(f))
    {
        snprintf(nm, sizeof(nm), "ldl-skipped-nonfinite-%s", what);
        vf_count_dyn(nm, 1);
        return 1;
    }
    return 0;
}

static void viol2(char const *routine, char const *clause, char const *fmt, ...) __attribute__((format(printf, 3, 4)));
static void viol2(char const *routine, char const *clause, char const *fmt, ...)
{
    char key[128], msg[1200];
    va_list ap;
    va_start(ap, fmt);
    vsnprintf(msg, sizeof(msg), fmt, ap);
    va_end(ap);
    snprintf(key, sizeof(key), "%s/%s", routine, clause);
    vf_viol(key, "%s", msg);
}

/* reconstruction residual against the componentwise bound; fills W; returns the worst ratio to the c=1 bound */
static double reconstruct(fact_t *f, unsigned *wr, unsigned *wc, double *wres, double *wbound)
{
    unsigned const n = f->n;
    double const *F = f->F, *A0 = f->A0;
    unsigned const gk = f->fam == FAM_LLT ? n + 1 : n;
    ld_t const g = gam(gk);
    double worst = 0;
    ld_t dsum[NMAX + 1]; /* LDL: sum_{i<c} (|d_i| + 1) */
    *wr = *wc = 0;
    *wres = *wbound = 0;
    dsum[0] = 0;
    for (unsigned i = 0; i < n; ++i) { dsum[i + 1] = dsum[i] + fabsl((ld_t)F[(size_t)n * i + i]) + 1; }
    /* underflow terms of the sweeps (header comment) */
    for (unsigned r = 0; r < n; ++r)
    {
        ld_t const piv = fabsl((ld_t)F[(size_t)n * r + r]);
        f->e1[r] = ETA_Q * (f->fam == FAM_LLT ? (ld_t)r + piv : (ld_t)r);
        f->e2[r] = ETA_Q * (f->fam == FAM_LDL ? piv * (ld_t)(n - r) : (ld_t)(n - 1 - r) + piv);
    }
    for (unsigned r = 0; r < n; ++r)
    {
        unsigned const cend = f->fam == FAM_PLU ? n : r + 1;
        for (unsigned c = 0; c < cend; ++c)
        {
            q_t s = 0;
            ld_t w = 0, e;
            if (f->fam == FAM_PLU)
            {
                unsigned const kmax = r < c ? r : c;
                for (unsigned k = 0; k <= kmax; ++k)
                {
                    double const l = k == r ? 1.0 : F[(size_t)n * r + k], u = F[(size_t)n * k + c];
                    ld_t const a = fabsl((ld_t)l * u);
                    s += (q_t)l * u;
                    w += a;
                    if (k < kmax && a != 0 && a < (ld_t)DBL_MIN) { f->uflow = 1; }
                }
                e = ETA_Q * ((ld_t)kmax + (r > c ? fabsl((ld_t)F[(size_t)n * c + c]) : 0));
            }
            else if (f->fam == FAM_LDL)
            {
                for (unsigned k = 0; k <= c; ++k)
                {
                    double const lr = k == r ? 1.0 : F[(size_t)n * r + k], lc = k == c ? 1.0 : F[(size_t)n * c + k];
                    double const d = F[(size_t)n * k + k];
                    s += (q_t)lr * d * lc;
                    w += fabsl((ld_t)lr * d * lc);
                    if (k < c)
                    {
                        ld_t const a = fabsl((ld_t)lr * lc), b = a * fabsl((ld_t)d);
                        if ((a != 0 && a < (ld_t)DBL_MIN) || (b != 0 && b < (ld_t)DBL_MIN)) { f->uflow = 1; }
                    }
                }
                e = ETA_Q * (dsum[c] + (r > c ? fabsl((ld_t)F[(size_t)n * c + c]) : 0));
            }
            else
            {
                for (unsigned k = 0; k <= c; ++k)
                {
                    double const lr = F[(size_t)n * r + k], lc = F[(size_t)n * c + k];
                    ld_t const a = fabsl((ld_t)lr * lc);
                    s += (q_t)lr * lc;
                    w += a;
                    if (k < c && a != 0 && a < (ld_t)DBL_MIN) { f->uflow = 1; }
                }
                e = ETA_Q * ((ld_t)c + (r > c ? fabsl((ld_t)F[(size_t)n * c + c]) : 0));
            }
            f->W[(size_t)n * r + c] = w;
            f->E[(size_t)n * r + c] = e;
            if (f->fam != FAM_PLU)
            {
                f->W[(size_t)n * c + r] = w;
                f->E[(size_t)n * c + r] = e;
            }
            q_t const res = (q_t)A0[(size_t)n * f->rowmap[r] + c] - s;
            double const ratio = ratio_of(res, g * w + e);
            if (ratio > worst || !(ratio == ratio))
            {
                worst = ratio;
                *wr = r;
                *wc = c;
                *wres = (double)res;
                *wbound = (double)(CSAFE * (g * w + e));
            }
        }
    }
    return worst;
}

/* underflow term UF_r of the solve / inverse-column residual bound for factored row r and solution x (header comment) */
static ld_t uf_row(fact_t const *f, unsigned r, double const *x)
{
    unsigned const n = f->n;
    ld_t s = f->e1[r];
    for (unsigned c = 0; c < n; ++c) { s += f->E[(size_t)n * r + c] * fabsl((ld_t)x[c]); }
    for (unsigned k = 0; k < r; ++k) { s += fabsl((ld_t)f->F[(size_t)n * r + k]) * f->e2[k]; }
    s += (f->fam == FAM_LLT ? fabsl((ld_t)f->F[(size_t)n * r + r]) : 1) * f->e2[r];
    return s;
}

/* |b - A0 x| against gamma_k * (W |x|) row by row (factored row order) */
static double solve_ratio(fact_t const *f, double const *b, double const *x, unsigned k, unsigned *wrow, double *wres, double *wbound)
{
    unsigned const n = f->n;
    ld_t const g = gam(k);
    double worst = 0;
    *wrow = 0;
    *wres = *wbound = 0;
    for (unsigned r = 0; r < n; ++r)
    {
        unsigned const o = f->rowmap[r];
        q_t s = 0;
        ld_t w = 0;
        for (unsigned c = 0; c < n; ++c)
        {
            s += (q_t)f->A0[(size_t)n * o + c] * x[c];
            w += f->W[(size_t)n * r + c] * fabsl((ld_t)x[c]);
        }
        q_t const res = (q_t)b[o] - s;
        ld_t const bound = g * w + uf_row(f, r, x);
        double const ratio = ratio_of(res, bound);
        if (ratio > worst || !(ratio == ratio))
        {
            worst = ratio;
            *wrow = o;
            *wres = (double)res;
            *wbound = (double)(CSAFE * bound);
        }
    }
    return worst;
}

enum { TK_UNIT_LOWER, TK_LOWER, TK_UPPER, TK_LOWER_T, TK_DLT };
/* one triangular sweep: |rhs - T sol| against gamma_{n+1} |T||sol| */
static double tri_ratio(int kind, unsigned n, double const *F, double const *rhs, double const *sol, unsigned *wrow)
{
    ld_t const g = gam(n + 1);
    double worst = 0;
    *wrow = 0;
    for (unsigned r = 0; r < n; ++r)
    {
        q_t s = 0;
        ld_t w = 0, e;
        ld_t const piv = fabsl((ld_t)F[(size_t)n * r + r]);
        switch (kind)
        {
        case TK_UNIT_LOWER:
            for (unsigned c = 0; c < r; ++c)
            {
                s += (q_t)F[(size_t)n * r + c] * sol[c];
                w += fabsl((ld_t)F[(size_t)n * r + c] * sol[c]);
            }
            s += sol[r];
            w += fabsl((ld_t)sol[r]);
            e = ETA_Q * (ld_t)r;
            break;
        case TK_LOWER:
            for (unsigned c = 0; c <= r; ++c)
            {
                s += (q_t)F[(size_t)n * r + c] * sol[c];
                w += fabsl((ld_t)F[(size_t)n * r + c] * sol[c]);
            }
            e = ETA_Q * ((ld_t)r + piv);
            break;
        case TK_UPPER:
            for (unsigned c = r; c < n; ++c)
            {
                s += (q_t)F[(size_t)n * r + c] * sol[c];
                w += fabsl((ld_t)F[(size_t)n * r + c] * sol[c]);
            }
            e = ETA_Q * ((ld_t)(n - 1 - r) + piv);
            break;
        case TK_LOWER_T:
            for (unsigned c = r; c < n; ++c)
            {
                s += (q_t)F[(size_t)n * c + r] * sol[c];
                w += fabsl((ld_t)F[(size_t)n * c + r] * sol[c]);
            }
            e = ETA_Q * ((ld_t)(n - 1 - r) + piv);
            break;
        default: /* TK_DLT: row r of D L^T */
            s = sol[r];
            w = fabsl((ld_t)sol[r]);
            for (unsigned c = r + 1; c < n; ++c)
            {
                s += (q_t)F[(size_t)n * c + r] * sol[c];
                w += fabsl((ld_t)F[(size_t)n * c + r] * sol[c]);
            }
            s *= F[(size_t)n * r + r];
            w *= piv;
            e = ETA_Q * piv * (ld_t)(n - r);
            break;
        }
        double const ratio = ratio_of((q_t)rhs[r] - s, g * w + e);
        if (ratio > worst || !(ratio == ratio))
        {
            worst = ratio;
            *wrow = r;
        }
    }
    return worst;
}

static void distinct_cell(fact_t const *f)
{
    uint64_t h = vf_hash64(0xC08, (uint64_t)f->fam);
    h = vf_hash64(h, f->n);
    h = vf_hash64(h, f->cls);
    h = vf_hash64(h, (uint64_t)f->ok);
    h = vf_hash64(h, f->sig);
    vf_distinct(h);
}

static void cnt(char const *fam, char const *what);
static void mx(char const *fam, char const *what, double v);
#ifdef VF_FENV_ROTATE
static void fx_count_mode(char const *what);
#endif

/* ------------------------------------------------------------------ factor + shape + reconstruction */
static void factor(fact_t *f, int fam, unsigned cls, unsigned n, int expect, double const *A0)
{
    char rname[24];
    memset(f, 0, sizeof(*f));
    f->fam = fam;
    f->cls = cls;
    f->n = n;
    f->expect = expect;
    f->A0 = A0;
    f->cname = cls_name(fam, cls);
    f->xscale = is_xscale(fam, cls);
    f->sign = 0;
    snprintf(rname, sizeof(rname), "a_real_%s", fam_name[fam]);
    for (unsigned i = 0; i < n; ++i) { f->rowmap[i] = i; }

    gd_t A = gd_new((size_t)n * n);
    gu_t P = gu_new(n);
    int sgn[2 * GUARD + 1];
    for (unsigned i = 0; i < 2 * GUARD + 1; ++i) { sgn[i] = 0x5150000 + (int)i; }
    memcpy(A.v, A0, (size_t)n * n * sizeof(double));
    int rc;
    ++vf.evals;
    if (fam == FAM_PLU)
    {
        vf_log("a_real_plu(n=%u, A, p, &sign)  class=%s", n, f->cname);
        FX_TRAP_ON() rc = a_real_plu(n, A.v, P.v, &sgn[GUARD]); FX_TRAP_OFF()
    }
    else if (fam == FAM_LDL)
    {
        vf_log("a_real_ldl(n=%u, A)  class=%s", n, f->cname);
        FX_TRAP_ON() rc = a_real_ldl(n, A.v); FX_TRAP_OFF()
    }
    else
    {
        vf_log("a_real_llt(n=%u, A)  class=%s", n, f->cname);
        FX_TRAP_ON() rc = a_real_llt(n, A.v); FX_TRAP_OFF()
    }
    f->ok = (rc == 0);
    gd_guard(&A, rname, "A");
    if (fam == FAM_PLU)
    {
        VF_COUNT("guard-cells-intact");
        int bad = !gu_ok(&P);
        for (unsigned i = 0; i < 2 * GUARD + 1; ++i)
        {
            if (i != GUARD && sgn[i] != 0x5150000 + (int)i) { bad = 1; }
        }
        if (bad) { viol2(rname, "wrote-outside-array", "a_real_plu n=%u class=%s: guard next to p[] or sign overwritten", n, f->cname); }
    }

    if (expect == EXP_FAIL)
    {
        VF_COUNT("exact-zero-pivot-reports-failure");
#ifdef VF_FENV_ROTATE
        VF_COUNT("fenv-exact-failure-class-judged");
        fx_count_mode("fenv-exact-failure-judged");
#endif
        if (f->ok)
        {
            viol2(rname, "success-on-exactly-vanishing-pivot", "%s n=%u class=%s returned success (rc=%d) although a pivot is exactly zero / non-positive by construction",
                  rname, n, f->cname, rc);
        }
    }
    else if (expect == EXP_SUCCESS)
    {
        VF_COUNT("exactly-factorable-reports-success");
        if (!f->ok)
        {
            viol2(rname, "failure-on-exactly-factorable-input", "%s n=%u class=%s returned failure (rc=%d) although every pivot is non-zero (positive) by construction",
                  rname, n, f->cname, rc);
        }
    }
    if (!f->ok)
    {
        if (fam == FAM_PLU) { VF_COUNT("plu-failure-reported"); }
        else if (fam == FAM_LDL) { VF_COUNT("ldl-failure-reported"); }
        else { VF_COUNT("llt-failure-reported"); }
        /* a regular but extremely scaled matrix may legitimately lose a pivot to underflow: never required to succeed
           unless exact by construction (EXP_SUCCESS above) */
        if (f->xscale) { cnt(fam_name[fam], "-xscale-failure-reported"); }
        f->sig = 0xFA11;
        distinct_cell(f);
        gd_free(&A);
        free(P.base);
        return;
    }

    /* ---- success: take exact-size copies for the read-only entry points */
    f->F = xd_copy(A.v, (size_t)n * n);
    f->Fref = xd_copy(A.v, (size_t)n * n);
    f->W = (ld_t *)calloc((size_t)n * n, sizeof(ld_t));
    f->E = (ld_t *)calloc((size_t)n * n, sizeof(ld_t));
    gd_free(&A);
    double const *F = f->F;

    if (fam == FAM_PLU)
    {
        f->p = xu_copy(P.v, n);
        f->pref = xu_copy(P.v, n);
        f->sign = sgn[GUARD];
        free(P.base);
        /* p is a permutation of 0..n-1 */
        unsigned char seen[NMAX] = {0};
        int perm_ok = 1;
        VF_COUNT("plu-p-is-permutation");
        for (unsigned i = 0; i < n; ++i)
        {
            if (f->p[i] >= n || seen[f->p[i]]) { perm_ok = 0; break; }
            seen[f->p[i]] = 1;
        }
        if (!perm_ok)
        {
            char buf[400];
            size_t o = 0;
            for (unsigned i = 0; i < n && o + 12 < sizeof(buf); ++i) { o += (size_t)snprintf(buf + o, sizeof(buf) - o, "%u ", f->p[i]); }
            viol2(rname, "p-not-a-permutation", "a_real_plu n=%u class=%s: p = [%s] is not a permutation of 0..n-1", n, f->cname, buf);
            return; /* judged stays 0: nothing below is meaningful */
        }
        /* parity by cycle count */
        int parity = 1;
        memset(seen, 0, sizeof(seen));
        for (unsigned i = 0; i < n; ++i)
        {
            if (seen[i]) { continue; }
            unsigned len = 0;
            for (unsigned j = i; !seen[j]; j = f->p[j]) { seen[j] = 1; ++len; }
            if (!(len & 1)) { parity = -parity; }
        }
        VF_COUNT("plu-sign-equals-parity");
        if (f->sign != parity)
        {
            viol2(rname, "sign-not-parity-of-p", "a_real_plu n=%u class=%s: sign=%d but the parity of p is %d", n, f->cname, f->sign, parity);
        }
        /* replay the exchange sequence from p: at step i the pivot row is original row p[i] */
        unsigned cur[NMAX], nex = 0, last_only = 1;
        uint64_t mask = 0;
        for (unsigned i = 0; i < n; ++i) { cur[i] = i; }
        for (unsigned i = 0; i < n; ++i)
        {
            unsigned j = i;
            while (cur[j] != f->p[i]) { ++j; }
            if (j != i)
            {
                unsigned t = cur[i];
                cur[i] = cur[j];
                cur[j] = t;
                ++nex;
                if (i < 64) { mask |= 1ull << i; }
                if (i + 2 != n) { last_only = 0; }
            }
            f->rowmap[i] = f->p[i];
        }
        if (n >= 2 && nex == n - 1) { VF_COUNT("plu-exchange-at-every-step"); }
        if (n >= 3 && nex == 1 && last_only) { VF_COUNT("plu-exchange-at-last-step-only"); }
        if (nex == 0) { VF_COUNT("plu-no-exchange"); }
        f->sig = n <= 12 ? mask : 0x10000u + nex;
    }
    else
    {
        free(P.base);
    }

    if (!all_finite(F, (size_t)n * n))
    {
        /* plain LDL^T on a random indefinite matrix may legitimately overflow after a tiny pivot; everywhere else
           (|l| <= 1 under partial pivoting, l_rc^2 <= a_rr for SPD, exact integer data) a non-finite factor is wrong */
        if (nonfinite_skip(f, "factor")) { return; }
        viol2(rname, "non-finite-factor", "%s n=%u class=%s: success reported but the factor storage holds inf/nan", rname, n, f->cname);
        return;
    }

    if (fam == FAM_PLU)
    {
        double maxl = 0;
        unsigned mr = 0, mc = 0;
        for (unsigned r = 0; r < n; ++r)
        {
            for (unsigned c = 0; c < r; ++c)
            {
                double a = fabs(F[(size_t)n * r + c]);
                if (a > maxl) { maxl = a; mr = r; mc = c; }
            }
        }
#ifdef VF_FENV_ROTATE
        /* |a| <= |b| gives |fl(a/b)| <= 1 in every mode, but a multiplier formed as a * fl(1/b) can be 1 + 2^-52 when both roundings go away
           from zero (FE_UPWARD / FE_DOWNWARD); it cannot under round-to-nearest ((1 - 2^-53)(1 + 2^-53) < 1, ties to even) and FE_TOWARDZERO */
        if (fegetround() == FE_UPWARD || fegetround() == FE_DOWNWARD) { VF_COUNT("fenv-skipped-inexact-clause"); maxl = 0; }
        else
#endif
        VF_COUNT("plu-multipliers-le-1");
        VF_MAX("plu-max-multiplier", maxl);
        if (maxl > 1.0)
        {
            viol2(rname, "multiplier-exceeds-one", "a_real_plu n=%u class=%s: |l[%u][%u]| = %a > 1 (the pivot was not the column maximum)", n, f->cname, mr, mc, maxl);
        }
        VF_COUNT("plu-pivots-nonzero");
        for (unsigned i = 0; i < n; ++i)
        {
            if (F[(size_t)n * i + i] == 0)
            {
                viol2(rname, "zero-pivot-on-success", "a_real_plu n=%u class=%s: u[%u][%u] = 0 but success reported", n, f->cname, i, i);
                break;
            }
        }
    }
    else if (fam == FAM_LDL)
    {
        uint64_t mask = 0;
        unsigned nneg = 0;
        VF_COUNT("ldl-pivots-nonzero");
        for (unsigned i = 0; i < n; ++i)
        {
            double d = F[(size_t)n * i + i];
            if (d == 0)
            {
                viol2(rname, "zero-pivot-on-success", "a_real_ldl n=%u class=%s: d[%u] = 0 but success reported", n, f->cname, i);
                break;
            }
            if (d < 0)
            {
                ++nneg;
                if (i < 64) { mask |= 1ull << i; }
            }
        }
        f->sig = n <= 12 ? mask : 0x10000u + nneg;
        if (nneg && nneg < n) { VF_COUNT("ldl-mixed-sign-pivots"); }
    }
    else
    {
        VF_COUNT("llt-diagonal-positive");
        for (unsigned i = 0; i < n; ++i)
        {
            if (!(F[(size_t)n * i + i] > 0))
            {
                viol2(rname, "non-positive-diagonal", "a_real_llt n=%u class=%s: l[%u][%u] = %a is not > 0 although success was reported", n, f->cname, i, i,
                      F[(size_t)n * i + i]);
                break;
            }
        }
        f->sig = 0;
    }

#ifdef VF_FENV_ROTATE
    /* the componentwise reconstruction bound is a rounding-error bound stated for u = 2^-53 and its residual is formed in __float128, whose
       software arithmetic follows the caller's rounding mode as well: not judged under a rotated mode (exact classes: see fx_exact_factors) */
    VF_COUNT("fenv-skipped-inexact-clause");
#else
    unsigned wr, wc;
    double wres, wbound;
    double const ratio = reconstruct(f, &wr, &wc, &wres, &wbound);
    if (fam == FAM_PLU)
    {
        VF_COUNT("plu-reconstruction-bound");
        VF_MAX("plu-reconstruction-ratio", ratio);
    }
    else if (fam == FAM_LDL)
    {
        VF_COUNT("ldl-reconstruction-bound");
        VF_MAX("ldl-reconstruction-ratio", ratio);
    }
    else
    {
        VF_COUNT("llt-reconstruction-bound");
        VF_MAX("llt-reconstruction-ratio", ratio);
    }
    if (f->xscale)
    {
        cnt(fam_name[fam], "-xscale-reconstruction-bound");
        mx(fam_name[fam], "-xscale-reconstruction-ratio", ratio);
        if (f->uflow) { cnt(fam_name[fam], "-xscale-product-underflow-observed"); }
        if (fam == FAM_PLU && cls != G_X_EXACT)
        {
            /* witness that the multipliers themselves reached the underflow range (0 included: on the dense bases a stored
               zero multiplier is a quotient that underflowed completely) */
            for (unsigned i = 0; i < n * n; ++i)
            {
                if (i % n < i / n && fabs(F[i]) < DBL_MIN) { VF_COUNT("plu-xscale-multiplier-below-DBL_MIN"); break; }
            }
        }
        if (fam == FAM_PLU && cls == G_X_BLOCK && n > 1) { VF_COUNT("plu-xscale-multipliers-flush-to-zero-by-construction"); }
    }
    if (!(ratio <= CSAFE))
    {
        viol2(rname, "reconstruction-outside-componentwise-bound",
              "%s n=%u class=%s: entry (%u,%u) of %s: residual %.6e, bound c*(gamma*W + underflow term) = %.6e (ratio to c=1 bound %.4g)", rname, n, f->cname, wr, wc,
              fam == FAM_PLU ? "PA-LU" : fam == FAM_LDL ? "A-LDL^T" : "A-LL^T", wres, wbound, ratio);
    }
#endif /* VF_FENV_ROTATE */
    f->judged = 1;
    distinct_cell(f);
}

/* ------------------------------------------------------------------ derived routines */
static void cnt(char const *fam, char const *what)
{
    char nm[56];
    snprintf(nm, sizeof(nm), "%s%s", fam, what);
    vf_count_dyn(nm, 1);
}
static void mx(char const *fam, char const *what, double v)
{
    char nm[56];
    snprintf(nm, sizeof(nm), "%s%s", fam, what);
    if (!(v == v) || v > 1e300) { v = 1e300; }
    vf_max_dyn(nm, v, NULL);
}

static void call_lower(int fam, unsigned n, double const *F, double *y, int strided)
{
    if (fam == FAM_PLU) { strided ? a_real_plu_lower_(n, F, y) : a_real_plu_lower(n, F, y); }
    else if (fam == FAM_LDL) { strided ? a_real_ldl_lower_(n, F, y) : a_real_ldl_lower(n, F, y); }
    else { strided ? a_real_llt_lower_(n, F, y) : a_real_llt_lower(n, F, y); }
}
static void call_upper(int fam, unsigned n, double const *F, double *x, int strided)
{
    if (fam == FAM_PLU) { strided ? a_real_plu_upper_(n, F, x) : a_real_plu_upper(n, F, x); }
    else if (fam == FAM_LDL) { strided ? a_real_ldl_upper_(n, F, x) : a_real_ldl_upper(n, F, x); }
    else { strided ? a_real_llt_upper_(n, F, x) : a_real_llt_upper(n, F, x); }
}
static int const tk_lower[] = {TK_UNIT_LOWER, TK_UNIT_LOWER, TK_LOWER};
static int const tk_upper[] = {TK_UPPER, TK_DLT, TK_LOWER_T};

static void inputs_intact(fact_t const *f, char const *routine)
{
    const_intact(routine, "A (factor storage)", f->F, f->Fref, (size_t)f->n * f->n * sizeof(double));
    if (f->fam == FAM_PLU) { const_intact(routine, "p", f->p, f->pref, f->n * sizeof(a_uint)); }
}

/* residual of one inverse: every column j against e_j; returns worst ratio */
static double inverse_ratio(fact_t const *f, double const *X, unsigned k, unsigned *wcol, unsigned *wrow, double *wres, double *wbound)
{
    unsigned const n = f->n;
    double col[NMAX], e[NMAX];
    double worst = 0;
    *wcol = *wrow = 0;
    *wres = *wbound = 0;
    for (unsigned j = 0; j < n; ++j)
    {
        unsigned row;
        double res, bound;
        for (unsigned i = 0; i < n; ++i)
        {
            col[i] = X[(size_t)n * i + j];
            e[i] = (i == j);
        }
        double const ratio = solve_ratio(f, e, col, k, &row, &res, &bound);
        if (ratio > worst || !(ratio == ratio))
        {
            worst = ratio;
            *wcol = j;
            *wrow = row;
            *wres = res;
            *wbound = bound;
        }
    }
    return worst;
}

static void check_solves(fact_t *f, vf_rng *r, int rhs_kind)
{
    unsigned const n = f->n;
    int const fam = f->fam;
    char const *fn = fam_name[fam];
    char rn[40];
    double b[NMAX], rhs[NMAX], mid[NMAX];
    unsigned wrow;
    double wres, wbound;
    unsigned const ksolve = fam == FAM_PLU ? 3 * n : 3 * n + 1;

    for (unsigned i = 0; i < n; ++i) { b[i] = rhs_kind ? (double)vf_range(r, -9, 9) : vf_uniform(r, -1.0, 1.0); }
    if (f->xscale)
    {
        /* extreme classes: the right-hand side is badly scaled as well (half of the time) */
        unsigned const m = (unsigned)vf_below(r, 6);
        int const h = (int)vf_range(r, -1000, 1000);
        for (unsigned i = 0; i < n && m >= 3; ++i)
        {
            b[i] = ldexp(b[i], m == 3 ? h : m == 4 ? (int)vf_range(r, -1000, 1000) : (int)vf_range(r, -300, 300));
        }
    }
    log_matrix("b", b, 1, n);
    double *bx = xd_copy(b, n);

    /* ---- apply (PLU) */
    memcpy(rhs, b, n * sizeof(double));
    if (fam == FAM_PLU)
    {
        gd_t Pb = gd_new(n);
        vf_log("a_real_plu_apply(n, p, b, Pb)");
        ++vf.evals;
        a_real_plu_apply(n, f->p, bx, Pb.v);
        gd_guard(&Pb, "a_real_plu_apply", "Pb");
        const_intact("a_real_plu_apply", "b", bx, b, n * sizeof(double));
        const_intact("a_real_plu_apply", "p", f->p, f->pref, n * sizeof(a_uint));
        VF_COUNT("plu_apply-equals-b[p[i]]");
        for (unsigned i = 0; i < n; ++i)
        {
            if (memcmp(&Pb.v[i], &b[f->p[i]], sizeof(double)) != 0)
            {
                viol2("a_real_plu_apply", "not-b-permuted-by-p", "n=%u class=%s: Pb[%u]=%a but b[p[%u]=%u]=%a", n, f->cname, i, Pb.v[i], i, f->p[i], b[f->p[i]]);
                break;
            }
        }
        for (unsigned i = 0; i < n; ++i) { rhs[i] = b[f->p[i]]; } /* continue with the defined value */
        gd_free(&Pb);
    }

    /* ---- lower, then upper, in place */
    gd_t y = gd_new(n);
    memcpy(y.v, rhs, n * sizeof(double));
    snprintf(rn, sizeof(rn), "a_real_%s_lower", fn);
    vf_log("%s(n, A, y)", rn);
    ++vf.evals;
    call_lower(fam, n, f->F, y.v, 0);
    gd_guard(&y, rn, "y");
    inputs_intact(f, rn);
    int finite = all_finite(y.v, n);
    if (!finite && nonfinite_skip(f, "solution")) {}
    else
    {
        double ratio = tri_ratio(tk_lower[fam], n, f->F, rhs, y.v, &wrow);
        cnt(fn, "_lower-residual-bound");
        mx(fn, "_lower-residual-ratio", ratio);
        if (f->xscale) { mx(fn, "-xscale-sweep-residual-ratio", ratio); }
        if (!(ratio <= CSAFE))
        {
            viol2(rn, "residual-outside-bound", "%s n=%u class=%s: row %u of b - L y is %.4g times the gamma_{n+1}|L||y| bound (c=%g allowed)", rn, n, f->cname, wrow, ratio, CSAFE);
        }
    }
    memcpy(mid, y.v, n * sizeof(double));
    if (finite)
    {
        snprintf(rn, sizeof(rn), "a_real_%s_upper", fn);
        vf_log("%s(n, A, x)", rn);
        ++vf.evals;
        call_upper(fam, n, f->F, y.v, 0);
        gd_guard(&y, rn, "x");
        inputs_intact(f, rn);
        if (!all_finite(y.v, n) && nonfinite_skip(f, "solution")) {}
        else
        {
            double ratio = tri_ratio(tk_upper[fam], n, f->F, mid, y.v, &wrow);
            cnt(fn, "_upper-residual-bound");
            mx(fn, "_upper-residual-ratio", ratio);
            if (f->xscale) { mx(fn, "-xscale-sweep-residual-ratio", ratio); }
            if (!(ratio <= CSAFE))
            {
                viol2(rn, "residual-outside-bound", "%s n=%u class=%s: row %u of y - U x is %.4g times the gamma_{n+1}|U||x| bound (c=%g allowed)", rn, n, f->cname, wrow, ratio, CSAFE);
            }
        }
    }

    /* ---- solve */
    gd_t x = gd_new(n);
    snprintf(rn, sizeof(rn), "a_real_%s_solve", fn);
    vf_log("%s(n, A, ..)", rn);
    ++vf.evals;
    if (fam == FAM_PLU)
    {
        a_real_plu_solve(n, f->F, f->p, bx, x.v);
        const_intact(rn, "b", bx, b, n * sizeof(double));
    }
    else
    {
        memcpy(x.v, b, n * sizeof(double));
        if (fam == FAM_LDL) { a_real_ldl_solve(n, f->F, x.v); }
        else { a_real_llt_solve(n, f->F, x.v); }
    }
    gd_guard(&x, rn, "x");
    inputs_intact(f, rn);
    if (!all_finite(x.v, n) && nonfinite_skip(f, "solution")) {}
    else
    {
        double ratio = solve_ratio(f, b, x.v, ksolve, &wrow, &wres, &wbound);
        cnt(fn, "_solve-residual-bound");
        mx(fn, "_solve-residual-ratio", ratio);
        if (f->xscale)
        {
            cnt(fn, "-xscale-solve-residual-bound");
            mx(fn, "-xscale-solve-residual-ratio", ratio);
        }
        if (!(ratio <= CSAFE))
        {
            viol2(rn, "residual-outside-bound", "%s n=%u class=%s: row %u of b - A x = %.6e, bound c*gamma_3n*(W|x|) = %.6e (ratio to c=1 bound %.4g)", rn, n, f->cname, wrow,
                  wres, wbound, ratio);
        }
        if (finite && memcmp(x.v, y.v, n * sizeof(double)) == 0) { cnt(fn, "_solve-bitwise-equals-lower-upper-chain"); }
        if (vf_want_sample() && n >= 3 && n <= 5 && vf.case_no % 7 == 3)
        {
            vf_sample("%s n=%u class=%s b[0..2]=(%g,%g,%g) x[0..2]=(%.17g,%.17g,%.17g): max_i |b-Ax|_i / (gamma_3n (W|x|)_i) = %.3g, W = |L||U| resp. |L||D||L^T|, |L||L^T| (allowed %g)", rn, n, f->cname, b[0], b[1], b[2],
                      x.v[0], x.v[1], x.v[2], ratio, CSAFE);
        }
    }
    gd_free(&x);

    /* ---- strided sweeps on column j of an n x n block: only that column may change */
    {
        unsigned const j = (unsigned)vf_below(r, n);
        gd_t M = gd_new((size_t)n * n);
        double colv[NMAX];
        for (size_t i = 0; i < (size_t)n * n; ++i) { M.v[i] = 1000.0 + (double)i; }
        for (unsigned i = 0; i < n; ++i) { M.v[(size_t)n * i + j] = rhs[i]; }
        for (int pass = 0; pass < 2; ++pass)
        {
            snprintf(rn, sizeof(rn), "a_real_%s_%s_", fn, pass ? "upper" : "lower");
            vf_log("%s(n, A, M + %u)  (column %u of an n x n block)", rn, j, j);
            ++vf.evals;
            if (pass) { call_upper(fam, n, f->F, M.v + j, 1); }
            else { call_lower(fam, n, f->F, M.v + j, 1); }
            gd_guard(&M, rn, "strided column");
            inputs_intact(f, rn);
            cnt(fn, pass ? "_upper_-other-columns-untouched" : "_lower_-other-columns-untouched");
            for (size_t i = 0; i < (size_t)n * n; ++i)
            {
                if (i % n != j && M.v[i] != 1000.0 + (double)i)
                {
                    viol2(rn, "wrote-outside-its-column", "%s n=%u class=%s column %u: cell (%zu,%zu) of the block changed", rn, n, f->cname, j, i / n, i % n);
                    M.v[i] = 1000.0 + (double)i;
                    break;
                }
            }
            for (unsigned i = 0; i < n; ++i) { colv[i] = M.v[(size_t)n * i + j]; }
            if (!all_finite(colv, n))
            {
                if (nonfinite_skip(f, "solution")) { break; }
            }
            double ratio = tri_ratio(pass ? tk_upper[fam] : tk_lower[fam], n, f->F, pass ? mid : rhs, colv, &wrow);
            cnt(fn, pass ? "_upper_-residual-bound" : "_lower_-residual-bound");
            mx(fn, pass ? "_upper_-residual-ratio" : "_lower_-residual-ratio", ratio);
            if (f->xscale) { mx(fn, "-xscale-sweep-residual-ratio", ratio); }
            if (!(ratio <= CSAFE))
            {
                viol2(rn, "residual-outside-bound", "%s n=%u class=%s column %u: row %u residual is %.4g times the gamma_{n+1}|T||x| bound (c=%g allowed)", rn, n, f->cname, j, wrow, ratio,
                      CSAFE);
            }
            if (!pass) { memcpy(mid, colv, n * sizeof(double)); }
        }
        gd_free(&M);
    }
    gd_free(&y);
    free(bx);
}

static void check_inverse(fact_t *f)
{
    unsigned const n = f->n;
    int const fam = f->fam;
    char const *fn = fam_name[fam];
    char rn[40];
    unsigned const k = fam == FAM_PLU ? 3 * n : 3 * n + 1;
    unsigned wc, wr;
    double wres, wbound;
    gd_t scratch = gd_new(n), X = gd_new((size_t)n * n), X2 = gd_new((size_t)n * n);

    snprintf(rn, sizeof(rn), "a_real_%s_inv", fn);
    vf_log("%s(n, A, .., b, I)", rn);
    ++vf.evals;
    if (fam == FAM_PLU) { a_real_plu_inv(n, f->F, f->p, scratch.v, X.v); }
    else if (fam == FAM_LDL) { a_real_ldl_inv(n, f->F, scratch.v, X.v); }
    else { a_real_llt_inv(n, f->F, scratch.v, X.v); }
    gd_guard(&scratch, rn, "scratch b");
    gd_guard(&X, rn, "I");
    inputs_intact(f, rn);
    int fin1 = all_finite(X.v, (size_t)n * n);
    double ratio1 = 0;
    if (!fin1 && nonfinite_skip(f, "solution")) {}
    else
    {
        ratio1 = inverse_ratio(f, X.v, k, &wc, &wr, &wres, &wbound);
        cnt(fn, "_inv-column-residual-bound");
        mx(fn, "_inv-column-residual-ratio", ratio1);
        if (f->xscale)
        {
            cnt(fn, "-xscale-inv-column-residual-bound");
            mx(fn, "-xscale-inv-column-residual-ratio", ratio1);
        }
        if (!(ratio1 <= CSAFE))
        {
            viol2(rn, "column-residual-outside-bound", "%s n=%u class=%s: column %u, row %u of e_j - A X[:,j] = %.6e, bound %.6e (ratio to c=1 bound %.4g)", rn, n, f->cname, wc, wr,
                  wres, wbound, ratio1);
        }
    }

    snprintf(rn, sizeof(rn), "a_real_%s_inv_", fn);
    vf_log("%s(n, A, .., I)  (strided, in place)", rn);
    ++vf.evals;
    if (fam == FAM_PLU) { a_real_plu_inv_(n, f->F, f->p, X2.v); }
    else if (fam == FAM_LDL) { a_real_ldl_inv_(n, f->F, X2.v); }
    else { a_real_llt_inv_(n, f->F, X2.v); }
    gd_guard(&X2, rn, "I");
    inputs_intact(f, rn);
    int fin2 = all_finite(X2.v, (size_t)n * n);
    if (!fin2 && nonfinite_skip(f, "solution")) {}
    else
    {
        int same = fin1 && memcmp(X.v, X2.v, (size_t)n * n * sizeof(double)) == 0;
        double ratio2 = same ? ratio1 : inverse_ratio(f, X2.v, k, &wc, &wr, &wres, &wbound);
        cnt(fn, "_inv_-column-residual-bound");
        mx(fn, "_inv_-column-residual-ratio", ratio2);
        if (f->xscale) { mx(fn, "-xscale-inv-column-residual-ratio", ratio2); }
        if (!(ratio2 <= CSAFE))
        {
            viol2(rn, "column-residual-outside-bound", "%s n=%u class=%s: column %u, row %u of e_j - A X[:,j] = %.6e, bound %.6e (ratio to c=1 bound %.4g)", rn, n, f->cname, wc, wr,
                  wres, wbound, ratio2);
        }
        if (fin1)
        {
            /* agreement of the two variants: |A (X - X_)| <= c gamma (W (|X| + |X_|)) column by column */
            cnt(fn, "_inv-vs-inv_-agreement");
            if (same) { cnt(fn, "_inv_-bitwise-equals-inv"); mx(fn, "_inv-vs-inv_-ratio", 0.0); }
            else
            {
                ld_t const g = gam(k);
                double worst = 0;
                unsigned bc = 0, br = 0;
                for (unsigned j = 0; j < n; ++j)
                {
                    double ca[NMAX], cb[NMAX];
                    for (unsigned c = 0; c < n; ++c)
                    {
                        ca[c] = X.v[(size_t)n * c + j];
                        cb[c] = X2.v[(size_t)n * c + j];
                    }
                    for (unsigned rr = 0; rr < n; ++rr)
                    {
                        unsigned const o = f->rowmap[rr];
                        q_t s = 0;
                        ld_t w = 0;
                        for (unsigned c = 0; c < n; ++c)
                        {
                            double const a = ca[c], b2 = cb[c];
                            s += (q_t)f->A0[(size_t)n * o + c] * ((q_t)a - b2);
                            w += f->W[(size_t)n * rr + c] * (fabsl((ld_t)a) + fabsl((ld_t)b2));
                        }
                        /* both residuals carry their own underflow term */
                        double const ra = ratio_of(s, g * w + uf_row(f, rr, ca) + uf_row(f, rr, cb));
                        if (ra > worst || !(ra == ra)) { worst = ra; bc = j; br = o; }
                    }
                }
                mx(fn, "_inv-vs-inv_-ratio", worst);
                if (!(worst <= CSAFE))
                {
                    viol2(rn, "disagrees-with-inv", "a_real_%s_inv and %s n=%u class=%s differ in column %u (row %u of A(X-X_)) by %.4g times the residual bound", fn, rn, n, f->cname, bc,
                          br, worst);
                }
            }
        }
    }
    gd_free(&scratch);
    gd_free(&X);
    gd_free(&X2);
}

/* ------------------------------------------------------------------ extraction routines reproduce the stored factors */
static void expect_matrix(char const *rn, fact_t const *f, gd_t const *got, int kind)
{
    /* kind: 0 unit lower of F, 1 upper of F, 2 lower of F incl. diagonal, 3 P (P[r][c] = c==p[r]), 4 P_ (P_[r][c] = p[c]==r) */
    unsigned const n = f->n;
    for (unsigned r = 0; r < n; ++r)
    {
        for (unsigned c = 0; c < n; ++c)
        {
            double e;
            double const v = f->Fref[(size_t)n * r + c];
            switch (kind)
            {
            case 0: e = c < r ? v : c == r ? 1.0 : 0.0; break;
            case 1: e = c >= r ? v : 0.0; break;
            case 2: e = c <= r ? v : 0.0; break;
            case 3: e = (c == f->pref[r]) ? 1.0 : 0.0; break;
            default: e = (f->pref[c] == r) ? 1.0 : 0.0; break;
            }
            double const g = got->v[(size_t)n * r + c];
            /* bitwise for stored entries; the structural zeros may be +0 or -0 */
            if (!(g == e) || (e != 0 && memcmp(&g, &e, sizeof(double)) != 0))
            {
                viol2(rn, "does-not-reproduce-stored-factor", "%s n=%u class=%s: entry (%u,%u) = %a, expected %a", rn, n, f->cname, r, c, g, e);
                return;
            }
        }
    }
}

static void check_extract(fact_t *f)
{
    unsigned const n = f->n;
    gd_t M = gd_new((size_t)n * n);
    if (f->fam == FAM_PLU)
    {
        vf_log("a_real_plu_P(n, p, P)");
        ++vf.evals;
        a_real_plu_P(n, f->p, M.v);
        gd_guard(&M, "a_real_plu_P", "P");
        inputs_intact(f, "a_real_plu_P");
        VF_COUNT("plu_P-is-permutation-matrix-of-p");
        expect_matrix("a_real_plu_P", f, &M, 3);
        /* P A0 must be the factored row order: row r of P*A0 is row p[r] of A0 (exact, P is 0/1) */
        gd_fill(&M);
        vf_log("a_real_plu_P_(n, p, P)");
        ++vf.evals;
        a_real_plu_P_(n, f->p, M.v);
        gd_guard(&M, "a_real_plu_P_", "P");
        inputs_intact(f, "a_real_plu_P_");
        VF_COUNT("plu_P_-is-transpose-of-P");
        expect_matrix("a_real_plu_P_", f, &M, 4);
        gd_fill(&M);
        vf_log("a_real_plu_L(n, A, L)");
        ++vf.evals;
        a_real_plu_L(n, f->F, M.v);
        gd_guard(&M, "a_real_plu_L", "L");
        inputs_intact(f, "a_real_plu_L");
        VF_COUNT("plu_L-reproduces-unit-lower");
        expect_matrix("a_real_plu_L", f, &M, 0);
        gd_fill(&M);
        vf_log("a_real_plu_U(n, A, U)");
        ++vf.evals;
        a_real_plu_U(n, f->F, M.v);
        gd_guard(&M, "a_real_plu_U", "U");
        inputs_intact(f, "a_real_plu_U");
        VF_COUNT("plu_U-reproduces-upper");
        expect_matrix("a_real_plu_U", f, &M, 1);
    }
    else if (f->fam == FAM_LDL)
    {
        vf_log("a_real_ldl_L(n, A, L)");
        ++vf.evals;
        a_real_ldl_L(n, f->F, M.v);
        gd_guard(&M, "a_real_ldl_L", "L");
        inputs_intact(f, "a_real_ldl_L");
        VF_COUNT("ldl_L-reproduces-unit-lower");
        expect_matrix("a_real_ldl_L", f, &M, 0);
        gd_t d = gd_new(n);
        vf_log("a_real_ldl_D(n, A, d)");
        ++vf.evals;
        a_real_ldl_D(n, f->F, d.v);
        gd_guard(&d, "a_real_ldl_D", "d");
        inputs_intact(f, "a_real_ldl_D");
        VF_COUNT("ldl_D-reproduces-diagonal");
        for (unsigned i = 0; i < n; ++i)
        {
            if (memcmp(&d.v[i], &f->Fref[(size_t)n * i + i], sizeof(double)) != 0)
            {
                viol2("a_real_ldl_D", "does-not-reproduce-stored-factor", "a_real_ldl_D n=%u class=%s: d[%u] = %a, stored %a", n, f->cname, i, d.v[i], f->Fref[(size_t)n * i + i]);
                break;
            }
        }
        gd_free(&d);
    }
    else
    {
        vf_log("a_real_llt_L(n, A, L)");
        ++vf.evals;
        a_real_llt_L(n, f->F, M.v);
        gd_guard(&M, "a_real_llt_L", "L");
        inputs_intact(f, "a_real_llt_L");
        VF_COUNT("llt_L-reproduces-lower");
        expect_matrix("a_real_llt_L", f, &M, 2);
    }
    gd_free(&M);
}

/* ------------------------------------------------------------------ det / lndet / sgndet against the stored pivots */
typedef struct { int in_range; double det; int have_det; } det_t;

static det_t check_det(fact_t *f)
{
    unsigned const n = f->n;
    int const fam = f->fam;
    char const *fn = fam_name[fam];
    char rn[40];
    det_t out = {0, 0.0, 0};
    q_t prod = fam == FAM_PLU ? (q_t)f->sign : 1;
    q_t lsum = 0, labs = 0;
    int esign = fam == FAM_PLU ? f->sign : 1;
    int in_range = 1;
    for (unsigned i = 0; i < n; ++i)
    {
        double const pv = f->F[(size_t)n * i + i];
        prod *= pv;
        if (pv < 0) { esign = -esign; }
        q_t const l = logq(fabsq((q_t)pv));
        lsum += l;
        labs += fabsq(l);
        q_t const ap = fabsq(prod);
        /* the bound assumes no overflow/underflow in the running product (squared at the end for LLT) */
        if (!(ap < 0x1p440Q && ap > 0x1p-440Q)) { in_range = 0; }
    }
    if (fam == FAM_LLT) { prod *= prod; lsum *= 2; labs *= 2; }
    ld_t const g = gam(n + 2);
    /* a_real_llt_det squares the product of the n diagonal entries: 2n-1 roundings, not n-1 (observed 1.001*gamma_{n+2}) */
    unsigned const kdet = fam == FAM_LLT ? 2 * n + 2 : n + 2;
    ld_t const gdet = gam(kdet);

    double det, lndet;
    int sgn = 0;
    snprintf(rn, sizeof(rn), "a_real_%s_det", fn);
    vf_log("%s(n, A%s)", rn, fam == FAM_PLU ? ", sign" : "");
    ++vf.evals;
    det = fam == FAM_PLU ? a_real_plu_det(n, f->F, f->sign) : fam == FAM_LDL ? a_real_ldl_det(n, f->F) : a_real_llt_det(n, f->F);
    inputs_intact(f, rn);
    if (in_range)
    {
        double ratio = ratio_of((q_t)det - prod, gdet * (ld_t)fabsq(prod));
        cnt(fn, "_det-equals-product-of-pivots");
        mx(fn, "_det-ratio", ratio);
        if (!(ratio <= CSAFE))
        {
            viol2(rn, "not-product-of-pivots", "%s n=%u class=%s: returned %.17g, sign * product of the stored pivots = %.17g (ratio to gamma_%u bound %.4g)", rn, n, f->cname, det,
                  (double)prod, kdet, ratio);
        }
        out.in_range = 1;
        out.det = det;
        out.have_det = 1;
    }
    else { cnt(fn, "_det-skipped-product-out-of-range"); }

    snprintf(rn, sizeof(rn), "a_real_%s_lndet", fn);
    vf_log("%s(n, A)", rn);
    ++vf.evals;
    lndet = fam == FAM_PLU ? a_real_plu_lndet(n, f->F) : fam == FAM_LDL ? a_real_ldl_lndet(n, f->F) : a_real_llt_lndet(n, f->F);
    inputs_intact(f, rn);
    {
        double ratio = ratio_of((q_t)lndet - lsum, g * (ld_t)labs);
        cnt(fn, "_lndet-equals-sum-log-pivots");
        mx(fn, "_lndet-ratio", ratio);
        if (!(ratio <= CSAFE))
        {
            viol2(rn, "not-sum-of-log-pivots", "%s n=%u class=%s: returned %.17g, sum log|pivot| = %.17g (ratio to gamma_{n+2} sum|log| bound %.4g)", rn, n, f->cname, lndet,
                  (double)lsum, ratio);
        }
        if (in_range && det != 0 && isfinite(det))
        {
            /* the two agree with one another: log|det| vs lndet, both within their bounds of the same pivots */
            q_t const d = fabsq(logq(fabsq((q_t)det)) - (q_t)lndet);
            q_t const tol = (q_t)(CSAFE * gdet) * (labs + 2);
            cnt(fn, "_lndet-agrees-with-log-abs-det");
            if (!(d <= tol))
            {
                viol2(rn, "disagrees-with-det", "%s n=%u class=%s: lndet = %.17g but log|det| = %.17g", rn, n, f->cname, lndet, (double)logq(fabsq((q_t)det)));
            }
        }
    }
    if (fam != FAM_LLT)
    {
        snprintf(rn, sizeof(rn), "a_real_%s_sgndet", fn);
        vf_log("%s(n, A%s)", rn, fam == FAM_PLU ? ", sign" : "");
        ++vf.evals;
        sgn = fam == FAM_PLU ? a_real_plu_sgndet(n, f->F, f->sign) : a_real_ldl_sgndet(n, f->F);
        inputs_intact(f, rn);
        cnt(fn, "_sgndet-equals-sign-of-pivot-product");
        if (sgn != esign)
        {
            viol2(rn, "not-sign-of-pivot-product", "%s n=%u class=%s: returned %d, sign * prod sign(pivot) = %d", rn, n, f->cname, sgn, esign);
        }
        {
            /* documented range is -1, 0, +1: a stored pivot of (+-)0 makes the determinant, hence its sign, zero */
            double *Z = xd_copy(f->F, (size_t)n * n);
            unsigned const k = (unsigned)(vf.case_no % n);
            Z[(size_t)n * k + k] = (vf.case_no & 8) ? -0.0 : 0.0;
            vf_log("%s(n, A with pivot %u := 0)", rn, k);
            ++vf.evals;
            int const z = fam == FAM_PLU ? a_real_plu_sgndet(n, Z, f->sign) : a_real_ldl_sgndet(n, Z);
            cnt(fn, "_sgndet-zero-pivot-gives-0");
            if (z != 0) { viol2(rn, "nonzero-for-zero-pivot", "%s n=%u: pivot %u set to zero but %d returned", rn, n, k, z); }
            free(Z);
        }
        if (in_range && det != 0 && isfinite(det))
        {
            cnt(fn, "_sgndet-agrees-with-det");
            if ((det > 0 ? 1 : -1) != sgn)
            {
                viol2(rn, "disagrees-with-det", "%s n=%u class=%s: sgndet = %d but det = %.17g", rn, n, f->cname, sgn, det);
            }
        }
    }
    else if (in_range)
    {
        cnt(fn, "_det-positive");
        if (!(det > 0)) { viol2("a_real_llt_det", "not-positive", "a_real_llt_det n=%u class=%s returned %.17g", n, f->cname, det); }
    }
    return out;
}

/* ------------------------------------------------------------------ SPD inputs: the three methods' determinants agree
 * Reference: det and inverse of A0 by Gauss-Jordan with partial pivoting in __float128 (kappa "measured in quad").
 * For a method with verified backward error |dA| <= c gamma_k Worig (the reconstruction bound above) and a pivot product
 * accurate to c gamma_{n+2}:  |det_m/det(A0) - 1| <= exp(c gamma_k tau) - 1 + c gamma_{n+2} (1 + ..),
 * tau = sum_ij (|A0^-1| Worig)_ij   (|det(I+E)-1| <= prod_i(1+sum_j|E_ij|) - 1).  Judged only while c gamma_k tau < 0.01. */
typedef struct { int ok; q_t det; ld_t *absinv; } qref_t;

static qref_t quad_reference(unsigned n, double const *A0)
{
    qref_t R = {0, 0, NULL};
    size_t const w = 2 * (size_t)n;
    q_t *M = (q_t *)malloc((size_t)n * w * sizeof(q_t));
    q_t det = 1;
    for (unsigned i = 0; i < n; ++i)
    {
        for (unsigned j = 0; j < n; ++j)
        {
            M[w * i + j] = A0[(size_t)n * i + j];
            M[w * i + n + j] = (i == j);
        }
    }
    for (unsigned i = 0; i < n; ++i)
    {
        unsigned pr = i;
        for (unsigned r = i + 1; r < n; ++r)
        {
            if (fabsq(M[w * r + i]) > fabsq(M[w * pr + i])) { pr = r; }
        }
        if (M[w * pr + i] == 0) { free(M); return R; }
        if (pr != i)
        {
            for (size_t j = 0; j < w; ++j)
            {
                q_t t = M[w * i + j];
                M[w * i + j] = M[w * pr + j];
                M[w * pr + j] = t;
            }
            det = -det;
        }
        q_t const pv = M[w * i + i];
        det *= pv;
        for (size_t j = 0; j < w; ++j) { M[w * i + j] /= pv; }
        for (unsigned r = 0; r < n; ++r)
        {
            if (r == i) { continue; }
            q_t const x = M[w * r + i];
            if (x == 0) { continue; }
            for (size_t j = i; j < w; ++j) { M[w * r + j] -= x * M[w * i + j]; }
        }
    }
    R.absinv = (ld_t *)malloc((size_t)n * n * sizeof(ld_t));
    for (unsigned i = 0; i < n; ++i)
    {
        for (unsigned j = 0; j < n; ++j) { R.absinv[(size_t)n * i + j] = (ld_t)fabsq(M[w * i + n + j]); }
    }
    R.det = det;
    R.ok = 1;
    free(M);
    return R;
}

static ld_t det_tolerance(fact_t const *f, qref_t const *R)
{
    unsigned const n = f->n;
    ld_t tau = 0;
    for (unsigned i = 0; i < n; ++i)
    {
        for (unsigned rr = 0; rr < n; ++rr) /* factored row rr is original row o: (|Ainv| Worig)[i][c] = sum_o |Ainv|[i][o] W[rr][c] */
        {
            ld_t const a = R->absinv[(size_t)n * i + f->rowmap[rr]];
            ld_t s = 0;
            for (unsigned c = 0; c < n; ++c) { s += f->W[(size_t)n * rr + c]; }
            tau += a * s;
        }
    }
    ld_t const e = (ld_t)CSAFE * gam(f->fam == FAM_LLT ? n + 1 : n) * tau;
    if (!(e < 0.01L)) { return -1; }
    ld_t const gp = (ld_t)CSAFE * gam(f->fam == FAM_LLT ? 2 * n + 2 : n + 2); /* accuracy of the pivot product itself */
    return expm1l(e) * (1 + gp) + gp;
}

/* ------------------------------------------------------------------ every DOCUMENTED argument form of the sweeps
 * include/a/linalg.h documents two kinds of matrix argument:
 *   "A the matrix containing L and U (L and D / L form) in a compact form after ... decomposition"
 *        plu_solve/inv/inv_/det/lndet/sgndet, EVERY ldl routine (ldl_lower/upper included), llt_solve/inv/inv_/det/lndet
 *        -> these get the storage the factorization left, unmodified (check_solves / check_inverse / check_det above);
 *   "L the lower triangular matrix L, stored in row-major order" / "U the upper triangular matrix U, ..."
 *        plu_lower(_), plu_upper(_), llt_lower(_), llt_upper(_)
 *        -> a lower (upper) triangular MATRIX: the entries on the other side of the diagonal are not part of the argument,
 *           and for plu_lower the diagonal is the implied 1 of the unit factor (a_real_plu_L writes it, the compact storage
 *           holds u_rr there and a_real_plu_solve passes exactly that).  These four pairs are driven here with
 *             (a) the matrices the library's own extraction routines deliver (a_real_plu_L / a_real_plu_U / a_real_llt_L:
 *                 exact-size blocks, zeros on the other side), and
 *             (b) the compact storage with every entry that is not part of the argument overwritten by +-1e300 (one
 *                 variant) and by NaN (another): strictly upper triangle for llt_lower/llt_upper, diagonal and strictly
 *                 upper triangle for plu_lower, strictly lower triangle for plu_upper,
 *           plain and strided, each sweep judged by the SAME tri_ratio oracle as on the compact storage, and the chain
 *           apply -> lower -> upper by the solve_ratio oracle of <fam>_solve (the same operations in the same order).
 *   LDL^T has no routine documented for separate L / D matrices.  The factors that a_real_ldl_L / a_real_ldl_D deliver are a
 *   unit lower triangular matrix and a vector, i.e. documented arguments of the generic sweeps: L y = b by a_real_plu_lower,
 *   z = y / d in the harness, L^T x = z by a_real_llt_upper (unit diagonal: the division is by 1) - the operations of
 *   ldl_lower + ldl_upper in the same order, judged by the same oracles.  What the strictly upper triangle of the LDL
 *   storage holds is NOT specified by the header (a_real_ldl could keep L^T there for its own sweeps), so the ldl routines on
 *   a storage with that triangle poisoned, ldl_lower on the extracted L, and llt_solve on the extracted L are only RECORDED
 *   (…(not judged) counters, *-diff maxima), never flagged.
 * The difference of every result to the compact-storage result is recorded (<fam>-forms-diff-to-compact), not judged.
 * Calibration on the unchanged tree (quick seeds 1..5, thorough seed 1; same c = 4 as the clauses they repeat): worst ratio to
 * the c = 1 bound 0.57 for a sweep, 0.82 for a chain (llt); every recorded difference to the compact-storage result is 0.
 */
enum { FM_EXTRACTED, FM_BIG, FM_NAN, FM_N };
/* Only the EXTRACTED matrices (and the user-built factors further down) are what the header documents as the argument of the sweeps ("the lower
 * triangular matrix L, stored in row-major order"); the compact storage with the rest poisoned is a stricter reading - "the sweep does not even
 * look at the other triangle" - which the pinned code satisfies but the header does not promise (an implementation may multiply by the zeros of a
 * triangular matrix).  Results on the poisoned forms are therefore evaluated and RECORDED ("...(not judged)", the *-diff maxima), never flagged;
 * a write outside the right-hand side is flagged in every form. */
static int fm_judged = 1;

static double *fm_block(size_t cnt)
{
    double *p = (double *)malloc((cnt ? cnt : 1) * sizeof(double));
    if (!p) { fprintf(stderr, "vf: out of memory\n"); exit(2); }
    for (size_t i = 0; i < cnt; ++i) { memcpy(p + i, &FILL, 8); }
    return p;
}
static double fm_poison(int form, size_t i) { return form == FM_NAN ? (double)NAN : (i & 1) ? -1e300 : 1e300; }

/* side 0: the argument of <fam>_lower, side 1: of <fam>_upper.  Returns an exact-size block; label = key component */
static double *fm_matrix(fact_t const *f, int side, int form, char *label, size_t ll)
{
    unsigned const n = f->n;
    char const *pv = form == FM_BIG ? "1e300" : "nan";
    double *M;
    if (form == FM_EXTRACTED)
    {
        M = fm_block((size_t)n * n);
        ++vf.evals;
        if (f->fam == FAM_PLU && side) { vf_log("a_real_plu_U(n, A, U)"); a_real_plu_U(n, f->F, M); snprintf(label, ll, "extracted-U"); }
        else if (f->fam == FAM_PLU) { vf_log("a_real_plu_L(n, A, L)"); a_real_plu_L(n, f->F, M); snprintf(label, ll, "extracted-L"); }
        else if (f->fam == FAM_LDL) { vf_log("a_real_ldl_L(n, A, L)"); a_real_ldl_L(n, f->F, M); snprintf(label, ll, "extracted-ldl-L"); }
        else { vf_log("a_real_llt_L(n, A, L)"); a_real_llt_L(n, f->F, M); snprintf(label, ll, "extracted-L"); }
        return M;
    }
    M = xd_copy(f->F, (size_t)n * n);
    for (unsigned r = 0; r < n; ++r)
    {
        for (unsigned c = 0; c < n; ++c)
        {
            int kill;
            if (f->fam == FAM_PLU) { kill = side ? c < r : c >= r; }
            else { kill = c > r; }
            if (kill) { M[(size_t)n * r + c] = fm_poison(form, (size_t)n * r + c); }
        }
    }
    if (f->fam == FAM_PLU && side) { snprintf(label, ll, "compact-with-lower-triangle-%s", pv); }
    else if (f->fam == FAM_PLU) { snprintf(label, ll, "compact-with-diagonal-and-upper-triangle-%s", pv); }
    else { snprintf(label, ll, "compact-with-upper-triangle-%s", pv); }
    return M;
}

/* max_i |a_i - b_i| / max_i |b_i| (0 when bitwise equal, 1e300 when one of them is not finite) */
static double fm_diff(double const *a, double const *b, unsigned n)
{
    if (memcmp(a, b, n * sizeof(double)) == 0) { return 0; }
    long double d = 0, s = 0;
    for (unsigned i = 0; i < n; ++i)
    {
        if (!isfinite(a[i]) || !isfinite(b[i])) { return a[i] == b[i] ? 0 : 1e300; }
        long double const e = fabsl((long double)a[i] - b[i]);
        if (e > d) { d = e; }
        if (fabsl((long double)b[i]) > s) { s = fabsl((long double)b[i]); }
    }
    if (d == 0) { return 0; }
    d = s > 0 ? d / s : d;
    return d > 1e300L ? 1e300 : (double)d;
}

/* one sweep of family `api` (FAM_PLU / FAM_LLT entry points) on argument M in form `label`, plain (col < 0) or strided on
   column col of an n x n block; rhs in, solution out.  Returns 0 if the result was not finite and legitimately skipped. */
static int fm_sweep(fact_t const *f, int api, int upper, double const *M, double const *ref, int kind, char const *label, char const *clause, int col, double const *rhs,
                    double *sol, double const *cref)
{
    unsigned const n = f->n;
    char rn[40], cl[96];
    unsigned wrow;
    int const strided = col >= 0;
    snprintf(rn, sizeof(rn), "a_real_%s_%s%s", fam_name[api], upper ? "upper" : "lower", strided ? "_" : "");
    vf_log("%s(n, %s, %s)", rn, label, strided ? "column of an n x n block" : "vector");
    ++vf.evals;
    if (!strided)
    {
        gd_t y = gd_new(n);
        memcpy(y.v, rhs, n * sizeof(double));
        if (upper) { call_upper(api, n, M, y.v, 0); }
        else { call_lower(api, n, M, y.v, 0); }
        gd_guard(&y, rn, upper ? "x" : "y");
        memcpy(sol, y.v, n * sizeof(double));
        gd_free(&y);
    }
    else
    {
        unsigned const j = (unsigned)col;
        gd_t B = gd_new((size_t)n * n);
        for (size_t i = 0; i < (size_t)n * n; ++i) { B.v[i] = 1000.0 + (double)i; }
        for (unsigned i = 0; i < n; ++i) { B.v[(size_t)n * i + j] = rhs[i]; }
        if (upper) { call_upper(api, n, M, B.v + j, 1); }
        else { call_lower(api, n, M, B.v + j, 1); }
        gd_guard(&B, rn, "strided column");
        for (size_t i = 0; i < (size_t)n * n; ++i)
        {
            if (i % n != j && B.v[i] != 1000.0 + (double)i)
            {
                snprintf(cl, sizeof(cl), "%s/wrote-outside-its-column", label);
                viol2(rn, cl, "%s n=%u class=%s argument form %s, column %u: cell (%zu,%zu) of the block changed", rn, n, f->cname, label, j, i / n, i % n);
                break;
            }
        }
        for (unsigned i = 0; i < n; ++i) { sol[i] = B.v[(size_t)n * i + j]; }
        gd_free(&B);
    }
    /* an overflow is legitimate only where the same sweep of the same right-hand side on the compact storage (cref; NULL if the
       right-hand sides differ) overflows as well: a NaN picked up from a poisoned entry is not an overflow */
    if (!all_finite(sol, n) && (!cref || !all_finite(cref, n)) && nonfinite_skip(f, "solution")) { return 0; }
    double const ratio = tri_ratio(kind, n, ref, rhs, sol, &wrow);
    vf_count_dyn(clause, 1);
    mx(fam_name[f->fam], "-forms-sweep-residual-ratio", ratio);
    if (!(ratio <= CSAFE) && !fm_judged) { vf_count_dyn("forms-poisoned-storage-outside-bound(not judged)", 1); }
    else if (!(ratio <= CSAFE))
    {
        snprintf(cl, sizeof(cl), "%s/solution-residual-outside-bound", label);
        viol2(rn, cl, "%s n=%u class=%s, argument form %s (documented: the %s triangular matrix): row %u of rhs - T sol is %.4g times the gamma_{n+1}|T||sol| bound (c=%g allowed); rhs[%u]=%.17g sol[%u]=%.17g",
              rn, n, f->cname, label, upper && api == FAM_PLU ? "upper" : "lower", wrow, ratio, CSAFE, wrow, rhs[wrow], wrow, sol[wrow]);
    }
    return all_finite(sol, n);
}

static void fm_chain(fact_t const *f, char const *rn, char const *label, char const *clause, double const *b, double const *x)
{
    unsigned const n = f->n;
    unsigned wrow;
    double wres, wbound;
    char cl[96];
    double const ratio = solve_ratio(f, b, x, f->fam == FAM_PLU ? 3 * n : 3 * n + 1, &wrow, &wres, &wbound);
    vf_count_dyn(clause, 1);
    mx(fam_name[f->fam], "-forms-chain-residual-ratio", ratio);
    if (!(ratio <= CSAFE) && !fm_judged) { vf_count_dyn("forms-poisoned-storage-outside-bound(not judged)", 1); }
    else if (!(ratio <= CSAFE))
    {
        snprintf(cl, sizeof(cl), "%s/lower-upper-chain-residual-outside-bound", label);
        viol2(rn, cl, "%s n=%u class=%s: lower then upper sweep on argument form %s: row %u of b - A x = %.6e, bound c*gamma_3n*(W|x|) = %.6e (ratio to c=1 bound %.4g)", rn, n,
              f->cname, label, wrow, wres, wbound, ratio);
    }
}

static void fm_record(char const *same, char const *differs, char const *maxname, double const *a, double const *b, unsigned n)
{
    double const d = fm_diff(a, b, n);
    vf_count_dyn(d == 0 ? same : differs, 1);
    vf_max_dyn(maxname, d, NULL);
}

static void check_forms(fact_t *f, vf_rng *r, int rhs_kind)
{
    fm_judged = 1;
    unsigned const n = f->n;
    int const fam = f->fam;
    char const *fn = fam_name[fam];
    static char const *const clause[3][FM_N] = {
        {"plu-sweeps-on-extracted-LU", "plu-sweeps-on-compact-rest-1e300", "plu-sweeps-on-compact-rest-nan"},
        {"ldl-sweeps-on-extracted-LD", "", ""},
        {"llt-sweeps-on-extracted-L", "llt-sweeps-on-compact-upper-1e300", "llt-sweeps-on-compact-upper-nan"}};
    double b[NMAX], rhs[NMAX], yc[NMAX], xc[NMAX], y[NMAX], x[NMAX];
    char dn[56];
    snprintf(dn, sizeof(dn), "%s-forms-diff-to-compact", fn);

    for (unsigned i = 0; i < n; ++i) { b[i] = rhs_kind ? (double)vf_range(r, -9, 9) : vf_uniform(r, -1.0, 1.0); }
    if (f->xscale)
    {
        unsigned const m = (unsigned)vf_below(r, 6);
        int const h = (int)vf_range(r, -1000, 1000);
        for (unsigned i = 0; i < n && m >= 3; ++i)
        {
            b[i] = ldexp(b[i], m == 3 ? h : m == 4 ? (int)vf_range(r, -1000, 1000) : (int)vf_range(r, -300, 300));
        }
    }
    log_matrix("b(forms)", b, 1, n);
    for (unsigned i = 0; i < n; ++i) { rhs[i] = fam == FAM_PLU ? b[f->p[i]] : b[i]; }
    int const col = (int)vf_below(r, n);

    /* reference: the same sweeps on the compact storage (judged by check_solves, here only the values) */
    memcpy(yc, rhs, n * sizeof(double));
    call_lower(fam, n, f->F, yc, 0);
    memcpy(xc, yc, n * sizeof(double));
    call_upper(fam, n, f->F, xc, 0);
    {
        char rn[40];
        snprintf(rn, sizeof(rn), "a_real_%s_upper", fn);
        inputs_intact(f, rn);
    }

    if (fam == FAM_LDL)
    {
        char label[64];
        double z[NMAX];
        double *L = fm_matrix(f, 0, FM_EXTRACTED, label, sizeof(label));
        double *Lref = xd_copy(L, (size_t)n * n);
        gd_t d = gd_new(n);
        vf_log("a_real_ldl_D(n, A, d)");
        ++vf.evals;
        a_real_ldl_D(n, f->F, d.v);
        gd_guard(&d, "a_real_ldl_D", "d");
        /* (judged) the documented generic sweeps on the extracted factors: L y = b, z = y / d, L^T x = z */
        for (int strided = 0; strided < 2; ++strided)
        {
            if (!fm_sweep(f, FAM_PLU, 0, L, L, TK_UNIT_LOWER, label, clause[fam][FM_EXTRACTED], strided ? col : -1, rhs, y, yc)) { continue; }
            vf_max_dyn(dn, fm_diff(y, yc, n), NULL);
            for (unsigned i = 0; i < n; ++i) { z[i] = y[i] / d.v[i]; }
            if (!all_finite(z, n) && nonfinite_skip(f, "solution")) { continue; }
            if (!fm_sweep(f, FAM_LLT, 1, L, L, TK_LOWER_T, label, clause[fam][FM_EXTRACTED], strided ? col : -1, z, x, memcmp(y, yc, n * sizeof(double)) == 0 ? xc : NULL)) { continue; }
            vf_max_dyn(dn, fm_diff(x, xc, n), NULL);
            fm_chain(f, strided ? "a_real_llt_upper_" : "a_real_llt_upper", label, clause[fam][FM_EXTRACTED], b, x);
        }
        /* (recorded only) ldl_lower on the extracted L; every ldl sweep and ldl_solve on a storage whose strictly upper triangle is poisoned */
        memcpy(y, rhs, n * sizeof(double));
        vf_log("a_real_ldl_lower(n, %s, y)  (recorded, not judged)", label);
        ++vf.evals;
        a_real_ldl_lower(n, L, y);
        fm_record("ldl_lower-on-extracted-L-same-result", "ldl_lower-on-extracted-L-differs(not judged)", "ldl-undocumented-forms-diff(not judged)", y, yc, n);
        const_intact("a_real_plu_lower+a_real_llt_upper", "extracted ldl L", L, Lref, (size_t)n * n * sizeof(double));
        free(L);
        free(Lref);
        gd_free(&d);
        {
            int const form = (vf.case_no & 1) ? FM_NAN : FM_BIG;
            double *P = fm_matrix(f, 0, form, label, sizeof(label));
            double *Pref = xd_copy(P, (size_t)n * n);
            gd_t s = gd_new(n);
            vf_log("a_real_ldl_lower / _upper / _solve(n, %s, ..)  (recorded, not judged)", label);
            vf.evals += 3;
            memcpy(y, rhs, n * sizeof(double));
            a_real_ldl_lower(n, P, y);
            memcpy(x, y, n * sizeof(double));
            a_real_ldl_upper(n, P, x);
            fm_record("ldl-sweeps-upper-poisoned-same-result", "ldl-sweeps-upper-poisoned-differ(not judged)", "ldl-undocumented-forms-diff(not judged)", x, xc, n);
            memcpy(s.v, rhs, n * sizeof(double));
            a_real_ldl_solve(n, P, s.v);
            gd_guard(&s, "a_real_ldl_solve", "x");
            fm_record("ldl_solve-upper-poisoned-same-result", "ldl_solve-upper-poisoned-differs(not judged)", "ldl-undocumented-forms-diff(not judged)", s.v, xc, n);
            const_intact("a_real_ldl_lower+upper+solve", "upper-poisoned storage", P, Pref, (size_t)n * n * sizeof(double));
            gd_free(&s);
            free(P);
            free(Pref);
        }
        return;
    }

    for (int form = 0; form < FM_N; ++form)
    {
        char ll[64], lu[64], rn[40];
        double *L = fm_matrix(f, 0, form, ll, sizeof(ll));
        double *U = fam == FAM_PLU ? fm_matrix(f, 1, form, lu, sizeof(lu)) : L;
        fm_judged = form == FM_EXTRACTED; /* see the note at FM_EXTRACTED */
        double *Lref = xd_copy(L, (size_t)n * n), *Uref = fam == FAM_PLU ? xd_copy(U, (size_t)n * n) : NULL;
        if (fam != FAM_PLU) { snprintf(lu, sizeof(lu), "%s", ll); }
        /* the oracle reads the triangle that IS the argument: from the extracted matrix itself, resp. from the storage */
        double const *refL = form == FM_EXTRACTED ? L : f->F, *refU = form == FM_EXTRACTED ? U : f->F;
        for (int strided = 0; strided < 2; ++strided)
        {
            if (!fm_sweep(f, fam, 0, L, refL, tk_lower[fam], ll, clause[fam][form], strided ? col : -1, rhs, y, yc)) { continue; }
            vf_max_dyn(dn, fm_diff(y, yc, n), NULL);
            if (!fm_sweep(f, fam, 1, U, refU, tk_upper[fam], lu, clause[fam][form], strided ? col : -1, y, x, memcmp(y, yc, n * sizeof(double)) == 0 ? xc : NULL)) { continue; }
            vf_max_dyn(dn, fm_diff(x, xc, n), NULL);
            snprintf(rn, sizeof(rn), "a_real_%s_upper%s", fn, strided ? "_" : "");
            fm_chain(f, rn, lu, clause[fam][form], b, x);
        }
        if (fam == FAM_LLT && form == FM_EXTRACTED)
        {
            /* (recorded only) llt_solve is documented for the storage a_real_llt left, not for the extracted matrix */
            gd_t s = gd_new(n);
            memcpy(s.v, rhs, n * sizeof(double));
            vf_log("a_real_llt_solve(n, %s, x)  (recorded, not judged)", ll);
            ++vf.evals;
            a_real_llt_solve(n, L, s.v);
            gd_guard(&s, "a_real_llt_solve", "x");
            fm_record("llt_solve-on-extracted-L-same-result", "llt_solve-on-extracted-L-differs(not judged)", "llt-undocumented-forms-diff(not judged)", s.v, xc, n);
            gd_free(&s);
        }
        const_intact(fam == FAM_PLU ? "a_real_plu_lower(_)" : "a_real_llt_lower(_)+upper(_)", ll, L, Lref, (size_t)n * n * sizeof(double));
        if (fam == FAM_PLU) { const_intact("a_real_plu_upper(_)", lu, U, Uref, (size_t)n * n * sizeof(double)); }
        free(L);
        free(Lref);
        if (fam == FAM_PLU) { free(U); free(Uref); }
    }
}

/* ------------------------------------------------------------------ sweeps on a factor the USER built (no factorization of
 * ours in between for PLU / LLT): exact small-integer triangular matrices with zeros on the other side of the diagonal -
 * the documented "lower / upper triangular matrix" argument - and right-hand sides T*x0 with integer x0.  Entries |t| <= 3,
 * diagonal 1 (unit lower), 1,2,4 (Cholesky-type lower), +-1,+-2,+-4 (upper), |x0| <= 4, n <= 48: every partial sum of any
 * summation order is an integer below 2^12 and every division is of an exact multiple by a power of two, so the expected
 * result is x0 itself and the judge is ==.  LDL^T (documented for the storage a_real_ldl left only): A0 = L0 D0 L0^T,
 * d = +-1,+-2,+-4, is factored by the library (all intermediates integers below 2^14); the sweeps are judged on that storage
 * only when its lower triangle and diagonal hold exactly L0 and D0 (counted otherwise). */
static void ub_expect(char const *rn, char const *form, unsigned n, double const *got, double const *want)
{
    VF_COUNT("sweeps-on-user-built-factor");
    for (unsigned i = 0; i < n; ++i)
    {
        if (!(got[i] == want[i]))
        {
            char cl[96];
            snprintf(cl, sizeof(cl), "%s/not-the-exact-solution", form);
            viol2(rn, cl, "%s n=%u on %s (small integers, zeros on the other side of the diagonal, rhs = T*x0; every intermediate is exactly representable): component %u is %.17g, exact solution %.17g",
                  rn, n, form, i, got[i], want[i]);
            return;
        }
    }
}
/* run sweep `upper` of family api on T (plain, then strided on column col), expect x0 */
static void ub_sweeps(int api, int upper, unsigned n, double const *T, char const *form, double const *rhs, double const *x0, unsigned col)
{
    char rn[40];
    double *Tref = xd_copy(T, (size_t)n * n);
    gd_t y = gd_new(n), B = gd_new((size_t)n * n);
    double colv[NMAX];
    snprintf(rn, sizeof(rn), "a_real_%s_%s", fam_name[api], upper ? "upper" : "lower");
    vf_log("%s(n, %s, T*x0)", rn, form);
    ++vf.evals;
    memcpy(y.v, rhs, n * sizeof(double));
    FX_TRAP_ON()
    if (upper) { call_upper(api, n, T, y.v, 0); }
    else { call_lower(api, n, T, y.v, 0); }
    FX_TRAP_OFF()
    gd_guard(&y, rn, "y");
    ub_expect(rn, form, n, y.v, x0);
    snprintf(rn, sizeof(rn), "a_real_%s_%s_", fam_name[api], upper ? "upper" : "lower");
    vf_log("%s(n, %s, column %u of an n x n block)", rn, form, col);
    ++vf.evals;
    for (size_t i = 0; i < (size_t)n * n; ++i) { B.v[i] = 1000.0 + (double)i; }
    for (unsigned i = 0; i < n; ++i) { B.v[(size_t)n * i + col] = rhs[i]; }
    FX_TRAP_ON()
    if (upper) { call_upper(api, n, T, B.v + col, 1); }
    else { call_lower(api, n, T, B.v + col, 1); }
    FX_TRAP_OFF()
    gd_guard(&B, rn, "strided column");
    for (unsigned i = 0; i < n; ++i) { colv[i] = B.v[(size_t)n * i + col]; }
    ub_expect(rn, form, n, colv, x0);
    for (size_t i = 0; i < (size_t)n * n; ++i)
    {
        if (i % n != col && B.v[i] != 1000.0 + (double)i)
        {
            char cl[96];
            snprintf(cl, sizeof(cl), "%s/wrote-outside-its-column", form);
            viol2(rn, cl, "%s n=%u on %s, column %u: cell (%zu,%zu) of the block changed", rn, n, form, col, i / n, i % n);
            break;
        }
    }
    const_intact(rn, form, T, Tref, (size_t)n * n * sizeof(double));
    gd_free(&y);
    gd_free(&B);
    free(Tref);
}

static void check_user_built(int fam, unsigned n, vf_rng *r)
{
    size_t const nn = (size_t)n * n;
    double *L = (double *)calloc(nn ? nn : 1, sizeof(double)), *T = (double *)calloc(nn ? nn : 1, sizeof(double));
    double x0[NMAX], w[NMAX], bl[NMAX], bu[NMAX], d[NMAX];
    unsigned const col = (unsigned)vf_below(r, n);
    /* L: integer lower triangular, zeros above; diagonal 1 (plu, ldl) or 1,2,4 (llt) */
    for (unsigned i = 0; i < n; ++i)
    {
        for (unsigned k = 0; k < i; ++k) { L[(size_t)n * i + k] = (double)vf_range(r, -3, 3); }
        L[(size_t)n * i + i] = fam == FAM_LLT ? (double)(1 << vf_below(r, 3)) : 1.0;
        d[i] = (vf_chance(r, 1, 2) ? -1.0 : 1.0) * (double)(1 << vf_below(r, 3));
        x0[i] = (double)vf_range(r, -4, 4);
        w[i] = (double)vf_range(r, -4, 4);
    }
    for (unsigned i = 0; i < n; ++i) /* bl = L w (lower sweep must return w) */
    {
        double s = 0;
        for (unsigned k = 0; k <= i; ++k) { s += L[(size_t)n * i + k] * w[k]; }
        bl[i] = s;
    }
    log_matrix("user-built L0", L, n, n);
    if (fam == FAM_PLU)
    {
        /* U: integer upper triangular, zeros below, diagonal +-1,+-2,+-4 */
        for (unsigned i = 0; i < n; ++i)
        {
            T[(size_t)n * i + i] = d[i];
            for (unsigned k = i + 1; k < n; ++k) { T[(size_t)n * i + k] = (double)vf_range(r, -3, 3); }
        }
        for (unsigned i = 0; i < n; ++i)
        {
            double s = 0;
            for (unsigned k = i; k < n; ++k) { s += T[(size_t)n * i + k] * x0[k]; }
            bu[i] = s;
        }
        log_matrix("user-built U0", T, n, n);
        double *Lx = xd_copy(L, nn), *Ux = xd_copy(T, nn);
        ub_sweeps(FAM_PLU, 0, n, Lx, "user-built-unit-lower-L", bl, w, col);
        ub_sweeps(FAM_PLU, 1, n, Ux, "user-built-upper-U", bu, x0, col);
        free(Lx);
        free(Ux);
    }
    else if (fam == FAM_LLT)
    {
        for (unsigned i = 0; i < n; ++i) /* bu = L^T x0 */
        {
            double s = 0;
            for (unsigned k = i; k < n; ++k) { s += L[(size_t)n * k + i] * x0[k]; }
            bu[i] = s;
        }
        double *Lx = xd_copy(L, nn);
        ub_sweeps(FAM_LLT, 0, n, Lx, "user-built-lower-L", bl, w, col);
        ub_sweeps(FAM_LLT, 1, n, Lx, "user-built-lower-L", bu, x0, col);
        free(Lx);
    }
    else
    {
        /* A0 = L D L^T exactly; the storage must come from a_real_ldl (the only documented form) */
        for (unsigned i = 0; i < n; ++i)
        {
            for (unsigned k = 0; k <= i; ++k)
            {
                double s = 0;
                for (unsigned t = 0; t <= k; ++t) { s += L[(size_t)n * i + t] * d[t] * L[(size_t)n * k + t]; }
                T[(size_t)n * i + k] = T[(size_t)n * k + i] = s;
            }
        }
        for (unsigned i = 0; i < n; ++i) /* bu = D L^T x0 */
        {
            double s = 0;
            for (unsigned k = i; k < n; ++k) { s += L[(size_t)n * k + i] * x0[k]; }
            bu[i] = d[i] * s;
        }
        double *F = xd_copy(T, nn);
        vf_log("a_real_ldl(n, A0 = L0 D0 L0^T)  (user-built integer factors)");
        ++vf.evals;
        FX_TRAP_ON() int const rc = a_real_ldl(n, F); FX_TRAP_OFF()
        int exact = rc == 0;
        for (unsigned i = 0; i < n && exact; ++i)
        {
            for (unsigned k = 0; k <= i; ++k)
            {
                if (!(F[(size_t)n * i + k] == (k == i ? d[i] : L[(size_t)n * i + k]))) { exact = 0; break; }
            }
        }
        if (exact)
        {
            VF_COUNT("user-built-ldl-storage-holds-L0-D0");
            ub_sweeps(FAM_LDL, 0, n, F, "storage-of-integer-L0D0L0t", bl, w, col);
            ub_sweeps(FAM_LDL, 1, n, F, "storage-of-integer-L0D0L0t", bu, x0, col);
        }
        else { VF_COUNT("user-built-ldl-storage-not-exact-skipped"); }
        free(F);
    }
    free(L);
    free(T);
}

/* ------------------------------------------------------------------ case plan */
#define QUICK_CASES 20001u
#define THOROUGH_CASES 2000001u
static uint64_t vf_ncases(int tier) { return tier ? THOROUGH_CASES : QUICK_CASES; }

static void spd_det_agreement(fact_t *llt, det_t dl)
{
    unsigned const n = llt->n;
    qref_t R = quad_reference(n, llt->A0);
    if (!R.ok) { VF_COUNT("spd-det-skipped-quad-singular"); return; }
    static unsigned const other_cls[3] = {G_SPD, S_SPD, C_SPD};
    double det[3] = {0, 0, 0};
    ld_t tol[3] = {-1, -1, -1};
    int have[3] = {0, 0, 0};
    for (int m = 0; m < 3; ++m)
    {
        fact_t g, *f = llt;
        det_t d = dl;
        if (m != FAM_LLT)
        {
            factor(&g, m, other_cls[m], n, EXP_ANY, llt->A0);
            f = &g;
            if (g.ok && g.judged) { d = check_det(&g); }
            else { d.have_det = 0; }
        }
        if (f->ok && f->judged && d.have_det)
        {
            tol[m] = det_tolerance(f, &R);
            det[m] = d.det;
            if (tol[m] >= 0)
            {
                have[m] = 1;
                q_t const rel = fabsq(((q_t)d.det - R.det) / R.det);
                double const ratio = (double)(rel / (q_t)tol[m]);
                char rn[40];
                snprintf(rn, sizeof(rn), "a_real_%s_det", fam_name[m]);
                cnt(fam_name[m], "_det-equals-quad-determinant-of-input");
                mx(fam_name[m], "_det-vs-quad-ratio", ratio);
                if (!(ratio <= 1.0))
                {
                    viol2(rn, "not-determinant-of-spd-input", "%s n=%u class=%s: returned %.17g, quad-precision determinant of the input %.17g, relative difference %.3e, rigorous tolerance %.3e",
                          rn, n, llt->cname, d.det, (double)R.det, (double)rel, (double)tol[m]);
                }
            }
            else { VF_COUNT("spd-det-skipped-ill-conditioned"); }
        }
        if (m != FAM_LLT) { fact_free(&g); }
    }
    if (have[0] && have[1] && have[2])
    {
        double worst = 0;
        int wa = 0, wb = 1;
        for (int a = 0; a < 3; ++a)
        {
            for (int b = a + 1; b < 3; ++b)
            {
                q_t const rel = fabsq(((q_t)det[a] - det[b]) / R.det);
                double const ratio = (double)(rel / (q_t)(tol[a] + tol[b]));
                if (ratio > worst || !(ratio == ratio)) { worst = ratio; wa = a; wb = b; }
            }
        }
        VF_COUNT("spd-det-three-methods-agree");
        VF_MAX("spd-det-three-methods-spread-ratio", worst);
        if (!(worst <= 1.0))
        {
            viol2("spd-det", "methods-disagree", "n=%u class=%s: det by %s = %.17g, by %s = %.17g differ by %.4g times the summed tolerances", n, llt->cname, fam_name[wa], det[wa],
                  fam_name[wb], det[wb], worst);
        }
    }
    free(R.absinv);
}


#ifdef VF_FENV_ROTATE
/* ------------------------------------------------------------------ configurations fenv-exact / fenv-exact-fma (-DVF_FENV_ROTATE)
 * vf_common.h runs every case under one of FE_DOWNWARD / FE_TOWARDZERO / FE_UPWARD / FE_TONEAREST (a function of seed and case number).  The
 * caller's rounding mode is part of the execution environment, and C08 has clauses that do not mention a tolerance: "inputs with an exactly
 * vanishing pivot are reported as failure", "a true row permutation whose parity matches the sign", "multipliers bounded by one", "strictly
 * positive Cholesky diagonal".  A rounding-error bound, on the other hand, is stated for u = 2^-53, and the oracle of this harness forms its
 * residuals in __float128, whose libgcc arithmetic honours the rounding mode as well.  So under a rotated mode ONLY what needs no rounding
 * argument is judged (seeded change C08-K: a reciprocal + FMA correction for the LU multipliers, bit-identical to the division in
 * round-to-nearest, turns the multiplier of a duplicated row into 1 - 2^-53 under a directed mode and an exactly singular matrix succeeds):
 *
 *  role FAIL     the exact-failure classes.  The argument for "a pivot is exactly 0 / <= 0" never uses the rounding direction:
 *                  zero column: a column of +-0 stays +-0 (0 - u*l = +-0); zero row: multiplier 0/p = 0, 0 - u*0 = +-0, the row is never the
 *                  strict column maximum unless every candidate is 0; zero matrix, zero / non-positive leading entry: no operation at all;
 *                  duplicated / 2^k-multiple rows built so that they meet at a pivot +-2^K (gen_general): the multiplier is 2^-k by division
 *                  and by multiplication with 1/2^K alike, in every mode, and a - (2^k a) 2^-k = +-0;
 *                  integer L0 D0 L0^T with a zero in D0, integer L0 L0^T with a lowered pivot: every intermediate is an integer < 2^13,
 *                  every divisor (D0, diagonal of L0) a power of two.
 *                  duplicated / 2^k-multiple rows with a general pivot (named by the property: must fail whatever the pivot): until one of the
 *                  two is the pivot row both receive the same operations on exactly 2^k-scaled operands, and every IEEE operation commutes with an
 *                  exact scaling in every rounding mode; then the multiplier is a/a = 1 (2^k) and a - a*1 = +-0.  (An LU that multiplies by
 *                  fl(1/pivot) breaks this sentence of the property, under FE_TOWARDZERO for every pivot that is not a power of two; seeded change
 *                  C08-K - bit-identical to the division in round-to-nearest - is visible through this clause: with a power-of-two pivot its
 *                  reciprocal, product and FMA remainder are all exact.)
 *  role EXACT    exactly factorable inputs whose every intermediate is exactly representable (an IEEE operation whose exact result is
 *                  representable returns it in every mode) and whose every divisor is +-2^k or whose every numerator is 0, so that the same holds
 *                  when a quotient is formed as a * fl(1/u) and for either association of a product: permutation / diagonal / upper triangular matrices incl. the xscale-exact class
 *                  (every multiplier is 0/pivot = 0, every update a - u*0 = a: stored storage == row-permuted input), integer L0 D0 L0^T
 *                  (stored == L0, D0: numerators l_rc d_c, quotients l_rc), integer L0 L0^T (stored == L0: numerators l_rc l_cc, pivots the
 *                  perfect squares 1, 4, 16; D0 in +-{1,2,4}), and - this configuration only - A = Q L0 U0 with multipliers k/4, |k| <= 3 (< 1: the
 *                  pivot of every column is unique), integer U0, |u| <= 4, u_ii in +-{1,2,4} (stored == L0\U0, p == the unique pivot order; every
 *                  intermediate is a multiple of 1/4 below 2^10).  They must succeed, the stored factors are compared with == ,
 *                  b = A x0 with integer |x0| <= 4 goes through apply / lower / upper (plain and strided) / solve and must return x0 with ==
 *                  (integer classes and scaled permutations: numerators are exact multiples of the divisor), det must be the integer
 *                  determinant while its magnitude is <= 2^53 (every partial product is then an integer <= 2^53), permutation matrices
 *                  with entries +-2^k: inv and inv_ == the exact inverse.
 *  role SUCCESS  positive diagonal for LLT (pivot = an input entry >= DBL_MIN, sqrt of it > 0 in every mode): must succeed; shape only.
 *  role SHAPE    the other classes without extreme scaling: success or failure accepted, on success only the clauses that no rounding can
 *                  excuse: p a permutation, sign == parity, |l| <= 1 under FE_TONEAREST / FE_TOWARDZERO (there it holds for a/b and for
 *                  a * fl(1/b); under FE_UPWARD / FE_DOWNWARD the latter can be 1 + 2^-52: counted as skipped), pivots non-zero
 *                  (|pivot| >= DBL_MIN was tested by the library), Cholesky diagonal > 0.
 *  role SKIP     extreme-scaling classes whose construction relies on round-to-nearest (a quotient below 2^-1075 underflows to 0 in
 *                  round-to-nearest, to +-2^-1074 under a directed mode) or whose only clauses are bounds: not run; counted
 *                  (fenv-skipped-inexact-class) and replaced by an EXACT / FAIL class so that the case is not wasted.
 *  On every success additionally the clauses without arithmetic: P, P_, L, U, D extraction == stored factors, plu_apply == b[p[i]],
 *  sgndet == sign of the pivot product and 0 for a zero pivot; guard cells and read-only arguments as everywhere.  check_user_built (integer
 *  triangular factors built here, result x0 with ==) is exact by construction and runs unchanged.
 *  NOT judged under a rotated mode (counted per case in fenv-skipped-inexact-clause): every reconstruction / sweep / solve / inverse residual
 *  bound, det against the quad product of the pivots, lndet, the SPD three-method determinant agreement, the argument-form sweeps of check_forms.
 * Calibration: unchanged tree silent at VERIF_SEED 1..5 quick and 1 thorough, default ISA and -mfma.
 */
enum { FX_SKIP, FX_FAIL, FX_EXACT, FX_SUCCESS, FX_SHAPE };

static int fx_role(int fam, unsigned c)
{
    if (fam == FAM_PLU)
    {
        switch (c)
        {
        case G_F_ZEROCOL: case G_F_ZEROROW: case G_F_ZEROMAT: case G_F_DUPROW: case G_F_SCALEDDUP: return FX_FAIL;
        case G_PERM: case G_TRIU: case G_DIAG: case G_X_EXACT: case G_FX_INTLU: return FX_EXACT;
        case G_X_ROW: case G_X_COL: case G_X_BOTH: case G_X_GLOBAL: case G_X_BLOCK: return FX_SKIP;
        default: return FX_SHAPE;
        }
    }
    if (fam == FAM_LDL)
    {
        switch (c)
        {
        case S_F_ZERO_D: case S_F_ZEROMAT: case S_F_LEAD0: return FX_FAIL;
        case S_INT_LDL: case S_DIAG: case S_X_DIAG: return FX_EXACT;
        case S_X_SPD: case S_X_INDEF: case S_X_GLOBAL: return FX_SKIP;
        default: return FX_SHAPE;
        }
    }
    switch (c)
    {
    case C_F_LEAD: case C_F_LOWERED_LAST: case C_F_LOWERED_ANY: case C_F_ZEROMAT: return FX_FAIL;
    case C_SPD_INT: return FX_EXACT;
    case C_DIAG: case C_X_DIAG: return FX_SUCCESS;
    case C_X_SPD: case C_X_GLOBAL: return FX_SKIP;
    default: return FX_SHAPE;
    }
}
static unsigned fx_substitute(int fam, vf_rng *r)
{
    static unsigned const g[] = {G_FX_INTLU, G_FX_INTLU, G_FX_INTLU, G_F_DUPROW, G_F_DUPROW, G_F_SCALEDDUP, G_F_ZEROCOL, G_PERM};
    static unsigned const s[] = {S_INT_LDL, S_INT_LDL, S_F_ZERO_D};
    static unsigned const c[] = {C_SPD_INT, C_SPD_INT, C_F_LOWERED_ANY, C_F_LOWERED_LAST};
    if (fam == FAM_PLU) { return g[vf_below(r, sizeof(g) / sizeof(g[0]))]; }
    if (fam == FAM_LDL) { return s[vf_below(r, sizeof(s) / sizeof(s[0]))]; }
    return c[vf_below(r, sizeof(c) / sizeof(c[0]))];
}
static char const *fx_mode(void)
{
    int const m = fegetround();
    return m == FE_DOWNWARD ? "FE_DOWNWARD" : m == FE_UPWARD ? "FE_UPWARD" : m == FE_TOWARDZERO ? "FE_TOWARDZERO" : "FE_TONEAREST";
}
static void fx_count_mode(char const *what)
{
    char nm[56];
    snprintf(nm, sizeof(nm), "%s-%s", what, fx_mode());
    vf_count_dyn(nm, 1);
}

typedef struct
{
    double *EF;          /* expected factor storage (PLU: all of it; LDL, LLT: diagonal and below); NULL: row-permuted input (no arithmetic) */
    int have_ep;         /* PLU: the pivot order is unique and known */
    unsigned ep[NMAX];
    int x_exact;         /* b = A0 x0 and every intermediate of the sweeps are exactly representable: the solution is x0 */
    int inv_exact;       /* permutation matrix with entries +-2^k: the inverse is exactly representable */
    int det_known;       /* integer determinant, every partial product an integer <= 2^53 */
    double det;
} fx_t;

/* |product| of the integer pivots while it stays <= 2^53 (then every partial product of any order is an exact integer) */
static int fx_int_product(unsigned n, double const *d, size_t stride, int squared, double *out)
{
    double p = 1;
    for (unsigned i = 0; i < n; ++i)
    {
        p *= fabs(d[stride * i]);
        if (p > 0x1p26 && squared) { return 0; }
        if (p > 0x1p53) { return 0; }
    }
    *out = squared ? p * p : p;
    return 1;
}

/* A = Q L0 U0: L0 unit lower, multipliers k/4 (|k| <= 3), U0 integer upper, |u| <= 4, u_ii in +-{1,2,4}; rows of L0 U0 in random order.
   At step k the candidates of column k are l_ik u_kk, i >= k, of which |l_kk| = 1 is the strict maximum: the pivot order is forced. */
static void fx_gen_intlu(vf_rng *r, unsigned n, double *A, fx_t *x)
{
    double *L = (double *)calloc((size_t)n * n, sizeof(double)), *U = (double *)calloc((size_t)n * n, sizeof(double));
    unsigned q[NMAX];
    x->EF = (double *)calloc((size_t)n * n, sizeof(double));
    for (unsigned i = 0; i < n; ++i)
    {
        for (unsigned k = 0; k < i; ++k) { L[(size_t)n * i + k] = (double)vf_range(r, -3, 3) / 4; }
        L[(size_t)n * i + i] = 1;
        U[(size_t)n * i + i] = vf_sign(r) * (double)(1 << vf_below(r, 3)); /* +-1, +-2, +-4: every divisor a power of two (gen_int_ldlt) */
        for (unsigned k = i + 1; k < n; ++k) { U[(size_t)n * i + k] = (double)vf_range(r, -4, 4); }
        q[i] = i;
    }
    for (unsigned i = n; i > 1; --i)
    {
        unsigned const j = (unsigned)vf_below(r, i), t = q[i - 1];
        q[i - 1] = q[j];
        q[j] = t;
    }
    for (unsigned i = 0; i < n; ++i) /* row i of A is row q[i] of L0 U0 */
    {
        x->ep[q[i]] = i;
        for (unsigned k = 0; k < n; ++k)
        {
            double s = 0;
            for (unsigned t = 0; t <= q[i] && t <= k; ++t) { s += L[(size_t)n * q[i] + t] * U[(size_t)n * t + k]; } /* multiples of 1/4 below 2^10: exact */
            A[(size_t)n * i + k] = s;
            x->EF[(size_t)n * i + k] = k < i ? L[(size_t)n * i + k] : U[(size_t)n * i + k];
        }
    }
    x->have_ep = 1;
    x->x_exact = 1;
    x->det_known = fx_int_product(n, U, (size_t)n + 1, 0, &x->det);
    if (x->det_known)
    {
        unsigned char seen[NMAX] = {0};
        for (unsigned i = 0; i < n; ++i)
        {
            unsigned len = 0;
            for (unsigned j = i; !seen[j]; j = x->ep[j]) { seen[j] = 1; ++len; }
            if (len && !(len & 1)) { x->det = -x->det; }
        }
        for (unsigned i = 0; i < n; ++i) { if (U[(size_t)n * i + i] < 0) { x->det = -x->det; } }
    }
    free(L);
    free(U);
}

/* the input of the case and what is known about its exact factorization */
static int fx_generate(int fam, unsigned cls, unsigned n, vf_rng *r, double *A0, char *note, size_t nlen, fx_t *x)
{
    int expect;
    memset(x, 0, sizeof(*x));
    if (fam == FAM_PLU && cls == G_FX_INTLU)
    {
        note[0] = 0;
        fx_gen_intlu(r, n, A0, x);
        return EXP_SUCCESS;
    }
    if (fam == FAM_LDL && cls == S_INT_LDL)
    {
        double D0[NMAX], *L0 = (double *)malloc((size_t)n * n * sizeof(double));
        note[0] = 0;
        for (unsigned i = 0; i < n; ++i)
        {
            int const d = 1 << vf_below(r, 3);
            D0[i] = vf_chance(r, 1, 2) ? -d : d;
        }
        gen_int_ldlt(r, n, 1, D0, L0, A0);
        for (unsigned i = 0; i < n; ++i) { L0[(size_t)n * i + i] = D0[i]; }
        x->EF = L0;
        x->x_exact = 1;
        x->det_known = fx_int_product(n, D0, 1, 0, &x->det);
        for (unsigned i = 0; i < n; ++i) { if (D0[i] < 0) { x->det = -x->det; } }
        return EXP_SUCCESS;
    }
    if (fam == FAM_LLT && cls == C_SPD_INT)
    {
        double *L0 = (double *)malloc((size_t)n * n * sizeof(double));
        note[0] = 0;
        gen_int_ldlt(r, n, 0, NULL, L0, A0);
        x->EF = L0;
        x->x_exact = 1;
        x->det_known = fx_int_product(n, L0, (size_t)n + 1, 1, &x->det);
        return EXP_SUCCESS;
    }
    if (fam == FAM_PLU) { expect = gen_general(cls, n, r, A0, note, nlen); }
    else if (fam == FAM_LDL) { expect = gen_sym(cls, n, r, A0, note, nlen); }
    else { expect = gen_spd(cls, n, r, A0, note, nlen); }
    if (fam == FAM_PLU && cls == G_PERM) { x->x_exact = x->inv_exact = 1; } /* entries 1 or +-2^k, |k| <= 30 */
    return expect;
}

/* stored factor storage == exact factors */
static int fx_exact_factors(fact_t const *f, fx_t const *x)
{
    unsigned const n = f->n;
    char rn[24];
    snprintf(rn, sizeof(rn), "a_real_%s", fam_name[f->fam]);
    VF_COUNT("fenv-exact-factorization-judged");
    fx_count_mode("fenv-exact-factorization-judged");
    cnt(fam_name[f->fam], "-fenv-stored-factors-equal-exact-factors");
    if (f->fam == FAM_PLU && x->have_ep)
    {
        for (unsigned i = 0; i < n; ++i)
        {
            if (f->p[i] != x->ep[i])
            {
                viol2(rn, "pivot-order-differs-from-unique-pivot-order", "a_real_plu n=%u class=%s under %s: p[%u] = %u, but the strict column maximum of step %u is row %u of the input (multipliers k/4, |k| <= 3)",
                      n, f->cname, fx_mode(), i, (unsigned)f->p[i], i, x->ep[i]);
                return 0;
            }
        }
    }
    for (unsigned rr = 0; rr < n; ++rr)
    {
        unsigned const cend = f->fam == FAM_PLU ? n : rr + 1;
        for (unsigned c = 0; c < cend; ++c)
        {
            double const e = x->EF ? x->EF[(size_t)n * rr + c] : f->A0[(size_t)n * f->rowmap[rr] + c];
            double const g = f->F[(size_t)n * rr + c];
            if (!(g == e))
            {
                viol2(rn, "stored-factor-differs-from-exact-factor", "%s n=%u class=%s under %s: stored[%u][%u] = %a, exact factor %a (every intermediate of the factorization is exactly representable, so no rounding can occur)",
                      rn, n, f->cname, fx_mode(), rr, c, g, e);
                return 0;
            }
        }
    }
    return 1;
}

static int fx_expect_vec(char const *rn, char const *clause, fact_t const *f, double const *got, double const *want, char const *what)
{
    for (unsigned i = 0; i < f->n; ++i)
    {
        if (!(got[i] == want[i]))
        {
            viol2(rn, clause, "%s n=%u class=%s under %s: %s[%u] = %a, exact value %a (b = A x0 with integer x0; every intermediate is exactly representable)", rn, f->n, f->cname,
                  fx_mode(), what, i, got[i], want[i]);
            return 0;
        }
    }
    return 1;
}

/* b = A0 x0, integer |x0| <= 4, through apply / lower / upper (plain, strided) / solve: the result is x0 */
static void fx_solve_exact(fact_t *f, vf_rng *r)
{
    unsigned const n = f->n;
    int const fam = f->fam;
    char const *fn = fam_name[fam];
    char rn[40];
    double x0[NMAX], b[NMAX], rhs[NMAX];
    for (unsigned i = 0; i < n; ++i) { x0[i] = (double)vf_range(r, -4, 4); }
    for (unsigned i = 0; i < n; ++i)
    {
        double s = 0;
        for (unsigned c = 0; c < n; ++c) { s += f->A0[(size_t)n * i + c] * x0[c]; } /* exact */
        b[i] = s;
    }
    log_matrix("x0", x0, 1, n);
    log_matrix("b=A*x0", b, 1, n);
    double *bx = xd_copy(b, n);
    for (unsigned i = 0; i < n; ++i) { rhs[i] = fam == FAM_PLU ? b[f->p[i]] : b[i]; }
    /* plain chain */
    gd_t y = gd_new(n);
    memcpy(y.v, rhs, n * sizeof(double));
    snprintf(rn, sizeof(rn), "a_real_%s_lower", fn);
    vf_log("%s(n, A, y) then upper", rn);
    vf.evals += 2;
    FX_TRAP_ON() call_lower(fam, n, f->F, y.v, 0); FX_TRAP_OFF()
    gd_guard(&y, rn, "y");
    snprintf(rn, sizeof(rn), "a_real_%s_upper", fn);
    FX_TRAP_ON() call_upper(fam, n, f->F, y.v, 0); FX_TRAP_OFF()
    gd_guard(&y, rn, "x");
    inputs_intact(f, rn);
    cnt(fn, "-fenv-lower-upper-chain-equals-x0");
    fx_expect_vec(rn, "lower-upper-chain-not-the-exact-solution", f, y.v, x0, "x");
    gd_free(&y);
    /* strided chain on column j of an n x n block */
    {
        unsigned const j = (unsigned)vf_below(r, n);
        gd_t M = gd_new((size_t)n * n);
        double colv[NMAX];
        for (size_t i = 0; i < (size_t)n * n; ++i) { M.v[i] = 1000.0 + (double)i; }
        for (unsigned i = 0; i < n; ++i) { M.v[(size_t)n * i + j] = rhs[i]; }
        snprintf(rn, sizeof(rn), "a_real_%s_upper_", fn);
        vf_log("a_real_%s_lower_ then %s (column %u of an n x n block)", fn, rn, j);
        vf.evals += 2;
        FX_TRAP_ON() call_lower(fam, n, f->F, M.v + j, 1); FX_TRAP_OFF()
        FX_TRAP_ON() call_upper(fam, n, f->F, M.v + j, 1); FX_TRAP_OFF()
        gd_guard(&M, rn, "strided column");
        inputs_intact(f, rn);
        for (size_t i = 0; i < (size_t)n * n; ++i)
        {
            if (i % n != j && M.v[i] != 1000.0 + (double)i)
            {
                viol2(rn, "wrote-outside-its-column", "%s n=%u class=%s column %u: cell (%zu,%zu) of the block changed", rn, n, f->cname, j, i / n, i % n);
                break;
            }
        }
        for (unsigned i = 0; i < n; ++i) { colv[i] = M.v[(size_t)n * i + j]; }
        cnt(fn, "-fenv-strided-chain-equals-x0");
        fx_expect_vec(rn, "lower-upper-chain-not-the-exact-solution", f, colv, x0, "x");
        gd_free(&M);
    }
    /* solve */
    gd_t x = gd_new(n);
    snprintf(rn, sizeof(rn), "a_real_%s_solve", fn);
    vf_log("%s(n, A, ..)", rn);
    ++vf.evals;
    if (fam == FAM_PLU)
    {
        FX_TRAP_ON() a_real_plu_solve(n, f->F, f->p, bx, x.v); FX_TRAP_OFF()
        const_intact(rn, "b", bx, b, n * sizeof(double));
    }
    else
    {
        memcpy(x.v, b, n * sizeof(double));
        FX_TRAP_ON()
        if (fam == FAM_LDL) { a_real_ldl_solve(n, f->F, x.v); }
        else { a_real_llt_solve(n, f->F, x.v); }
        FX_TRAP_OFF()
    }
    gd_guard(&x, rn, "x");
    inputs_intact(f, rn);
    cnt(fn, "-fenv-solve-equals-x0");
    fx_expect_vec(rn, "not-the-exact-solution", f, x.v, x0, "x");
    gd_free(&x);
    free(bx);
}

/* permutation matrix with entries +-2^k: X[r][c] = 1 / A0[c][r] where that is non-zero, 0 elsewhere */
static void fx_inverse_exact(fact_t *f)
{
    unsigned const n = f->n;
    gd_t scratch = gd_new(n), X = gd_new((size_t)n * n);
    for (int v = 0; v < 2; ++v)
    {
        char const *rn = v ? "a_real_plu_inv_" : "a_real_plu_inv";
        gd_fill(&X);
        vf_log("%s(n, A, p, ..)", rn);
        ++vf.evals;
        FX_TRAP_ON()
        if (v) { a_real_plu_inv_(n, f->F, f->p, X.v); }
        else { a_real_plu_inv(n, f->F, f->p, scratch.v, X.v); }
        FX_TRAP_OFF()
        gd_guard(&scratch, rn, "scratch b");
        gd_guard(&X, rn, "I");
        inputs_intact(f, rn);
        cnt("plu", v ? "-fenv-inv_-equals-exact-inverse" : "-fenv-inv-equals-exact-inverse");
        for (size_t i = 0; i < (size_t)n * n; ++i)
        {
            double const a = f->A0[(size_t)n * (i % n) + i / n], e = a != 0 ? 1 / a : 0; /* 1 / +-2^k: exact */
            if (!(X.v[i] == e))
            {
                viol2(rn, "not-the-exact-inverse", "%s n=%u class=%s under %s: X[%zu][%zu] = %a, exact inverse entry %a (permutation matrix with entries +-2^k)", rn, n, f->cname, fx_mode(),
                      i / n, i % n, X.v[i], e);
                break;
            }
        }
    }
    gd_free(&scratch);
    gd_free(&X);
}

/* det == integer determinant (when known); sgndet == sign of the pivot product, 0 for a zero pivot; plu_apply == b[p[i]] */
static void fx_det_sign_apply(fact_t *f, fx_t const *x, vf_rng *r)
{
    unsigned const n = f->n;
    int const fam = f->fam;
    char const *fn = fam_name[fam];
    char rn[40];
    if (x->det_known)
    {
        snprintf(rn, sizeof(rn), "a_real_%s_det", fn);
        vf_log("%s(n, A%s)", rn, fam == FAM_PLU ? ", sign" : "");
        ++vf.evals;
        FX_TRAP_ON()
        double const det = fam == FAM_PLU ? a_real_plu_det(n, f->F, f->sign) : fam == FAM_LDL ? a_real_ldl_det(n, f->F) : a_real_llt_det(n, f->F);
        FX_TRAP_OFF()
        inputs_intact(f, rn);
        cnt(fn, "-fenv-det-equals-integer-determinant");
        if (!(det == x->det))
        {
            viol2(rn, "not-the-exact-integer-determinant", "%s n=%u class=%s under %s: returned %.17g, the determinant is the integer %.17g (every partial product of the integer pivots is <= 2^53)", rn, n,
                  f->cname, fx_mode(), det, x->det);
        }
    }
    if (fam != FAM_LLT)
    {
        int esign = fam == FAM_PLU ? f->sign : 1;
        for (unsigned i = 0; i < n; ++i) { if (f->F[(size_t)n * i + i] < 0) { esign = -esign; } }
        snprintf(rn, sizeof(rn), "a_real_%s_sgndet", fn);
        vf_log("%s(n, A%s)", rn, fam == FAM_PLU ? ", sign" : "");
        ++vf.evals;
        FX_TRAP_ON()
        int const sgn = fam == FAM_PLU ? a_real_plu_sgndet(n, f->F, f->sign) : a_real_ldl_sgndet(n, f->F);
        FX_TRAP_OFF()
        inputs_intact(f, rn);
        cnt(fn, "_sgndet-equals-sign-of-pivot-product");
        if (sgn != esign) { viol2(rn, "not-sign-of-pivot-product", "%s n=%u class=%s: returned %d, sign * prod sign(pivot) = %d", rn, n, f->cname, sgn, esign); }
        double *Z = xd_copy(f->F, (size_t)n * n);
        unsigned const k = (unsigned)(vf.case_no % n);
        Z[(size_t)n * k + k] = (vf.case_no & 8) ? -0.0 : 0.0;
        vf_log("%s(n, A with pivot %u := 0)", rn, k);
        ++vf.evals;
        FX_TRAP_ON()
        int const z = fam == FAM_PLU ? a_real_plu_sgndet(n, Z, f->sign) : a_real_ldl_sgndet(n, Z);
        FX_TRAP_OFF()
        cnt(fn, "_sgndet-zero-pivot-gives-0");
        if (z != 0) { viol2(rn, "nonzero-for-zero-pivot", "%s n=%u: pivot %u set to zero but %d returned", rn, n, k, z); }
        free(Z);
    }
    if (fam == FAM_PLU)
    {
        double b[NMAX];
        for (unsigned i = 0; i < n; ++i) { b[i] = vf_uniform(r, -1.0, 1.0); }
        double *bx = xd_copy(b, n);
        gd_t Pb = gd_new(n);
        vf_log("a_real_plu_apply(n, p, b, Pb)");
        ++vf.evals;
        a_real_plu_apply(n, f->p, bx, Pb.v);
        gd_guard(&Pb, "a_real_plu_apply", "Pb");
        const_intact("a_real_plu_apply", "b", bx, b, n * sizeof(double));
        const_intact("a_real_plu_apply", "p", f->p, f->pref, n * sizeof(a_uint));
        VF_COUNT("plu_apply-equals-b[p[i]]");
        for (unsigned i = 0; i < n; ++i)
        {
            if (memcmp(&Pb.v[i], &b[f->p[i]], sizeof(double)) != 0)
            {
                viol2("a_real_plu_apply", "not-b-permuted-by-p", "n=%u class=%s: Pb[%u]=%a but b[p[%u]=%u]=%a", n, f->cname, i, Pb.v[i], i, f->p[i], b[f->p[i]]);
                break;
            }
        }
        gd_free(&Pb);
        free(bx);
    }
}

static void fx_case(uint64_t c, vf_rng *r)
{
    int const fam = (int)(c % 3);
    uint64_t const idx = c / 3;
    uint64_t const per_fam = vf_ncases(vf.tier) / 3;
    uint64_t const nstruct = per_fam * 6 / 10;
    unsigned const nc = ncls(fam) + (fam == FAM_PLU); /* + the exact Q L0 U0 class of this configuration */
    unsigned n, cls;
    if (idx < nstruct)
    {
        n = (unsigned)(idx % 12) + 1;
        cls = (unsigned)((idx / 12) % nc);
    }
    else
    {
        double const u = vf_unit(r);
        n = vf_chance(r, 1, 3) ? 1 + (unsigned)vf_below(r, 12) : 13 + (unsigned)(36.0 * u * u);
        if (n > NMAX) { n = NMAX; }
        cls = (unsigned)vf_below(r, nc);
    }
    if (fx_role(fam, cls) == FX_SKIP)
    {
        VF_COUNT("fenv-skipped-inexact-class");
        cls = fx_substitute(fam, r);
    }
    int const role = fx_role(fam, cls);
    fx_trap_class = role == FX_FAIL || role == FX_EXACT || role == FX_SUCCESS; /* FE_INVALID / FE_DIVBYZERO unmasked around the library calls */
    double *A0 = (double *)malloc((size_t)n * n * sizeof(double));
    char note[160];
    fx_t x;
    int const expect = fx_generate(fam, cls, n, r, A0, note, sizeof(note), &x);
    vf_log("rounding mode %s; family=%s n=%u class=%s %s expect=%s", fx_mode(), fam_name[fam], n, cls_name(fam, cls), note,
           expect == EXP_FAIL ? "failure (pivot exactly vanishing by construction)" : expect == EXP_SUCCESS ? "success (exactly factorable)" : "either");
    log_matrix("A", A0, n, n);

    fact_t f;
    factor(&f, fam, cls, n, expect, A0);
    if (!f.ok && expect == EXP_FAIL && vf_want_sample() && n >= 2 && n <= 4 && c % 5 == 1 && fegetround() != FE_TONEAREST)
    {
        vf_sample("a_real_%s n=%u class=%s (%s) under %s: A[0][0..1]=(%g,%g): failure reported as required", fam_name[fam], n, f.cname, note, fx_mode(), A0[0], A0[1]);
    }
    if (f.ok && f.judged)
    {
        unsigned skipped = 6; /* solve bound, second right-hand side / argument forms, inverse column bounds, inv vs inv_, det vs quad product, lndet */
        check_extract(&f);
        fx_det_sign_apply(&f, &x, r);
        if (role == FX_EXACT)
        {
            if (fx_exact_factors(&f, &x))
            {
                if (x.x_exact) { fx_solve_exact(&f, r); --skipped; }
                if (x.inv_exact) { fx_inverse_exact(&f); skipped -= 2; }
                if (x.det_known) { --skipped; }
                if (vf_want_sample() && n >= 3 && n <= 6 && c % 11 == 4 && fegetround() != FE_TONEAREST)
                {
                    vf_sample("a_real_%s n=%u class=%s under %s: stored factors == exact factors%s%s", fam_name[fam], n, f.cname, fx_mode(), x.x_exact ? ", lower/upper/solve of b = A*x0 == x0" : "",
                              x.det_known ? ", det == integer determinant" : "");
                }
            }
        }
        else { VF_COUNT("fenv-shape-only-class-judged"); }
        if (fam == FAM_LLT && n <= 24 && (cls == C_SPD || cls == C_SPD_INT || cls == C_SCALED || cls == C_DIAG || cls == C_TRIDIAG)) { ++skipped; }
        VF_ADD("fenv-skipped-inexact-clause", skipped);
    }
    fact_free(&f);
    free(x.EF);
    free(A0);
    fx_trap_class = 1; /* integer triangular factors built by the harness: exact by construction */
    if (c / 36 % 4 == 0) { check_user_built(fam, n, r); }
    fx_trap_class = 0;
}
#endif /* VF_FENV_ROTATE */

#ifdef VF_FENV_ROTATE
static void vf_case(uint64_t c, vf_rng *r) { fx_case(c, r); }
#else
static void vf_case(uint64_t c, vf_rng *r)
{
    int const fam = (int)(c % 3);
    uint64_t const idx = c / 3;
    uint64_t const per_fam = vf_ncases(vf.tier) / 3;
    uint64_t const nstruct = per_fam * 6 / 10;
    unsigned n, cls;
    if (idx < nstruct)
    {
        n = (unsigned)(idx % 12) + 1; /* n = 1..12 over every structure class, repeatedly */
        cls = (unsigned)((idx / 12) % ncls(fam));
    }
    else
    {
        double const u = vf_unit(r);
        n = vf_chance(r, 1, 3) ? 1 + (unsigned)vf_below(r, 12) : 13 + (unsigned)(36.0 * u * u);
        if (n > NMAX) { n = NMAX; }
        cls = (unsigned)vf_below(r, ncls(fam));
    }
    double *A0 = (double *)malloc((size_t)n * n * sizeof(double));
    char note[160];
    int expect;
    if (fam == FAM_PLU) { expect = gen_general(cls, n, r, A0, note, sizeof(note)); }
    else if (fam == FAM_LDL) { expect = gen_sym(cls, n, r, A0, note, sizeof(note)); }
    else { expect = gen_spd(cls, n, r, A0, note, sizeof(note)); }
    vf_log("family=%s n=%u class=%s %s expect=%s", fam_name[fam], n, cls_name(fam, cls), note,
           expect == EXP_FAIL ? "failure (pivot exactly vanishing by construction)" : expect == EXP_SUCCESS ? "success (exactly factorable)" : "either");
    log_matrix("A", A0, n, n);

    fact_t f;
    factor(&f, fam, cls, n, expect, A0);
    if (!f.ok && expect == EXP_FAIL && vf_want_sample() && n >= 2 && n <= 4 && c % 5 == 1)
    {
        vf_sample("a_real_%s n=%u class=%s (%s): A[0][0..1]=(%g,%g): failure reported as required", fam_name[fam], n, f.cname, note, A0[0], A0[1]);
    }
    if (f.ok && f.judged)
    {
        if (vf_want_sample() && n >= 3 && n <= 6 && c % 11 == 4)
        {
            vf_sample("a_real_%s n=%u class=%s A[0][0..2]=(%.6g,%.6g,%.6g): factors finite, shape ok, reconstruction within c*gamma bound; signature=%#" PRIx64, fam_name[fam], n,
                      f.cname, A0[0], A0[1], A0[2], f.sig);
        }
        check_extract(&f);
        check_solves(&f, r, 0);
        /* one judged case in three: the second right-hand side goes through the other documented argument forms of the sweeps
           (extracted factors, compact storage with the entries outside the argument poisoned) instead of the compact pipeline */
        if (vf_chance(r, 1, 3)) { check_forms(&f, r, vf_chance(r, 1, 2)); }
        else { check_solves(&f, r, 1); }
        check_inverse(&f);
        det_t d = check_det(&f);
        if (fam == FAM_LLT && n <= 24 && (cls == C_SPD || cls == C_SPD_INT || cls == C_SCALED || cls == C_DIAG || cls == C_TRIDIAG))
        {
            spd_det_agreement(&f, d);
        }
    }
    fact_free(&f);
    free(A0);
    /* one case in four (every (family, n) pair of the structured part comes round: 36 consecutive cases hold all of them) also
       drives the sweeps on integer factors built here, independent of the matrix of the case */
    if (c / 36 % 4 == 0) { check_user_built(fam, n, r); }
}
#endif /* VF_FENV_ROTATE */
