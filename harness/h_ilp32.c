/* Configuration "ilp32" of C01, C02, C17, C18, C19 (-DVF_ILP32=1|2|17|18|19): the routines EXECUTED as an i386 program - int, long, size_t and
 * pointers 32 bits wide (see vf_free32.h for how that is possible here).  Integer-only monitors, written with explicit 64-bit types so that the
 * references do not depend on the data model they are compiled for.
 *   17  table-driven CRCs (8/16/32/64 bit, both orders) against the bit-serial register, at once and in pieces, the reflection relation, messages that
 *       contain their own running register; both multiplicative hashes against the sum definition, string form against length form
 *   18  UTF-8: encoded length and bytes by the table, round trip, proper prefixes rejected, arbitrary bytes (length <= num and <= 6, continuation
 *       bytes), the length counter against the fold of the decoder
 *   19  integer square roots (floor property in 64-bit arithmetic), gcd / lcm, bit reversal, byte-order accessors against explicit byte arrays
 *   1,2 AVL / red-black histories with the 32-bit packed parent word: order, parent links, element set, height balance / path-length ratio after every call */
#ifndef VF_ILP32
#error "compile with -DVF_ILP32=1|2|17|18|19"
#endif
#if VF_ILP32 == 1
#define VF_PROP "C01"
#elif VF_ILP32 == 2
#define VF_PROP "C02"
#elif VF_ILP32 == 17
#define VF_PROP "C17"
#elif VF_ILP32 == 18
#define VF_PROP "C18"
#else
#define VF_PROP "C19"
#endif
#include "vf_free32.h"
#include "a/a.h"
_Static_assert(sizeof(a_size) == 4 && sizeof(a_u64) == 8, "ILP32 build expected");

#define BAD(key, ...) do { vf_m0(); __VA_ARGS__; vf_viol(key, vf_msg); } while (0)

#if VF_ILP32 == 17
#include "a/crc.h"
#include "a/hash.h"
static u64 wmask(unsigned w) { return w == 64 ? ~0ULL : ((1ULL << w) - 1); }
static u64 ref_rev(u64 x, unsigned w) { u64 y = 0; for (unsigned i = 0; i < w; ++i) { if (x >> i & 1) { y |= 1ULL << (w - 1 - i); } } return y; }
static u64 ref_crc(unsigned w, int lsb, u64 poly, u8 const *d, u32 n, u64 v)
{
    u64 const top = 1ULL << (w - 1), mask = wmask(w);
    if (lsb)
    {
        u64 const rp = ref_rev(poly, w);
        for (u32 i = 0; i < n; ++i) { v ^= d[i]; for (int b = 0; b < 8; ++b) { v = (v & 1) ? (v >> 1) ^ rp : v >> 1; } }
        return v & mask;
    }
    for (u32 i = 0; i < n; ++i) { v ^= (u64)d[i] << (w - 8); for (int b = 0; b < 8; ++b) { v = (v & top) ? ((v << 1) ^ poly) : (v << 1); } v &= mask; }
    return v & mask;
}
static a_u8 t8[256]; static a_u16 t16[256]; static a_u32 t32[256]; static a_u64 t64[256];
static void lib_init(unsigned w, int lsb, u64 poly)
{
    switch (w)
    {
    case 8: if (lsb) { a_crc8l_init(t8, (a_u8)poly); } else { a_crc8m_init(t8, (a_u8)poly); } break;
    case 16: if (lsb) { a_crc16l_init(t16, (a_u16)poly); } else { a_crc16m_init(t16, (a_u16)poly); } break;
    case 32: if (lsb) { a_crc32l_init(t32, (a_u32)poly); } else { a_crc32m_init(t32, (a_u32)poly); } break;
    default: if (lsb) { a_crc64l_init(t64, poly); } else { a_crc64m_init(t64, poly); } break;
    }
}
static u64 lib_crc(unsigned w, int lsb, void const *p, u32 n, u64 v)
{
    switch (w)
    {
    case 8: return a_crc8(t8, p, n, (a_u8)v);
    case 16: return lsb ? a_crc16l(t16, p, n, (a_u16)v) : a_crc16m(t16, p, n, (a_u16)v);
    case 32: return lsb ? a_crc32l(t32, p, n, (a_u32)v) : a_crc32m(t32, p, n, (a_u32)v);
    default: return lsb ? a_crc64l(t64, p, n, v) : a_crc64m(t64, p, n, v);
    }
}
static u64 tab_get(unsigned w, unsigned c) { return w == 8 ? t8[c] : w == 16 ? t16[c] : w == 32 ? t32[c] : t64[c]; }
static char const *nm(unsigned w, int lsb)
{
    static char const *const N[4][2] = {{"crc8(m-table)", "crc8(l-table)"}, {"crc16m", "crc16l"}, {"crc32m", "crc32l"}, {"crc64m", "crc64l"}};
    return N[w == 8 ? 0 : w == 16 ? 1 : w == 32 ? 2 : 3][lsb];
}
static void crc_one(vf_rng *r, unsigned w, int lsb)
{
    static u8 m[700];
    u64 const mask = wmask(w), poly = (vf_u64(r) >> (vf_below(r, 2) ? 0 : vf_below(r, w))) & mask, init = vf_below(r, 4) == 0 ? mask : vf_below(r, 4) == 0 ? 0 : vf_u64(r) & mask;
    u32 n = (u32)(vf_below(r, 5) ? vf_below(r, 97) : 100 + vf_below(r, 600));
    unsigned const wb = w / 8;
    char key[96];
    u64 got, want;
    for (u32 i = 0; i < n; ++i) { m[i] = (u8)vf_u64(r); }
    if (vf_below(r, 3) == 0 && n >= 2 * wb + 8)
    {
        /* the message contains its own running register followed by zeros (see h_crc.c, check_embedded) */
        u32 const pre = (u32)vf_below(r, n - 2 * wb - 4);
        u64 const run = ref_crc(w, lsb, poly, m, pre, init);
        int const big = vf_below(r, 4) ? !lsb : lsb;
        for (unsigned k = 0; k < wb; ++k) { m[pre + k] = (u8)(run >> (big ? 8 * (wb - 1 - k) : 8 * k)); }
        for (unsigned k = 0; k < wb + 2; ++k) { m[pre + wb + k] = 0; }
        VF_COUNT("ilp32-crc-message-containing-its-running-register");
    }
    lib_init(w, lsb, poly);
    /* table entries against the definition */
    for (unsigned c = 0; c < 256; c += 1 + (unsigned)vf_below(r, 7))
    {
        u8 const b = (u8)c;
        want = ref_crc(w, lsb, poly, &b, 1, 0);
        if (tab_get(w, c) != want) { vf_m0(); vf_ms(nm(w, lsb)); vf_ms(" table entry "); vf_mu(c); vf_ms(" for poly "); vf_mx(poly); vf_ms(" = "); vf_mx(tab_get(w, c)); vf_ms(", division gives "); vf_mx(want); vf_viol("crc/ilp32/table-entry-ne-division", vf_msg); break; }
    }
    got = lib_crc(w, lsb, m, n, init);
    want = ref_crc(w, lsb, poly, m, n, init);
    ++vf.evals;
    VF_COUNT("ilp32-crc-vs-bitwise-division");
    if (got != want)
    {
        vf_m0(); vf_ms("a_"); vf_ms(nm(w, lsb)); vf_ms(" poly "); vf_mx(poly); vf_ms(" value "); vf_mx(init); vf_ms(" over "); vf_mu(n); vf_ms(" bytes = "); vf_mx(got); vf_ms(", bit-by-bit division gives "); vf_mx(want);
        vf_ms(" (i386 build: unsigned long has 32 bits)");
        vf_m0(); vf_ms("crc/ilp32/"); vf_ms(nm(w, lsb)); vf_ms("/ne-bitwise-division");
        { unsigned k = 0; while (vf_msg[k] && k < sizeof key - 1) { key[k] = vf_msg[k]; ++k; } key[k] = 0; }
        vf_m0(); vf_ms("a_"); vf_ms(nm(w, lsb)); vf_ms(" poly "); vf_mx(poly); vf_ms(" value "); vf_mx(init); vf_ms(" over "); vf_mu(n); vf_ms(" bytes = "); vf_mx(got); vf_ms(", bit-by-bit division gives "); vf_mx(want);
        vf_viol(key, vf_msg);
    }
    /* pieces: every split point for short messages, a few for long ones */
    for (u32 cut = 0; cut <= n; cut += (n <= 96 ? 1 : 1 + (u32)vf_below(r, 97)))
    {
        u64 const v = lib_crc(w, lsb, m + cut, n - cut, lib_crc(w, lsb, m, cut, init));
        ++vf.evals;
        VF_COUNT("ilp32-crc-two-pieces");
        if (v != got) { BAD("crc/ilp32/two-pieces-ne-whole", vf_ms(nm(w, lsb)); vf_ms(" cut at "); vf_mu(cut); vf_ms(" of "); vf_mu(n); vf_ms(": "); vf_mx(v); vf_ms(" vs whole "); vf_mx(got)); break; }
    }
    /* the other bit order on the bit-reflected message */
    {
        static u8 rm[700];
        u64 other;
        for (u32 i = 0; i < n; ++i) { rm[i] = (u8)ref_rev(m[i], 8); }
        lib_init(w, !lsb, poly);
        other = lib_crc(w, !lsb, rm, n, ref_rev(init, w));
        VF_COUNT("ilp32-crc-reflection-relation");
        if (got != ref_rev(other, w)) { BAD("crc/ilp32/reflection-relation", vf_ms(nm(w, lsb)); vf_ms(" = "); vf_mx(got); vf_ms(" but reflect(other order on reflected data) = "); vf_mx(ref_rev(other, w))); }
    }
}
static void hash_one(vf_rng *r)
{
    static u8 m[300];
    u32 const n = (u32)vf_below(r, 200), v = (u32)vf_u64(r);
    u32 rb = v, rs = v, gb, gs;
    for (u32 i = 0; i < n; ++i) { m[i] = (u8)(1 + vf_below(r, 255)); rb = rb * 131u + m[i]; rs = rs * 65599u + m[i]; }
    m[n] = 0;
    gb = a_hash_bkdr_(m, n, v); gs = a_hash_sdbm_(m, n, v);
    ++vf.evals;
    VF_COUNT("ilp32-hash-vs-sum-definition");
    if (gb != rb) { BAD("hash/ilp32/bkdr_-ne-definition", vf_mx(gb); vf_ms(" vs "); vf_mx(rb)); }
    if (gs != rs) { BAD("hash/ilp32/sdbm_-ne-definition", vf_mx(gs); vf_ms(" vs "); vf_mx(rs)); }
    if (a_hash_bkdr(m, v) != rb) { BAD("hash/ilp32/bkdr-string-form", vf_mx(a_hash_bkdr(m, v)); vf_ms(" vs "); vf_mx(rb)); }
    if (a_hash_sdbm(m, v) != rs) { BAD("hash/ilp32/sdbm-string-form", vf_mx(a_hash_sdbm(m, v)); vf_ms(" vs "); vf_mx(rs)); }
}
static u64 vf_ncases(int tier) { return tier ? 400 : 40; }
static void vf_case(u64 c, vf_rng *r)
{
    static unsigned const W[4] = {8, 16, 32, 64};
    for (int k = 0; k < 24; ++k) { crc_one(r, W[(c + (u64)k) & 3], (int)((c >> 2) + (u64)k / 4) & 1); }
    for (int k = 0; k < 8; ++k) { hash_one(r); }
    vf_distinct(vf_hash64(0x3217, c & 7));
}

#elif VF_ILP32 == 18
#include "a/utf.h"
static unsigned ref_len(u32 c) { return c < 0x80 ? 1 : c < 0x800 ? 2 : c < 0x10000 ? 3 : c < 0x200000 ? 4 : c < 0x4000000 ? 5 : 6; }
static void ref_enc(u32 c, unsigned L, u8 *o)
{
    static u8 const lead[7] = {0, 0, 0xC0, 0xE0, 0xF0, 0xF8, 0xFC};
    if (L == 1) { o[0] = (u8)c; return; }
    for (unsigned i = L - 1; i > 0; --i) { o[i] = (u8)(0x80 | (c & 0x3F)); c >>= 6; }
    o[0] = (u8)(lead[L] | c);
}
static void roundtrip(u32 c)
{
    u8 e[8] = {0}, ref[8];
    unsigned const L = ref_len(c);
    a_u32 v = ~c;
    unsigned n;
    ref_enc(c, L, ref);
    ++vf.evals;
    VF_COUNT("ilp32-utf-roundtrip");
    n = a_utf_encode(c, 0);
    if (n != L) { BAD("utf/ilp32/encode-null-length", vf_mx(c); vf_ms(": "); vf_mu(n); vf_ms(" vs table "); vf_mu(L)); }
    n = a_utf_encode(c, e);
    if (n != L || memcmp(e, ref, L)) { BAD("utf/ilp32/encode-bytes", vf_mx(c); vf_ms(": length "); vf_mu(n); vf_ms(" vs table "); vf_mu(L)); return; }
    n = a_utf_decode(e, L, &v);
    if (n != L || v != c) { BAD("utf/ilp32/decode-roundtrip", vf_mx(c); vf_ms(": length "); vf_mu(n); vf_ms(" value "); vf_mx(v)); }
    if (a_utf_decode(e, L, 0) != L) { BAD("utf/ilp32/decode-null-val", vf_mx(c)); }
    for (unsigned k = 0; k < L; ++k) { if (a_utf_decode(e, k, &v)) { BAD("utf/ilp32/prefix-accepted", vf_mx(c); vf_ms(" first "); vf_mu(k); vf_ms(" bytes")); break; } }
}
static void bytes(vf_rng *r)
{
    static u8 const reps[12] = {0x00, 0x7F, 0x80, 0xBF, 0xC0, 0xC2, 0xE0, 0xF0, 0xF8, 0xFC, 0xFE, 0xFF};
    u8 s[24];
    u32 const n = (u32)vf_below(r, 20);
    u32 at = 0, cnt = 0;
    a_size stop = 77, got;
    for (u32 i = 0; i < n; ++i) { s[i] = vf_below(r, 3) ? reps[vf_below(r, 12)] : (u8)vf_u64(r); }
    ++vf.evals;
    VF_COUNT("ilp32-utf-arbitrary-bytes");
    for (u32 k = 0; k <= n; ++k)
    {
        a_u32 v = 0;
        unsigned const d = a_utf_decode(s, k, &v);
        if (d > k || d > 6) { BAD("utf/ilp32/decode-length-exceeds-num-or-6", vf_mu(d); vf_ms(" of "); vf_mu(k)); return; }
        for (unsigned j = 1; j < d; ++j) { if ((s[j] & 0xC0) != 0x80) { BAD("utf/ilp32/trailing-byte-not-continuation", vf_mu(j)); return; } }
    }
    while (at < n) { a_u32 v; unsigned const d = a_utf_decode(s + at, n - at, &v); if (!d) { break; } at += d; ++cnt; }
    got = a_utf_length(s, n, &stop);
    VF_COUNT("ilp32-utf-length-equals-decode-fold");
    if (got != cnt || stop != at) { BAD("utf/ilp32/length-ne-decode-fold", vf_mu(got); vf_ms("/"); vf_mu(stop); vf_ms(" vs fold "); vf_mu(cnt); vf_ms("/"); vf_mu(at)); }
}
static u64 vf_ncases(int tier) { return tier ? 400 : 40; }
static void vf_case(u64 c, vf_rng *r)
{
    static u32 const border[5] = {0x80, 0x800, 0x10000, 0x200000, 0x4000000};
    for (int b = 0; b < 5; ++b) { for (u32 d = 0; d < 48; ++d) { roundtrip(border[b] - 24 + d + (u32)(c % 7)); } }
    roundtrip(1); roundtrip(0x7FFFFFFFu);
    for (int k = 0; k < 3000; ++k) { roundtrip(1 + (u32)vf_below(r, border[vf_below(r, 5)] * (vf_below(r, 2) ? 1u : 31u) % 0x7FFFFFFFu)); }
    for (int k = 0; k < 1500; ++k) { bytes(r); }
    vf_distinct(vf_hash64(0x3218, c & 7));
}

#elif VF_ILP32 == 19
#include "a/math.h"
static u64 bgcd(u64 a, u64 b) { while (b) { u64 t = a % b; a = b; b = t; } return a; }
static void sqrt_one(u64 x)
{
    u64 const r = a_u64_sqrt(x);
    ++vf.evals;
    VF_COUNT("ilp32-sqrt-floor-property");
    /* r <= 2^32 - 1 always; (r + 1)^2 overflows only for r = 2^32 - 1 */
    if (r > 0xFFFFFFFFULL || r * r > x || (r < 0xFFFFFFFFULL && (r + 1) * (r + 1) <= x)) { BAD("int/ilp32/u64_sqrt/not-floor-root", vf_mx(x); vf_ms(" -> "); vf_mx(r)); }
    if (x <= 0xFFFFFFFFULL)
    {
        u64 const q = a_u32_sqrt((a_u32)x);
        if (q * q > x || (q + 1) * (q + 1) <= x) { BAD("int/ilp32/u32_sqrt/not-floor-root", vf_mx(x); vf_ms(" -> "); vf_mx(q)); }
    }
}
static u64 vf_ncases(int tier) { return tier ? 400 : 40; }
static void vf_case(u64 c, vf_rng *r)
{
    for (int k = 0; k < 400; ++k)
    {
        u64 const kk = vf_u64(r) >> (32 + vf_below(r, 32)), x = vf_u64(r) >> vf_below(r, 64), y = vf_u64(r) >> vf_below(r, 64);
        sqrt_one(kk * kk); sqrt_one(kk * kk - 1 + (kk == 0)); sqrt_one(kk * kk + 1); sqrt_one(x);
        sqrt_one((1ULL << vf_below(r, 64)) - vf_below(r, 2)); sqrt_one(~0ULL - vf_below(r, 1 << 16));
        {
            /* both arguments multiples of a high power of two (a binary gcd counts trailing zeros of the FULL operand; seeded change C19-L: __builtin_ctzl
               on a 64-bit operand where long has 32 bits) */
            u64 const i2 = (vf_u64(r) >> 40) | 1, j2 = (vf_u64(r) >> 40) | 1;
            unsigned const sa = (unsigned)vf_below(r, 40), sb = (unsigned)vf_below(r, 40);
            u64 const p = i2 << sa, q = j2 << sb, gp = a_u64_gcd(p, q), rp = bgcd(p, q);
            VF_COUNT("ilp32-gcd-common-power-of-two");
            if (gp != rp) { BAD("int/ilp32/u64_gcd/common-power-of-two", vf_mx(p); vf_ms(","); vf_mx(q); vf_ms(" -> "); vf_mx(gp); vf_ms(" vs "); vf_mx(rp)); }
        }
        {
            u64 const g = a_u64_gcd(x, y), rg = bgcd(x, y);
            u32 const g32 = a_u32_gcd((a_u32)x, (a_u32)y);
            ++vf.evals;
            VF_COUNT("ilp32-gcd-lcm");
            if (g != rg) { BAD("int/ilp32/u64_gcd", vf_mx(x); vf_ms(","); vf_mx(y); vf_ms(" -> "); vf_mx(g); vf_ms(" vs "); vf_mx(rg)); }
            if (g32 != (u32)bgcd((u32)x, (u32)y)) { BAD("int/ilp32/u32_gcd", vf_mx((u32)x); vf_ms(","); vf_mx((u32)y); vf_ms(" -> "); vf_mx(g32)); }
            {
                u64 const a = x & 0xFFFFFFFFULL, b = y & 0xFFFFFFFFULL, l = a_u64_lcm(a, b), gg = bgcd(a, b);
                if (gg && l * gg != a * b) { BAD("int/ilp32/u64_lcm", vf_mx(a); vf_ms(","); vf_mx(b); vf_ms(" -> "); vf_mx(l)); }
                if ((a & 0xFFFF) && (b & 0xFFFF)) { u32 const l32 = a_u32_lcm((a_u32)(a & 0xFFFF), (a_u32)(b & 0xFFFF)); if ((u64)l32 * bgcd(a & 0xFFFF, b & 0xFFFF) != (a & 0xFFFF) * (b & 0xFFFF)) { BAD("int/ilp32/u32_lcm", vf_mx(a & 0xFFFF); vf_ms(","); vf_mx(b & 0xFFFF); vf_ms(" -> "); vf_mx(l32)); } }
            }
        }
        {
            u64 rv = 0; u8 b[9];
            for (int i = 0; i < 64; ++i) { if (x >> i & 1) { rv |= 1ULL << (63 - i); } }
            ++vf.evals;
            VF_COUNT("ilp32-rev-and-byte-order");
            if (a_u64_rev(x) != rv) { BAD("int/ilp32/u64_rev", vf_mx(x); vf_ms(" -> "); vf_mx(a_u64_rev(x))); }
            if (a_u32_rev((a_u32)x) != (a_u32)(rv >> 32)) { BAD("int/ilp32/u32_rev", vf_mx((u32)x)); }
            if (a_u16_rev((a_u16)x) != (a_u16)(rv >> 48)) { BAD("int/ilp32/u16_rev", vf_mx((u16)x)); }
            if (a_u8_rev((a_u8)x) != (a_u8)(rv >> 56)) { BAD("int/ilp32/u8_rev", vf_mx((u8)x)); }
            a_u64_setl(b + 1, x);
            for (int i = 0; i < 8; ++i) { if (b[1 + i] != (u8)(x >> (8 * i))) { BAD("int/ilp32/u64_setl-layout", vf_mx(x)); break; } }
            if (a_u64_getl(b + 1) != x) { BAD("int/ilp32/u64_getl", vf_mx(x)); }
            a_u64_setb(b + 1, x);
            for (int i = 0; i < 8; ++i) { if (b[1 + i] != (u8)(x >> (8 * (7 - i)))) { BAD("int/ilp32/u64_setb-layout", vf_mx(x)); break; } }
            if (a_u64_getb(b + 1) != x) { BAD("int/ilp32/u64_getb", vf_mx(x)); }
            a_u32_setl(b, (a_u32)y); if (a_u32_getl(b) != (a_u32)y || b[0] != (u8)y) { BAD("int/ilp32/u32_l", vf_mx((u32)y)); }
            a_u32_setb(b, (a_u32)y); if (a_u32_getb(b) != (a_u32)y || b[3] != (u8)y) { BAD("int/ilp32/u32_b", vf_mx((u32)y)); }
            a_u16_setl(b, (a_u16)y); if (a_u16_getl(b) != (a_u16)y || b[0] != (u8)y) { BAD("int/ilp32/u16_l", vf_mx((u16)y)); }
            a_u16_setb(b, (a_u16)y); if (a_u16_getb(b) != (a_u16)y || b[1] != (u8)y) { BAD("int/ilp32/u16_b", vf_mx((u16)y)); }
        }
    }
    vf_distinct(vf_hash64(0x3219, c & 7));
}

#else /* trees */
#if VF_ILP32 == 2
#include "a/rbt.h"
#define T_(x) a_rbt_##x
#define TN "rbt"
typedef a_rbt troot;
typedef a_rbt_node tnode;
#else
#include "a/avl.h"
#define T_(x) a_avl_##x
#define TN "avl"
typedef a_avl troot;
typedef a_avl_node tnode;
#endif
#define NPOOL 700
typedef struct { tnode n; int key; int live; } hn;
static int cmp_node(void const *l, void const *r) { int const a = ((hn const *)l)->key, b = ((hn const *)r)->key; return (a > b) - (a < b); }
typedef struct { int count, ok, minh, maxh; char const *why; } wres;
static int walk(tnode *x, tnode *parent, int lo, int hi, int depth, wres *w)
{
    hn *h = (hn *)x;
    int l, r;
    if (!x) { if (depth < w->minh) { w->minh = depth; } if (depth > w->maxh) { w->maxh = depth; } return 0; }
    if (depth > 64 || w->count > NPOOL) { w->ok = 0; w->why = "walk does not terminate"; return 0; }
    ++w->count;
    if (T_(parent)(x) != parent) { w->ok = 0; w->why = "parent link does not point back to the parent (root: not null)"; }
    if (!h->live) { w->ok = 0; w->why = "a removed node is reachable"; }
    if (!(h->key > lo && h->key < hi)) { w->ok = 0; w->why = "search-tree order violated"; }
    if (!w->ok) { return 0; }
    l = walk(x->left, x, lo, h->key, depth + 1, w);
    r = w->ok ? walk(x->right, x, h->key, hi, depth + 1, w) : 0;
#if VF_ILP32 == 1
    if (w->ok && (l - r > 1 || r - l > 1)) { w->ok = 0; w->why = "subtree heights differ by more than one"; }
#endif
    return 1 + (l > r ? l : r);
}
static void judge(char const *op, troot *root, int expect, int key)
{
    wres w = {0, 1, 1 << 30, 0, ""};
    ++vf.evals;
    VF_COUNT("ilp32-tree-walk-after-every-call");
    (void)walk(root->node, 0, -1, 1 << 30, 0, &w);
    if (w.ok && w.count != expect) { w.ok = 0; w.why = "element count differs from the model"; }
#if VF_ILP32 == 2
    if (w.ok && expect && w.maxh > 2 * w.minh) { w.ok = 0; w.why = "a path more than twice as long as another"; }
#endif
    if (!w.ok) { vf_m0(); vf_ms(TN "/ilp32/"); vf_ms(op); { char key2[64]; unsigned k = 0; while (vf_msg[k] && k < 63) { key2[k] = vf_msg[k]; ++k; } key2[k] = 0; vf_m0(); vf_ms(op); vf_ms(" key "); vf_mu((u64)key); vf_ms(" (i386 build, 32-bit packed parent word): "); vf_ms(w.why); vf_ms("; reached "); vf_mu((u64)w.count); vf_ms(" model "); vf_mu((u64)expect); vf_viol(key2, vf_msg); } }
}
static u64 vf_ncases(int tier) { return tier ? 300 : 30; }
static void vf_case(u64 c, vf_rng *r)
{
    static hn pool[NPOOL];
    troot root;
    int live = 0;
    unsigned const nops = 300 + (unsigned)vf_below(r, 1500), keys = 8 + (unsigned)vf_below(r, NPOOL - 8), pat = (unsigned)vf_below(r, 4);
    T_(root)(&root);
    for (int i = 0; i < NPOOL; ++i) { pool[i].live = 0; pool[i].key = i; }
    for (unsigned op = 0; op < nops && !vf.case_viol; ++op)
    {
        unsigned const i = pat == 1 ? op % keys : pat == 2 ? keys - 1 - op % keys : (unsigned)vf_below(r, keys), what = (unsigned)vf_below(r, 8);
        hn *const h = (what == 7 && root.node) ? (hn *)root.node : &pool[i];
        if (!h->live && (what < 5 || pat))
        {
            tnode *res = T_(insert)(&root, &h->n, cmp_node);
            if (res) { BAD(TN "/ilp32/insert/new-key-refused", vf_mu((u64)h->key)); break; }
            h->live = 1; ++live;
            judge("insert", &root, live, h->key);
        }
        else if (h->live && (what >= 3 || pat))
        {
            if (what == 3) { tnode *res = T_(insert)(&root, &h->n, cmp_node); if (res != &h->n) { BAD(TN "/ilp32/dup-insert/resident-not-returned", vf_mu((u64)h->key)); break; } judge("dup-insert", &root, live, h->key); continue; }
            T_(remove)(&root, &h->n);
            h->live = 0; --live;
            judge("remove", &root, live, h->key);
        }
        else
        {
            tnode *res = T_(search)(&root, h, cmp_node);
            if ((res != 0) != (h->live != 0) || (res && res != &h->n)) { BAD(TN "/ilp32/search/disagrees-with-model", vf_mu((u64)h->key)); break; }
        }
    }
    vf_distinct(vf_hash64(0x3201, pat + 4 * (c & 3)));
}
#endif
