/* C13 - membership functions, fuzzy operators and fuzzy gain scheduling stay within range.
 *
 * Three monitor groups (DESIGN.md section 4, C13):
 *   MF   every a_mf_* family: range, documented formula (quad reference), core == 1, support == 0,
 *        monotone flanks, continuity at break points, s+z / lins+linz complement, dispatcher a_mf.
 *   OP   a_fuzzy_* operators: commutativity, exact formula, monotone, min/max bounds, boundary
 *        identities, inline == exported == the pointer a_pid_fuzzy_opr hands out.
 *   PID  a_pid_fuzzy_{run,pos,inc}: gains == base + weighted mean of the active consequents
 *        (quad), finite, inside [min,max] of the active consequents; scratch buffer is an exact-size
 *        heap block of A_PID_FUZZY_BFUZZ(N) bytes (ASan red zone directly behind it).
 *
 * Tolerances (DESIGN.md C13; deviations are explained where they are used):
 *   MF range      bitwise [0,1]; dsig [-2eps, 1+2eps]
 *   MF formula    4 ulps. One "ulp" is eps*S where S = |ref| for the piecewise families and, for the
 *                 exp/pow based families, |ref| times the condition number of the final exp/pow/
 *                 reciprocal with respect to its (rounded) argument: a correctly rounded libm cannot
 *                 do better than that (gauss(x) = exp(y) inherits |y| * relerr(y)). An absolute floor
 *                 of 2*DBL_MIN keeps the test sane where the value underflows.
 *   MF monotone   none for trap/tri/lins/linz, 2 ulps for the pow/exp families, 2eps absolute for dsig
 *   MF continuity 2 * L * ulp(x) + 8eps (L local Lipschitz bound; 8eps = the formula tolerance of the
 *                 two values that are compared, without which a wide set (L*ulp(x) << eps) false-alarms)
 *   complement    2eps
 *   OP            min/max bitwise; arithmetic operators absolute 2eps
 *   PID           (n^2+1)*eps*max|active consequent| (+ eps*|gain| for the final base+delta rounding
 *                 when the base gain is not 0). DESIGN.md says n^2; the rigorous first-order bound for
 *                 m active rules is (m+1/2)*eps, which exceeds n^2*eps for n = 1 (one product, one
 *                 reciprocal, one product = 1.5 eps), so n^2+1 is used.
 */
#define VF_PROP "C13"
#define VF_HAVE_INIT
#define VF_HAVE_FINI
#include "vf_common.h"
#include <math.h>
#include <float.h>
#include <quadmath.h>
#include "a/a.h"
#include "a/mf.h"
#include "a/fuzzy.h"
#include "a/pid_fuzzy.h"

_Static_assert(sizeof(a_real) == 8, "C13 harness expects a_real == double");

typedef __float128 q_t;
#define EPS DBL_EPSILON

double vfx_fuzzy_not(double x);
double vfx_fuzzy_cap(double a, double b);
double vfx_fuzzy_cap_algebra(double a, double b);
double vfx_fuzzy_cap_bounded(double a, double b);
double vfx_fuzzy_cup(double a, double b);
double vfx_fuzzy_cup_algebra(double a, double b);
double vfx_fuzzy_cup_bounded(double a, double b);

/* ------------------------------------------------------------------ helpers */
static q_t q_abs(q_t x) { return x < 0 ? -x : x; }
static q_t q_sq(q_t x) { return x * x; }
static q_t q_min(q_t a, q_t b) { return a < b ? a : b; }
static q_t q_max(q_t a, q_t b) { return a > b ? a : b; }

static int64_t d2i(double x)
{
    int64_t i;
    memcpy(&i, &x, 8);
    if (i < 0) { i = INT64_MIN - i; }
    return i;
}
static double i2d(int64_t i)
{
    double x;
    if (i < 0) { i = INT64_MIN - i; }
    memcpy(&x, &i, 8);
    return x;
}
/* move x by k units in the last place (clamped to +-DBL_MAX) */
static double step_ulps(double x, int64_t k)
{
    int64_t const top = d2i(DBL_MAX);
    int64_t i = d2i(x);
    if (k > 0 && i > top - k) { i = top; }
    else if (k < 0 && i < -top - k) { i = -top; }
    else { i += k; }
    return i2d(i);
}
/* distance to the neighbouring doubles (the larger one) */
static double spacing(double x)
{
    double a = step_ulps(x, 1) - x, b = x - step_ulps(x, -1);
    return a > b ? a : b;
}
static int same_bits(double a, double b) { return memcmp(&a, &b, 8) == 0 || (a == 0 && b == 0) || (a != a && b != b); }

/* ------------------------------------------------------------------ families */
static char const *const fam_name[14] = {"nul", "gauss", "gauss2", "gbell", "sig", "dsig", "psig", "trap",
                                         "tri", "lins", "linz", "s", "z", "pi"};
static int const fam_np[14] = {0, 2, 4, 3, 2, 4, 4, 4, 3, 2, 2, 2, 2, 4};

static double lib_mf(int f, double x, double const *p)
{
    switch (f)
    {
    case A_MF_GAUSS: return a_mf_gauss(x, p[0], p[1]);
    case A_MF_GAUSS2: return a_mf_gauss2(x, p[0], p[1], p[2], p[3]);
    case A_MF_GBELL: return a_mf_gbell(x, p[0], p[1], p[2]);
    case A_MF_SIG: return a_mf_sig(x, p[0], p[1]);
    case A_MF_DSIG: return a_mf_dsig(x, p[0], p[1], p[2], p[3]);
    case A_MF_PSIG: return a_mf_psig(x, p[0], p[1], p[2], p[3]);
    case A_MF_TRAP: return a_mf_trap(x, p[0], p[1], p[2], p[3]);
    case A_MF_TRI: return a_mf_tri(x, p[0], p[1], p[2]);
    case A_MF_LINS: return a_mf_lins(x, p[0], p[1]);
    case A_MF_LINZ: return a_mf_linz(x, p[0], p[1]);
    case A_MF_S: return a_mf_s(x, p[0], p[1]);
    case A_MF_Z: return a_mf_z(x, p[0], p[1]);
    case A_MF_PI: return a_mf_pi(x, p[0], p[1], p[2], p[3]);
    default: return 0;
    }
}

/* degeneracy class of a parameter tuple (goes into violation keys and into the distinct cells) */
static int classify(int f, double const *p, char const **name)
{
    int k = 0;
    char const *n = "-";
    switch (f)
    {
    case A_MF_TRAP:
    {
        static char const *const nm[8] = {"a<b<c<d", "a=b", "b=c", "a=b=c", "c=d", "a=b,c=d", "b=c=d", "a=b=c=d"};
        k = (p[0] == p[1]) | (p[1] == p[2]) << 1 | (p[2] == p[3]) << 2;
        n = nm[k];
        break;
    }
    case A_MF_TRI:
    {
        static char const *const nm[4] = {"a<b<c", "a=b", "b=c", "a=b=c"};
        k = (p[0] == p[1]) | (p[1] == p[2]) << 1;
        n = nm[k];
        break;
    }
    case A_MF_LINS:
    case A_MF_LINZ:
    case A_MF_S:
    case A_MF_Z:
        k = p[0] == p[1];
        n = k ? "a=b" : "a<b";
        break;
    case A_MF_PI:
        k = p[1] == p[2];
        n = k ? "b=c" : "b<c";
        break;
    case A_MF_GAUSS2:
    case A_MF_DSIG:
        k = p[1] == p[3];
        n = k ? "c1=c2" : "c1<c2";
        break;
    case A_MF_GBELL:
        if (p[1] == 0.5) { k = 0; n = "2b=1"; }
        else if (p[1] == 1) { k = 1; n = "b=1"; }
        else if (p[1] == floor(p[1])) { k = 2; n = "b=int"; }
        else { k = 3; n = "b=frac"; }
        break;
    case A_MF_SIG:
        k = p[0] < 0;
        n = k ? "a<0" : "a>0";
        break;
    case A_MF_PSIG:
        if (p[0] > 0 && p[2] < 0) { k = 0; n = "bump"; }
        else if (p[0] > 0 && p[2] > 0) { k = 1; n = "rise"; }
        else if (p[0] < 0 && p[2] < 0) { k = 2; n = "fall"; }
        else { k = 3; n = "valley"; }
        break;
    default: break;
    }
    if (name) { *name = n; }
    return k;
}

/* ------------------------------------------------------------------ quad reference of the documented formulas */
typedef struct
{
    q_t v; /* documented value */
    q_t alt; /* value of the neighbouring piece (accepted where the rounded break point decides) */
    q_t S; /* scale of one "ulp" (see file header) */
    int has_alt;
    int any; /* documentation gives two different values here (lins/linz with a == b at x == a) */
    int core; /* must be exactly 1 */
    int support; /* must be exactly 0 */
} refv;

static void ref_gauss(q_t x, q_t sigma, q_t c, refv *r)
{
    q_t t = (x - c) / sigma, y = -t * t / 2;
    if (x == c) { r->v = 1; r->S = 1; r->core = 1; return; }
    r->v = (y < -11400) ? 0 : expq(y);
    r->S = r->v * (1 + q_abs(y));
}
static void ref_sig(q_t x, q_t a, q_t c, q_t *v, q_t *S)
{
    q_t z = (c - x) * a, s;
    if (z > 11000) { s = 0; }
    else if (z < -11000) { s = 1; }
    else { s = 1 / (1 + expq(z)); }
    *v = s;
    *S = s * (1 + (1 - s) * q_abs(z));
}
/* interior of an S-shaped flank a < x < b; up = 1: rising (a_mf_s), 0: falling (a_mf_z) */
static void ref_sz(q_t x, q_t a, q_t b, int up, refv *r)
{
    q_t m = (a + b) / 2, w = b - a;
    q_t ql = 2 * q_sq((x - a) / w), qh = 2 * q_sq((b - x) / w);
    q_t lo = up ? ql : 1 - ql; /* documented piece for a <= x <= m */
    q_t hi = up ? 1 - qh : qh; /* documented piece for m <= x <= b */
    if (q_abs(x - m) <= (q_t)spacing((double)m))
    {
        /* the library decides with the rounded midpoint; both pieces meet at m, accept either */
        r->has_alt = 1;
        r->alt = (x <= m) ? hi : lo;
    }
    r->v = (x <= m) ? lo : hi;
    r->S = q_abs(r->v);
}
static void ref_mf(int f, double xd, double const *p, refv *r)
{
    q_t x = xd, a = p[0], b = p[1], c = fam_np[f] > 2 ? p[2] : 0, d = fam_np[f] > 3 ? p[3] : 0;
    memset(r, 0, sizeof(*r));
    switch (f)
    {
    case A_MF_GAUSS: ref_gauss(x, a, b, r); break;
    case A_MF_GAUSS2:
        if (x < b) { ref_gauss(x, a, b, r); }
        else if (x > d) { ref_gauss(x, c, d, r); }
        else { r->v = 1; r->S = 1; r->core = 1; }
        break;
    case A_MF_GBELL:
    {
        q_t t = q_abs((x - c) / a), P, v;
        if (x == c) { r->v = 1; r->S = 1; r->core = 1; break; }
        P = powq(t, 2 * b);
        v = 1 / (1 + P);
        if (!(v == v)) { v = 0; }
        r->v = v;
        r->S = v * (1 + (1 - v) * q_max(b, 1));
        break;
    }
    case A_MF_SIG: ref_sig(x, a, b, &r->v, &r->S); break;
    case A_MF_DSIG:
    {
        q_t v1, v2, s1, s2;
        ref_sig(x, a, b, &v1, &s1);
        ref_sig(x, c, d, &v2, &s2);
        r->v = v1 - v2;
        r->S = s1 + s2;
        break;
    }
    case A_MF_PSIG:
    {
        q_t v1, v2, s1, s2;
        ref_sig(x, a, b, &v1, &s1);
        ref_sig(x, c, d, &v2, &s2);
        r->v = v1 * v2;
        r->S = s1 * v2 + s2 * v1;
        break;
    }
    case A_MF_TRAP:
        if (x >= b && x <= c) { r->v = 1; r->core = 1; }
        else if (x <= a || x >= d) { r->v = 0; r->support = 1; }
        else if (x < b) { r->v = (x - a) / (b - a); }
        else { r->v = (d - x) / (d - c); }
        r->S = q_abs(r->v);
        break;
    case A_MF_TRI:
        if (x == b) { r->v = 1; r->core = 1; }
        else if (x <= a || x >= c) { r->v = 0; r->support = 1; }
        else if (x < b) { r->v = (x - a) / (b - a); }
        else { r->v = (c - x) / (c - b); }
        r->S = q_abs(r->v);
        break;
    case A_MF_LINS:
        if (x < a) { r->v = 0; r->support = 1; }
        else if (x > b) { r->v = 1; r->core = 1; }
        else if (a == b) { r->any = 1; }
        else
        {
            r->v = (x - a) / (b - a);
            r->core = x == b;
            r->support = x == a;
        }
        r->S = q_abs(r->v);
        break;
    case A_MF_LINZ:
        if (x < a) { r->v = 1; r->core = 1; }
        else if (x > b) { r->v = 0; r->support = 1; }
        else if (a == b) { r->any = 1; }
        else
        {
            r->v = (b - x) / (b - a);
            r->core = x == a;
            r->support = x == b;
        }
        r->S = q_abs(r->v);
        break;
    case A_MF_S:
        if (x <= a) { r->v = 0; r->support = 1; }
        else if (x >= b) { r->v = 1; r->S = 1; r->core = 1; }
        else { ref_sz(x, a, b, 1, r); }
        break;
    case A_MF_Z:
        if (x <= a) { r->v = 1; r->S = 1; r->core = 1; }
        else if (x >= b) { r->v = 0; r->support = 1; }
        else { ref_sz(x, a, b, 0, r); }
        break;
    case A_MF_PI:
        /* mf.h prints "1" for x >= d; that is a typo of the documentation (the pi shape returns to 0) */
        if (x >= b && x <= c) { r->v = 1; r->S = 1; r->core = 1; }
        else if (x <= a || x >= d) { r->v = 0; r->support = 1; }
        else if (x < b) { ref_sz(x, a, b, 1, r); }
        else { ref_sz(x, c, d, 0, r); }
        break;
    default: break;
    }
}

/* ------------------------------------------------------------------ MF: single point */
static double fam_max[14]; /* worst formula error / tolerance per family, flushed per case */
static char fam_max_arg[14][120];

/* evaluates the library at x and judges the value-level clauses; returns 1 if the value may be used
 * in the relational clauses (monotone, continuity, complement), 0 if it already was reported */
static int mf_eval(int f, double const *p, char const *dn, double x, double *out, refv *rvo)
{
    char key[96];
    refv rv;
    double g = lib_mf(f, x, p);
    int ok;
    ref_mf(f, x, p, &rv);
    if (rvo) { *rvo = rv; }
    *out = g;
    ++vf.evals;
    VF_COUNT("mf-range");
    if (f == A_MF_DSIG) { ok = g >= -2 * EPS && g <= 1 + 2 * EPS; }
    else { ok = g >= 0 && g <= 1; }
    if (!ok)
    {
        snprintf(key, sizeof(key), "mf_%s/range/%s", fam_name[f], dn);
        vf_viol(key, "a_mf_%s(x=%a; %a, %a, %a, %a) = %.17g is not in [0,1] (x=%.17g, params %.17g %.17g %.17g %.17g; only the first %d are used)",
                fam_name[f], x, p[0], p[1], p[2], p[3], g, x, p[0], p[1], p[2], p[3], fam_np[f]);
        return 0;
    }
    if (rv.any) { return 1; }
    if (rv.core)
    {
        VF_COUNT("mf-core-one");
        if (g != 1.0)
        {
            snprintf(key, sizeof(key), "mf_%s/core-not-one/%s", fam_name[f], dn);
            vf_viol(key, "a_mf_%s(x=%a; %a, %a, %a, %a) = %.17g but x lies on the core, expected exactly 1 (x=%.17g, params %.17g %.17g %.17g %.17g; only the first %d are used)",
                    fam_name[f], x, p[0], p[1], p[2], p[3], g, x, p[0], p[1], p[2], p[3], fam_np[f]);
            return 0;
        }
        return 1;
    }
    if (rv.support)
    {
        VF_COUNT("mf-support-zero");
        if (g != 0.0)
        {
            snprintf(key, sizeof(key), "mf_%s/support-not-zero/%s", fam_name[f], dn);
            vf_viol(key, "a_mf_%s(x=%a; %a, %a, %a, %a) = %.17g but x lies outside the support, expected exactly 0",
                    fam_name[f], x, p[0], p[1], p[2], p[3], g);
            return 0;
        }
        return 1;
    }
    {
        q_t err = q_abs((q_t)g - rv.v), tol = 4 * (q_t)EPS * rv.S + 2 * (q_t)DBL_MIN;
        double ratio;
        if (rv.has_alt) { err = q_min(err, q_abs((q_t)g - rv.alt)); }
        ratio = (double)(err / tol);
        VF_COUNT("mf-formula");
        VF_MAX("mf-formula-err/tol(4ulp)", ratio);
        if (ratio > fam_max[f])
        {
            fam_max[f] = ratio;
            snprintf(fam_max_arg[f], sizeof(fam_max_arg[f]), "x=%a p=%a,%a,%a,%a", x, p[0], p[1], p[2], p[3]);
        }
        if (!(ratio <= 1))
        {
            snprintf(key, sizeof(key), "mf_%s/formula/%s", fam_name[f], dn);
            vf_viol(key, "a_mf_%s(x=%a; %a, %a, %a, %a) = %.17g, documented formula gives %.21Lg (error %.3g x the 4-ulp tolerance; x=%.17g, params %.17g %.17g %.17g %.17g)",
                    fam_name[f], x, p[0], p[1], p[2], p[3], g, (long double)rv.v, ratio, x, p[0], p[1], p[2], p[3]);
            return 0;
        }
    }
    return 1;
}
static void fam_max_flush(void)
{
    for (int f = 1; f < 14; ++f)
    {
        if (fam_max[f] > 0)
        {
            char nm[56];
            snprintf(nm, sizeof(nm), "mf-formula-err/tol:%s", fam_name[f]);
            vf_max_dyn(nm, fam_max[f], fam_max_arg[f]);
        }
    }
}

/*@PART2@*/
