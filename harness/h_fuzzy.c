/* C13 - membership functions, fuzzy operators and fuzzy gain scheduling stay within range.
 *
 * Three monitor groups (DESIGN.md section 4, C13):
 *   MF   every a_mf_* family: range, documented formula (quad reference), core == 1, support == 0,
 *        monotone flanks, continuity at break points, s+z / lins+linz complement, dispatcher a_mf.
 *   OP   a_fuzzy_* operators: commutativity, exact formula, monotone, min/max bounds, boundary
 *        identities, inline == exported == the pointer a_pid_fuzzy_opr hands out.
 *   PID  a_pid_fuzzy_{run,pos,inc}: gains == base + weighted mean of the active consequents
 *        (quad), finite, inside [min,max] of the active consequents; scratch buffer is an exact-size
 *        heap block of A_PID_FUZZY_BFUZZ(N) bytes (ASan red zone directly behind it); the same block at every start
 *        offset inside a larger heap block with guard bytes around it, all N sets active, gains bitwise == a twin on a
 *        malloc'ed block (pid_scratch_alignment; offsets off an a_real boundary in the side configuration unaligned-scratch).
 *
 * Tolerances (DESIGN.md C13; deviations are explained where they are used):
 *   MF range      bitwise [0,1]; dsig [-2eps, 1+2eps]
 *   MF formula    4 ulps. One "ulp" is eps*S where S = |ref| for the piecewise families and, for the
 *                 exp/pow based families, |ref| times the condition number of the final exp/pow/
 *                 reciprocal with respect to its (rounded) argument: a correctly rounded libm cannot
 *                 do better than that (gauss(x) = exp(y) inherits |y| * relerr(y)). An absolute floor
 *                 of 2*DBL_MIN keeps the test sane where the value underflows.
 *   MF monotone   none for trap/tri/lins/linz, 2 ulps for the pow/exp families. Two places where 2 ulps is
 *                 not what correct code gives (both seen on the unchanged tree, drop == 2 ulps exactly):
 *                 (i) a pair of abscissae that straddles the rounded midpoint of an S/Z/pi flank compares values
 *                 of the two different documented pieces, each good to its formula tolerance -> 8 ulps there;
 *                 (ii) dsig = s1 - s2 with s1, s2 near 1: every sigmoid carries up to 3.04u = 1.52eps absolute
 *                 error (exp 1.04u, add u, divide u), a difference of two differences up to 6.1eps -> 8eps
 *                 absolute (worst observed 1.5eps)
 *   MF continuity 2 * L * ulp(x) + 8eps (L local Lipschitz bound; 8eps = the formula tolerance of the
 *                 two values that are compared, without which a wide set (L*ulp(x) << eps) false-alarms)
 *   complement    2eps
 *   OP            min/max bitwise; arithmetic operators absolute 2eps
 *   PID           (n^2+1)*eps*max|active consequent| (+ eps*|gain| for the final base+delta rounding
 *                 when the base gain is not 0). DESIGN.md says n^2; the rigorous first-order bound for
 *                 m active rules is (m+1/2)*eps, which exceeds n^2*eps for n = 1 (one product, one
 *                 reciprocal, one product = 1.5 eps), so n^2+1 is used.
 */
#define VF_PROP "C13"
#define VF_HAVE_INIT
#define VF_HAVE_FINI
#include "vf_common.h"
#include <math.h>
#include <float.h>
#include <quadmath.h>
#include "a/a.h"
#include "a/mf.h"
#include "a/fuzzy.h"
#include "a/pid_fuzzy.h"

_Static_assert(sizeof(a_real) == 8, "C13 harness expects a_real == double");

typedef __float128 q_t;
#define EPS DBL_EPSILON

double vfx_fuzzy_not(double x);
double vfx_fuzzy_cap(double a, double b);
double vfx_fuzzy_cap_algebra(double a, double b);
double vfx_fuzzy_cap_bounded(double a, double b);
double vfx_fuzzy_cup(double a, double b);
double vfx_fuzzy_cup_algebra(double a, double b);
double vfx_fuzzy_cup_bounded(double a, double b);

/* ------------------------------------------------------------------ helpers */
static q_t q_abs(q_t x) { return x < 0 ? -x : x; }
static q_t q_sq(q_t x) { return x * x; }
static q_t q_min(q_t a, q_t b) { return a < b ? a : b; }
static q_t q_max(q_t a, q_t b) { return a > b ? a : b; }

static int64_t d2i(double x)
{
    int64_t i;
    memcpy(&i, &x, 8);
    if (i < 0) { i = INT64_MIN - i; }
    return i;
}
static double i2d(int64_t i)
{
    double x;
    if (i < 0) { i = INT64_MIN - i; }
    memcpy(&x, &i, 8);
    return x;
}
/* move x by k units in the last place (clamped to +-DBL_MAX) */
static double step_ulps(double x, int64_t k)
{
    int64_t const top = d2i(DBL_MAX);
    int64_t i = d2i(x);
    if (k > 0 && i > top - k) { i = top; }
    else if (k < 0 && i < -top - k) { i = -top; }
    else { i += k; }
    return i2d(i);
}
/* distance to the neighbouring doubles (the larger one) */
static double spacing(double x)
{
    double a = step_ulps(x, 1) - x, b = x - step_ulps(x, -1);
    return a > b ? a : b;
}
static int same_bits(double a, double b) { return memcmp(&a, &b, 8) == 0 || (a == 0 && b == 0) || (a != a && b != b); }

/* ------------------------------------------------------------------ families */
static char const *const fam_name[14] = {"nul", "gauss", "gauss2", "gbell", "sig", "dsig", "psig", "trap",
                                         "tri", "lins", "linz", "s", "z", "pi"};
static int const fam_np[14] = {0, 2, 4, 3, 2, 4, 4, 4, 3, 2, 2, 2, 2, 4};

static double lib_mf(int f, double x, double const *p)
{
    switch (f)
    {
    case A_MF_GAUSS: return a_mf_gauss(x, p[0], p[1]);
    case A_MF_GAUSS2: return a_mf_gauss2(x, p[0], p[1], p[2], p[3]);
    case A_MF_GBELL: return a_mf_gbell(x, p[0], p[1], p[2]);
    case A_MF_SIG: return a_mf_sig(x, p[0], p[1]);
    case A_MF_DSIG: return a_mf_dsig(x, p[0], p[1], p[2], p[3]);
    case A_MF_PSIG: return a_mf_psig(x, p[0], p[1], p[2], p[3]);
    case A_MF_TRAP: return a_mf_trap(x, p[0], p[1], p[2], p[3]);
    case A_MF_TRI: return a_mf_tri(x, p[0], p[1], p[2]);
    case A_MF_LINS: return a_mf_lins(x, p[0], p[1]);
    case A_MF_LINZ: return a_mf_linz(x, p[0], p[1]);
    case A_MF_S: return a_mf_s(x, p[0], p[1]);
    case A_MF_Z: return a_mf_z(x, p[0], p[1]);
    case A_MF_PI: return a_mf_pi(x, p[0], p[1], p[2], p[3]);
    default: return 0;
    }
}

/* degeneracy class of a parameter tuple (goes into violation keys and into the distinct cells) */
static int classify(int f, double const *p, char const **name)
{
    int k = 0;
    char const *n = "-";
    switch (f)
    {
    case A_MF_TRAP:
    {
        static char const *const nm[8] = {"a<b<c<d", "a=b", "b=c", "a=b=c", "c=d", "a=b,c=d", "b=c=d", "a=b=c=d"};
        k = (p[0] == p[1]) | (p[1] == p[2]) << 1 | (p[2] == p[3]) << 2;
        n = nm[k];
        break;
    }
    case A_MF_TRI:
    {
        static char const *const nm[4] = {"a<b<c", "a=b", "b=c", "a=b=c"};
        k = (p[0] == p[1]) | (p[1] == p[2]) << 1;
        n = nm[k];
        break;
    }
    case A_MF_LINS:
    case A_MF_LINZ:
    case A_MF_S:
    case A_MF_Z:
        k = p[0] == p[1];
        n = k ? "a=b" : "a<b";
        break;
    case A_MF_PI:
        k = p[1] == p[2];
        n = k ? "b=c" : "b<c";
        break;
    case A_MF_GAUSS2:
    case A_MF_DSIG:
        k = p[1] == p[3];
        n = k ? "c1=c2" : "c1<c2";
        break;
    case A_MF_GBELL:
        if (p[1] == 0.5) { k = 0; n = "2b=1"; }
        else if (p[1] == 1) { k = 1; n = "b=1"; }
        else if (p[1] == floor(p[1])) { k = 2; n = "b=int"; }
        else { k = 3; n = "b=frac"; }
        break;
    case A_MF_SIG:
        k = p[0] < 0;
        n = k ? "a<0" : "a>0";
        break;
    case A_MF_PSIG:
        if (p[0] > 0 && p[2] < 0) { k = 0; n = "bump"; }
        else if (p[0] > 0 && p[2] > 0) { k = 1; n = "rise"; }
        else if (p[0] < 0 && p[2] < 0) { k = 2; n = "fall"; }
        else { k = 3; n = "valley"; }
        break;
    default: break;
    }
    if (name) { *name = n; }
    return k;
}

/* ------------------------------------------------------------------ quad reference of the documented formulas */
typedef struct
{
    q_t v; /* documented value */
    q_t alt; /* value of the neighbouring piece (accepted where the rounded break point decides) */
    q_t S; /* scale of one "ulp" (see file header) */
    int has_alt;
    int any; /* documentation gives two different values here (lins/linz with a == b at x == a) */
    int core; /* must be exactly 1 */
    int support; /* must be exactly 0 */
} refv;

static void ref_gauss(q_t x, q_t sigma, q_t c, refv *r)
{
    q_t t = (x - c) / sigma, y = -t * t / 2;
    if (x == c) { r->v = 1; r->S = 1; r->core = 1; return; }
    r->v = (y < -11400) ? 0 : expq(y);
    r->S = r->v * (1 + q_abs(y));
}
static void ref_sig(q_t x, q_t a, q_t c, q_t *v, q_t *S)
{
    q_t z = (c - x) * a, s;
    if (z > 11000) { s = 0; }
    else if (z < -11000) { s = 1; }
    else { s = 1 / (1 + expq(z)); }
    *v = s;
    *S = s * (1 + (1 - s) * q_abs(z));
}
/* interior of an S-shaped flank a < x < b; up = 1: rising (a_mf_s), 0: falling (a_mf_z) */
static void ref_sz(q_t x, q_t a, q_t b, int up, refv *r)
{
    q_t m = (a + b) / 2, w = b - a;
    q_t ql = 2 * q_sq((x - a) / w), qh = 2 * q_sq((b - x) / w);
    q_t lo = up ? ql : 1 - ql; /* documented piece for a <= x <= m */
    q_t hi = up ? 1 - qh : qh; /* documented piece for m <= x <= b */
    if (q_abs(x - m) <= (q_t)spacing((double)m))
    {
        /* the library decides with the rounded midpoint; both pieces meet at m, accept either */
        r->has_alt = 1;
        r->alt = (x <= m) ? hi : lo;
    }
    r->v = (x <= m) ? lo : hi;
    /* the piece 1-q (q = 2t^2 <= 1/2) carries 7.04u*q + u/2 absolute error to first order, which is a hair
       above 4 ulps of the value where the value approaches 1/2: scale |v| + q/16 */
    r->S = q_abs(r->v) + (((x <= m) == (up != 0)) ? 0 : (up ? qh : ql) / 16);
    if (r->has_alt) { r->S = q_abs(r->v) + (q_t)1 / 32; }
}
static void ref_mf(int f, double xd, double const *p, refv *r)
{
    q_t x = xd, a = p[0], b = p[1], c = fam_np[f] > 2 ? p[2] : 0, d = fam_np[f] > 3 ? p[3] : 0;
    memset(r, 0, sizeof(*r));
    switch (f)
    {
    case A_MF_GAUSS: ref_gauss(x, a, b, r); break;
    case A_MF_GAUSS2:
        if (x < b) { ref_gauss(x, a, b, r); }
        else if (x > d) { ref_gauss(x, c, d, r); }
        else { r->v = 1; r->S = 1; r->core = 1; }
        break;
    case A_MF_GBELL:
    {
        q_t t = q_abs((x - c) / a), P, v;
        if (x == c) { r->v = 1; r->S = 1; r->core = 1; break; }
        /* the normalised distance itself overflows double: the library returns 0 where the exact value is
           some 1e-295; an overflow artefact in the far tail, judged for range only (see limits) */
        if (t > (q_t)DBL_MAX) { r->any = 1; break; }
        P = powq(t, 2 * b);
        v = 1 / (1 + P);
        if (!(v == v)) { v = 0; }
        r->v = v;
        r->S = v * (1 + (1 - v) * q_max(b, 1));
        break;
    }
    case A_MF_SIG: ref_sig(x, a, b, &r->v, &r->S); break;
    case A_MF_DSIG:
    {
        q_t v1, v2, s1, s2;
        ref_sig(x, a, b, &v1, &s1);
        ref_sig(x, c, d, &v2, &s2);
        r->v = v1 - v2;
        r->S = s1 + s2;
        break;
    }
    case A_MF_PSIG:
    {
        q_t v1, v2, s1, s2;
        ref_sig(x, a, b, &v1, &s1);
        ref_sig(x, c, d, &v2, &s2);
        r->v = v1 * v2;
        r->S = s1 * v2 + s2 * v1;
        break;
    }
    case A_MF_TRAP:
        if (x >= b && x <= c) { r->v = 1; r->core = 1; }
        else if (x <= a || x >= d) { r->v = 0; r->support = 1; }
        else if (x < b) { r->v = (x - a) / (b - a); }
        else { r->v = (d - x) / (d - c); }
        r->S = q_abs(r->v);
        break;
    case A_MF_TRI:
        if (x == b) { r->v = 1; r->core = 1; }
        else if (x <= a || x >= c) { r->v = 0; r->support = 1; }
        else if (x < b) { r->v = (x - a) / (b - a); }
        else { r->v = (c - x) / (c - b); }
        r->S = q_abs(r->v);
        break;
    case A_MF_LINS:
        if (x < a) { r->v = 0; r->support = 1; }
        else if (x > b) { r->v = 1; r->core = 1; }
        else if (a == b) { r->any = 1; }
        else
        {
            r->v = (x - a) / (b - a);
            r->core = x == b;
            r->support = x == a;
        }
        r->S = q_abs(r->v);
        break;
    case A_MF_LINZ:
        if (x < a) { r->v = 1; r->core = 1; }
        else if (x > b) { r->v = 0; r->support = 1; }
        else if (a == b) { r->any = 1; }
        else
        {
            r->v = (b - x) / (b - a);
            r->core = x == a;
            r->support = x == b;
        }
        r->S = q_abs(r->v);
        break;
    case A_MF_S:
        if (x <= a) { r->v = 0; r->support = 1; }
        else if (x >= b) { r->v = 1; r->S = 1; r->core = 1; }
        else { ref_sz(x, a, b, 1, r); }
        break;
    case A_MF_Z:
        if (x <= a) { r->v = 1; r->S = 1; r->core = 1; }
        else if (x >= b) { r->v = 0; r->support = 1; }
        else { ref_sz(x, a, b, 0, r); }
        break;
    case A_MF_PI:
        /* mf.h prints "1" for x >= d; that is a typo of the documentation (the pi shape returns to 0) */
        if (x >= b && x <= c) { r->v = 1; r->S = 1; r->core = 1; }
        else if (x <= a || x >= d) { r->v = 0; r->support = 1; }
        else if (x < b) { ref_sz(x, a, b, 1, r); }
        else { ref_sz(x, c, d, 0, r); }
        break;
    default: break;
    }
}

/* ------------------------------------------------------------------ MF: single point */
static double fam_max[14]; /* worst formula error / tolerance per family, flushed per case */
static char fam_max_arg[14][120];

/* evaluates the library at x and judges the value-level clauses; returns 1 if the value may be used
 * in the relational clauses (monotone, continuity, complement), 0 if it already was reported */
static int mf_eval(int f, double const *p, char const *dn, double x, double *out, refv *rvo)
{
    char key[96];
    refv rv;
    double g = lib_mf(f, x, p);
    int ok;
    ref_mf(f, x, p, &rv);
    if (rvo) { *rvo = rv; }
    *out = g;
    ++vf.evals;
    VF_COUNT("mf-range");
    if (f == A_MF_DSIG) { ok = g >= -2 * EPS && g <= 1 + 2 * EPS; }
    else { ok = g >= 0 && g <= 1; }
    if (!ok)
    {
        snprintf(key, sizeof(key), "mf_%s/range/%s", fam_name[f], dn);
        vf_viol(key, "a_mf_%s(x=%a; %a, %a, %a, %a) = %.17g is not in [0,1] (x=%.17g, params %.17g %.17g %.17g %.17g; only the first %d are used)",
                fam_name[f], x, p[0], p[1], p[2], p[3], g, x, p[0], p[1], p[2], p[3], fam_np[f]);
        return 0;
    }
    if (rv.any) { return 1; }
    if (rv.core)
    {
        VF_COUNT("mf-core-one");
        if (g != 1.0)
        {
            snprintf(key, sizeof(key), "mf_%s/core-not-one/%s", fam_name[f], dn);
            vf_viol(key, "a_mf_%s(x=%a; %a, %a, %a, %a) = %.17g but x lies on the core, expected exactly 1 (x=%.17g, params %.17g %.17g %.17g %.17g; only the first %d are used)",
                    fam_name[f], x, p[0], p[1], p[2], p[3], g, x, p[0], p[1], p[2], p[3], fam_np[f]);
            return 0;
        }
        return 1;
    }
    if (rv.support)
    {
        VF_COUNT("mf-support-zero");
        if (g != 0.0)
        {
            snprintf(key, sizeof(key), "mf_%s/support-not-zero/%s", fam_name[f], dn);
            vf_viol(key, "a_mf_%s(x=%a; %a, %a, %a, %a) = %.17g but x lies outside the support, expected exactly 0",
                    fam_name[f], x, p[0], p[1], p[2], p[3], g);
            return 0;
        }
        return 1;
    }
    {
        q_t err = q_abs((q_t)g - rv.v), tol = 4 * (q_t)EPS * rv.S + 2 * (q_t)DBL_MIN;
        double ratio;
        if (rv.has_alt) { err = q_min(err, q_abs((q_t)g - rv.alt)); }
        ratio = (double)(err / tol);
        VF_COUNT("mf-formula");
        VF_MAX("mf-formula-err/tol(4ulp)", ratio);
        if (ratio > fam_max[f])
        {
            fam_max[f] = ratio;
            snprintf(fam_max_arg[f], sizeof(fam_max_arg[f]), "x=%a p=%a,%a,%a,%a", x, p[0], p[1], p[2], p[3]);
        }
        if (!(ratio <= 1))
        {
            snprintf(key, sizeof(key), "mf_%s/formula/%s", fam_name[f], dn);
            vf_viol(key, "a_mf_%s(x=%a; %a, %a, %a, %a) = %.17g, documented formula gives %.21Lg (error %.3g x the 4-ulp tolerance; x=%.17g, params %.17g %.17g %.17g %.17g)",
                    fam_name[f], x, p[0], p[1], p[2], p[3], g, (long double)rv.v, ratio, x, p[0], p[1], p[2], p[3]);
            return 0;
        }
    }
    return 1;
}
static void fam_max_flush(void)
{
    for (int f = 1; f < 14; ++f)
    {
        if (fam_max[f] > 0)
        {
            char nm[56];
            snprintf(nm, sizeof(nm), "mf-formula-err/tol:%s", fam_name[f]);
            vf_max_dyn(nm, fam_max[f], fam_max_arg[f]);
        }
    }
}

/* ------------------------------------------------------------------ MF: one parameter tuple */
typedef struct
{
    double x;
    int region; /* input region (distinct cell) */
    int anchor; /* 1: x is exactly a break point / centre */
} mfpt;
#define MAXPT 768
#define MAXAN 40

typedef struct
{
    double lo, hi;
    int dir; /* +1 non-decreasing on [lo,hi], -1 non-increasing */
} mono_piece;

/* break points / characteristic abscissae of a set, its width scale and its local Lipschitz bound */
static int mf_anchors(int f, double const *p, double *an, double *width, double *lip)
{
    static double const gk[] = {0.5, 1, 2, 4, 8.4, 8.6, 20, 38.5, 39};
    static double const bk[] = {0.5, 1, 2, 10, 1e3, 1e8};
    static double const sk[] = {1, 4, 30, 36, 37, 100, 700, 709, 710, 745, 746, 800};
    static double const dk[] = {1, 4, 36, 37, 710, 745};
    int n = 0;
    double w = 0, L = 0;
    unsigned i;
#define INVW(d) do { if ((d) > 0 && 1 / (d) > L) { L = 1 / (d); } if ((d) > w) { w = (d); } } while (0)
    switch (f)
    {
    case A_MF_GAUSS:
        an[n++] = p[1];
        for (i = 0; i < sizeof(gk) / sizeof(*gk); ++i) { an[n++] = p[1] - gk[i] * p[0]; an[n++] = p[1] + gk[i] * p[0]; }
        w = fabs(p[0]);
        L = 1 / w;
        break;
    case A_MF_GAUSS2:
        an[n++] = p[1];
        an[n++] = p[3];
        for (i = 0; i < sizeof(gk) / sizeof(*gk); ++i) { an[n++] = p[1] - gk[i] * p[0]; an[n++] = p[3] + gk[i] * p[2]; }
        w = fabs(p[0]) > fabs(p[2]) ? fabs(p[0]) : fabs(p[2]);
        L = 1 / (fabs(p[0]) < fabs(p[2]) ? fabs(p[0]) : fabs(p[2]));
        break;
    case A_MF_GBELL:
        an[n++] = p[2];
        for (i = 0; i < sizeof(bk) / sizeof(*bk); ++i) { an[n++] = p[2] - bk[i] * p[0]; an[n++] = p[2] + bk[i] * p[0]; }
        w = fabs(p[0]);
        L = p[1] >= 0.5 ? 2 * p[1] / w : 0; /* cusp at c for 2b < 1: no finite Lipschitz bound */
        break;
    case A_MF_SIG:
        an[n++] = p[1];
        for (i = 0; i < sizeof(sk) / sizeof(*sk); ++i) { an[n++] = p[1] - sk[i] / p[0]; an[n++] = p[1] + sk[i] / p[0]; }
        w = 1 / fabs(p[0]);
        L = fabs(p[0]) / 4;
        break;
    case A_MF_DSIG:
    case A_MF_PSIG:
        an[n++] = p[1];
        an[n++] = p[3];
        an[n++] = p[1] / 2 + p[3] / 2;
        for (i = 0; i < sizeof(dk) / sizeof(*dk); ++i)
        {
            an[n++] = p[1] - dk[i] / p[0];
            an[n++] = p[1] + dk[i] / p[0];
            an[n++] = p[3] - dk[i] / p[2];
            an[n++] = p[3] + dk[i] / p[2];
        }
        w = 1 / fabs(p[0]) > 1 / fabs(p[2]) ? 1 / fabs(p[0]) : 1 / fabs(p[2]);
        if (fabs(p[3] - p[1]) > w) { w = fabs(p[3] - p[1]); }
        L = (fabs(p[0]) + fabs(p[2])) / 4;
        break;
    case A_MF_TRAP:
        for (i = 0; i < 4; ++i) { an[n++] = p[i]; }
        INVW(p[1] - p[0]);
        INVW(p[3] - p[2]);
        if (p[3] - p[0] > w) { w = p[3] - p[0]; }
        break;
    case A_MF_TRI:
        for (i = 0; i < 3; ++i) { an[n++] = p[i]; }
        INVW(p[1] - p[0]);
        INVW(p[2] - p[1]);
        break;
    case A_MF_LINS:
    case A_MF_LINZ:
        an[n++] = p[0];
        an[n++] = p[1];
        INVW(p[1] - p[0]);
        break;
    case A_MF_S:
    case A_MF_Z:
        an[n++] = p[0];
        an[n++] = p[1];
        an[n++] = (p[0] + p[1]) / 2;
        INVW(p[1] - p[0]);
        L *= 2;
        break;
    case A_MF_PI:
        for (i = 0; i < 4; ++i) { an[n++] = p[i]; }
        an[n++] = (p[0] + p[1]) / 2;
        an[n++] = (p[2] + p[3]) / 2;
        INVW(p[1] - p[0]);
        INVW(p[3] - p[2]);
        L *= 2;
        if (p[3] - p[0] > w) { w = p[3] - p[0]; }
        break;
    default: break;
    }
#undef INVW
    if (!(w > 0)) { w = fabs(an[0]) > 0 ? fabs(an[0]) : 1; } /* all break points equal: use the magnitude */
    *width = w;
    *lip = L;
    return n;
}

/* slack: 0 none, 1 relative 2 ulps, 2 absolute 8eps (dsig) */
static int mf_mono(int f, double const *p, mono_piece *mp, int *slack)
{
    int n = 0;
#define PIECE(l, h, d) do { mp[n].lo = (l); mp[n].hi = (h); mp[n].dir = (d); ++n; } while (0)
    *slack = 1;
    switch (f)
    {
    case A_MF_GAUSS: PIECE(-INFINITY, p[1], +1); PIECE(p[1], INFINITY, -1); break;
    case A_MF_GAUSS2: PIECE(-INFINITY, p[1], +1); PIECE(p[3], INFINITY, -1); break;
    case A_MF_GBELL: PIECE(-INFINITY, p[2], +1); PIECE(p[2], INFINITY, -1); break;
    case A_MF_SIG: PIECE(-INFINITY, INFINITY, p[0] > 0 ? +1 : -1); break;
    case A_MF_DSIG:
    {
        /* equal positive slopes, c1 <= c2: rises up to the midpoint of the centres, falls after it */
        double m = p[1] / 2 + p[3] / 2;
        *slack = 2;
        PIECE(-INFINITY, step_ulps(m, -2), +1);
        PIECE(step_ulps(m, 2), INFINITY, -1);
        break;
    }
    case A_MF_PSIG:
        if (p[0] > 0 && p[2] > 0) { PIECE(-INFINITY, INFINITY, +1); }
        else if (p[0] < 0 && p[2] < 0) { PIECE(-INFINITY, INFINITY, -1); }
        break;
    case A_MF_TRAP: *slack = 0; PIECE(-INFINITY, p[1], +1); PIECE(p[2], INFINITY, -1); break;
    case A_MF_TRI: *slack = 0; PIECE(-INFINITY, p[1], +1); PIECE(p[1], INFINITY, -1); break;
    case A_MF_LINS: *slack = 0; PIECE(-INFINITY, INFINITY, +1); break;
    case A_MF_LINZ: *slack = 0; PIECE(-INFINITY, INFINITY, -1); break;
    case A_MF_S: PIECE(-INFINITY, INFINITY, +1); break;
    case A_MF_Z: PIECE(-INFINITY, INFINITY, -1); break;
    case A_MF_PI: PIECE(-INFINITY, p[1], +1); PIECE(p[2], INFINITY, -1); break;
    default: break;
    }
#undef PIECE
    return n;
}

static int cmp_pt(void const *a, void const *b)
{
    mfpt const *x = (mfpt const *)a, *y = (mfpt const *)b;
    if (x->x < y->x) { return -1; }
    if (x->x > y->x) { return 1; }
    return y->anchor - x->anchor; /* exact anchors first so that they survive the de-duplication */
}

static void mf_tuple(int f, double const *p, vf_rng *r, int want_sample)
{
    static mfpt pt[MAXPT];
    static double got[MAXPT];
    static refv rv[MAXPT];
    static char ok[MAXPT];
    static int const offs[7] = {0, -1, 1, -2, 2, -1000, 1000};
    double an[MAXAN], san[MAXAN], width, lip;
    mono_piece mp[3];
    char const *dn;
    char key[96];
    int deg = classify(f, p, &dn), na, n = 0, nm, slack, i, j, nmono = 0, ncont = 0;
    double *hp;

    vf_log("a_mf_%s params %a %a %a %a (%.17g %.17g %.17g %.17g; first %d used) class %s", fam_name[f], p[0], p[1], p[2], p[3],
           p[0], p[1], p[2], p[3], fam_np[f], dn);
    na = mf_anchors(f, p, an, &width, &lip);
    nm = mf_mono(f, p, mp, &slack);
    for (i = 0; i < na; ++i)
    {
        if (!isfinite(an[i])) { continue; }
        for (j = 0; j < 7 && n < MAXPT; ++j)
        {
            pt[n].x = step_ulps(an[i], offs[j]);
            pt[n].region = 16 + i * 8 + j;
            pt[n].anchor = j == 0;
            ++n;
        }
    }
    memcpy(san, an, sizeof(double) * (size_t)na);
    for (i = 1; i < na; ++i) /* insertion sort of the anchors */
    {
        double t = san[i];
        for (j = i; j > 0 && san[j - 1] > t; --j) { san[j] = san[j - 1]; }
        san[j] = t;
    }
    for (i = 0; i + 1 < na && n + 3 <= MAXPT; ++i)
    {
        double u = san[i], v = san[i + 1];
        if (!(v > u) || !isfinite(u) || !isfinite(v)) { continue; }
        pt[n].x = u / 2 + v / 2; pt[n].region = 1024 + i; pt[n].anchor = 0; ++n;
        pt[n].x = u + (v - u) * vf_unit(r); pt[n].region = 1024 + i; pt[n].anchor = 0; ++n;
        pt[n].x = u + (v - u) * vf_unit(r); pt[n].region = 1024 + i; pt[n].anchor = 0; ++n;
    }
    {
        static double const fk[] = {1.5, 10, 1e6};
        double lo = INFINITY, hi = -INFINITY;
        for (i = 0; i < na; ++i)
        {
            if (isfinite(an[i]) && an[i] < lo) { lo = an[i]; }
            if (isfinite(an[i]) && an[i] > hi) { hi = an[i]; }
        }
        for (i = 0; i < 3 && n + 2 <= MAXPT; ++i)
        {
            pt[n].x = lo - width * fk[i]; pt[n].region = 1; pt[n].anchor = 0; ++n;
            pt[n].x = hi + width * fk[i]; pt[n].region = 2; pt[n].anchor = 0; ++n;
        }
        if (n + 5 <= MAXPT)
        {
            pt[n].x = -1e300; pt[n].region = 3; pt[n].anchor = 0; ++n;
            pt[n].x = -DBL_MAX; pt[n].region = 3; pt[n].anchor = 0; ++n;
            pt[n].x = 1e300; pt[n].region = 4; pt[n].anchor = 0; ++n;
            pt[n].x = DBL_MAX; pt[n].region = 4; pt[n].anchor = 0; ++n;
            pt[n].x = 0; pt[n].region = 5; pt[n].anchor = 0; ++n;
        }
    }
    qsort(pt, (size_t)n, sizeof(*pt), cmp_pt);
    for (i = j = 0; i < n; ++i) /* drop repeated abscissae and non-finite ones */
    {
        if (!isfinite(pt[i].x) || (j && pt[j - 1].x == pt[i].x)) { continue; }
        pt[j++] = pt[i];
    }
    n = j;

    hp = (double *)malloc(sizeof(double) * (size_t)fam_np[f]); /* exact size: a_mf must not read more than the family's arity */
    memcpy(hp, p, sizeof(double) * (size_t)fam_np[f]);
    for (i = 0; i < n; ++i)
    {
        double x = pt[i].x, dv;
        ok[i] = (char)mf_eval(f, p, dn, x, &got[i], &rv[i]);
        dv = a_mf((unsigned)f, x, hp);
        VF_COUNT("mf-dispatcher");
        if (!same_bits(dv, got[i]))
        {
            snprintf(key, sizeof(key), "a_mf/dispatcher-differs/%s", fam_name[f]);
            vf_viol(key, "a_mf(%d, x=%a, {%a, %a, %a, %a}) = %.17g but a_mf_%s gives %.17g", f, x, p[0], p[1], p[2], p[3], dv, fam_name[f], got[i]);
        }
        vf_distinct(vf_hash64(vf_hash64(vf_hash64(1, (uint64_t)f), (uint64_t)deg), (uint64_t)pt[i].region));
        /* complementary pairs */
        if (f == A_MF_S || f == A_MF_Z || f == A_MF_LINS || f == A_MF_LINZ)
        {
            int const g = f == A_MF_S ? A_MF_Z : f == A_MF_Z ? A_MF_S : f == A_MF_LINS ? A_MF_LINZ : A_MF_LINS;
            double o = lib_mf(g, x, p), e;
            if (ok[i] && !rv[i].any && o == o)
            {
                int const lin = f == A_MF_LINS || f == A_MF_LINZ;
                e = fabs(got[i] + o - 1) / (2 * EPS);
                if (lin) { VF_COUNT("mf-lins+linz=1"); VF_MAX("mf-lins+linz-err/tol(2eps)", e); }
                else { VF_COUNT("mf-s+z=1"); VF_MAX("mf-s+z-err/tol(2eps)", e); }
                if (!(e <= 1))
                {
                    snprintf(key, sizeof(key), "mf_%s/not-complementary/%s", lin ? "lins+linz" : "s+z", dn);
                    vf_viol(key, "a_mf_%s + a_mf_%s at x=%a (params %a, %a) = %.17g + %.17g, differs from 1 by %.3g eps", fam_name[f], fam_name[g], x,
                            p[0], p[1], got[i], o, e * 2);
                }
            }
        }
    }
    free(hp);
    /* monotone flanks: neighbouring abscissae inside one monotone piece */
    for (i = 0; i + 1 < n; ++i)
    {
        if (!ok[i] || !ok[i + 1] || rv[i].any || rv[i + 1].any) { continue; }
        for (j = 0; j < nm; ++j)
        {
            double a, b, drop, tol, big;
            int straddle;
            if (!(pt[i].x >= mp[j].lo && pt[i + 1].x <= mp[j].hi)) { continue; }
            a = mp[j].dir > 0 ? got[i] : got[i + 1]; /* must be the smaller one */
            b = mp[j].dir > 0 ? got[i + 1] : got[i];
            drop = a - b;
            big = fabs(a) > fabs(b) ? fabs(a) : fabs(b);
            tol = slack == 0 ? 0 : slack == 1 ? 2 * EPS * big : 8 * EPS;
            straddle = 0;
            if (f == A_MF_S || f == A_MF_Z || f == A_MF_PI)
            {
                /* the pair straddles the rounded midpoint of an S/Z flank: the two values come from the two
                   different documented pieces, each within its 4-ulp formula tolerance -> 8 ulps */
                double m1 = (p[0] + p[1]) / 2, m2 = f == A_MF_PI ? (p[2] + p[3]) / 2 : m1;
                if ((pt[i].x <= m1 && m1 <= pt[i + 1].x) || (pt[i].x <= m2 && m2 <= pt[i + 1].x)) { straddle = 1; tol = 8 * EPS * big; }
            }
            VF_COUNT("mf-monotone");
            ++nmono;
            if (drop > 0 && slack == 2) { VF_MAX("mf-monotone-drop/tol:dsig(8eps)", drop / tol); }
            else if (drop > 0 && straddle) { VF_MAX("mf-monotone-drop/tol:s,z,pi-midpoint(8ulp)", drop / tol); }
            else if (drop > 0 && slack) { VF_MAX("mf-monotone-drop/tol(2ulp)", drop / tol); }
            if (drop > tol)
            {
                snprintf(key, sizeof(key), "mf_%s/not-monotone/%s", fam_name[f], dn);
                vf_viol(key, "a_mf_%s (params %a, %a, %a, %a) is not %s on its flank: f(%a)=%.17g, f(%a)=%.17g (x=%.17g -> %.17g)", fam_name[f], p[0], p[1],
                        p[2], p[3], mp[j].dir > 0 ? "non-decreasing" : "non-increasing", pt[i].x, got[i], pt[i + 1].x, got[i + 1], pt[i].x, pt[i + 1].x);
            }
        }
    }
    /* continuity at the break points, one-sided, wherever the documented shape is continuous */
    for (i = 0; i < n; ++i)
    {
        double sp;
        if (!pt[i].anchor || !ok[i] || rv[i].any || !(lip > 0)) { continue; }
        sp = spacing(pt[i].x);
        if (!(2 * lip * sp < 0.25)) { continue; } /* flank only a few ulps wide: the bound says nothing */
        for (j = -1; j <= 1; j += 2)
        {
            int k = i + j;
            q_t jref;
            double jump, tol = 2 * lip * sp + 8 * EPS;
            if (k < 0 || k >= n || !ok[k] || rv[k].any || pt[k].x != step_ulps(pt[i].x, j)) { continue; }
            jref = q_abs(rv[k].v - rv[i].v);
            if (jref > (q_t)(2 * lip * sp) + EPS) { continue; } /* documented jump (zero-width flank) */
            jump = fabs(got[k] - got[i]);
            VF_COUNT("mf-continuity");
            ++ncont;
            VF_MAX("mf-continuity-jump/tol", jump / tol);
            if (!(jump <= tol))
            {
                snprintf(key, sizeof(key), "mf_%s/discontinuous/%s", fam_name[f], dn);
                vf_viol(key, "a_mf_%s (params %a, %a, %a, %a) jumps at break point x=%a: f(x)=%.17g, f(x%+d ulp)=%.17g, allowed %.3g", fam_name[f], p[0], p[1],
                        p[2], p[3], pt[i].x, got[i], j, got[k], tol);
            }
        }
    }
    if (want_sample && vf_want_sample())
    {
        vf_sample("a_mf_%s(%.6g,%.6g,%.6g,%.6g)[first %d used] class %s: %d abscissae (break points +-1,2,1000 ulp, mid-flanks, far, +-DBL_MAX) judged for range/"
                  "core/support/quad formula/dispatcher, %d monotone pairs, %d one-sided continuity tests",
                  fam_name[f], p[0], p[1], p[2], p[3], fam_np[f], dn, n, nmono, ncont);
    }
}

/* ------------------------------------------------------------------ MF: parameter generators */
static double const mf_scales[9] = {1, 1e-3, 1e3, 1e-30, 1e30, 1e-150, 1e150, 1e-250, 1e250}; /* the last two: widths whose SQUARE under/overflows */
/* number of generator classes per family */
static int const fam_ngen[14] = {0, 1, 2, 4, 2, 2, 4, 8, 4, 2, 2, 1, 1, 2};

static void mf_gen(int f, int g, double scale, int offcls, vf_rng *r, double *p)
{
    int const smoothpw = f == A_MF_S || f == A_MF_Z || f == A_MF_PI;
    int const linear = f == A_MF_TRAP || f == A_MF_TRI || f == A_MF_LINS || f == A_MF_LINZ;
    double off = 0, x[4], gap[3];
    int i;
    /* an offset makes the break points large compared with the widths (absorption / cancellation);
       for the S/Z/pi families the flank width stays >= 2^-17 of the magnitude: below 2^-26 the rounded
       midpoint (a+b)/2 is distinguishable from the real one at the 2eps level and no double-precision
       branch test can realise the documented pieces */
    if (offcls) { off = vf_sign(r) * scale * ldexp(1, (int)vf_range(r, 4, smoothpw ? 14 : 16)); }
    for (i = 0; i < 3; ++i)
    {
        gap[i] = scale * ((smoothpw || vf_chance(r, 1, 2)) ? vf_uniform(r, 0.125, 1) : vf_logu(r, -3, 0));
    }
    x[0] = off + scale * vf_uniform(r, -1, 1);
    for (i = 0; i < 3; ++i)
    {
        x[i + 1] = x[i] + gap[i];
        if (linear && vf_chance(r, 1, 8)) { x[i + 1] = step_ulps(x[i], vf_range(r, 1, 3)); } /* flank a few ulps wide */
    }
    p[0] = p[1] = p[2] = p[3] = 0;
    switch (f)
    {
    case A_MF_GAUSS:
        p[0] = scale * vf_logu(r, -2, 1);
        p[1] = x[0];
        break;
    case A_MF_GAUSS2:
        p[0] = scale * vf_logu(r, -2, 1);
        p[1] = x[0];
        p[2] = scale * vf_logu(r, -2, 1);
        p[3] = g ? x[0] : x[1];
        break;
    case A_MF_GBELL:
        p[0] = scale * vf_logu(r, -2, 1);
        p[1] = g == 0 ? 0.5 : g == 1 ? 1 : g == 2 ? (double)vf_range(r, 2, 6) : vf_uniform(r, 0.25, 8);
        p[2] = x[0];
        break;
    case A_MF_SIG:
        p[0] = (g ? -1 : 1) * vf_logu(r, -1, 2) / scale;
        p[1] = x[0];
        break;
    case A_MF_DSIG: /* equal slopes, ordered centres (quantifier of the property) */
        p[0] = p[2] = vf_logu(r, -1, 2) / scale;
        p[1] = x[0];
        p[3] = g ? x[0] : x[1];
        break;
    case A_MF_PSIG:
        p[0] = ((g == 0 || g == 1) ? 1 : -1) * vf_logu(r, -1, 2) / scale;
        p[2] = ((g == 1 || g == 3) ? 1 : -1) * vf_logu(r, -1, 2) / scale;
        p[1] = x[0];
        p[3] = x[1];
        break;
    case A_MF_TRAP:
        /* g bit 0: a=b, bit 1: b=c, bit 2: c=d */
        p[0] = x[0];
        p[1] = (g & 1) ? p[0] : x[1];
        p[2] = (g & 2) ? p[1] : x[2];
        p[3] = (g & 4) ? p[2] : x[3];
        if (!(g & 1) && !(p[1] > p[0])) { p[1] = step_ulps(p[0], 1); }
        if (!(g & 2) && !(p[2] > p[1])) { p[2] = step_ulps(p[1], 1); }
        if (!(g & 4) && !(p[3] > p[2])) { p[3] = step_ulps(p[2], 1); }
        break;
    case A_MF_TRI:
        p[0] = x[0];
        p[1] = (g & 1) ? p[0] : x[1];
        p[2] = (g & 2) ? p[1] : x[2];
        if (!(g & 2) && !(p[2] > p[1])) { p[2] = step_ulps(p[1], 1); }
        break;
    case A_MF_LINS:
    case A_MF_LINZ:
        p[0] = x[0];
        p[1] = g ? x[0] : x[1];
        break;
    case A_MF_S:
    case A_MF_Z:
        p[0] = x[0];
        p[1] = x[1];
        break;
    case A_MF_PI:
        p[0] = x[0];
        p[1] = x[1];
        p[2] = g ? x[1] : x[2];
        p[3] = g ? x[2] : x[3];
        break;
    default: break;
    }
}

/* ------------------------------------------------------------------ OP: fuzzy operators */
typedef double (*op2)(double, double);
static double in_cap(double a, double b) { return a_fuzzy_cap(a, b); }
static double in_cap_algebra(double a, double b) { return a_fuzzy_cap_algebra(a, b); }
static double in_cap_bounded(double a, double b) { return a_fuzzy_cap_bounded(a, b); }
static double in_cup(double a, double b) { return a_fuzzy_cup(a, b); }
static double in_cup_algebra(double a, double b) { return a_fuzzy_cup_algebra(a, b); }
static double in_cup_bounded(double a, double b) { return a_fuzzy_cup_bounded(a, b); }
static double in_equ(double a, double b) { return a_fuzzy_equ(a, b); }

enum { CLS_CAP, CLS_CUP, CLS_EQU };
typedef struct
{
    char const *name;
    op2 inl, ext; /* header-inline body, exported symbol */
    unsigned pid; /* A_PID_FUZZY_* selector */
    int cls;
    int arith; /* 0: min/max (bitwise), 1: arithmetic (absolute 2eps) */
} opdesc;
#define NOPS 7
static opdesc const ops[NOPS] = {
    {"equ", in_equ, NULL, A_PID_FUZZY_EQU, CLS_EQU, 1},
    {"cap", in_cap, vfx_fuzzy_cap, A_PID_FUZZY_CAP, CLS_CAP, 0},
    {"cap_algebra", in_cap_algebra, vfx_fuzzy_cap_algebra, A_PID_FUZZY_CAP_ALGEBRA, CLS_CAP, 1},
    {"cap_bounded", in_cap_bounded, vfx_fuzzy_cap_bounded, A_PID_FUZZY_CAP_BOUNDED, CLS_CAP, 1},
    {"cup", in_cup, vfx_fuzzy_cup, A_PID_FUZZY_CUP, CLS_CUP, 0},
    {"cup_algebra", in_cup_algebra, vfx_fuzzy_cup_algebra, A_PID_FUZZY_CUP_ALGEBRA, CLS_CUP, 1},
    {"cup_bounded", in_cup_bounded, vfx_fuzzy_cup_bounded, A_PID_FUZZY_CUP_BOUNDED, CLS_CUP, 1},
};
static q_t op_ref(int k, q_t a, q_t b)
{
    switch (k)
    {
    case 0: return sqrtq(a * b) * sqrtq(1 - (1 - a) * (1 - b));
    case 1: return q_min(a, b);
    case 2: return a * b;
    case 3: return q_max(a + b - 1, 0);
    case 4: return q_max(a, b);
    case 5: return a + b - a * b;
    default: return q_min(a + b, 1);
    }
}
static int op_bucket(double a)
{
    return a == 0 ? 0 : a < 0x1p-40 ? 1 : a < 0.25 ? 2 : a < 0.5 ? 3 : a < 0.75 ? 4 : a < 1 ? 5 : 6;
}
#define OPKEY(k, what) (snprintf(key, sizeof(key), "fuzzy_%s/%s", ops[k].name, what), key)

/* a <= a2, b <= b2, all in [0,1] */
static void op_pair(double a, double b, double a2, double b2)
{
    char key[96];
    for (int k = 0; k < NOPS; ++k)
    {
        opdesc const *o = &ops[k];
        double const slack = o->arith ? 2 * EPS : 0;
        double v = o->inl(a, b), w = o->inl(b, a), pv = a_pid_fuzzy_opr(o->pid)(a, b);
        q_t ref = op_ref(k, a, b), lo, hi;
        double mn = a < b ? a : b, mx = a > b ? a : b, err;
        ++vf.evals;
        vf_distinct(vf_hash64(vf_hash64(vf_hash64(2, (uint64_t)k), (uint64_t)(a == b ? 0 : a < b ? 1 : 2)), (uint64_t)(op_bucket(a) * 8 + op_bucket(b))));
        VF_COUNT("op-commutative");
        if (!same_bits(v, w)) { vf_viol(OPKEY(k, "not-commutative"), "a_fuzzy_%s(%a,%a)=%.17g but (%a,%a) gives %.17g", o->name, a, b, v, b, a, w); }
        if (o->ext)
        {
            double x = o->ext(a, b);
            VF_COUNT("op-inline==exported");
            if (!same_bits(v, x)) { vf_viol(OPKEY(k, "inline-vs-exported"), "a_fuzzy_%s(%a,%a): inline body %.17g, exported symbol %.17g", o->name, a, b, v, x); }
        }
        VF_COUNT("op-pid-selector");
        if (!same_bits(v, pv))
        {
            vf_viol(OPKEY(k, "pid-selector-differs"), "a_pid_fuzzy_opr(%u)(%a,%a)=%.17g but a_fuzzy_%s gives %.17g", o->pid, a, b, pv, o->name, v);
        }
        /* exact formula */
        VF_COUNT("op-formula");
        err = (double)q_abs((q_t)v - ref);
        if (o->arith) { VF_MAX("op-formula-err/tol(2eps)", err / (2 * EPS)); }
        if (!(o->arith ? err <= slack : same_bits(v, (double)ref)) || !(v >= 0 && v <= 1 + slack))
        {
            vf_viol(OPKEY(k, "formula"), "a_fuzzy_%s(%a,%a)=%.17g, exact formula gives %.21Lg (a=%.17g b=%.17g)", o->name, a, b, v, (long double)ref, a, b);
            continue;
        }
        /* class bound */
        VF_COUNT("op-class-bound");
        if (o->cls == CLS_CAP && !(v <= mn + slack))
        {
            vf_viol(OPKEY(k, "above-min"), "a_fuzzy_%s(%a,%a)=%.17g exceeds min(a,b)=%.17g", o->name, a, b, v, mn);
        }
        if (o->cls == CLS_CUP && !(v >= mx - slack))
        {
            vf_viol(OPKEY(k, "below-max"), "a_fuzzy_%s(%a,%a)=%.17g is below max(a,b)=%.17g", o->name, a, b, v, mx);
        }
        if (o->cls == CLS_EQU)
        {
            lo = (q_t)a * b;
            hi = (q_t)a + b - (q_t)a * b;
            if (!((q_t)v >= lo - slack && (q_t)v <= hi + slack))
            {
                vf_viol(OPKEY(k, "outside-product-sum-bounds"), "a_fuzzy_equ(%a,%a)=%.17g not in [a*b, a+b-a*b]=[%.17g,%.17g]", a, b, v, (double)lo, (double)hi);
            }
        }
        /* monotone in each argument */
        {
            double va = o->inl(a2, b), vb = o->inl(a, b2);
            VF_COUNT("op-monotone");
            if (o->arith)
            {
                if (v > va) { VF_MAX("op-monotone-drop/tol(2eps)", (v - va) / (2 * EPS)); }
                if (v > vb) { VF_MAX("op-monotone-drop/tol(2eps)", (v - vb) / (2 * EPS)); }
            }
            if (!(va >= v - slack))
            {
                vf_viol(OPKEY(k, "not-monotone"), "a_fuzzy_%s(%a,%a)=%.17g > a_fuzzy_%s(%a,%a)=%.17g although the first argument grew", o->name, a, b, v, o->name, a2, b, va);
            }
            if (!(vb >= v - slack))
            {
                vf_viol(OPKEY(k, "not-monotone"), "a_fuzzy_%s(%a,%a)=%.17g > a_fuzzy_%s(%a,%a)=%.17g although the second argument grew", o->name, a, b, v, o->name, a, b2, vb);
            }
        }
        /* boundary identities of the class */
        if (o->cls != CLS_EQU)
        {
            double one = o->inl(a, 1), zero = o->inl(a, 0), one2 = o->inl(1, a), zero2 = o->inl(0, a);
            double e1 = o->cls == CLS_CAP ? a : 1, e0 = o->cls == CLS_CAP ? 0 : a;
            VF_COUNT("op-boundary");
            if (o->arith)
            {
                VF_MAX("op-boundary-err/tol(2eps)", fabs(one - e1) / (2 * EPS));
                VF_MAX("op-boundary-err/tol(2eps)", fabs(zero - e0) / (2 * EPS));
            }
            if (!(o->arith ? fabs(one - e1) <= slack && fabs(one2 - e1) <= slack : same_bits(one, e1) && same_bits(one2, e1)))
            {
                vf_viol(OPKEY(k, "boundary-identity"), "a_fuzzy_%s(%a,1)=%.17g, (1,%a)=%.17g, expected %.17g", o->name, a, one, a, one2, e1);
            }
            if (!(o->arith ? fabs(zero - e0) <= slack && fabs(zero2 - e0) <= slack : same_bits(zero, e0) && same_bits(zero2, e0)))
            {
                vf_viol(OPKEY(k, "boundary-identity"), "a_fuzzy_%s(%a,0)=%.17g, (0,%a)=%.17g, expected %.17g", o->name, a, zero, a, zero2, e0);
            }
        }
        else
        {
            /* equilibrium operator: equ(a,0) = 0, equ(1,1) = 1, equ(a,a) lies between a^2 and 2a-a^2 */
            VF_COUNT("op-boundary");
            if (o->inl(a, 0) != 0 || o->inl(0, a) != 0 || o->inl(1, 1) != 1)
            {
                vf_viol(OPKEY(k, "boundary-identity"), "a_fuzzy_equ(%a,0)=%.17g, (0,%a)=%.17g, (1,1)=%.17g", a, o->inl(a, 0), a, o->inl(0, a), o->inl(1, 1));
            }
        }
    }
    /* complement */
    {
        double v = a_fuzzy_not(a), x = vfx_fuzzy_not(a), v2 = a_fuzzy_not(a2);
        VF_COUNT("op-not");
        if (!same_bits(v, (double)(1 - (q_t)a)) || !same_bits(v, x) || !(v >= 0 && v <= 1) || !(v2 <= v))
        {
            vf_viol("fuzzy_not/formula", "a_fuzzy_not(%a)=%.17g exported %.17g, not(%a)=%.17g", a, v, x, a2, v2);
        }
    }
}

/* a_fuzzy_equ_(gamma,a,b) = (ab)^(1-gamma) (a+b-ab)^gamma. Tolerance 16eps absolute is a NEW constant:
 * two pow calls on arguments that carry 2u absolute error each; worst observed on the unchanged tree
 * over seeds 1..5 (quick+thorough) is reported as op-equ_-err/tol and stays below 1/4 */
#define EQU_TOL (16 * EPS)
static void op_equ_(double g, double a, double b, double a2)
{
    double v = a_fuzzy_equ_(g, a, b), w = a_fuzzy_equ_(g, b, a), va = a_fuzzy_equ_(g, a2, b);
    q_t ab = (q_t)a * b, s = (q_t)a + b - ab, ref;
    double err;
    if (ab != 0 && ab < (q_t)DBL_MIN)
    {
        /* a*b is not a normal double: (ab)^(1-gamma) computed through the rounded product is an underflow
           artefact (e.g. equ_(0.99, 0.25, 2^-1074) = 0, exact 8.4e-5), outside what is judged here */
        VF_COUNT("op-equ_-skipped-underflow");
        return;
    }
    ++vf.evals;
    ref = (ab == 0 && g < 1) ? 0 : powq(ab, 1 - (q_t)g) * powq(s, g);
    if (ab == 0 && g == 1) { ref = s; }
    err = (double)q_abs((q_t)v - ref);
    VF_COUNT("op-equ_");
    VF_MAX("op-equ_-err/tol(16eps)", err / EQU_TOL);
    vf_distinct(vf_hash64(vf_hash64(vf_hash64(2, 7), (uint64_t)(g == 0 ? 0 : g == 1 ? 2 : 1)), (uint64_t)(op_bucket(a) * 8 + op_bucket(b))));
    if (!same_bits(v, w)) { vf_viol("fuzzy_equ_/not-commutative", "a_fuzzy_equ_(%a,%a,%a)=%.17g, swapped %.17g", g, a, b, v, w); }
    if (!(err <= EQU_TOL)) { vf_viol("fuzzy_equ_/formula", "a_fuzzy_equ_(%a,%a,%a)=%.17g, exact %.21Lg", g, a, b, v, (long double)ref); return; }
    if (!((q_t)v >= ab - EQU_TOL && (q_t)v <= s + EQU_TOL))
    {
        vf_viol("fuzzy_equ_/outside-product-sum-bounds", "a_fuzzy_equ_(%a,%a,%a)=%.17g not in [%.17g,%.17g]", g, a, b, v, (double)ab, (double)s);
    }
    if (!(va >= v - EQU_TOL)) { vf_viol("fuzzy_equ_/not-monotone", "a_fuzzy_equ_(%a,%a,%a)=%.17g > (%a,%a,%a)=%.17g", g, a, b, v, g, a2, b, va); }
}

static double const op_grid[] = {0, 0x1p-1074, DBL_MIN, EPS / 2, EPS, 0x1.11eb851eb851fp-30, 0.25, 1.0 / 3, 0.5, 0.75, 1 - EPS, 1 - EPS / 2, 1};
#define NGRID ((int)(sizeof(op_grid) / sizeof(*op_grid)))

static double op_rand(vf_rng *r)
{
    switch (vf_below(r, 8))
    {
    case 0: return vf_logu(r, -20, 0);
    case 1: return 1 - vf_logu(r, -17, 0);
    case 2: return (double)vf_below(r, 17) / 16;
    case 3: return op_grid[vf_below(r, NGRID)];
    default: return vf_unit(r);
    }
}
static double op_above(vf_rng *r, double a)
{
    double x;
    switch (vf_below(r, 4))
    {
    case 0: x = step_ulps(a, vf_range(r, 1, 3)); break;
    case 1: x = a + (1 - a) * vf_unit(r); break;
    case 2: x = a * (1 + vf_logu(r, -16, -1)); break;
    default: x = op_rand(r); break;
    }
    return (x >= a && x <= 1) ? x : a;
}

/* ------------------------------------------------------------------ PID: fuzzy gain scheduling */
enum
{
    T_TRI_SHOULDER, /* triangular partition with degenerate shoulders at both ends (as test/pid_fuzzy.h) */
    T_TRI_WIDE, /* triangles of half-width 1..2 grid steps: up to 4 sets active */
    T_TRAP, /* trapezoid partition, degenerate outer shoulders */
    T_LIN_TRI, /* linz, tri..., lins */
    T_Z_PI_S, /* z, pi..., s */
    T_GAUSS,
    T_GAUSS2,
    T_GBELL,
    T_SIG, /* sig(-), dsig|psig..., sig(+) */
    T_MIX, /* every set of a random family */
    T_NKINDS
};
static char const *const tab_name[T_NKINDS] = {"tri-shoulder", "tri-wide", "trap", "linz-tri-lins", "z-pi-s", "gauss", "gauss2", "gbell", "sig-dsig-psig", "mix"};

typedef struct
{
    int fam;
    double p[4];
} tset;
typedef struct
{
    int kind;
    int nsets; /* entries in front of the terminator (== order when there is none) */
    int term; /* 0: exactly `order` entries; otherwise the table ends early with this type code */
    tset s[8];
    double L; /* the universe is [-L, L] */
    double *tab; /* exact-size heap block: what the library walks */
    size_t len;
} mtab;

static void tab_build(mtab *t, int kind, int n, double L, vf_rng *r)
{
    double h = n > 1 ? 2 * L / (n - 1) : L, c[8];
    int i;
    memset(t, 0, sizeof(*t));
    t->kind = kind;
    t->L = L;
    t->nsets = n;
    for (i = 0; i < n; ++i) { c[i] = n > 1 ? -L + h * i : 0; }
    for (i = 0; i < n; ++i)
    {
        tset *s = &t->s[i];
        double lo = i > 0 ? c[i - 1] : c[0] - h, hi = i + 1 < n ? c[i + 1] : c[n - 1] + h;
        switch (kind)
        {
        case T_TRI_SHOULDER:
            s->fam = A_MF_TRI;
            s->p[0] = (i == 0 && n > 1) ? c[0] : lo;
            s->p[1] = c[i];
            s->p[2] = (i == n - 1 && n > 1) ? c[i] : hi;
            break;
        case T_TRI_WIDE:
        {
            double w = h * (1 + 0.5 * (double)vf_below(r, 3));
            s->fam = A_MF_TRI;
            s->p[0] = c[i] - w;
            s->p[1] = c[i];
            s->p[2] = c[i] + w;
            break;
        }
        case T_TRAP:
            s->fam = A_MF_TRAP;
            s->p[1] = c[i] - h / 4;
            s->p[2] = c[i] + h / 4;
            s->p[0] = (i == 0) ? s->p[1] : lo + h / 4;
            s->p[3] = (i == n - 1) ? s->p[2] : hi - h / 4;
            break;
        case T_LIN_TRI:
            if (i == 0 && n > 1) { s->fam = A_MF_LINZ; s->p[0] = c[0]; s->p[1] = c[1]; }
            else if (i == n - 1 && n > 1) { s->fam = A_MF_LINS; s->p[0] = c[n - 2]; s->p[1] = c[n - 1]; }
            else { s->fam = A_MF_TRI; s->p[0] = lo; s->p[1] = c[i]; s->p[2] = hi; }
            break;
        case T_Z_PI_S:
            if (i == 0 && n > 1) { s->fam = A_MF_Z; s->p[0] = c[0]; s->p[1] = c[1]; }
            else if (i == n - 1 && n > 1) { s->fam = A_MF_S; s->p[0] = c[n - 2]; s->p[1] = c[n - 1]; }
            else { s->fam = A_MF_PI; s->p[0] = lo; s->p[1] = c[i] - h / 8; s->p[2] = c[i] + h / 8; s->p[3] = hi; }
            break;
        case T_GAUSS:
            s->fam = A_MF_GAUSS;
            s->p[0] = h * (vf_chance(r, 1, 2) ? 0.1 : vf_chance(r, 1, 2) ? 0.25 : 0.5);
            s->p[1] = c[i];
            break;
        case T_GAUSS2:
            s->fam = A_MF_GAUSS2;
            s->p[0] = h * (vf_chance(r, 1, 2) ? 0.08 : 0.3);
            s->p[1] = c[i] - h / 4;
            s->p[2] = h * (vf_chance(r, 1, 2) ? 0.08 : 0.3);
            s->p[3] = c[i] + h / 4;
            break;
        case T_GBELL:
            s->fam = A_MF_GBELL;
            s->p[0] = h / 2;
            s->p[1] = (double)vf_range(r, 1, 3);
            s->p[2] = c[i];
            break;
        case T_SIG:
        {
            double sl = (vf_chance(r, 1, 2) ? 10 : 40) / h;
            if (i == 0) { s->fam = A_MF_SIG; s->p[0] = -sl; s->p[1] = c[0] + h / 2; }
            else if (i == n - 1) { s->fam = A_MF_SIG; s->p[0] = sl; s->p[1] = c[i] - h / 2; }
            else if (i & 1) { s->fam = A_MF_DSIG; s->p[0] = sl; s->p[1] = c[i] - h / 2; s->p[2] = sl; s->p[3] = c[i] + h / 2; }
            else { s->fam = A_MF_PSIG; s->p[0] = sl; s->p[1] = c[i] - h / 2; s->p[2] = -sl; s->p[3] = c[i] + h / 2; }
            break;
        }
        default:
            s->fam = 1 + (int)vf_below(r, 13);
            mf_gen(s->fam, (int)vf_below(r, 64) % fam_ngen[s->fam], L * vf_uniform(r, 0.2, 0.6), 0, r, s->p);
            /* the mixed table is about the walk over entries of different lengths, not about degenerate sets
               (those are driven by the MF cases and by the shoulder partitions): keep these well ordered */
            if (s->fam == A_MF_TRAP || s->fam == A_MF_TRI || s->fam == A_MF_LINS || s->fam == A_MF_LINZ)
            {
                mf_gen(s->fam, 0, L * vf_uniform(r, 0.2, 0.6), 0, r, s->p);
            }
            break;
        }
    }
    /* sometimes the table ends early: A_MF_NUL (or an unknown code) terminates the walk */
    if (n > 1 && vf_chance(r, 1, 6))
    {
        t->nsets = (int)vf_range(r, 1, n - 1);
        t->term = vf_chance(r, 1, 4) ? 99 : -1; /* -1 stands for A_MF_NUL (0) */
    }
    for (i = 0, t->len = 0; i < t->nsets; ++i) { t->len += 1 + (size_t)fam_np[t->s[i].fam]; }
    if (t->term) { t->len += 1; }
    t->tab = (double *)malloc(sizeof(double) * t->len);
    {
        double *w = t->tab;
        for (i = 0; i < t->nsets; ++i)
        {
            *w++ = t->s[i].fam;
            memcpy(w, t->s[i].p, sizeof(double) * (size_t)fam_np[t->s[i].fam]);
            w += fam_np[t->s[i].fam];
        }
        if (t->term) { *w++ = t->term < 0 ? A_MF_NUL : t->term; }
    }
}

/* abscissae worth visiting for a table: break points of its sets, mid-flanks, outside, random */
static double tab_target(mtab const *t, vf_rng *r)
{
    tset const *s = &t->s[vf_below(r, (uint64_t)t->nsets)];
    double an[MAXAN], w, l;
    int na = mf_anchors(s->fam, s->p, an, &w, &l), np = fam_np[s->fam];
    (void)np;
    switch (vf_below(r, 8))
    {
    case 0:
    case 1: /* a parameter that is an abscissa, exactly */
        switch (s->fam)
        {
        case A_MF_GAUSS: return s->p[1];
        case A_MF_GBELL: return s->p[2];
        case A_MF_SIG: return s->p[1];
        case A_MF_GAUSS2:
        case A_MF_DSIG:
        case A_MF_PSIG: return s->p[vf_chance(r, 1, 2) ? 1 : 3];
        default: return s->p[vf_below(r, (uint64_t)fam_np[s->fam])];
        }
    case 2: /* mid-flank: midpoint of two neighbouring break points of the set */
        if (s->fam >= A_MF_TRAP && fam_np[s->fam] > 1)
        {
            int k = (int)vf_below(r, (uint64_t)fam_np[s->fam] - 1);
            return s->p[k] / 2 + s->p[k + 1] / 2;
        }
        return an[vf_below(r, (uint64_t)na)];
    case 3: return an[vf_below(r, (uint64_t)(na < 9 ? na : 9))];
    case 4: return vf_sign(r) * t->L * vf_uniform(r, 1, 12);
    default: return t->L * vf_uniform(r, -1.2, 1.2);
    }
}

/* a point in the TAIL of one set, where its membership is still above the activation threshold (eps) but below sqrt(eps): with
   both inputs there every set that fires has a membership above eps while every joint membership under the product-like operators is
   below eps (seeded change C12-G: consequents of rules whose joint membership is not above eps are skipped while the normalisation
   still counts them).  Input selection only - found by stepping outwards on the library's own function; nothing is judged here. */
static double tab_tail_target(mtab const *t, vf_rng *r)
{
    tset const *s = &t->s[vf_below(r, (uint64_t)t->nsets)];
    double an[MAXAN], w, l, x0, dir = vf_sign(r), lo, hi, want;
    int na = mf_anchors(s->fam, s->p, an, &w, &l);
    x0 = an[vf_below(r, (uint64_t)na)];
    if (!(a_mf((unsigned)s->fam, x0, s->p) > 1e-8)) { return x0; }
    lo = 0;
    hi = t->L / 64;
    for (int k = 0; k < 80 && a_mf((unsigned)s->fam, x0 + dir * hi, s->p) > 1e-8; ++k) { lo = hi; hi *= 2; }
    want = pow(10.0, vf_uniform(r, -15.3, -8.2));
    for (int k = 0; k < 60; ++k)
    {
        double mid = (lo + hi) / 2;
        if (a_mf((unsigned)s->fam, x0 + dir * mid, s->p) > want) { lo = mid; } else { hi = mid; }
    }
    return x0 + dir * lo;
}

typedef struct
{
    double set, fdb;
    int fn; /* 0 run, 1 pos, 2 inc */
    int zero; /* call a_pid_fuzzy_zero before this step */
} pstep;
#define MAXSTEP 64

/* memberships of x in every set of the table, exactly as the library evaluates them (same functions,
 * same arguments); each value is also judged against the quad formula. Returns the number of active sets. */
static int tab_eval(mtab const *t, double x, int *idx, double *val, int judge, int *near)
{
    int n = 0;
    for (int i = 0; i < t->nsets; ++i)
    {
        tset const *s = &t->s[i];
        double y;
        if (judge)
        {
            char const *dn;
            classify(s->fam, s->p, &dn);
            mf_eval(s->fam, s->p, dn, x, &y, NULL);
        }
        else { y = lib_mf(s->fam, x, s->p); }
        /* within 4 ulps of the activation threshold: reference and library could disagree -> skip the step */
        if (fabs(y - EPS) <= 4 * spacing(EPS)) { *near = 1; }
        if (y > EPS)
        {
            idx[n] = i;
            val[n] = y;
            ++n;
        }
    }
    return n;
}

static char const *const gain_name[3] = {"kp", "ki", "kd"};

static void pid_controller(int order, unsigned opr, int kind_e, int kind_ec, vf_rng *r, int tight, int canon)
{
    mtab me, mec;
    double *mk[3], base[3];
    pstep st[MAXSTEP];
    int nst = 0, N = 1, i, g, opk;
    a_pid_fuzzy *ctx;
    void *buf;
    double prev;
    op2 opfn;
    char key[96];
    int const n2 = order * order;

    /* canon: universes [-1,1] and [-2,2] (as test/pid_fuzzy.h), so that grid points and mid-flanks are exact */
    tab_build(&me, kind_e, order, (canon || vf_chance(r, 1, 2)) ? 1 : vf_logu(r, -2, 3), r);
    tab_build(&mec, kind_ec, order, (canon || vf_chance(r, 1, 2)) ? 2 : vf_logu(r, -2, 3), r);
    if (vf_chance(r, 1, 4))
    {
        /* ONE array as the membership table of both inputs (the usual normalised set-up: a_pid_fuzzy_set_rule(ctx, n, m, m, ...)): pointer equality of two
           read-only arguments is a relation that separately generated tables never have (seeded change C13-K: "walk a shared table once" when mec == me and
           ec == e, which holds on the first sample after zeroing, leaves the column indices aliased to the row offsets) */
        free(mec.tab);
        mec = me;
        VF_COUNT("pid_fuzzy-one-table-for-both-inputs");
    }
    for (g = 0; g < 3; ++g)
    {
        double sc = vf_chance(r, 1, 2) ? 1 : vf_logu(r, -3, 3);
        mk[g] = NULL;
        if (vf_chance(r, 1, 10)) { continue; } /* a rule base may be absent */
        mk[g] = (double *)malloc(sizeof(double) * (size_t)n2);
        for (i = 0; i < n2; ++i) { mk[g][i] = vf_chance(r, 1, 2) ? sc * (double)vf_range(r, -8, 8) : sc * vf_uniform(r, -8, 8); }
        base[g] = 0;
    }
    for (g = 0; g < 3; ++g) { base[g] = vf_chance(r, 1, 2) ? 0 : vf_uniform(r, -100, 100); }
    for (opk = 0; opk < NOPS && ops[opk].pid != opr; ++opk) {}
    if (opk == NOPS) { opk = 0; } /* unknown selector: documented default is the equilibrium operator */
    opfn = ops[opk].inl;

    /* the plan: pairs of steps so that (e, ec) of the second one hits a chosen target */
    while (nst + 2 <= (vf.tier ? 48 : 32))
    {
        double E = tab_target(&me, r), EC = tab_target(&mec, r), fdb = vf_chance(r, 1, 2) ? 0 : me.L * vf_uniform(r, -3, 3);
        if (vf_chance(r, 1, 5)) { E = tab_tail_target(&me, r); EC = tab_tail_target(&mec, r); VF_COUNT("pid_fuzzy-both-inputs-in-membership-tails"); }
        if (nst == 0 && order > 1)
        {
            /* always visit the middle of a flank in both inputs (memberships 1/2, 1/2) */
            E = me.s[0].fam >= A_MF_TRAP ? (me.s[0].p[fam_np[me.s[0].fam] - 2] + me.s[0].p[fam_np[me.s[0].fam] - 1]) / 2 : E;
            EC = mec.s[0].fam >= A_MF_TRAP ? (mec.s[0].p[fam_np[mec.s[0].fam] - 2] + mec.s[0].p[fam_np[mec.s[0].fam] - 1]) / 2 : EC;
            fdb = 0;
        }
        st[nst].set = fdb + (E - EC); st[nst].fdb = fdb; st[nst].fn = (int)vf_below(r, 3); st[nst].zero = nst && vf_chance(r, 1, 16); ++nst;
        st[nst].set = fdb + E; st[nst].fdb = fdb; st[nst].fn = (int)vf_below(r, 3); st[nst].zero = 0; ++nst;
    }
    /* the bound on simultaneously active sets, measured over the plan (the tightest "known bound") */
    {
        int idx[8], near = 0;
        double val[8];
        prev = 0;
        for (i = 0; i < nst; ++i)
        {
            double e = st[i].set - st[i].fdb, ec;
            int a, b;
            if (st[i].zero) { prev = 0; }
            ec = e - prev;
            prev = e;
            a = tab_eval(&me, e, idx, val, 0, &near);
            b = tab_eval(&mec, ec, idx, val, 0, &near);
            if (a > N) { N = a; }
            if (b > N) { N = b; }
        }
        if ((kind_e == T_TRI_SHOULDER || kind_e == T_TRAP || kind_e == T_LIN_TRI || kind_e == T_Z_PI_S) &&
            (kind_ec == T_TRI_SHOULDER || kind_ec == T_TRAP || kind_ec == T_LIN_TRI || kind_ec == T_Z_PI_S))
        {
            /* partitions: analytically at most two neighbouring sets overlap */
            VF_COUNT("pid-partition-bound-2");
            if (N > 2) { fprintf(stderr, "C13 harness: partition with %d active sets\n", N); exit(2); }
        }
        if (!tight) { N = order; }
    }
    buf = malloc(A_PID_FUZZY_BFUZZ((size_t)N)); /* exact size: the red zone starts right behind the contract */
    memset(buf, 0xA5, A_PID_FUZZY_BFUZZ((size_t)N));
    ctx = (a_pid_fuzzy *)malloc(sizeof(*ctx));
    memset(ctx, 0, sizeof(*ctx));
    vf_log("a_pid_fuzzy order %d opr %u(%s) me=%s(L=%a,%d sets,term %d) mec=%s(L=%a,%d sets,term %d) bfuzz N=%d (%zu bytes) base %a %a %a mk %d%d%d", order, opr,
           ops[opk].name, tab_name[kind_e], me.L, me.nsets, me.term, tab_name[kind_ec], mec.L, mec.nsets, mec.term, N, (size_t)A_PID_FUZZY_BFUZZ((size_t)N),
           base[0], base[1], base[2], !!mk[0], !!mk[1], !!mk[2]);
    for (i = 0; i < me.nsets; ++i) { vf_log(" me[%d] %s %a %a %a %a", i, fam_name[me.s[i].fam], me.s[i].p[0], me.s[i].p[1], me.s[i].p[2], me.s[i].p[3]); }
    for (i = 0; i < mec.nsets; ++i) { vf_log(" mec[%d] %s %a %a %a %a", i, fam_name[mec.s[i].fam], mec.s[i].p[0], mec.s[i].p[1], mec.s[i].p[2], mec.s[i].p[3]); }
    ctx->pid.summax = 1e9;
    ctx->pid.summin = -1e9;
    ctx->pid.outmax = 1e9;
    ctx->pid.outmin = -1e9;
    /* the setters in any order (the header prescribes none): the scratch block before or after the rule base, the operator and the base gains anywhere
       (seeded change C12-L: set_bfuzz clamping its capacity to the order of the rule base that happens to be installed - 0 on a fresh controller) */
    {
        unsigned const ord = (unsigned)vf_below(r, 6);
        if (ord & 1) { a_pid_fuzzy_set_bfuzz(ctx, buf, (a_size)N); VF_COUNT("pid_fuzzy-scratch-block-set-before-the-rule-base"); }
        if (ord & 2) { a_pid_fuzzy_set_kpid(ctx, base[0], base[1], base[2]); }
        a_pid_fuzzy_set_opr(ctx, opr);
        a_pid_fuzzy_set_rule(ctx, (unsigned)order, me.tab, mec.tab, mk[0], mk[1], mk[2]);
        if (!(ord & 1)) { a_pid_fuzzy_set_bfuzz(ctx, buf, (a_size)N); }
        if (!(ord & 2)) { a_pid_fuzzy_set_kpid(ctx, base[0], base[1], base[2]); }
    }
    a_pid_fuzzy_init(ctx);
    /* layout of the scratch block: index part >= 2N unsigned, value part >= (2+N)N reals, both inside the block */
    VF_COUNT("pid-bfuzz-layout");
    if (a_pid_fuzzy_bfuzz(ctx) != buf || ctx->nfuzz != (unsigned)N || (void *)ctx->idx != buf ||
        (char *)ctx->val < (char *)buf + 2 * sizeof(unsigned) * (size_t)N ||
        (char *)ctx->val + sizeof(a_real) * (size_t)((2 + N) * N) > (char *)buf + A_PID_FUZZY_BFUZZ((size_t)N) ||
        ((uintptr_t)ctx->val % _Alignof(a_real)) != 0)
    {
        vf_viol("pid_fuzzy/bfuzz-layout", "a_pid_fuzzy_set_bfuzz(N=%d): idx at +%td, val at +%td of a %zu byte block", N, (char *)ctx->idx - (char *)buf,
                (char *)ctx->val - (char *)buf, (size_t)A_PID_FUZZY_BFUZZ((size_t)N));
    }
    VF_COUNT("pid-opr-default");
    if (ctx->opr != a_pid_fuzzy_opr(ops[opk].pid))
    {
        vf_viol("pid_fuzzy/set-opr", "a_pid_fuzzy_set_opr(%u) did not install the %s operator", opr, ops[opk].name);
    }

    prev = 0;
    for (i = 0; i < nst; ++i)
    {
        static char const *const fnn[3] = {"run", "pos", "inc"};
        int ie[8], iec[8], ne, nec, near = 0, a, b, outcome, zero_reported = 0;
        double ve[8], vec[8], e, ec, out;
        if (st[i].zero)
        {
            vf_log("a_pid_fuzzy_zero");
            a_pid_fuzzy_zero(ctx);
            prev = 0;
        }
        e = st[i].set - st[i].fdb;
        ec = e - prev;
        prev = e;
        vf_log("a_pid_fuzzy_%s(set=%a, fdb=%a)  e=%.17g ec=%.17g", fnn[st[i].fn], st[i].set, st[i].fdb, e, ec);
        out = st[i].fn == 0 ? a_pid_fuzzy_run(ctx, st[i].set, st[i].fdb)
              : st[i].fn == 1 ? a_pid_fuzzy_pos(ctx, st[i].set, st[i].fdb)
                              : a_pid_fuzzy_inc(ctx, st[i].set, st[i].fdb);
        (void)out;
        ++vf.evals;
        ne = tab_eval(&me, e, ie, ve, 1, &near);
        nec = tab_eval(&mec, ec, iec, vec, 1, &near);
        if (ne > N || nec > N) { fprintf(stderr, "C13 harness: plan bound violated\n"); exit(2); }
        if (near)
        {
            VF_COUNT("pid-skipped-near-threshold");
            continue;
        }
        outcome = (!ne || !nec) ? 0 : 1;
        for (g = 0; g < 3; ++g)
        {
            double got = g == 0 ? ctx->pid.kp : g == 1 ? ctx->pid.ki : ctx->pid.kd;
            q_t W = 0, num = 0, mean, delta, tol;
            double cmin = INFINITY, cmax = -INFINITY, cabs = 0, ratio;
            if (!ne || !nec || !mk[g])
            {
                VF_COUNT("pid-gain-base-when-nothing-fires");
                if (!same_bits(got, base[g] + 0.0))
                {
                    snprintf(key, sizeof(key), "pid_fuzzy/%s/changed-without-active-rule", gain_name[g]);
                    vf_viol(key, "step %d: %s=%.17g but base gain %.17g and %s (ne=%d nec=%d)", i, gain_name[g], got, base[g],
                            mk[g] ? "no set is active" : "there is no rule base for it", ne, nec);
                }
                continue;
            }
            for (a = 0; a < ne; ++a)
            {
                for (b = 0; b < nec; ++b)
                {
                    double w = opfn(ve[a], vec[b]), c = mk[g][ie[a] * order + iec[b]];
                    W += w;
                    num += (q_t)w * c;
                    if (c < cmin) { cmin = c; }
                    if (c > cmax) { cmax = c; }
                    if (fabs(c) > cabs) { cabs = fabs(c); }
                }
            }
            VF_COUNT("pid-gain-finite");
            if (!(W > 0))
            {
                /* every joint membership is 0: the weighted mean is undefined, the gain still has to be finite */
                outcome = 2;
                if (!isfinite(got))
                {
                    if (!zero_reported++)
                    {
                        vf_viol("pid_fuzzy/gain-not-finite/all-joint-memberships-zero",
                                "step %d: %s operator, e=%.17g (%d active sets), ec=%.17g (%d active sets): every joint membership is 0, 1/0 -> kp=%g ki=%g kd=%g "
                                "(order %d, me=%s L=%.17g, mec=%s L=%.17g)",
                                i, ops[opk].name, e, ne, ec, nec, ctx->pid.kp, ctx->pid.ki, ctx->pid.kd, order, tab_name[kind_e], me.L, tab_name[kind_ec], mec.L);
                    }
                }
                continue;
            }
            if (!isfinite(got))
            {
                snprintf(key, sizeof(key), "pid_fuzzy/%s/not-finite", gain_name[g]);
                vf_viol(key, "step %d: %s=%g with %d x %d active rules and total weight %.17g", i, gain_name[g], got, ne, nec, (double)W);
                continue;
            }
            mean = num / W;
            delta = (q_t)got - base[g];
            tol = (q_t)(n2 + 1) * EPS * cabs + (base[g] != 0 ? EPS * fabs(got) : 0) + DBL_MIN;
            ratio = (double)(q_abs(delta - mean) / tol);
            VF_COUNT("pid-gain-in-consequent-range");
            if (!(delta >= (q_t)cmin - tol && delta <= (q_t)cmax + tol))
            {
                snprintf(key, sizeof(key), "pid_fuzzy/%s/outside-active-consequents", gain_name[g]);
                vf_viol(key, "step %d: %s-base=%.17g outside [%.17g, %.17g] of the %d x %d active rules (e=%.17g ec=%.17g opr %s)", i, gain_name[g], (double)delta,
                        cmin, cmax, ne, nec, e, ec, ops[opk].name);
                continue;
            }
            VF_COUNT("pid-gain-weighted-mean");
            VF_MAX("pid-gain-err/tol((n^2+1)eps)", ratio);
            if (cabs > 0) { VF_MAX("pid-gain-err/(n^2*eps*max|c|)", (double)(q_abs(delta - mean) / ((q_t)n2 * EPS * cabs + (base[g] != 0 ? EPS * fabs(got) : 0)))); }
            if (!(ratio <= 1))
            {
                snprintf(key, sizeof(key), "pid_fuzzy/%s/not-weighted-mean", gain_name[g]);
                vf_viol(key, "step %d: %s-base=%.17g, weighted mean of the %d x %d active consequents is %.17g (error %.3g x tolerance; e=%.17g ec=%.17g opr %s order %d)", i,
                        gain_name[g], (double)delta, ne, nec, (double)mean, ratio, e, ec, ops[opk].name, order);
            }
            else if (g == 0 && vf_want_sample() && ne * nec > 1 && i > 3)
            {
                vf_sample("a_pid_fuzzy_%s order %d opr %s me=%s mec=%s bfuzz N=%d: e=%.6g ec=%.6g -> %dx%d active rules, kp-kp0=%.17g, quad weighted mean %.17g, err/tol=%.3g",
                          fnn[st[i].fn], order, ops[opk].name, tab_name[kind_e], tab_name[kind_ec], N, e, ec, ne, nec, (double)delta, (double)mean, ratio);
            }
        }
        vf_distinct(vf_hash64(vf_hash64(vf_hash64(vf_hash64(3, (uint64_t)opk), (uint64_t)order), (uint64_t)(kind_e * 16 + kind_ec)), (uint64_t)(ne * 32 + nec * 4 + outcome)));
    }
    /* detaching the scratch block */
    a_pid_fuzzy_set_bfuzz(ctx, NULL, 0);
    VF_COUNT("pid-bfuzz-layout");
    if (ctx->idx != NULL || ctx->val != NULL || a_pid_fuzzy_bfuzz(ctx) != NULL) { vf_viol("pid_fuzzy/bfuzz-layout", "a_pid_fuzzy_set_bfuzz(NULL, 0) leaves idx=%p val=%p", (void *)ctx->idx, (void *)ctx->val); }
    free(ctx);
    free(buf);
    for (g = 0; g < 3; ++g) { free(mk[g]); }
    if (mec.tab != me.tab) { free(mec.tab); }
    free(me.tab);
}

/* "its scratch buffer of the documented size is never overrun" at EVERY start address the documentation allows: a_pid_fuzzy_set_bfuzz
   takes a `void *` to "a buffer at least A_PID_FUZZY_BFUZZ(num)" and asks for nothing else, while malloc only ever hands out 16-aligned
   starts (seeded change C13-I: set_bfuzz rounds the caller's pointer up to a multiple of sizeof(a_real) while the size macro has no slack
   for the shift, so an exact-size scratch that starts off such a boundary is overrun behind its end; every malloc'ed scratch is unaffected).
   The exact-size scratch is placed at byte offset `off` of a heap block, twice: (G) followed by 32 harness guard bytes that are compared
   after every call (independent of ASan, whose 8-byte checks look at the first shadow granule only), (A) ending exactly at the end of
   the malloc block (ASan red zone behind the contract); the bytes in front of the scratch are guard bytes in both.  All N = order sets of
   both tables contain every input, so the block is used up to its last a_real (counted, not judged).  A twin controller with the same
   configuration on an ordinary exact-size malloc block is stepped alongside: output and gains must agree bit for bit.
   Offsets: the unchanged library stores unsigned at +0 and a_real at +2N*sizeof(unsigned), so under UBSan's alignment check (the main
   configuration) only multiples of _Alignof(a_real) are used; the side configuration "unaligned-scratch" (-fno-sanitize=alignment for library
   and harness, -DVF_UNALIGNED_SCRATCH) runs this clause alone on every offset 1..7 and a few larger ones. */
#ifdef VF_UNALIGNED_SCRATCH
static size_t const scratch_off[] = {1, 2, 3, 4, 5, 6, 7, 9, 12, 20, 36, 68};
#else
static size_t const scratch_off[] = {0, 8, 16, 24, 40, 72};
#endif
#define SCRATCH_GUARD 32
static int scratch_guards(unsigned char const *blk, size_t off, size_t sz, size_t tail, int N, unsigned opr, char const *what, int step)
{
    size_t k;
    for (k = 0; k < off && blk[k] == 0xC3; ++k) {}
    if (k < off)
    {
        vf_viol("pid_fuzzy/scratch-underrun/byte-in-front-of-the-block-written", "N=%d opr %u, %zu byte scratch at offset %zu of a heap block: after %s (step %d) the byte %zu in front of it is 0x%02X",
                N, opr, sz, off, what, step, off - k, blk[k]);
        return 1;
    }
    for (k = 0; k < tail && blk[off + sz + k] == 0xC3; ++k) {}
    if (k < tail)
    {
        vf_viol("pid_fuzzy/scratch-overrun/byte-behind-documented-size-written", "N=%d opr %u, scratch of A_PID_FUZZY_BFUZZ(%d) = %zu bytes at offset %zu of a heap block (start address %% %zu = %zu): "
                "after %s (step %d) guard byte +%zu behind the buffer is 0x%02X", N, opr, N, sz, off, sizeof(a_real), (size_t)((uintptr_t)(blk + off) % sizeof(a_real)), what, step, k, blk[off + sz + k]);
        return 1;
    }
    return 0;
}

static void pid_scratch_alignment(int N, unsigned opr, vf_rng *r)
{
    size_t const sz = A_PID_FUZZY_BFUZZ((size_t)N);
    double const L = vf_chance(r, 1, 2) ? 1 : vf_logu(r, -2, 3), h = N > 1 ? 2 * L / (N - 1) : L;
    mtab t[2];
    double *mk[3], base[3], set[8], fdb[8];
    int fn[8], nst = 6, i, g, opk, overrun = 0;
    unsigned char fill[sizeof(a_real)];
    memset(fill, 0xA5, sizeof(fill));
    for (opk = 0; opk < NOPS && ops[opk].pid != opr; ++opk) {}
    if (opk == NOPS) { opk = 0; }
    /* every set of both tables contains [-L, L] with a degree >= 1/2: N sets are active in e and in ec at every step */
    for (g = 0; g < 2; ++g)
    {
        int const tri = vf_chance(r, 1, 2);
        double *w;
        memset(&t[g], 0, sizeof(t[g]));
        t[g].kind = tri ? T_TRI_WIDE : T_GAUSS;
        t[g].L = L;
        t[g].nsets = N;
        for (i = 0; i < N; ++i)
        {
            tset *s = &t[g].s[i];
            double const c = N > 1 ? -L + h * i : 0;
            if (tri) { s->fam = A_MF_TRI; s->p[0] = c - 4 * L; s->p[1] = c; s->p[2] = c + 4 * L; }
            else { s->fam = A_MF_GAUSS; s->p[0] = 2 * L * vf_uniform(r, 1, 2); s->p[1] = c; }
            t[g].len += 1 + (size_t)fam_np[s->fam];
        }
        w = t[g].tab = (double *)malloc(sizeof(double) * t[g].len);
        for (i = 0; i < N; ++i)
        {
            *w++ = t[g].s[i].fam;
            memcpy(w, t[g].s[i].p, sizeof(double) * (size_t)fam_np[t[g].s[i].fam]);
            w += fam_np[t[g].s[i].fam];
        }
    }
    for (g = 0; g < 3; ++g)
    {
        mk[g] = (g && vf_chance(r, 1, 8)) ? NULL : (double *)malloc(sizeof(double) * (size_t)(N * N));
        for (i = 0; mk[g] && i < N * N; ++i) { mk[g][i] = vf_uniform(r, -8, 8); }
        base[g] = vf_chance(r, 1, 2) ? 0 : vf_uniform(r, -100, 100);
    }
    {
        double prev = 0;
        int idx[8], near = 0;
        double val[8];
        for (i = 0; i < nst; ++i)
        {
            double const e = L * vf_uniform(r, -0.5, 0.5); /* ec = e - previous e stays inside [-L, L] */
            fdb[i] = vf_chance(r, 1, 2) ? 0 : L * vf_uniform(r, -3, 3);
            set[i] = fdb[i] + e;
            fn[i] = (int)vf_below(r, 3);
            if (tab_eval(&t[0], set[i] - fdb[i], idx, val, 0, &near) != N || tab_eval(&t[1], (set[i] - fdb[i]) - prev, idx, val, 0, &near) != N)
            {
                fprintf(stderr, "C13 harness: scratch-alignment plan does not activate all %d sets\n", N);
                exit(2);
            }
            prev = set[i] - fdb[i];
        }
    }
    vf_log("a_pid_fuzzy scratch at every start offset: order = N = %d (%zu bytes), opr %u(%s), L=%a, me %s, mec %s", N, sz, opr, ops[opk].name, L, tab_name[t[0].kind], tab_name[t[1].kind]);
    for (size_t o = 0; o < sizeof(scratch_off) / sizeof(*scratch_off) && !overrun; ++o)
    {
        size_t const off = scratch_off[o];
        for (int place = 0; place < 2 && !overrun; ++place) /* 0: guard bytes behind the scratch; 1: the end of the malloc block behind it */
        {
            size_t const tail = place ? 0 : SCRATCH_GUARD;
            unsigned char *blk = (unsigned char *)malloc(off + sz + tail), *buf = blk + off;
            void *tbuf = malloc(sz);
            a_pid_fuzzy *c[2];
            int used = 0;
            memset(blk, 0xC3, off + sz + tail);
            memset(buf, 0xA5, sz);
            memset(tbuf, 0xA5, sz);
            vf_log(" scratch = block + %zu (%s), address %% %zu = %zu", off, place ? "ends at the end of the malloc block" : "32 guard bytes behind it", sizeof(a_real), (size_t)((uintptr_t)buf % sizeof(a_real)));
            for (g = 0; g < 2; ++g)
            {
                c[g] = (a_pid_fuzzy *)malloc(sizeof(*c[g]));
                memset(c[g], 0, sizeof(*c[g]));
                c[g]->pid.summax = 1e9;
                c[g]->pid.summin = -1e9;
                c[g]->pid.outmax = 1e9;
                c[g]->pid.outmin = -1e9;
                a_pid_fuzzy_set_opr(c[g], opr);
                a_pid_fuzzy_set_rule(c[g], (unsigned)N, t[0].tab, t[1].tab, mk[0], mk[1], mk[2]);
                a_pid_fuzzy_set_bfuzz(c[g], g ? tbuf : (void *)buf, (a_size)N);
                a_pid_fuzzy_set_kpid(c[g], base[0], base[1], base[2]);
                a_pid_fuzzy_init(c[g]);
            }
            VF_COUNT("pid-scratch-every-start-offset-getter-and-layout");
            if (a_pid_fuzzy_bfuzz(c[0]) != (void *)buf || (void *)c[0]->idx != (void *)buf || (unsigned char *)c[0]->val < buf + 2 * sizeof(unsigned) * (size_t)N ||
                (unsigned char *)c[0]->val + sizeof(a_real) * (size_t)((2 + N) * N) > buf + sz || c[0]->nfuzz != (unsigned)N)
            {
                vf_viol("pid_fuzzy/bfuzz-getter-or-layout-ne-block-set", "a_pid_fuzzy_set_bfuzz(block + %zu = %p (address %% %zu = %zu), N=%d) of %zu bytes: a_pid_fuzzy_bfuzz() = %p, idx at %+td, val at %+td (+ %zu bytes of values), nfuzz %u",
                        off, (void *)buf, sizeof(a_real), (size_t)((uintptr_t)buf % sizeof(a_real)), N, sz, a_pid_fuzzy_bfuzz(c[0]), (unsigned char *)c[0]->idx - buf, (unsigned char *)c[0]->val - buf,
                        sizeof(a_real) * (size_t)((2 + N) * N), c[0]->nfuzz);
            }
            /* a getter/layout violation does not end the case: what matters is whether the calls then write outside the block */
            overrun = scratch_guards(blk, off, sz, tail, N, opr, "set_bfuzz/init", -1);
            for (i = 0; i < nst && !overrun; ++i)
            {
                static char const *const fnn[3] = {"a_pid_fuzzy_run", "a_pid_fuzzy_pos", "a_pid_fuzzy_inc"};
                double out[2];
                for (g = 0; g < 2; ++g)
                {
                    out[g] = fn[i] == 0 ? a_pid_fuzzy_run(c[g], set[i], fdb[i]) : fn[i] == 1 ? a_pid_fuzzy_pos(c[g], set[i], fdb[i]) : a_pid_fuzzy_inc(c[g], set[i], fdb[i]);
                }
                ++vf.evals;
                VF_COUNT("pid-scratch-every-start-offset-guards-intact");
                if (scratch_guards(blk, off, sz, tail, N, opr, fnn[fn[i]], i)) { overrun = 1; break; }
                VF_COUNT("pid-scratch-every-start-offset-gains==aligned-twin");
                if (!same_bits(out[0], out[1]) || !same_bits(c[0]->pid.kp, c[1]->pid.kp) || !same_bits(c[0]->pid.ki, c[1]->pid.ki) || !same_bits(c[0]->pid.kd, c[1]->pid.kd))
                {
                    vf_viol("pid_fuzzy/scratch-start-offset-changes-gains", "N=%d opr %s, scratch at block + %zu (address %% %zu = %zu), step %d %s(%a, %a): out %a kp %a ki %a kd %a; twin on a malloc'ed scratch: out %a kp %a ki %a kd %a",
                            N, ops[opk].name, off, sizeof(a_real), (size_t)((uintptr_t)buf % sizeof(a_real)), i, fnn[fn[i]], set[i], fdb[i], out[0], c[0]->pid.kp, c[0]->pid.ki, c[0]->pid.kd, out[1], c[1]->pid.kp,
                            c[1]->pid.ki, c[1]->pid.kd);
                }
                if (memcmp(buf + sz - sizeof(a_real), fill, sizeof(a_real)) != 0) { used = 1; }
            }
            if (used) { VF_COUNT("pid-scratch-used-up-to-its-last-real"); }
            vf_distinct(vf_hash64(vf_hash64(vf_hash64(vf_hash64(5, (uint64_t)opk), (uint64_t)N), (uint64_t)off), (uint64_t)place));
            if (!vf.case_viol && place == 0 && o == 0 && vf_want_sample())
            {
                vf_sample("a_pid_fuzzy order = N = %d opr %s: exact-size scratch (%zu bytes) at block + {%zu..%zu} with guard bytes / the malloc end behind it, all %d x %d rules active: guards intact after every call, "
                          "a_pid_fuzzy_bfuzz() == pointer set, out/kp/ki/kd bitwise == twin on a malloc'ed scratch", N, ops[opk].name, sz, scratch_off[0], scratch_off[sizeof(scratch_off) / sizeof(*scratch_off) - 1], N, N);
            }
            free(c[0]);
            free(c[1]);
            free(tbuf);
            free(blk);
        }
    }
    for (g = 0; g < 3; ++g) { free(mk[g]); }
    free(t[0].tab);
    free(t[1].tab);
}

/* The scratch block handed back with a SMALLER count after it was really shrunk in place - what set_nfuzz of the Python, Lua and JavaScript bindings does:
   ptr = realloc(a_pid_fuzzy_bfuzz(ctx), A_PID_FUZZY_BFUZZ(num)); a_pid_fuzzy_set_bfuzz(ctx, ptr, num); and realloc returns the same address when it
   shrinks. The block of A_PID_FUZZY_BFUZZ(N) bytes is attached for N sets and used; then only its first A_PID_FUZZY_BFUZZ(M) bytes, M < N, still belong
   to the controller (the rest becomes guard bytes, which the allocator would have split off) and the same pointer is set again with M; at most M sets
   are ever active at once (shoulder partitions: 2). Guards intact after every call, outputs and gains bit for bit those of a twin on fresh exact-size
   blocks (seeded change C13-M: set_bfuzz keeps the layout of the larger count when pointer and a smaller count come back, so the value area ends
   behind the shrunk block). */
static void pid_scratch_shrunk(int N, unsigned opr, vf_rng *r)
{
    int const M = 2 + (int)vf_below(r, (uint64_t)(N - 2)); /* 2 .. N-1 */
    size_t const sz1 = A_PID_FUZZY_BFUZZ((size_t)N), sz2 = A_PID_FUZZY_BFUZZ((size_t)M);
    double const L = vf_chance(r, 1, 2) ? 1 : vf_logu(r, -2, 3);
    mtab t[2];
    double *mk[3], base[3], prev = 0;
    unsigned char *buf = (unsigned char *)malloc(sz1);
    void *tb1 = malloc(sz1), *tb2 = malloc(sz2);
    a_pid_fuzzy *c[2];
    int g, i, bad = 0;
    tab_build(&t[0], T_TRI_SHOULDER, N, L, r);
    tab_build(&t[1], T_TRI_SHOULDER, N, L * vf_uniform(r, 0.5, 2), r);
    if (t[0].term || t[1].term) { free(t[0].tab); free(t[1].tab); free(buf); free(tb1); free(tb2); return; } /* tables that end early are another clause */
    for (g = 0; g < 3; ++g)
    {
        mk[g] = (g && vf_chance(r, 1, 8)) ? NULL : (double *)malloc(sizeof(double) * (size_t)(N * N));
        for (i = 0; mk[g] && i < N * N; ++i) { mk[g][i] = vf_uniform(r, -8, 8); }
        base[g] = vf_chance(r, 1, 2) ? 0 : vf_uniform(r, -100, 100);
    }
    memset(buf, 0xA5, sz1); memset(tb1, 0xA5, sz1); memset(tb2, 0xA5, sz2);
    vf_log("a_pid_fuzzy scratch shrunk in place: order %d, block of A_PID_FUZZY_BFUZZ(%d) = %zu bytes, later A_PID_FUZZY_BFUZZ(%d) = %zu bytes at the same address, opr %u", N, N, sz1, M, sz2, opr);
    for (g = 0; g < 2; ++g)
    {
        c[g] = (a_pid_fuzzy *)malloc(sizeof(*c[g]));
        memset(c[g], 0, sizeof(*c[g]));
        c[g]->pid.summax = 1e9; c[g]->pid.summin = -1e9; c[g]->pid.outmax = 1e9; c[g]->pid.outmin = -1e9;
        a_pid_fuzzy_set_opr(c[g], opr);
        a_pid_fuzzy_set_rule(c[g], (unsigned)N, t[0].tab, t[1].tab, mk[0], mk[1], mk[2]);
        a_pid_fuzzy_set_bfuzz(c[g], g ? tb1 : (void *)buf, (a_size)N);
        a_pid_fuzzy_set_kpid(c[g], base[0], base[1], base[2]);
        a_pid_fuzzy_init(c[g]);
    }
    for (i = 0; i < 10 && !bad; ++i)
    {
        double const e = L * vf_uniform(r, -1.1, 1.1), fdb = vf_chance(r, 1, 2) ? 0 : L * vf_uniform(r, -3, 3), set = fdb + e;
        int const fn = (int)vf_below(r, 3);
        int idx[8], near = 0;
        double val[8], out[2];
        if (tab_eval(&t[0], set - fdb, idx, val, 0, &near) > 2 || tab_eval(&t[1], (set - fdb) - prev, idx, val, 0, &near) > 2) { continue; } /* never with these partitions */
        if (i == 4)
        {
            /* the shrink: same address, smaller block, smaller count */
            memset(buf + sz2, 0xC3, sz1 - sz2);
            a_pid_fuzzy_set_bfuzz(c[0], buf, (a_size)M);
            a_pid_fuzzy_set_bfuzz(c[1], tb2, (a_size)M);
            VF_COUNT("pid-scratch-shrunk-in-place-and-set-again");
            if (a_pid_fuzzy_bfuzz(c[0]) != (void *)buf || c[0]->nfuzz != (unsigned)M || (unsigned char *)c[0]->val + sizeof(a_real) * (size_t)((2 + M) * M) > buf + sz2)
            {
                vf_viol("pid_fuzzy/bfuzz-layout-after-shrink", "set_bfuzz(same pointer, %d) after set_bfuzz(pointer, %d): nfuzz %u, val at +%td, value area ends at +%td of a block that now has %zu bytes",
                        M, N, c[0]->nfuzz, (unsigned char *)c[0]->val - buf, (unsigned char *)c[0]->val + sizeof(a_real) * (size_t)((2 + M) * M) - buf, sz2);
            }
        }
        for (g = 0; g < 2; ++g) { out[g] = fn == 0 ? a_pid_fuzzy_run(c[g], set, fdb) : fn == 1 ? a_pid_fuzzy_pos(c[g], set, fdb) : a_pid_fuzzy_inc(c[g], set, fdb); }
        prev = set - fdb;
        ++vf.evals;
        if (i >= 4)
        {
            size_t k;
            VF_COUNT("pid-scratch-shrunk-guards-intact");
            for (k = sz2; k < sz1 && buf[k] == 0xC3; ++k) {}
            if (k < sz1)
            {
                vf_viol("pid_fuzzy/scratch-overrun/byte-behind-the-shrunk-block-written", "order %d opr %u: block shrunk in place from A_PID_FUZZY_BFUZZ(%d) = %zu to A_PID_FUZZY_BFUZZ(%d) = %zu bytes and set again with count %d; after step %d byte +%zu (behind the block) is 0x%02X",
                        N, opr, N, sz1, M, sz2, M, i, k, buf[k]);
                bad = 1;
            }
        }
        if (!same_bits(out[0], out[1]) || !same_bits(c[0]->pid.kp, c[1]->pid.kp) || !same_bits(c[0]->pid.ki, c[1]->pid.ki) || !same_bits(c[0]->pid.kd, c[1]->pid.kd))
        {
            vf_viol("pid_fuzzy/scratch-shrunk-in-place-changes-gains", "order %d opr %u step %d: out %a kp %a ki %a kd %a; twin on fresh exact-size blocks: out %a kp %a ki %a kd %a", N, opr, i, out[0], c[0]->pid.kp,
                    c[0]->pid.ki, c[0]->pid.kd, out[1], c[1]->pid.kp, c[1]->pid.ki, c[1]->pid.kd);
            bad = 1;
        }
    }
    free(c[0]); free(c[1]); free(buf); free(tb1); free(tb2);
    for (g = 0; g < 3; ++g) { free(mk[g]); }
    free(t[0].tab); free(t[1].tab);
}

/* ------------------------------------------------------------------ plan */
enum { K_MF, K_OP_GRID, K_OP_RANDOM, K_PID, K_PID_SCRATCH };
typedef struct { int kind; uint64_t arg; } plan_t;
static plan_t *plan;
static uint64_t nplan;
static void plan_add(int kind, uint64_t arg)
{
    static uint64_t cap;
    if (nplan == cap)
    {
        cap = cap ? cap * 2 : 1024;
        plan = (plan_t *)realloc(plan, cap * sizeof(*plan));
    }
    plan[nplan].kind = kind;
    plan[nplan].arg = arg;
    ++nplan;
}

static void vf_init(void)
{
    /* interleave the three groups so that every worker gets a share of each */
    uint64_t const mf_reps = vf.tier ? 750 : 12, op_cases = vf.tier ? 10000 : 160, pid_reps = vf.tier ? 300 : 5;
    uint64_t rep;
    /* scratch block at every start offset (seeded change C13-I): every order x every selector; the side configuration runs nothing else */
    uint64_t const scr_reps =
#ifdef VF_UNALIGNED_SCRATCH
        vf.tier ? 40 : 3;
#else
        vf.tier ? 10 : 1;
#endif
    for (rep = 0; rep < scr_reps; ++rep)
    {
        for (int n = 1; n <= 7; ++n)
        {
            for (int o = 0; o < 8; ++o) { plan_add(K_PID_SCRATCH, (uint64_t)n | (uint64_t)o << 4 | rep << 16); }
        }
    }
#ifdef VF_UNALIGNED_SCRATCH
    return;
#endif
    plan_add(K_OP_GRID, 0);
    for (rep = 0; rep < mf_reps; ++rep)
    {
        for (int f = 1; f < 14; ++f)
        {
            for (int g = 0; g < fam_ngen[f]; ++g)
            {
                for (int s = 0; s < 9; ++s)
                {
                    for (int o = 0; o < 2; ++o) { plan_add(K_MF, (uint64_t)f | (uint64_t)g << 8 | (uint64_t)s << 16 | (uint64_t)o << 24 | rep << 32); }
                }
            }
        }
    }
    for (rep = 0; rep < op_cases; ++rep) { plan_add(K_OP_RANDOM, rep); }
    for (rep = 0; rep < pid_reps; ++rep)
    {
        for (int n = 1; n <= 7; ++n)
        {
            for (int o = 0; o < 8; ++o) /* the seven selectors and an unknown one */
            {
                for (int k = 0; k < T_NKINDS; ++k) { plan_add(K_PID, (uint64_t)n | (uint64_t)o << 4 | (uint64_t)k << 8 | rep << 16); }
            }
        }
    }
}
static uint64_t vf_ncases(int tier) { (void)tier; return nplan; }
static void vf_fini(void) { fam_max_flush(); }

#include "h_mf_extreme.h"
static void vf_case(uint64_t cno, vf_rng *r)
{
    plan_t const pl = plan[cno];
#ifndef VF_UNALIGNED_SCRATCH
    if (cno == 0) { bfuzz_macro_hygiene(""); }
    if (cno % 8 == 3) { mf_extreme(r, "", 64); if (vf.case_viol) { return; } }
#endif
    switch (pl.kind)
    {
    case K_PID_SCRATCH:
    {
        int const n = (int)(pl.arg & 0xF), o = (int)(pl.arg >> 4 & 0xF);
        pid_scratch_alignment(n, o < 7 ? (unsigned)o : (vf_chance(r, 1, 2) ? 7u : 1000u), r);
#ifndef VF_UNALIGNED_SCRATCH
        if (n >= 3 && !vf.case_viol) { for (int k = 0; k < 3; ++k) { pid_scratch_shrunk(n, o < 7 ? (unsigned)o : 7u, r); } }
#endif
        break;
    }
    case K_MF:
    {
        int const f = (int)(pl.arg & 0xFF), g = (int)(pl.arg >> 8 & 0xFF), s = (int)(pl.arg >> 16 & 0xFF), o = (int)(pl.arg >> 24 & 0xFF);
        int const ntuple = 12;
        for (int t = 0; t < ntuple; ++t)
        {
            double p[4];
            mf_gen(f, g, mf_scales[s], o, r, p);
            mf_tuple(f, p, r, t == 0 && s == 0 && (cno % 5) == 0);
        }
        break;
    }
    case K_OP_GRID:
        vf_log("fuzzy operators on the grid of %d x %d membership pairs", NGRID, NGRID);
        for (int i = 0; i < NGRID; ++i)
        {
            for (int j = 0; j < NGRID; ++j)
            {
                for (int i2 = i; i2 < NGRID; ++i2) { op_pair(op_grid[i], op_grid[j], op_grid[i2], op_grid[j + (i2 - i) < NGRID ? j + (i2 - i) : NGRID - 1]); }
                for (int k = 0; k <= 4; ++k) { op_equ_(k / 4.0, op_grid[i], op_grid[j], op_grid[i < NGRID - 1 ? i + 1 : i]); }
            }
        }
        vf_sample("all a_fuzzy_* operators on the grid {0, 2^-1074, DBL_MIN, eps/2, eps, 1.07*2^-30, .25, 1/3, .5, .75, 1-eps, 1-eps/2, 1}^2: commutative (bitwise), "
                  "exact formula (quad), class bound, monotone against every larger grid value, boundary identities, inline==exported==a_pid_fuzzy_opr()");
        break;
    case K_OP_RANDOM:
        vf_log("fuzzy operators on 4096 random membership pairs");
        for (int i = 0; i < 4096; ++i)
        {
            double a = op_rand(r), b = op_rand(r), a2 = op_above(r, a), b2 = op_above(r, b);
            if (vf_chance(r, 1, 16)) { b = a; b2 = a2; }
            vf_log("pair a=%a b=%a a2=%a b2=%a", a, b, a2, b2);
            op_pair(a, b, a2, b2);
            op_equ_((double)vf_below(r, 1025) / 1024, a, b, a2);
        }
        break;
    default:
    {
        int const n = (int)(pl.arg & 0xF), o = (int)(pl.arg >> 4 & 0xF), k = (int)(pl.arg >> 8 & 0xFF);
        unsigned const opr = o < 7 ? (unsigned)o : (vf_chance(r, 1, 2) ? 7u : 1000u);
        /* first controller: e and ec tables of the same kind on the canonical universes, tight buffer */
        pid_controller(n, opr, k, k, r, 1, 1);
        for (int c = 0; c < 3; ++c) { pid_controller(n, opr, k, (int)vf_below(r, T_NKINDS), r, c != 2, 0); }
        break;
    }
    }
}
