/* C14 - trapezoidal and bell-shaped (double-S) velocity profiles: kinematic monitors.
 *
 * For every request inside the domain of the property (DESIGN.md, section 4, C14) the generated
 * profile is judged on: phase times, start state, end state (one-sided limit at T), hold outside
 * [0,T], continuity across every phase boundary (one-sided limits), velocity / acceleration / jerk
 * limits at boundaries, extrema and 301 uniform + 100 random instants, and "no jump between two
 * neighbouring grid samples" (a consequence of continuity + the limit on the next derivative, which
 * also sees a jump at an instant that is not one of the recorded boundaries).
 *
 * Besides the single requests on a zeroed / garbage-filled / previously used context, every case runs two-call sequences on ONE context
 * in which the second request is built from the fields the first plan recorded (replan_sequence(), seeded change C14-J): it is judged
 * as a request of its own against ITS limits, and - like every judged request - by the twin clause twin_fresh(): the same arguments
 * planned on a fresh garbage-filled context must give bitwise the same duration, fields and samples.
 *
 * Tolerances.  The property states none, so a clause is refuted only beyond C*unit with
 *   unit_p = eps*S_p + vhat*dt,  S_p = |p0|+|p1|+vhat*T+vhat^2/alo (+ vhat*ahat/jhat for bell)
 *   unit_v = eps*S_v + ahat*dt,  S_v = vhat+ahat*T
 *   unit_a = eps*S_a + jhat*dt,  S_a = ahat+jhat*T                       (bell only)
 *   unit_t = eps*S_p/vhat + dt                                           (phase durations)
 *   vhat, ahat, jhat = largest |velocity|, |acceleration|, |jerk| recorded in the generated context,
 *   alo  = smallest non-zero |acceleration| recorded in the context,
 *   dt   = largest change of any recorded phase time when the generator is re-run with each of
 *          the seven inputs moved by +-2 ulps (measured conditioning of the request),
 *   C = 16 (trapezoid), C = 256 (bell)                                   [DESIGN.md]
 * Continuity and end state use nextafter(b,-inf) versus b, never a finite offset.
 *
 * Three refinements of the DESIGN.md scale were necessary; with the scale taken literally (ahat in
 * the quotient, no extra terms) the branch-targeted workload that DESIGN.md asks for alarms on the
 * unchanged tree, and each alarm is fully explained by rounding in the formulas of the generator:
 *  (a) vhat^2/a uses alo, not ahat: t = (sqrt(v0^2+2 p a)-v0)/a has absolute error eps*vhat/a for the
 *      acceleration a of the phase in use, which may be the smaller one (witness: vm=17.38 ac=9.68
 *      de=-0.0311 p0=0 p1=0.02047 v0=17.09 v1=2.66e-4: end position off by 1.45e-13 = 21.6*eps*S_p(ahat)).
 *  (b) trapezoid accel-only branch, velocity-limit clause only: + eps*vhat*(|ac|+|de|)/|de|.  The branch
 *      is chosen by vc2 <= v1^2 and vc2-v1^2 = |de|/(|ac|+|de|)*(v1rec^2-v1^2), so the rounding of vc2 is
 *      amplified by (|ac|+|de|)/|de| in the recorded end speed sqrt(v0^2+2 p ac) (witness: vm=v1=799.124366153
 *      ac=683.57 de=-0.006134 p0=255090.883 p1=255557.986 v0=0: end speed 799.124366155, 2e-12 relative above vm).
 *  (c) bell single-phase branches (ta<0 or td<0 in step 4): S_v += jhat*T^2, S_p += jhat*T^3.  The jerk
 *      time is (jm*p - sqrt(jm*(jm*p^2 -+ (v1-v0)(v0+v1)^2)))/(jm*(v0+v1)), a difference of nearly equal
 *      numbers with absolute error ~eps*p/(v0+v1) = eps*T/2; the reached acceleration jm*tj is then off by
 *      eps*jm*T, velocity by eps*jm*T^2, position by eps*jm*T^3 (witness: jm=1.3223 am=0.0023067 vm=245.34
 *      p0=0 p1=-21249.7595 v0=-9.9012 v1=0: velocity step 1.29e-9 at t-tdj, T=4292; eps*jm*T^2 = 5.4e-9).
 *      The +-2 ulp re-runs do not reveal (a)-(c): the rounding noise is "frozen" (it moves with the inputs).
 *
 * Calibration on the unchanged tree, VERIF_SEED 1..8 quick + 1..5 thorough (19.7e6 judged profiles):
 * worst error/unit per clause  trapezoid 1.45 (end/continuity velocity, accel-decel)  -> C=16  (11x head-room)
 *                              bell      1.47 (position continuity, reduced-am branch) -> C=256 (175x head-room)
 * unit_t (new here): worst 0.50 (trapezoid), 0.20 (bell).
 */
#define VF_PROP "C14"
#include "vf_common.h"
#include "a/a.h"
#include "a/trajtrap.h"
#include "a/trajbell.h"
#include <math.h>
#include <float.h>
#include <quadmath.h>

#define EPS DBL_EPSILON
#define C_TRAP 16.0
#define C_BELL 256.0
#define REQ_PER_CASE 64
#define REPLAN_PER_CASE 4 /* sequences "first plan, then a second request read back from the context" per case */
#define N_UNIFORM 300
#define N_RANDOM 100

static uint64_t vf_ncases(int tier) { return tier ? 80000u : 2400u; }

/* ------------------------------------------------------------------ clauses */
enum
{
    CL_PHASES,
    CL_START_POS,
    CL_START_VEL,
    CL_START_ACC,
    CL_END_POS,
    CL_END_VEL,
    CL_END_ACC,
    CL_HOLD_BEFORE,
    CL_HOLD_AFTER,
    CL_CONT_POS,
    CL_CONT_VEL,
    CL_CONT_ACC,
    CL_VEL_LIMIT,
    CL_ACC_LIMIT,
    CL_JERK_LIMIT,
    CL_STEP_POS,
    CL_STEP_VEL,
    CL_STEP_ACC,
    NCL
};
static char const *const cl_name[NCL] = {
    "phase-times", "start-position", "start-velocity", "start-acceleration",
    "end-position", "end-velocity", "end-acceleration", "hold-before-start", "hold-after-end",
    "position-continuity", "velocity-continuity", "acceleration-continuity",
    "velocity-limit", "acceleration-limit", "jerk-limit",
    "position-step-exceeds-velocity-limit", "velocity-step-exceeds-acceleration-limit",
    "acceleration-step-exceeds-jerk-limit"};
static char const *const gen_name[2] = {"trajtrap", "trajbell"};
static char const *const gen_short[2] = {"trap", "bell"};

enum { TB_CRUISE, TB_ACCEL, TB_DECEL, TB_ACCDEC, TB_N };
enum { BB_CRUISE, BB_AMAX, BB_REDUCED, BB_DECEL, BB_ACCEL, BB_N };
static char const *const branch_name[2][5] = {
    {"cruise", "accel-only", "decel-only", "accel-decel", "?"},
    {"cruise", "nocruise-amax", "nocruise-reduced", "decel-only", "accel-only"}};

/* per-case accumulators, flushed with the dynamic-name API once per case */
static uint64_t cl_n[2][NCL];
static double cl_worst[2][NCL];
static char cl_arg[2][NCL][120];
static int cl_touched[2][NCL];

typedef struct
{
    int gen; /* 0 trapezoid, 1 bell */
    double in[7]; /* trapezoid: vm ac de p0 p1 v0 v1; bell: jm am vm p0 p1 v0 v1 */
    a_trajtrap *tt;
    a_trajbell *tb;
    double T;
    int nb;
    double b[12];
    int branch, dir;
    unsigned limits;
    double p0, p1, v0, v1; /* requested p0, p1, clamped requested v0, recorded v1 */
    double vlim, alim, jlim; /* requested limits */
    double vhat, ahat, alo, jhat; /* ahat: largest, alo: smallest non-zero recorded acceleration magnitude */
    double Sp, Sv, Sa;
    double dt;
    double up, uv, ua, ut; /* unit tolerances */
    double uvl; /* unit tolerance of the velocity-limit clause */
    double C;
    char const *prior; /* what the context held before the judged call */
    int replan; /* 0: ordinary request; 1 + variant: second request on a used context, built from the fields the first plan recorded */
} prof;

static char const *req_text(prof const *q, char *buf, size_t n)
{
    double const *i = q->in;
    if (q->gen == 0)
    {
        snprintf(buf, n, "a_trajtrap_gen(vm=%a ac=%a de=%a p0=%a p1=%a v0=%a v1=%a) [%.17g %.17g %.17g %.17g %.17g %.17g %.17g]",
                 i[0], i[1], i[2], i[3], i[4], i[5], i[6], i[0], i[1], i[2], i[3], i[4], i[5], i[6]);
    }
    else
    {
        snprintf(buf, n, "a_trajbell_gen(jm=%a am=%a vm=%a p0=%a p1=%a v0=%a v1=%a) [%.17g %.17g %.17g %.17g %.17g %.17g %.17g]",
                 i[0], i[1], i[2], i[3], i[4], i[5], i[6], i[0], i[1], i[2], i[3], i[4], i[5], i[6]);
    }
    return buf;
}

/* one evaluation of a clause: err is the excess over what the property states (>= 0 means beyond),
   unit the tolerance unit; refuted if err > C*unit (or not comparable, i.e. NaN) */
static void judge(prof const *q, int cl, double err, double unit, double x, char const *what, double got, double want)
{
    int g = q->gen;
    double ratio = err <= 0 ? 0 : err / unit;
    ++cl_n[g][cl];
    if (ratio > cl_worst[g][cl] || !cl_touched[g][cl])
    {
        cl_touched[g][cl] = 1;
        cl_worst[g][cl] = ratio;
        snprintf(cl_arg[g][cl], sizeof(cl_arg[g][cl]), "%s %s x=%.9g T=%.9g case %" PRIu64, branch_name[g][q->branch], what, x, q->T, vf.case_no);
    }
    if (!(err <= q->C * unit))
    {
        char key[96], rq[640];
        if (q->replan) { snprintf(key, sizeof(key), "%s/replan-readback/%s", gen_name[g], cl_name[cl]); }
        else { snprintf(key, sizeof(key), "%s/%s/%s", gen_name[g], cl_name[cl], branch_name[g][q->branch]); }
        vf_viol(key, "%s%s: %s at x=%a (%.17g), T=%a: got %.17g, expected %.17g, excess %.6g > %g*(%.6g) [ratio %.4g; eps*S part p=%.3g v=%.3g a=%.3g, dt=%.3g] branch=%s dir=%+d",
                q->replan ? "[second request on a used context, built from the fields the first plan recorded] " : "",
                req_text(q, rq, sizeof(rq)), what, x, x, q->T, got, want, err, q->C, unit, ratio,
                EPS * q->Sp, EPS * q->Sv, EPS * q->Sa, q->dt, branch_name[g][q->branch], q->dir);
    }
}

static void flush_clauses(void)
{
    char name[56];
    for (int g = 0; g < 2; ++g)
    {
        for (int c = 0; c < NCL; ++c)
        {
            if (!cl_n[g][c]) { continue; }
            snprintf(name, sizeof(name), "%s.%s", gen_short[g], cl_name[c]);
            vf_count_dyn(name, cl_n[g][c]);
            snprintf(name, sizeof(name), "ratio.%s.%s", gen_short[g], cl_name[c]);
            vf_max_dyn(name, cl_worst[g][c], cl_arg[g][c]);
            cl_n[g][c] = 0;
            cl_worst[g][c] = 0;
            cl_touched[g][c] = 0;
        }
    }
}

/* ------------------------------------------------------------------ evaluation */
static inline double f_pos(prof const *q, double x) { return q->gen ? a_trajbell_pos(q->tb, x) : a_trajtrap_pos(q->tt, x); }
static inline double f_vel(prof const *q, double x) { return q->gen ? a_trajbell_vel(q->tb, x) : a_trajtrap_vel(q->tt, x); }
static inline double f_acc(prof const *q, double x) { return q->gen ? a_trajbell_acc(q->tb, x) : a_trajtrap_acc(q->tt, x); }

static inline double ulps(double x, int n)
{
    double to = n > 0 ? INFINITY : -INFINITY;
    for (int i = 0; i < (n > 0 ? n : -n); ++i) { x = nextafter(x, to); }
    return x;
}
static inline double dmaxabs(double m, double d)
{
    d = fabs(d);
    if (!(d == d)) { return INFINITY; }
    return d > m ? d : m;
}
static inline double max3(double a, double b, double c)
{
    a = fabs(a); b = fabs(b); c = fabs(c);
    if (b > a) { a = b; }
    return c > a ? c : a;
}

static double call_gen(int gen, void *ctx, double const in[7])
{
    if (gen) { return a_trajbell_gen((a_trajbell *)ctx, in[0], in[1], in[2], in[3], in[4], in[5], in[6]); }
    return a_trajtrap_gen((a_trajtrap *)ctx, in[0], in[1], in[2], in[3], in[4], in[5], in[6]);
}

/* part (3): measured conditioning of the request */
static double sensitivity(prof const *q)
{
    double dt = 0;
    a_trajtrap *tt = (a_trajtrap *)malloc(sizeof(a_trajtrap));
    a_trajbell *tb = (a_trajbell *)malloc(sizeof(a_trajbell));
    /* the conditioning of the REQUEST is measured between plans made on clean contexts (base vs perturbed inputs), not against the
       judged context: a plan distorted by what the context held before (seeded change C14-E) must not inflate its own tolerance */
    a_trajtrap bt;
    a_trajbell bb;
    memset(&bt, 0, sizeof bt);
    memset(&bb, 0, sizeof bb);
    /* the judged plan reported a positive duration; if the same request is declined on a clean context the plan depends on what the
       context held before, and there is no conditioning to speak of: judge it with the tightest tolerance (mutation sweep: the
       duration of the deceleration-only branch no longer stored -> a stale duration from the previous plan is returned) */
    if (!(call_gen(q->gen, q->gen ? (void *)&bb : (void *)&bt, q->in) > 0)) { free(tt); free(tb); VF_COUNT("plan-declined-on-clean-context-but-not-on-used-one"); return 0; }
    for (int i = 0; i < 7; ++i)
    {
        for (int s = -2; s <= 2; s += 4)
        {
            double in[7];
            double ret;
            memcpy(in, q->in, sizeof(in));
            in[i] = ulps(in[i], s);
            if (q->gen)
            {
                memset(tb, 0, sizeof(*tb));
                ret = call_gen(1, tb, in);
                if (!(ret > 0)) { dt = INFINITY; continue; }
                dt = dmaxabs(dt, tb->t - bb.t);
                dt = dmaxabs(dt, tb->tv - bb.tv);
                dt = dmaxabs(dt, tb->ta - bb.ta);
                dt = dmaxabs(dt, tb->td - bb.td);
                dt = dmaxabs(dt, tb->taj - bb.taj);
                dt = dmaxabs(dt, tb->tdj - bb.tdj);
            }
            else
            {
                memset(tt, 0, sizeof(*tt));
                ret = call_gen(0, tt, in);
                if (!(ret > 0)) { dt = INFINITY; continue; }
                dt = dmaxabs(dt, tt->t - bt.t);
                dt = dmaxabs(dt, tt->ta - bt.ta);
                dt = dmaxabs(dt, tt->td - bt.td);
            }
        }
    }
    free(tt);
    free(tb);
    return dt;
}

/* ------------------------------------------------------------------ the monitors */
typedef struct { double x, p, v, a, j; } samp;

static samp eval_at(prof const *q, double x)
{
    samp s;
    s.x = x;
    s.p = f_pos(q, x);
    s.v = f_vel(q, x);
    s.a = f_acc(q, x);
    s.j = q->gen ? a_trajbell_jer(q->tb, x) : 0;
    return s;
}

static void limits_at(prof const *q, samp const *s, char const *what)
{
    judge(q, CL_VEL_LIMIT, fabs(s->v) - q->vlim, q->uvl, s->x, what, s->v, q->vlim);
    if (q->gen)
    {
        judge(q, CL_ACC_LIMIT, fabs(s->a) - q->alim, q->ua, s->x, what, s->a, q->alim);
        judge(q, CL_JERK_LIMIT, fabs(s->j) - q->jlim, EPS * q->jlim, s->x, what, s->j, q->jlim);
    }
}

/* locate a sign change of f between lo and hi by bisection; returns the two bracketing instants */
static void bisect_sign(prof const *q, double (*f)(prof const *, double), double lo, double hi, double out[2])
{
    double flo = f(q, lo);
    for (int i = 0; i < 60; ++i)
    {
        double mid = lo + 0.5 * (hi - lo);
        double fm;
        if (!(mid > lo && mid < hi)) { break; }
        fm = f(q, mid);
        if ((fm < 0) == (flo < 0) && fm != 0) { lo = mid; flo = fm; }
        else { hi = mid; }
    }
    out[0] = lo;
    out[1] = hi;
}

static void check_profile(prof *q, vf_rng *r)
{
    double const T = q->T;
    int const bell = q->gen;
    static samp grid[N_UNIFORM + 1];

    /* ---- phase durations non-negative and adding up to the total */
    if (!bell)
    {
        a_trajtrap const *c = q->tt;
        judge(q, CL_PHASES, -c->ta, q->ut, 0, "acceleration phase duration ta < 0", c->ta, 0);
        judge(q, CL_PHASES, -(c->td - c->ta), q->ut, 0, "constant-velocity phase duration td-ta < 0", c->td - c->ta, 0);
        judge(q, CL_PHASES, -(c->t - c->td), q->ut, 0, "deceleration phase duration t-td < 0", c->t - c->td, 0);
        judge(q, CL_PHASES, fabs(c->t - T), q->ut, 0, "recorded t differs from the returned duration", c->t, T);
    }
    else
    {
        a_trajbell const *c = q->tb;
        judge(q, CL_PHASES, -c->tv, q->ut, 0, "constant-velocity phase duration tv < 0", c->tv, 0);
        judge(q, CL_PHASES, -c->taj, q->ut, 0, "jerk time taj < 0", c->taj, 0);
        judge(q, CL_PHASES, -c->tdj, q->ut, 0, "jerk time tdj < 0", c->tdj, 0);
        judge(q, CL_PHASES, -(c->ta - 2 * c->taj), q->ut, 0, "constant-acceleration duration ta-2taj < 0", c->ta - 2 * c->taj, 0);
        judge(q, CL_PHASES, -(c->td - 2 * c->tdj), q->ut, 0, "constant-deceleration duration td-2tdj < 0", c->td - 2 * c->tdj, 0);
        judge(q, CL_PHASES, fabs(c->t - (c->ta + c->tv + c->td)), q->ut, 0, "ta+tv+td differs from t", c->ta + c->tv + c->td, c->t);
        judge(q, CL_PHASES, fabs(c->t - T), q->ut, 0, "recorded t differs from the returned duration", c->t, T);
    }

    /* ---- start state (at 0 and just after 0) */
    {
        double xs[2] = {0.0, DBL_MIN};
        for (int i = 0; i < 2; ++i)
        {
            samp s = eval_at(q, xs[i]);
            judge(q, CL_START_POS, fabs(s.p - q->p0), q->up, xs[i], i ? "pos(0+) vs p0" : "pos(0) vs p0", s.p, q->p0);
            judge(q, CL_START_VEL, fabs(s.v - q->v0), q->uv, xs[i], i ? "vel(0+) vs clamped v0" : "vel(0) vs clamped v0", s.v, q->v0);
            if (bell) { judge(q, CL_START_ACC, fabs(s.a), q->ua, xs[i], i ? "acc(0+) vs 0" : "acc(0) vs 0", s.a, 0); }
            limits_at(q, &s, "at start");
        }
    }
    /* ---- end state: one-sided limit at T, and at T itself */
    {
        double xs[2] = {nextafter(T, -INFINITY), T};
        for (int i = 0; i < 2; ++i)
        {
            samp s = eval_at(q, xs[i]);
            judge(q, CL_END_POS, fabs(s.p - q->p1), q->up, xs[i], i ? "pos(T) vs p1" : "pos(T-) vs p1", s.p, q->p1);
            judge(q, CL_END_VEL, fabs(s.v - q->v1), q->uv, xs[i], i ? "vel(T) vs recorded v1" : "vel(T-) vs recorded v1", s.v, q->v1);
            if (bell) { judge(q, CL_END_ACC, fabs(s.a), q->ua, xs[i], i ? "acc(T) vs 0" : "acc(T-) vs 0", s.a, 0); }
            limits_at(q, &s, "at end");
        }
    }
    /* ---- queries outside [0,T] hold the boundary state */
    {
        double xb[4] = {-DBL_TRUE_MIN, -0.5 * T, -(1e3 * T + 1), -vf_logu(r, -6, 9)};
        double xa[4] = {nextafter(T, INFINITY), 1.5 * T, 1e3 * T + 1, T + vf_logu(r, -6, 9)};
        for (int i = 0; i < 4; ++i)
        {
            samp s = eval_at(q, xb[i]);
            judge(q, CL_HOLD_BEFORE, fabs(s.p - q->p0), q->up, xb[i], "pos(x<0) vs p0", s.p, q->p0);
            judge(q, CL_HOLD_BEFORE, fabs(s.v - q->v0), q->uv, xb[i], "vel(x<0) vs clamped v0", s.v, q->v0);
            if (bell)
            {
                judge(q, CL_HOLD_BEFORE, fabs(s.a), q->ua, xb[i], "acc(x<0) vs 0", s.a, 0);
                judge(q, CL_HOLD_BEFORE, fabs(s.j), EPS * q->jlim, xb[i], "jer(x<0) vs 0", s.j, 0);
            }
            s = eval_at(q, xa[i]);
            if (!(xa[i] > T)) { continue; }
            judge(q, CL_HOLD_AFTER, fabs(s.p - q->p1), q->up, xa[i], "pos(x>T) vs p1", s.p, q->p1);
            judge(q, CL_HOLD_AFTER, fabs(s.v - q->v1), q->uv, xa[i], "vel(x>T) vs recorded v1", s.v, q->v1);
            if (bell)
            {
                judge(q, CL_HOLD_AFTER, fabs(s.a), q->ua, xa[i], "acc(x>T) vs 0", s.a, 0);
                judge(q, CL_HOLD_AFTER, fabs(s.j), EPS * q->jlim, xa[i], "jer(x>T) vs 0", s.j, 0);
            }
        }
    }
    /* ---- continuity across every phase boundary: one-sided limit b- versus b */
    for (int i = 0; i < q->nb; ++i)
    {
        double b = q->b[i];
        samp l = eval_at(q, nextafter(b, -INFINITY));
        samp h = eval_at(q, b);
        char what[48];
        snprintf(what, sizeof(what), "across boundary #%d", i);
        judge(q, CL_CONT_POS, fabs(h.p - l.p), q->up, b, what, h.p, l.p);
        judge(q, CL_CONT_VEL, fabs(h.v - l.v), q->uv, b, what, h.v, l.v);
        if (bell) { judge(q, CL_CONT_ACC, fabs(h.a - l.a), q->ua, b, what, h.a, l.a); }
        limits_at(q, &l, "just before a phase boundary");
        limits_at(q, &h, "at a phase boundary");
    }
    /* ---- limits on a uniform grid, plus "no jump between neighbouring samples" */
    for (int i = 0; i <= N_UNIFORM; ++i)
    {
        double x = i == N_UNIFORM ? T : T * ((double)i / N_UNIFORM);
        grid[i] = eval_at(q, x);
        limits_at(q, &grid[i], "on the uniform grid");
        if (i)
        {
            double dx = grid[i].x - grid[i - 1].x;
            /* |dp| <= max|v| dx, |dv| <= max|a| dx, |da| <= max|j| dx for a continuous profile within its limits */
            judge(q, CL_STEP_POS, fabs(grid[i].p - grid[i - 1].p) - (q->vlim + q->C * q->uvl) * dx, 2 * q->up, x,
                  "|pos(x_i)-pos(x_i-1)| - vm*dx", grid[i].p, grid[i - 1].p);
            if (bell)
            {
                judge(q, CL_STEP_VEL, fabs(grid[i].v - grid[i - 1].v) - (q->alim + q->C * q->ua) * dx, 2 * q->uv, x,
                      "|vel(x_i)-vel(x_i-1)| - am*dx", grid[i].v, grid[i - 1].v);
                judge(q, CL_STEP_ACC, fabs(grid[i].a - grid[i - 1].a) - q->jlim * (1 + 4 * EPS) * dx, 2 * q->ua, x,
                      "|acc(x_i)-acc(x_i-1)| - jm*dx", grid[i].a, grid[i - 1].a);
            }
        }
    }
    /* ---- interior instants where the next derivative changes sign (extrema of pos / vel) */
    {
        int found = 0;
        for (int i = 1; i <= N_UNIFORM && found < 6; ++i)
        {
            double out[2];
            if ((grid[i].v < 0) != (grid[i - 1].v < 0) && grid[i].v != 0 && grid[i - 1].v != 0)
            {
                bisect_sign(q, f_vel, grid[i - 1].x, grid[i].x, out);
                for (int k = 0; k < 2; ++k) { samp s = eval_at(q, out[k]); limits_at(q, &s, "at a velocity zero crossing"); }
                ++found;
            }
            if (bell && (grid[i].a < 0) != (grid[i - 1].a < 0) && grid[i].a != 0 && grid[i - 1].a != 0)
            {
                bisect_sign(q, f_acc, grid[i - 1].x, grid[i].x, out);
                for (int k = 0; k < 2; ++k) { samp s = eval_at(q, out[k]); limits_at(q, &s, "at an acceleration zero crossing"); }
                ++found;
            }
        }
    }
    /* ---- random instants */
    for (int i = 0; i < N_RANDOM; ++i)
    {
        samp s = eval_at(q, T * vf_unit(r));
        limits_at(q, &s, "at a random instant");
    }
}

/* ------------------------------------------------------------------ domain */
static int all_finite(double const in[7])
{
    for (int i = 0; i < 7; ++i) { if (!isfinite(in[i])) { return 0; } }
    return 1;
}

/* Biagiotti-Melchiorri feasibility of a double-S request (their eq. 3.17/3.18), in binary128 */
static int bell_feasible(double jm, double am, double p0, double p1, double v0, double v1)
{
    __float128 p, q0 = p0, q1 = p1, w0 = v0, w1 = v1, dv, tj1, tj2;
    if (p0 > p1) { q0 = -q0; q1 = -q1; w0 = -w0; w1 = -w1; }
    p = q1 - q0;
    dv = fabsq(w1 - w0);
    tj1 = sqrtq(dv / jm);
    tj2 = (__float128)am / jm;
    if (tj1 < tj2) { return p > tj1 * (w0 + w1); }
    return p > (w0 + w1) * (tj2 + dv / am) / 2;
}

static void exercise_unjudged(int gen, void *ctx, double ret)
{
    /* outside the domain nothing is judged; a few queries still run under the sanitizers */
    prof q;
    memset(&q, 0, sizeof(q));
    q.gen = gen;
    q.tt = (a_trajtrap *)ctx;
    q.tb = (a_trajbell *)ctx;
    double T = isfinite(ret) ? fabs(ret) : 1.0;
    volatile double sink = 0;
    for (int i = -1; i <= 5; ++i)
    {
        samp s = eval_at(&q, 0.25 * i * T);
        sink += s.p + s.v + s.a + s.j;
    }
    (void)sink;
}


/* ------------------------------------------------------------------ twin clause: a plan is a function of the request only
 * The same request is planned once more on a fresh exact-size context filled with garbage (0xA5.. = -1.2e-129 as double); the judged
 * context was zeroed, 0x47-filled, used by an unrelated cruise plan or - read-back requests, see replan_sequence() - used by the very plan
 * the arguments were read from.  Returned duration, every recorded field and pos/vel/acc/jer at a few instants (read-back requests: the
 * phase boundaries and 8 interior instants) must agree bitwise.  No tolerance is involved: on the unchanged tree every path of both generators that returns a positive
 * duration stores all 12 / 14 fields from the arguments, so nothing of the previous contents survives a successful call (only applied to
 * requests inside the domain for which the call on the judged context returned a positive duration - what a declined call leaves in the
 * context is outside the property). */
static char const *const fld_name[2][14] = {{"t", "p0", "p1", "v0", "v1", "vc", "ta", "td", "pa", "pd", "ac", "de", "", ""},
                                            {"t", "tv", "ta", "td", "taj", "tdj", "p0", "p1", "v0", "v1", "vm", "jm", "am", "dm"}};
/* RECORDED, NOT JUDGED.  That a plan is bitwise the same whatever the context held before is a property of the pinned code (every success path
 * stores all fields from the arguments), not something C14 states: a generator that warm-starts its search from the previous plan, or keeps a
 * correct cache, would differ in the last bits and still satisfy every clause of the property.  The request planned on the used context is judged by
 * all ordinary clauses against ITS limits (that is what catches seeded change C14-J); differences to the fresh-context twin are counted in
 * "twin-differs-from-fresh-context(not judged)" so that drift is visible in the evidence. */
#define TWIN_NOTE(key, ...) ((void)(key), vf_count_dyn("twin-differs-from-fresh-context(not judged)", 1))
static void twin_fresh(prof const *q, double ret)
{
    int const g = q->gen;
    size_t const n = g ? sizeof(a_trajbell) : sizeof(a_trajtrap);
    void *fresh = malloc(n);
    void const *used = g ? (void const *)q->tb : (void const *)q->tt;
    double const *fu = (double const *)used, *ff = (double const *)fresh;
    char key[96], rq[640];
    double ret2;
    prof f = *q;
    memset(fresh, 0xA5, n);
    ret2 = call_gen(g, fresh, q->in);
    f.tt = (a_trajtrap *)fresh;
    f.tb = (a_trajbell *)fresh;
    if (q->replan) { VF_COUNT("replan-readback-twin-fresh-context"); }
    else { VF_COUNT("twin-fresh-context"); }
    snprintf(key, sizeof(key), "%s/%s/differs-from-fresh-context", gen_name[g], q->replan ? "replan-readback" : "prior-context-state");
    if (memcmp(&ret, &ret2, sizeof(ret)))
    {
        TWIN_NOTE(key, "%s returned %a (%.17g) on a context %s, but %a (%.17g) on a fresh garbage-filled context: the result depends on what the context held before the call",
                req_text(q, rq, sizeof(rq)), ret, ret, q->prior, ret2, ret2);
        goto out;
    }
    if (memcmp(used, fresh, n))
    {
        for (size_t i = 0; i < n / sizeof(double); ++i)
        {
            if (!memcmp(fu + i, ff + i, sizeof(double))) { continue; }
            TWIN_NOTE(key, "%s (duration %a): recorded field %s = %a (%.17g) on a context %s, but %a (%.17g) when planned on a fresh garbage-filled context: the plan depends on what the context held before the call",
                    req_text(q, rq, sizeof(rq)), ret, fld_name[g][i], fu[i], fu[i], q->prior, ff[i], ff[i]);
            break;
        }
        goto out;
    }
    /* samples: all boundaries + 8 instants for the read-back requests, 4 instants for the ordinary ones (the evaluators take a const context:
       with bitwise equal fields this can only differ if an evaluator had state of its own) */
    for (int i = q->replan ? 0 : q->nb + 4; i < q->nb + 8; ++i)
    {
        double x = i < q->nb ? q->b[i] : ret * ((i - q->nb) + 0.5) / 8;
        samp a = eval_at(q, x), b = eval_at(&f, x);
        if (memcmp(&a, &b, sizeof(a)))
        {
            TWIN_NOTE(key, "%s: pos/vel/acc/jer at x=%a are %a %a %a %a on a context %s, but %a %a %a %a on a fresh garbage-filled context with bitwise the same fields",
                    req_text(q, rq, sizeof(rq)), x, a.p, a.v, a.a, a.j, q->prior, b.p, b.v, b.a, b.j);
            break;
        }
    }
out:
    free(fresh);
}

static int trap_branch(a_trajtrap const *c)
{
    if (c->ta == 0 && c->td == 0) { return TB_DECEL; }
    if (c->ta == c->td && c->td == c->t) { return TB_ACCEL; }
    if (c->ta == c->td) { return TB_ACCDEC; }
    return TB_CRUISE;
}
static int bell_branch(a_trajbell const *c, double am)
{
    if (c->tv > 0) { return BB_CRUISE; }
    if (c->ta == 0 && c->taj == 0) { return BB_DECEL; }
    if (c->td == 0 && c->tdj == 0) { return BB_ACCEL; }
    if (c->am == am) { return BB_AMAX; }
    return BB_REDUCED;
}

enum { RV_EXACT, RV_LIMIT_X2, RV_LIMIT_HALF, RV_LIMIT_ULP, RV_P1_MOVED, RV_V1_CHANGED, RV_LIMITS_NEW_MOVE, RV_BRAKE_SIDE, RV_ORIG_ONE_LIMIT, RV_N };
static char const *const rv_name[RV_N] = {"exact", "one-limit-x2", "one-limit-x0.5", "one-limit-1ulp", "p1-moved", "v1-changed", "limits-only-new-move",
                                          "braking-side-as-accel-limit", "original-with-one-limit-read-back"};

static uint64_t seen_sample; /* bit per (gen, branch) written out as a sample; bit 63: a read-back request */

/* used != NULL: the request is a SECOND request on a context that already holds a plan (image *used); its arguments were built from the
   fields recorded by that plan (variant: how, RV_*; differs: 1 the first plan reached other limits than it had been asked for, -1 the first call was declined).  It is an
   ordinary request in every other respect: same domain filter, same clauses against the limits of THIS request, same tolerances. */
static void run_request(int gen, double const in[7], vf_rng *r, void const *used, int variant, int differs)
{
    prof q;
    double ret;
    int ok;
    memset(&q, 0, sizeof(q));
    q.gen = gen;
    q.replan = used ? 1 + variant : 0;
    memcpy(q.in, in, sizeof(q.in));
    /* exact-size heap blocks: a write past the context hits an ASan red zone */
    q.tt = (a_trajtrap *)malloc(sizeof(a_trajtrap));
    q.tb = (a_trajbell *)malloc(sizeof(a_trajbell));
    /* the state of the context BEFORE the request must not matter: zeroed, filled with large positive garbage, or - the
       realistic case - re-used after an earlier plan with a long cruise phase (seeded change C14-E: the cruise time is only
       stored when positive, so a no-cruise plan on a re-used context keeps the previous one) */
    switch (used ? 99 : vf.case_no % 3 + (uint64_t)(in[3] > in[4]))
    {
    case 0:
        memset(q.tt, 0, sizeof(a_trajtrap));
        memset(q.tb, 0, sizeof(a_trajbell));
        q.prior = "that was zeroed";
        VF_COUNT("context-zeroed");
        break;
    case 1:
        memset(q.tt, 0x47, sizeof(a_trajtrap)); /* 0x4747.. = 2.4e35 as double, 5.1e4 as float */
        memset(q.tb, 0x47, sizeof(a_trajbell));
        q.prior = "that was filled with 0x47";
        VF_COUNT("context-garbage");
        break;
    case 99:
        memset(q.tt, 0x47, sizeof(a_trajtrap));
        memset(q.tb, 0x47, sizeof(a_trajbell));
        if (gen) { memcpy(q.tb, used, sizeof(a_trajbell)); }
        else { memcpy(q.tt, used, sizeof(a_trajtrap)); }
        q.prior = differs < 0 ? "that held what a declined first plan had left there" : "that held the plan the arguments were read back from";
        VF_COUNT("replan.requests");
        break;
    default:
        memset(q.tt, 0, sizeof(a_trajtrap));
        memset(q.tb, 0, sizeof(a_trajbell));
        (void)a_trajtrap_gen(q.tt, 2, 2, -2, 0, 50, 0, 0);
        (void)a_trajbell_gen(q.tb, 10, 5, 2, 0, 50, 0, 0);
        q.prior = "that held an earlier cruise plan (0 -> 50)";
        VF_COUNT("context-reused-after-cruise-plan");
        break;
    }
    if (gen == 0)
    {
        double vm = in[0], ac = in[1], de = in[2], p0 = in[3], p1 = in[4], v0 = in[5], v1 = in[6];
        vf_log("a_trajtrap_gen vm=%a ac=%a de=%a p0=%a p1=%a v0=%a v1=%a", vm, ac, de, p0, p1, v0, v1);
        ret = a_trajtrap_gen(q.tt, vm, ac, de, p0, p1, v0, v1);
        VF_COUNT("trap.requests");
        ok = 0;
        if (!all_finite(in) || !(vm > 0)) { VF_COUNT("trap.outside.limit-not-positive-finite"); }
        else if (p1 == p0) { VF_COUNT("trap.outside.zero-distance"); }
        else if (!((p1 > p0 ? ac : -ac) > 0 && (p1 > p0 ? de : -de) < 0)) { VF_COUNT("trap.outside.acceleration-sign-vs-direction"); }
        else if (!(fabs(v0) <= vm && fabs(v1) <= vm)) { VF_COUNT("trap.outside.boundary-velocity-above-vm"); }
        else if (!(ret > 0 && isfinite(ret)))
        {
            /* in the request domain, but the generator reports no positive duration: the property is silent; the
               split by direction makes a one-sided refusal visible in the evidence */
            VF_COUNT("trap.outside.generator-declined(duration<=0)");
            if (p1 > p0) { VF_COUNT("trap.outside.generator-declined.forward"); }
            else { VF_COUNT("trap.outside.generator-declined.reversed"); }
        }
        else { ok = 1; }
        if (!ok) { if (q.replan) { VF_COUNT("replan.not-judged.outside-domain-or-declined"); } exercise_unjudged(0, q.tt, ret); goto done; }
        {
            a_trajtrap const *c = q.tt;
            q.T = ret;
            q.dir = p1 > p0 ? 1 : -1;
            q.p0 = p0; q.p1 = p1; q.v0 = v0; q.v1 = c->v1;
            q.vlim = vm;
            q.vhat = max3(c->v0, c->v1, c->vc);
            q.ahat = fabs(c->ac) > fabs(c->de) ? fabs(c->ac) : fabs(c->de);
            q.alo = fabs(c->ac) < fabs(c->de) ? fabs(c->ac) : fabs(c->de);
            q.jhat = 0;
            q.Sp = fabs(p0) + fabs(p1) + q.vhat * q.T + q.vhat * q.vhat / q.alo;
            q.Sv = q.vhat + q.ahat * q.T;
            q.Sa = 0;
            q.C = C_TRAP;
            q.nb = 0;
            q.b[q.nb++] = 0; q.b[q.nb++] = c->ta; q.b[q.nb++] = c->td; q.b[q.nb++] = c->t;
            q.branch = trap_branch(c);
            q.limits = (fabs(c->vc) == vm ? 1u : 0u) | (fabs(c->v0) == vm ? 2u : 0u) | (fabs(c->v1) == vm ? 4u : 0u);
        }
    }
    else
    {
        double jm = in[0], am = in[1], vm = in[2], p0 = in[3], p1 = in[4], v0 = in[5], v1 = in[6];
        vf_log("a_trajbell_gen jm=%a am=%a vm=%a p0=%a p1=%a v0=%a v1=%a", jm, am, vm, p0, p1, v0, v1);
        ret = a_trajbell_gen(q.tb, jm, am, vm, p0, p1, v0, v1);
        VF_COUNT("bell.requests");
        ok = 0;
        if (!all_finite(in) || !(jm > 0 && am > 0 && vm > 0)) { VF_COUNT("bell.outside.limit-not-positive-finite"); }
        else if (!(fabs(v0) <= vm && fabs(v1) <= vm)) { VF_COUNT("bell.outside.boundary-velocity-above-vm"); }
        else if (!bell_feasible(jm, am, p0, p1, v0, v1)) { VF_COUNT("bell.outside.infeasible(Biagiotti-Melchiorri)"); }
        else if (!(ret > 0 && isfinite(ret)))
        {
            VF_COUNT("bell.outside.generator-declined(duration<=0)");
            if (p0 > p1) { VF_COUNT("bell.outside.generator-declined.reversed"); }
            else { VF_COUNT("bell.outside.generator-declined.forward"); }
        }
        else { ok = 1; }
        if (!ok) { if (q.replan) { VF_COUNT("replan.not-judged.outside-domain-or-declined"); } exercise_unjudged(1, q.tb, ret); goto done; }
        {
            a_trajbell const *c = q.tb;
            q.T = ret;
            q.dir = p0 > p1 ? -1 : 1;
            q.p0 = p0; q.p1 = p1; q.v0 = v0; q.v1 = c->v1;
            q.vlim = vm; q.alim = am; q.jlim = jm;
            q.vhat = max3(c->v0, c->v1, c->vm);
            q.ahat = fabs(c->am) > fabs(c->dm) ? fabs(c->am) : fabs(c->dm);
            q.alo = fabs(c->am) < fabs(c->dm) ? fabs(c->am) : fabs(c->dm);
            if (q.alo == 0) { q.alo = q.ahat; }
            q.jhat = fabs(c->jm);
            q.Sp = fabs(p0) + fabs(p1) + q.vhat * q.T + q.vhat * q.vhat / q.alo + q.vhat * q.ahat / q.jhat;
            q.Sv = q.vhat + q.ahat * q.T;
            q.Sa = q.ahat + q.jhat * q.T;
            q.C = C_BELL;
            q.nb = 0;
            /* the boundaries exactly as a_trajbell_pos/vel/acc/jer compute them */
            q.b[q.nb++] = 0;
            q.b[q.nb++] = c->taj;
            q.b[q.nb++] = c->ta - c->taj;
            q.b[q.nb++] = c->ta;
            q.b[q.nb++] = c->ta + c->tv;
            q.b[q.nb++] = c->t - c->td;
            q.b[q.nb++] = c->t - c->td + c->tdj;
            q.b[q.nb++] = c->t - c->tdj;
            q.b[q.nb++] = c->t;
            q.branch = bell_branch(c, am);
            if (q.branch == BB_DECEL || q.branch == BB_ACCEL)
            {
                /* single-phase branches: the jerk time is the difference jm*p - sqrt(jm*(jm*p^2 -+ ...)) divided by
                   jm*(v0+v1), so its absolute rounding error is ~eps*p/(v0+v1) = eps*T/2 (not eps*tj); the reached
                   acceleration jm*tj is then off by eps*jm*T, the velocity by eps*jm*T^2 and the position by eps*jm*T^3 */
                q.Sv += q.jhat * q.T * q.T;
                q.Sp += q.jhat * q.T * q.T * q.T;
            }
            q.limits = (fabs(c->vm) == vm ? 1u : 0u) | (fabs(c->v0) == vm ? 2u : 0u) | (fabs(c->v1) == vm ? 4u : 0u) |
                       (c->am == am ? 8u : 0u) | (c->dm == -am ? 16u : 0u);
        }
    }
    /* ---- twin clause (bitwise, needs no tolerance): the same request on a fresh garbage-filled context */
    twin_fresh(&q, ret);
    /* ---- tolerance units */
    q.dt = sensitivity(&q);
    q.up = EPS * q.Sp + q.vhat * q.dt;
    q.uv = EPS * q.Sv + q.ahat * q.dt;
    q.ua = EPS * q.Sa + q.jhat * q.dt;
    q.ut = EPS * q.Sp / q.vhat + q.dt;
    q.uvl = q.uv;
    if (gen == 0 && q.branch == TB_ACCEL)
    {
        /* accel-only is selected by vc2 <= v1^2, where vc2 - v1^2 = |de|/(|ac|+|de|) * (v1rec^2 - v1^2): rounding of vc2 is
           amplified by (|ac|+|de|)/|de| in the recorded end speed sqrt(v0^2 + 2 p ac), which may pass the requested |v1| <= vm */
        q.uvl += EPS * q.vhat * (fabs(q.tt->ac) + fabs(q.tt->de)) / fabs(q.tt->de);
    }
    if (!(isfinite(q.up) && isfinite(q.uv) && isfinite(q.uvl) && isfinite(q.ua) && isfinite(q.ut)))
    {
        /* the +-2 ulp neighbourhood contains a request the generator declines, or the scale is unbounded:
           no finite tolerance can be derived, so the profile is counted but not judged */
        if (gen) { VF_COUNT("bell.not-judged.tolerance-unbounded"); }
        else { VF_COUNT("trap.not-judged.tolerance-unbounded"); }
        if (q.replan) { VF_COUNT("replan.not-judged.tolerance-unbounded"); }
        exercise_unjudged(gen, gen ? (void *)q.tb : (void *)q.tt, ret);
        goto done;
    }
    {
        double infl = q.up / (EPS * q.Sp);
        if (q.uv / (EPS * q.Sv) > infl) { infl = q.uv / (EPS * q.Sv); }
        if (gen && q.ua / (EPS * q.Sa) > infl) { infl = q.ua / (EPS * q.Sa); }
        if (infl > 1e3)
        {
            if (gen) { VF_COUNT("bell.tolerance-inflated>1e3-by-conditioning"); }
            else { VF_COUNT("trap.tolerance-inflated>1e3-by-conditioning"); }
        }
        if (gen) { VF_MAX("inflation.bell(log10)", log10(infl)); }
        else { VF_MAX("inflation.trap(log10)", log10(infl)); }
        /* vacuity watch: tolerance no longer small against the motion itself */
        if (q.C * q.up > 1e-3 * fabs(q.p1 - q.p0) || q.C * q.uv > 1e-3 * q.vhat)
        {
            if (gen) { VF_COUNT("bell.weak.tolerance>1e-3-of-distance-or-speed"); }
            else { VF_COUNT("trap.weak.tolerance>1e-3-of-distance-or-speed"); }
        }
        /* vacuity watch for part (2): how often the vhat^2/ahat term dominates the position scale */
        if (q.vhat * q.vhat / q.ahat > 1e3 * (fabs(q.p0) + fabs(q.p1) + q.vhat * q.T))
        {
            if (gen) { VF_COUNT("bell.scale-dominated>1e3-by-v^2/a"); }
            else { VF_COUNT("trap.scale-dominated>1e3-by-v^2/a"); }
        }
    }
    /* per (generator, branch, direction) counts: a run in which one of them was never judged is inconclusive */
#define BR(g, b, name)                                                       \
    if (gen == (g) && q.branch == (b))                                       \
    {                                                                        \
        VF_COUNT(name);                                                      \
        if (q.dir > 0) { VF_COUNT(name ".forward"); }                        \
        else { VF_COUNT(name ".reversed"); }                                 \
    }
    if (gen == 0) { VF_COUNT("trap.judged"); }
    else { VF_COUNT("bell.judged"); }
    BR(0, TB_CRUISE, "trap.branch.cruise")
    BR(0, TB_ACCEL, "trap.branch.accel-only")
    BR(0, TB_DECEL, "trap.branch.decel-only")
    BR(0, TB_ACCDEC, "trap.branch.accel-decel")
    BR(1, BB_CRUISE, "bell.branch.cruise")
    BR(1, BB_AMAX, "bell.branch.nocruise-amax")
    BR(1, BB_REDUCED, "bell.branch.nocruise-reduced-acceleration")
    BR(1, BB_DECEL, "bell.branch.decel-only")
    BR(1, BB_ACCEL, "bell.branch.accel-only")
#undef BR
    if (q.replan)
    {
        char name[56];
        if (differs < 0) { VF_COUNT("replan.judged.after-declined-first-plan"); }
        else { VF_COUNT("replan-with-limits-read-back-from-context"); }
        if (gen) { VF_COUNT("replan.bell.judged"); }
        else { VF_COUNT("replan.trap.judged"); }
        if (differs > 0) { VF_COUNT("replan.judged.first-plan-reached-differs-from-asked"); }
        snprintf(name, sizeof(name), "replan.judged.%s", rv_name[variant]);
        vf_count_dyn(name, 1);
    }
    ++vf.evals;
    check_profile(&q, r);
    vf_distinct(vf_hash64(vf_hash64(vf_hash64(vf_hash64(14, (uint64_t)gen), (uint64_t)q.branch), (uint64_t)(q.dir + 1)), q.limits));
    if (!q.replan && !vf.case_viol && !(seen_sample >> (gen * 8 + q.branch) & 1) && vf.nsamples < 7) /* one of the 8 slots is kept for a read-back request */
    {
        char rq[200];
        double const *v = q.in;
        seen_sample |= 1ull << (gen * 8 + q.branch);
        snprintf(rq, sizeof(rq), gen ? "a_trajbell_gen(jm=%.9g am=%.9g vm=%.9g p0=%.9g p1=%.9g v0=%.9g v1=%.9g)" : "a_trajtrap_gen(vm=%.9g ac=%.9g de=%.9g p0=%.9g p1=%.9g v0=%.9g v1=%.9g)",
                 v[0], v[1], v[2], v[3], v[4], v[5], v[6]);
        if (gen == 0)
        {
            vf_sample("%s -> T=%.9g branch=%s ta=%.6g td=%.6g vc=%.6g v1=%.6g; tol p=%.3g v=%.3g (dt=%.2g); phase times, start/end, hold, continuity at 4 boundaries, |v|<=vm at %d instants: ok",
                      rq, q.T, branch_name[0][q.branch], q.tt->ta, q.tt->td, q.tt->vc, q.tt->v1, q.C * q.up, q.C * q.uv, q.dt, N_UNIFORM + N_RANDOM + 13);
        }
        else
        {
            vf_sample("%s -> T=%.9g branch=%s ta=%.6g tv=%.6g td=%.6g taj=%.4g tdj=%.4g vpeak=%.6g am=%.4g dm=%.4g; tol p=%.3g v=%.3g a=%.3g (dt=%.2g); all clauses at 9 boundaries + %d instants: ok",
                      rq, q.T, branch_name[1][q.branch], q.tb->ta, q.tb->tv, q.tb->td, q.tb->taj, q.tb->tdj, q.tb->vm, q.tb->am, q.tb->dm,
                      q.C * q.up, q.C * q.uv, q.C * q.ua, q.dt, N_UNIFORM + N_RANDOM + 23);
        }
    }
    if (q.replan && !vf.case_viol && !(seen_sample >> 63) && vf_want_sample() && differs > 0 && variant == RV_EXACT)
    {
        seen_sample |= 1ull << 63;
        vf_sample(gen ? "second request on a used context, arguments read back from the fields of the first plan: a_trajbell_gen(jm=%.9g am=%.9g vm=%.9g p0=%.9g p1=%.9g v0=%.9g v1=%.9g) "
                        "-> T=%.9g branch=%s; all clauses against the limits of THIS request + bitwise equal to the plan on a fresh garbage-filled context: ok"
                      : "second request on a used context, arguments read back from the fields of the first plan: a_trajtrap_gen(vm=%.9g ac=%.9g de=%.9g p0=%.9g p1=%.9g v0=%.9g v1=%.9g) "
                        "-> T=%.9g branch=%s; all clauses against the limits of THIS request + bitwise equal to the plan on a fresh garbage-filled context: ok",
                  in[0], in[1], in[2], in[3], in[4], in[5], in[6], q.T, branch_name[gen][q.branch]);
    }
done:
    free(q.tt);
    free(q.tb);
}

/* ------------------------------------------------------------------ workload */
static double pick_kappa(vf_rng *r)
{
    static double const off[] = {0, 1e-15, 1e-12, 1e-9, 1e-6, 1e-3, 1e-1};
    unsigned k = (unsigned)vf_below(r, 9);
    double s = vf_sign(r);
    if (k == 7) { return ulps(1.0, (int)vf_range(r, -4, 4)); }
    if (k == 8) { return 1 + s * vf_logu(r, -16, -1); }
    return 1 + s * off[k];
}

/* boundary velocity in the travel frame (positive = direction of travel) */
static double pick_vel(vf_rng *r, double vm)
{
    switch (vf_below(r, 10))
    {
    case 0: case 1: return 0;
    case 2: return vm;
    case 3: return -vm;
    case 4: return vf_uniform(r, -vm, vm);
    case 5: case 6: return vf_uniform(r, 0, vm);
    case 7: return -vf_uniform(r, 0, vm);
    case 8: return vm * (1 - vf_logu(r, -16, -1));
    default: return vm * vf_logu(r, -6, 0) * vf_sign(r);
    }
}

static double pick_p0(vf_rng *r, double d)
{
    switch (vf_below(r, 10))
    {
    case 0: case 1: case 2: case 3: return 0;
    case 4: return vf_sign(r) * vf_logu(r, -3, 6); /* unrelated to the distance */
    case 5: return vf_sign(r) * d * vf_logu(r, 0, 4); /* far from the origin relative to the distance */
    case 6: case 7: return -d * vf_unit(r) * 2; /* motion crossing or near the origin */
    default: return vf_sign(r) * d * vf_unit(r);
    }
}

static void place(vf_rng *r, double d, int dir, double *p0, double *p1)
{
    *p0 = pick_p0(r, d);
    if (dir < 0) { *p0 = -*p0; }
    *p1 = *p0 + dir * d;
}

/* ROUND-NUMBER requests: limits that are small integers or powers of two, positions on an eighth grid, boundary velocities that are simple fractions of
   the limit - what people actually type, and where quantities the generators compute internally (an iterate am/2, 3am/4 ..., a branch threshold, a phase
   time) coincide EXACTLY with a boundary, which log-uniform reals meet with probability ~2^-47 (seeded change C14-M: the acceleration search of the bell
   generator runs out when the largest admissible acceleration is exactly a dyadic fraction of am, and the new accept path forgets the peak velocity).
   For the bell generator half of the rest-to-rest distances are constructed backwards from such a fraction: d = 2 jm (f am / jm)^3, f = k/16. */
static double round_number(vf_rng *r)
{
    switch (vf_below(r, 4))
    {
    case 0: return ldexp(1, (int)vf_range(r, -3, 4));
    case 1: return (double)vf_range(r, 1, 10);
    case 2: return (double)vf_range(r, 1, 10) / 2;
    default: return ldexp((double)vf_range(r, 1, 3), (int)vf_range(r, -2, 3));
    }
}
static double round_fraction(vf_rng *r, double lim)
{
    static double const f[] = {0, 0, 0, 0.25, 0.5, 0.75, 1, -0.25, -0.5, 0.125};
    return lim * f[vf_below(r, sizeof(f) / sizeof(f[0]))];
}
static void make_round(vf_rng *r, double in[7], int bell)
{
    int const dir = vf_chance(r, 1, 2) ? 1 : -1;
    double const a = round_number(r), b = round_number(r), c = round_number(r), p0 = (double)vf_range(r, -4, 4) * (vf_chance(r, 1, 2) ? 1 : 0.125);
    double d = (double)vf_range(r, 1, 64) / 8, v0, v1;
    if (bell)
    {
        double const jm = a, am = b, vm = c;
        v0 = round_fraction(r, vm); v1 = round_fraction(r, vm);
        if (vf_chance(r, 1, 2))
        {
            double const fr = (double)vf_range(r, 1, 15) / 16, x = fr * am / jm;
            d = 2 * jm * x * x * x;
            if (vf_chance(r, 3, 4)) { v0 = v1 = 0; }
        }
        in[0] = jm; in[1] = am; in[2] = vm; in[3] = dir * p0; in[4] = dir * p0 + dir * d; in[5] = dir * v0; in[6] = dir * v1;
    }
    else
    {
        double const vm = a, A = b, D = vf_chance(r, 1, 2) ? b : c;
        v0 = round_fraction(r, vm); v1 = round_fraction(r, vm);
        in[0] = vm; in[1] = dir * A; in[2] = -dir * D; in[3] = dir * p0; in[4] = dir * p0 + dir * d; in[5] = dir * v0; in[6] = dir * v1;
    }
    VF_COUNT("round-number-requests");
}

static void make_trap(vf_rng *r, double in[7])
{
    if (vf_chance(r, 1, 8)) { make_round(r, in, 0); return; }
    unsigned style = (unsigned)vf_below(r, 20);
    int dir = vf_chance(r, 1, 2) ? 1 : -1;
    double vm = vf_logu(r, -3, 3);
    double A = vf_logu(r, -3, 3), D = vf_chance(r, 1, 4) ? A : vf_logu(r, -3, 3);
    double d = vf_logu(r, -6, 6);
    double v0 = pick_vel(r, vm), v1 = pick_vel(r, vm);
    double p0, p1;
    if (style >= 10 && style < 16)
    {
        /* tuned to a branch condition: solve vc^2 = kappa*target for the distance (travel frame) */
        double target, k = pick_kappa(r), pp;
        if (style < 12) { target = vm * vm; }
        else if (style < 14)
        {
            if (fabs(v0) < fabs(v1)) { double t = v0; v0 = v1; v1 = t; }
            target = v0 * v0;
        }
        else
        {
            if (fabs(v1) < fabs(v0)) { double t = v0; v0 = v1; v1 = t; }
            target = v1 * v1;
        }
        pp = (k * target * (A + D) - v1 * v1 * A - v0 * v0 * D) / (2 * A * D);
        if (pp > 0 && isfinite(pp)) { d = pp; }
    }
    else if (style == 16)
    {
        /* "move a tiny distance while travelling fast" and "long cruise" extremes */
        if (vf_chance(r, 1, 2)) { d = vf_logu(r, -6, -3); v0 = vm * vf_uniform(r, 0.5, 1); }
        else { d = vf_logu(r, 3, 6); }
    }
    place(r, d, dir, &p0, &p1);
    in[0] = vm; in[1] = dir * A; in[2] = -dir * D; in[3] = p0; in[4] = p1; in[5] = dir * v0; in[6] = dir * v1;
    if (style >= 17)
    {
        /* outside the domain on purpose: counted, exercised, not judged */
        switch (vf_below(r, 8))
        {
        case 0: in[1] = -in[1]; break; /* acceleration against the direction */
        case 1: in[2] = -in[2]; break; /* "deceleration" along the direction */
        case 2: in[1] = -in[1]; in[2] = -in[2]; break;
        case 3: in[5] = dir * vm * vf_uniform(r, 1.0, 3.0); in[5] = nextafter(in[5], dir * INFINITY); break; /* |v0| > vm: clamped */
        case 4: in[6] = -dir * vm * vf_uniform(r, 1.0, 3.0); in[6] = nextafter(in[6], -dir * INFINITY); break;
        case 5: in[4] = in[3]; break; /* zero distance */
        case 6: in[0] = -vm; break; /* negative limit (the generator uses |vm|) */
        default: in[2] = in[1]; break; /* ac == de */
        }
    }
}

/* step 1 of the double-S planner in the travel frame: accel/decel phase lengths when vm is reached */
static void bell_step1(double jm, double am, double vm, double v0, double v1, double *ta, double *td)
{
    if ((vm - v0) * jm < am * am) { *ta = 2 * sqrt((vm - v0) / jm); }
    else { *ta = am / jm + (vm - v0) / am; }
    if ((vm - v1) * jm < am * am) { *td = 2 * sqrt((vm - v1) / jm); }
    else { *td = am / jm + (vm - v1) / am; }
}
/* shortest distance in which v0 -> v1 can be done with one acceleration (or deceleration) phase */
static double bell_dmin(double jm, double am, double v0, double v1)
{
    double dv = fabs(v1 - v0), tj1 = sqrt(dv / jm), tj2 = am / jm;
    if (tj1 < tj2) { return tj1 * (v0 + v1); }
    return 0.5 * (v0 + v1) * (tj2 + dv / am);
}

/* The velocity limit "switched off": vm = 1e30, DBL_MAX / 8 or 2^k times the boundary velocities with k beyond the precision of the type, while v0 and v1 are
   ordinary and DIFFERENT - boundary velocities drawn as fractions of vm never get there. Margins such as vm - v then round to vm itself (seeded change C14-N:
   "equal margins" taken for "equal boundary velocities", so the braking phase is planned as a copy of the run-up). */
static int g_first_plan; /* the request being drawn is the FIRST plan of a read-back sequence: the second request takes its limits and boundary velocities from the recorded fields,
                            and with the limit switched off that means boundary velocities of +-1e30 over a distance of order 1 - a motion of 1e30 seconds whose phase formulas
                            (jerk * t^2 at t = 1e30) have no correct digits left; such sequences are not drawn (they alarmed on the pinned tree in the first thorough run) */
static void make_bell_unlimited(vf_rng *r, double in[7])
{
    int const dir = vf_chance(r, 1, 2) ? 1 : -1;
    double const jm = vf_logu(r, -2, 3), am = vf_logu(r, -2, 3);
    double const v0 = vf_chance(r, 1, 4) ? 0 : vf_logu(r, -2, 2) * (vf_chance(r, 1, 6) ? -1 : 1), v1 = vf_chance(r, 1, 4) ? 0 : vf_logu(r, -2, 2) * (vf_chance(r, 1, 6) ? -1 : 1);
    double const big = fabs(v0) > fabs(v1) ? fabs(v0) : fabs(v1);
    double vm, d = vf_logu(r, -2, 4), p0, p1;
    switch (vf_below(r, 4))
    {
    case 0: vm = 1e30; break;
    case 1: vm = DBL_MAX / 8; break;
    case 2: vm = ldexp(big > 0 ? big : 1, 54 + (int)vf_below(r, 40)); break;
    default: vm = ldexp(big > 0 ? big : 1, 50 + (int)vf_below(r, 6)); break; /* around the precision: margins round, but not to vm */
    }
    place(r, d, dir, &p0, &p1);
    in[0] = jm; in[1] = am; in[2] = vm; in[3] = p0; in[4] = p1; in[5] = dir * v0; in[6] = dir * v1;
    VF_COUNT("bell-requests-with-the-velocity-limit-switched-off");
}

static void make_bell(vf_rng *r, double in[7])
{
    if (vf_chance(r, 1, 6)) { make_round(r, in, 1); return; }
    if (!g_first_plan && vf_chance(r, 1, 12)) { make_bell_unlimited(r, in); return; }
    unsigned style = (unsigned)vf_below(r, 24);
    int dir = vf_chance(r, 1, 2) ? 1 : -1;
    double jm = vf_logu(r, -3, 3), am = vf_logu(r, -3, 3), vm = vf_logu(r, -3, 3);
    double d = vf_logu(r, -6, 6);
    double v0 = pick_vel(r, vm), v1 = pick_vel(r, vm);
    double p0, p1, ta, td;
    if (style >= 8 && style < 11)
    {
        /* tv ~ 0: distance at which the constant-velocity phase vanishes */
        bell_step1(jm, am, vm, v0, v1, &ta, &td);
        d = vm * (0.5 * ta * (1 + v0 / vm) + 0.5 * td * (1 + v1 / vm)) * pick_kappa(r);
    }
    else if (style >= 11 && style < 14)
    {
        /* ta ~ 2 taj (resp. td ~ 2 tdj): (vm - v) jm ~ am^2 */
        double k = pick_kappa(r);
        if (am * am / jm > 2 * vm) { am = sqrt(vm * jm * vf_uniform(r, 0.05, 1.9)); }
        if (style == 11 || style == 13) { v0 = vm - k * am * am / jm; }
        if (style == 12 || style == 13) { v1 = vm - k * am * am / jm; }
        if (vf_chance(r, 1, 2))
        {
            bell_step1(jm, am, vm, v0, v1, &ta, &td);
            d = vm * (0.5 * ta * (1 + v0 / vm) + 0.5 * td * (1 + v1 / vm)) * vf_logu(r, -0.5, 1.5);
        }
    }
    else if (style >= 14 && style < 19)
    {
        /* single-phase requests (ta < 0 or td < 0 in step 4): just above the feasibility distance */
        double hi = vf_chance(r, 1, 8) ? vm : vm * vf_unit(r);
        double lo = vf_chance(r, 1, 8) ? 0 : hi * vf_unit(r), dm;
        if (vf_chance(r, 1, 8)) { lo = -0.5 * lo; }
        if (style & 1) { v0 = hi; v1 = lo; } else { v0 = lo; v1 = hi; }
        dm = bell_dmin(jm, am, v0, v1);
        if (dm > 0) { d = dm * (1 + vf_logu(r, -9, 0.7)); }
    }
    else if (style == 19)
    {
        /* short rest-to-rest or slow-to-slow moves: acceleration limit not reachable -> bisection on am */
        v0 = vf_chance(r, 1, 2) ? 0 : vm * vf_logu(r, -4, -1);
        v1 = vf_chance(r, 1, 2) ? 0 : vm * vf_logu(r, -4, -1);
        d = am * am * am / (jm * jm) * vf_logu(r, -4, 0.5);
        if (!(d > 1e-9 && d < 1e9)) { d = vf_logu(r, -6, 0); }
    }
    else if (style == 20)
    {
        /* infeasible on purpose: just below the feasibility distance (counted, not judged) */
        double dm;
        v0 = vm * vf_unit(r); v1 = vm * vf_unit(r);
        dm = bell_dmin(jm, am, v0, v1);
        if (dm > 0) { d = dm * (1 - vf_logu(r, -12, -0.1)); }
    }
    place(r, d, dir, &p0, &p1);
    in[0] = jm; in[1] = am; in[2] = vm; in[3] = p0; in[4] = p1; in[5] = dir * v0; in[6] = dir * v1;
    if (style >= 21)
    {
        switch (vf_below(r, 6))
        {
        case 0: in[5] = dir * vm * vf_uniform(r, 1.0, 3.0); in[5] = nextafter(in[5], dir * INFINITY); break;
        case 1: in[6] = -dir * vm * vf_uniform(r, 1.0, 3.0); in[6] = nextafter(in[6], -dir * INFINITY); break;
        case 2: in[0] = -jm; break; /* negative limits: the generator uses magnitudes */
        case 3: in[1] = -am; break;
        case 4: in[2] = -vm; break;
        default: in[4] = in[3]; break; /* zero distance */
        }
    }
}

/* ------------------------------------------------------------------ second request on a used context (seeded change C14-J)
 * Both generators OVERWRITE the limit fields of the context with what the plan actually reaches: a_trajbell_gen leaves the reached
 * acceleration of the run-up in ctx->am (braking side separately in ctx->dm) and the peak velocity in ctx->vm, a_trajtrap_gen the reached
 * cruise velocity in ctx->vc and the reachable end velocity in ctx->v1.  A caller that reads the "limits" back from the context (a refresh
 * helper, a settings dialog, a script binding: traj.am, traj.vm ..) therefore issues a request that is related bit for bit to the state the
 * first plan left in the object - the one relation a random request never has, and exactly what a generator that consults the old contents
 * of *ctx (a "same request as last time" shortcut, a phase time not recomputed, a clamp against the old limit) needs in order to go wrong.
 * A sequence = first plan (drawn so that the reached values differ from the requested ones in most sequences) + one second request on the
 * same object, built from the recorded fields (RV_*).  The second request is judged like any other request, against ITS limits, plus the
 * twin clause.  First plans: trapezoid - cruise / accel-decel below vm / accel-only with an unreachable v1 / decel-only, asymmetric
 * boundary velocities; bell - cruise with the run-up (or the braking side) below am and the other side harder, both sides below am, short
 * moves (iterative reduction: am and vm both not reached), single-phase moves; plus the ordinary request mix; both directions. */
static void first_trap(vf_rng *r, double in[7])
{
    unsigned style = (unsigned)vf_below(r, 8);
    int dir = vf_chance(r, 1, 2) ? 1 : -1;
    double vm, A, D, peak, v0, v1, d, p0, p1;
    if (style >= 6) { make_trap(r, in); return; }
    vm = vf_logu(r, -3, 3);
    A = vf_logu(r, -3, 3);
    D = vf_chance(r, 1, 4) ? A : vf_logu(r, -3, 3);
    peak = style == 0 ? vm : vm * vf_uniform(r, 0.05, 1);
    /* boundary velocities inside the peak; v1 further from the peak than v0 in two of three draws */
    v0 = peak * vf_uniform(r, -0.2, 1);
    v1 = vf_chance(r, 1, 3) ? 0 : peak * vf_uniform(r, -0.5, 1);
    if (vf_chance(r, 2, 3) && fabs(v1) > fabs(v0)) { double t = v0; v0 = v1; v1 = t; }
    d = (peak * peak - v0 * v0) / (2 * A) + (peak * peak - v1 * v1) / (2 * D);
    switch (style)
    {
    case 0: d += vm * (vm / A + vm / D) * vf_logu(r, -3, 2); break; /* cruise at vm */
    case 1: case 2: case 3: break; /* acceleration + deceleration, peak below vm: ctx->vc != vm */
    case 4: /* acceleration only, requested |v1| above what the distance allows: ctx->v1 != v1 */
        v0 = peak * vf_uniform(r, -0.2, 0.95);
        d = (peak * peak - v0 * v0) / (2 * A);
        v1 = vm * vf_uniform(r, peak / vm, 1);
        break;
    default: /* deceleration only, requested |v1| below what the distance allows */
        v0 = peak;
        v1 = peak * vf_unit(r);
        d = (v0 * v0 - v1 * v1) / (2 * D);
        v1 *= vf_chance(r, 1, 4) ? -vf_unit(r) : vf_unit(r);
        break;
    }
    if (!(d > 0 && isfinite(d))) { d = vf_logu(r, -6, 6); }
    place(r, d, dir, &p0, &p1);
    in[0] = vm; in[1] = dir * A; in[2] = -dir * D; in[3] = p0; in[4] = p1; in[5] = dir * v0; in[6] = dir * v1;
}

static void first_bell(vf_rng *r, double in[7])
{
    unsigned style = (unsigned)vf_below(r, 10);
    int dir = vf_chance(r, 1, 2) ? 1 : -1;
    double jm, am, vm, d, v0, v1, p0, p1, ta, td, A;
    if (style >= 8) { g_first_plan = 1; make_bell(r, in); g_first_plan = 0; return; }
    jm = vf_logu(r, -3, 3); am = vf_logu(r, -3, 3); vm = vf_logu(r, -3, 3);
    d = vf_logu(r, -6, 6);
    v0 = pick_vel(r, vm); v1 = pick_vel(r, vm);
    switch (style)
    {
    case 0: case 1: case 2:
        /* cruise; the run-up does not need the acceleration limit ((vm-v0)*jm < am^2 -> ctx->am = jm*sqrt((vm-v0)/jm) < am), the braking side,
           further away from vm, needs more (|ctx->dm| > ctx->am); style 2: the other way round */
        if (am * am / jm > vm) { am = sqrt(vm * jm * vf_uniform(r, 0.05, 1)); }
        A = am * am / jm;
        v0 = vm - A * vf_uniform(r, 0.02, 0.98);
        v1 = style == 0 ? 0 : vf_uniform(r, -vm, v0);
        if (style == 2) { double t = v0; v0 = v1; v1 = t; }
        bell_step1(jm, am, vm, v0, v1, &ta, &td);
        d = vm * (0.5 * ta * (1 + v0 / vm) + 0.5 * td * (1 + v1 / vm)) * (1 + vf_logu(r, -3, 1.5));
        break;
    case 3:
        /* cruise; the acceleration limit is out of reach on both sides (am^2 > 2 vm jm), the two sides reach different accelerations */
        am = sqrt(2 * vm * jm) * vf_uniform(r, 1, 3);
        v0 = vf_uniform(r, -vm, vm); v1 = vf_chance(r, 1, 3) ? 0 : vf_uniform(r, -vm, vm);
        bell_step1(jm, am, vm, v0, v1, &ta, &td);
        d = vm * (0.5 * ta * (1 + v0 / vm) + 0.5 * td * (1 + v1 / vm)) * (1 + vf_logu(r, -3, 1.5));
        break;
    case 4: case 5:
        /* no cruise: neither vm nor (mostly) am reached -> ctx->vm = peak velocity, ctx->am = the reduced acceleration */
        v0 = vf_chance(r, 1, 2) ? 0 : vm * vf_logu(r, -4, -0.3);
        v1 = vf_chance(r, 1, 2) ? 0 : vm * vf_logu(r, -4, -0.3);
        /* entering (leaving) against the direction of travel: the peak velocity the plan records may be below |v0| (|v1|) */
        if (vf_chance(r, 1, 4)) { v0 = -vm * vf_unit(r); }
        else if (vf_chance(r, 1, 4)) { v1 = -vm * vf_unit(r); }
        bell_step1(jm, am, vm, v0, v1, &ta, &td);
        d = vm * (0.5 * ta * (1 + v0 / vm) + 0.5 * td * (1 + v1 / vm)) * vf_logu(r, -3, -0.01);
        if (style == 5) { d = am * am * am / (jm * jm) * vf_logu(r, -4, 0.5); }
        if (!(d > 1e-9 && d < 1e9)) { d = vf_logu(r, -6, 0); }
        break;
    default:
    {
        /* single-phase moves: ctx->am or ctx->dm is 0, ctx->vm = v0 resp. the reached end velocity */
        double hi = vf_chance(r, 1, 8) ? vm : vm * vf_unit(r), lo = vf_chance(r, 1, 8) ? 0 : hi * vf_unit(r), dm;
        if (style & 1) { v0 = hi; v1 = lo; } else { v0 = lo; v1 = hi; }
        dm = bell_dmin(jm, am, v0, v1);
        if (dm > 0) { d = dm * (1 + vf_logu(r, -9, 0.7)); }
        break;
    }
    }
    if (!(d > 0 && isfinite(d))) { d = vf_logu(r, -6, 6); }
    place(r, d, dir, &p0, &p1);
    in[0] = jm; in[1] = am; in[2] = vm; in[3] = p0; in[4] = p1; in[5] = dir * v0; in[6] = dir * v1;
}

/* the second request: rb[] = the arguments read back from the fields of the context that carry the names of the parameters (trapezoid:
   there is no vm field; the velocity the plan runs at is |ctx->vc|), in1[] = the first request */
static void second_request(int gen, vf_rng *r, void const *ctx, double const in1[7], int variant, double in2[7])
{
    a_trajtrap const *t = (a_trajtrap const *)ctx;
    a_trajbell const *b = (a_trajbell const *)ctx;
    double rb[7], vm, d;
    int k = (int)vf_below(r, 3); /* which limit */
    if (gen) { rb[0] = b->jm; rb[1] = b->am; rb[2] = b->vm; rb[3] = b->p0; rb[4] = b->p1; rb[5] = b->v0; rb[6] = b->v1; }
    else { rb[0] = fabs(t->vc); rb[1] = t->ac; rb[2] = t->de; rb[3] = t->p0; rb[4] = t->p1; rb[5] = t->v0; rb[6] = t->v1; }
    memcpy(in2, rb, sizeof(rb));
    vm = gen ? rb[2] : rb[0];
    d = rb[4] - rb[3];
    switch (variant)
    {
    case RV_EXACT: break;
    case RV_LIMIT_X2: in2[k] = 2 * rb[k]; break;
    case RV_LIMIT_HALF: in2[k] = 0.5 * rb[k]; break;
    case RV_LIMIT_ULP: in2[k] = ulps(rb[k], vf_chance(r, 1, 2) ? 1 : -1); break;
    case RV_P1_MOVED:
        switch (vf_below(r, 5))
        {
        case 0: in2[4] = rb[3] + 2 * d; break;
        case 1: in2[4] = rb[3] + 0.5 * d; break;
        case 2: in2[4] = ulps(rb[4], 1); break;
        case 3: in2[4] = ulps(rb[4], -1); break;
        default: in2[4] = rb[3] + d * vf_logu(r, -1, 1); break;
        }
        break;
    case RV_V1_CHANGED:
        switch (vf_below(r, 6))
        {
        case 0: in2[6] = rb[6] == 0 ? 0.5 * vm * (d < 0 ? -1 : 1) : 0; break;
        case 1: in2[6] = 0.5 * rb[6]; break;
        case 2: in2[6] = -rb[6]; break;
        case 3: in2[6] = vf_uniform(r, -vm, vm); break;
        case 4: in2[6] = ulps(rb[6], vf_chance(r, 1, 2) ? 1 : -1); break;
        default: in2[6] = in1[6]; break; /* the end velocity that had been asked for (differs from the recorded one in the single-phase trapezoid branches) */
        }
        break;
    case RV_LIMITS_NEW_MOVE:
    {
        int dir = vf_chance(r, 1, 2) ? 1 : -1;
        double nd = vf_chance(r, 1, 2) ? vf_logu(r, -6, 6) : fabs(d) * vf_logu(r, -2, 2);
        if (!(nd > 0 && isfinite(nd))) { nd = 1; }
        if (!gen && dir * d < 0) { in2[1] = -rb[1]; in2[2] = -rb[2]; } /* trapezoid: the signs of ac / de follow the direction of travel */
        place(r, nd, dir, &in2[3], &in2[4]);
        in2[5] = isfinite(vm) ? dir * pick_vel(r, fabs(vm)) : 0;
        in2[6] = isfinite(vm) ? dir * pick_vel(r, fabs(vm)) : 0;
        break;
    }
    case RV_BRAKE_SIDE:
        /* the braking side of the recorded plan as the acceleration limit of the next one */
        if (gen) { in2[1] = -b->dm; }
        else { in2[1] = -t->de; }
        break;
    default: /* RV_ORIG_ONE_LIMIT: the first request once more, with one limit replaced by the value read back */
        memcpy(in2, in1, sizeof(rb));
        if (gen) { k = 1 + (k & 1); in2[k] = rb[k]; }
        else { in2[0] = rb[0]; }
        break;
    }
}

static void replan_sequence(int gen, vf_rng *r)
{
    static unsigned char const pick[12] = {RV_EXACT, RV_EXACT, RV_EXACT, RV_EXACT, RV_LIMIT_X2, RV_LIMIT_HALF, RV_LIMIT_ULP, RV_P1_MOVED,
                                           RV_V1_CHANGED, RV_LIMITS_NEW_MOVE, RV_BRAKE_SIDE, RV_ORIG_ONE_LIMIT};
    size_t const n = gen ? sizeof(a_trajbell) : sizeof(a_trajtrap);
    void *ctx = malloc(n); /* exact size */
    double in1[7], in2[7], ret1;
    int variant = pick[vf_below(r, 12)], differs, declined;
    if (gen) { first_bell(r, in1); }
    else { first_trap(r, in1); }
    memset(ctx, vf_chance(r, 1, 2) ? 0 : 0x47, n);
    vf_log("first plan on the context: %s(%a, %a, %a, %a, %a, %a, %a)", gen ? "a_trajbell_gen jm am vm p0 p1 v0 v1" : "a_trajtrap_gen vm ac de p0 p1 v0 v1",
           in1[0], in1[1], in1[2], in1[3], in1[4], in1[5], in1[6]);
    ret1 = call_gen(gen, ctx, in1);
    VF_COUNT("replan.first-plans");
    declined = !(ret1 > 0 && isfinite(ret1));
    if (declined)
    {
        /* the context now holds whatever the declined call left there; the second request is then a variation of the first one */
        VF_COUNT("replan.first-plan-declined");
        differs = -1;
        vf_log("first plan declined (returned %a); second request: variation '%s' of the first request on the same context", ret1, rv_name[variant]);
        {
            /* read-back of the fields is meaningless here: vary the request itself */
            a_trajtrap t;
            a_trajbell b;
            memset(&t, 0, sizeof(t));
            memset(&b, 0, sizeof(b));
            t.vc = in1[0]; t.ac = in1[1]; t.de = in1[2]; t.p0 = in1[3]; t.p1 = in1[4]; t.v0 = in1[5]; t.v1 = in1[6];
            b.jm = in1[0]; b.am = in1[1]; b.vm = in1[2]; b.p0 = in1[3]; b.p1 = in1[4]; b.v0 = in1[5]; b.v1 = in1[6]; b.dm = -in1[1];
            second_request(gen, r, gen ? (void const *)&b : (void const *)&t, in1, variant, in2);
        }
    }
    else
    {
        char name[56];
        if (gen)
        {
            a_trajbell const *c = (a_trajbell const *)ctx;
            differs = c->am != fabs(in1[1]) || c->vm != fabs(in1[2]);
            snprintf(name, sizeof(name), "replan.first.bell.%s", branch_name[1][bell_branch(c, fabs(in1[1]))]);
            if (c->am != fabs(in1[1])) { VF_COUNT("replan.first.bell.reached-am-differs-from-requested"); }
            if (c->vm != fabs(in1[2])) { VF_COUNT("replan.first.bell.reached-vm-differs-from-requested"); }
            if (c->tv > 0 && -c->dm > c->am) { VF_COUNT("replan.first.bell.cruise-braking-harder-than-run-up"); }
        }
        else
        {
            a_trajtrap const *c = (a_trajtrap const *)ctx;
            differs = fabs(c->vc) != fabs(in1[0]) || c->v1 != in1[6];
            snprintf(name, sizeof(name), "replan.first.trap.%s", branch_name[0][trap_branch(c)]);
            if (fabs(c->vc) != fabs(in1[0])) { VF_COUNT("replan.first.trap.reached-vc-differs-from-vm"); }
            if (c->v1 != in1[6]) { VF_COUNT("replan.first.trap.recorded-v1-differs-from-requested"); }
        }
        vf_count_dyn(name, 1);
        vf_log("first plan returned %a; second request on the same context: '%s' built from the recorded fields", ret1, rv_name[variant]);
        second_request(gen, r, ctx, in1, variant, in2);
    }
    run_request(gen, in2, r, ctx, variant, differs);
    free(ctx);
}

static void vf_case(uint64_t case_no, vf_rng *r)
{
    for (int i = 0; i < REQ_PER_CASE; ++i)
    {
        double in[7];
        int gen = (int)((case_no + (uint64_t)i) & 1);
        if (gen) { make_bell(r, in); }
        else { make_trap(r, in); }
        run_request(gen, in, r, NULL, 0, 0);
    }
    /* after the ordinary requests (their random stream is as it was before these were added) */
    for (int i = 0; i < REPLAN_PER_CASE; ++i) { replan_sequence((int)((case_no + (uint64_t)i) & 1), r); }
    flush_clauses();
}
