/* Re-entrancy monitor for C01 .. C16: configuration "mt", -DVF_MT=1..16, built with -fsanitize=thread.
 * See vf_mt.h for the protocol.  Every item is a pure function of its random stream: all nodes, objects, tables and buffers are
 * private to the call (stack or malloc/free inside the item), and every result the library produces - return values, output
 * arrays, object fields; never addresses or padding - is folded into the digest the item returns. */
#ifndef VF_MT
#error "compile with -DVF_MT=1..16"
#endif
#define MT_STR2(x) #x
#define MT_STR(x) MT_STR2(x)
#if VF_MT < 10
#define VF_PROP "C0" MT_STR(VF_MT)
#else
#define VF_PROP "C" MT_STR(VF_MT)
#endif
#include "vf_common.h"
#include "a/a.h"
#if VF_MT <= 3
#include "a/avl.h"
#include "a/rbt.h"
#endif
#include "vf_mt.h"

static void mt_setup(void) {}

/* ============================================================================================ C01 C02 C03: trees */
#if VF_MT <= 3
typedef struct { a_avl_node n; int key; int live; } mt_an;
typedef struct { a_rbt_node n; int key; int live; } mt_rn;
static int mt_acmp(void const *l, void const *r) { int a = ((mt_an const *)l)->key, b = ((mt_an const *)r)->key; return (a > b) - (a < b); }
static int mt_rcmp(void const *l, void const *r) { int a = ((mt_rn const *)l)->key, b = ((mt_rn const *)r)->key; return (a > b) - (a < b); }

/* height and shape through child links only; stored factor / colour through the public fields or accessors */
static int mt_avl_fold(a_avl_node *x, uint64_t *h)
{
    int hl, hr;
    if (!x) { *h = mt_fold_u64(*h, 0x4e); return 0; }
    hl = mt_avl_fold(x->left, h);
    *h = mt_fold_u64(*h, (uint64_t)(unsigned)a_avl_entry(x, mt_an, n)->key);
#if defined(A_SIZE_POINTER) && (A_SIZE_POINTER + 0 > 3)
    *h = mt_fold_u64(*h, (uint64_t)(x->parent_ & 3));
#else
    *h = mt_fold_u64(*h, (uint64_t)(unsigned)(x->factor + 1));
#endif
    *h = mt_fold_u64(*h, a_avl_parent(x) ? (uint64_t)(unsigned)a_avl_entry(a_avl_parent(x), mt_an, n)->key : 0xFFFFFFFFFFull);
    hr = mt_avl_fold(x->right, h);
    *h = mt_fold_u64(*h, (uint64_t)(unsigned)(hr - hl + 8));
    return 1 + (hl > hr ? hl : hr);
}
static int mt_rbt_fold(a_rbt_node *x, uint64_t *h)
{
    int bl, br;
    if (!x) { *h = mt_fold_u64(*h, 0x4e); return 1; }
    bl = mt_rbt_fold(x->left, h);
    *h = mt_fold_u64(*h, (uint64_t)(unsigned)a_rbt_entry(x, mt_rn, n)->key);
#if defined(A_SIZE_POINTER) && (A_SIZE_POINTER + 0 > 3)
    *h = mt_fold_u64(*h, (uint64_t)(x->parent_ & 1));
#else
    *h = mt_fold_u64(*h, (uint64_t)(unsigned)x->color);
#endif
    *h = mt_fold_u64(*h, a_rbt_parent(x) ? (uint64_t)(unsigned)a_rbt_entry(a_rbt_parent(x), mt_rn, n)->key : 0xFFFFFFFFFFull);
    br = mt_rbt_fold(x->right, h);
    *h = mt_fold_u64(*h, (uint64_t)(unsigned)(bl * 64 + br));
    return bl;
}

#define MT_TREE_HISTORY(P, T, NODE, CMP, FOLD, ITER)                                                               \
    {                                                                                                              \
        unsigned const cap = 24 + (unsigned)vf_below(r, 200), keys = 8 + (unsigned)vf_below(r, 2 * cap);           \
        unsigned const nops = 2 * cap + (unsigned)vf_below(r, 4 * cap);                                            \
        NODE *pool = (NODE *)malloc(sizeof(NODE) * cap), probe;                                                    \
        T root;                                                                                                    \
        uint64_t h = 0xC01 + VF_MT;                                                                                \
        unsigned live = 0;                                                                                         \
        P##_root(&root);                                                                                           \
        for (unsigned i = 0; i < cap; ++i) { pool[i].live = 0; pool[i].key = 0; }                                  \
        for (unsigned op = 0; op < nops; ++op)                                                                     \
        {                                                                                                          \
            unsigned const i = (unsigned)vf_below(r, cap), what = (unsigned)vf_below(r, 8);                        \
            if (!pool[i].live && what < 5)                                                                         \
            {                                                                                                      \
                P##_node *res;                                                                                     \
                pool[i].key = (int)vf_below(r, keys);                                                              \
                if (what == 4)                                                                                     \
                { /* the low-level protocol: manual descent, link, adjust */                                       \
                    P##_node **link = &root.node, *parent = NULL;                                                  \
                    res = NULL;                                                                                    \
                    while (*link)                                                                                  \
                    {                                                                                              \
                        int const c = CMP(&pool[i], P##_entry(*link, NODE, n));                                    \
                        parent = *link;                                                                            \
                        if (c < 0) { link = &parent->left; }                                                       \
                        else if (c > 0) { link = &parent->right; }                                                 \
                        else { res = parent; break; }                                                              \
                    }                                                                                              \
                    if (!res) { *link = P##_init(&pool[i].n, parent); P##_insert_adjust(&root, &pool[i].n); }      \
                }                                                                                                  \
                else { res = P##_insert(&root, &pool[i].n, CMP); }                                                 \
                if (!res) { pool[i].live = 1; ++live; }                                                            \
                h = mt_fold_u64(h, res ? 0x100000000ull | (unsigned)P##_entry(res, NODE, n)->key : 1);             \
            }                                                                                                      \
            else if (pool[i].live && what >= 5)                                                                    \
            {                                                                                                      \
                P##_remove(&root, &pool[i].n);                                                                     \
                pool[i].live = 0; --live;                                                                          \
                h = mt_fold_u64(h, 2);                                                                             \
            }                                                                                                      \
            else                                                                                                   \
            {                                                                                                      \
                P##_node *res;                                                                                     \
                probe.key = (int)vf_below(r, keys);                                                                \
                res = P##_search(&root, &probe, CMP);                                                              \
                h = mt_fold_u64(h, res ? 0x200000000ull | (unsigned)P##_entry(res, NODE, n)->key : 3);             \
            }                                                                                                      \
            if (op % 16 == 0 || op + 1 == nops) { (void)FOLD(root.node, &h); h = mt_fold_u64(h, live); }           \
        }                                                                                                          \
        ITER                                                                                                       \
        free(pool);                                                                                                \
        return h;                                                                                                  \
    }

#define MT_KEY(P, NODE, cur) ((uint64_t)(unsigned)P##_entry(cur, NODE, n)->key)
#define MT_TREE_ITERS(P, NODE)                                                                                        \
    {                                                                                                                 \
        P##_node *cur, *next;                                                                                         \
        P##_foreach(cur, &root) { h = mt_fold_u64(h, MT_KEY(P, NODE, cur)); }                                         \
        h = mt_fold_u64(h, 0xf1);                                                                                     \
        P##_foreach_reverse(cur, &root) { h = mt_fold_u64(h, MT_KEY(P, NODE, cur)); }                                 \
        h = mt_fold_u64(h, 0xf2);                                                                                     \
        P##_pre_foreach(cur, &root) { h = mt_fold_u64(h, MT_KEY(P, NODE, cur)); }                                     \
        h = mt_fold_u64(h, 0xf3);                                                                                     \
        P##_pre_foreach_reverse(cur, &root) { h = mt_fold_u64(h, MT_KEY(P, NODE, cur)); }                             \
        h = mt_fold_u64(h, 0xf4);                                                                                     \
        P##_post_foreach(cur, &root) { h = mt_fold_u64(h, MT_KEY(P, NODE, cur)); }                                    \
        h = mt_fold_u64(h, 0xf5);                                                                                     \
        P##_post_foreach_reverse(cur, &root) { h = mt_fold_u64(h, MT_KEY(P, NODE, cur)); }                            \
        h = mt_fold_u64(h, 0xf6);                                                                                     \
        for (cur = P##_head(&root); cur; cur = P##_next(cur))                                                         \
        {                                                                                                             \
            P##_node *q = P##_prev(cur), *s = P##_next(cur);                                                          \
            h = mt_fold_u64(h, q ? MT_KEY(P, NODE, q) : 0xAAAAAAAAAAull);                                             \
            h = mt_fold_u64(h, s ? MT_KEY(P, NODE, s) : 0xBBBBBBBBBBull);                                             \
            q = P##_pre_next(cur); s = P##_pre_prev(cur);                                                             \
            h = mt_fold_u64(h, q ? MT_KEY(P, NODE, q) : 0xCCCCCCCCCCull);                                             \
            h = mt_fold_u64(h, s ? MT_KEY(P, NODE, s) : 0xDDDDDDDDDDull);                                             \
            q = P##_post_next(cur); s = P##_post_prev(cur);                                                           \
            h = mt_fold_u64(h, q ? MT_KEY(P, NODE, q) : 0xEEEEEEEEEEull);                                             \
            h = mt_fold_u64(h, s ? MT_KEY(P, NODE, s) : 0x9999999999ull);                                             \
        }                                                                                                             \
        cur = P##_tail(&root); h = mt_fold_u64(h, cur ? MT_KEY(P, NODE, cur) : 7);                                    \
        cur = P##_post_head(&root); h = mt_fold_u64(h, cur ? MT_KEY(P, NODE, cur) : 7);                               \
        cur = P##_post_tail(&root); h = mt_fold_u64(h, cur ? MT_KEY(P, NODE, cur) : 7);                               \
        if (vf_chance(r, 1, 2))                                                                                       \
        {                                                                                                             \
            P##_fortear(cur, next, &root) { h = mt_fold_u64(h, MT_KEY(P, NODE, cur)); P##_entry(cur, NODE, n)->key = -1; } \
        }                                                                                                             \
        else                                                                                                          \
        {                                                                                                             \
            next = NULL;                                                                                              \
            while ((cur = P##_tear(&root, &next)) != NULL) { h = mt_fold_u64(h, MT_KEY(P, NODE, cur)); P##_entry(cur, NODE, n)->key = -1; } \
        }                                                                                                             \
        h = mt_fold_u64(h, root.node ? 1 : 0);                                                                        \
    }

#if VF_MT == 1
static uint64_t it_avl(vf_rng *r) MT_TREE_HISTORY(a_avl, a_avl, mt_an, mt_acmp, mt_avl_fold, )
static mt_item const ITEMS[] = {{"avl-history", it_avl}, {"avl-history-2", it_avl}};
#elif VF_MT == 2
static uint64_t it_rbt(vf_rng *r) MT_TREE_HISTORY(a_rbt, a_rbt, mt_rn, mt_rcmp, mt_rbt_fold, )
static mt_item const ITEMS[] = {{"rbt-history", it_rbt}, {"rbt-history-2", it_rbt}};
#else
static uint64_t it_avl_iter(vf_rng *r) MT_TREE_HISTORY(a_avl, a_avl, mt_an, mt_acmp, mt_avl_fold, MT_TREE_ITERS(a_avl, mt_an))
static uint64_t it_rbt_iter(vf_rng *r) MT_TREE_HISTORY(a_rbt, a_rbt, mt_rn, mt_rcmp, mt_rbt_fold, MT_TREE_ITERS(a_rbt, mt_rn))
static mt_item const ITEMS[] = {{"avl-iterators-and-tear-down", it_avl_iter}, {"rbt-iterators-and-tear-down", it_rbt_iter}};
#endif
#endif /* trees */

/* MT-SECTIONS-BELOW */

static uint64_t vf_ncases(int tier) { return tier ? 24 : 3; }
static void vf_case(uint64_t c, vf_rng *r)
{
    (void)r;
    mt_setup();
    mt_run_case(c, ITEMS, (unsigned)(sizeof ITEMS / sizeof ITEMS[0]));
}
