/* Re-entrancy monitor for C01 .. C16: configuration "mt", -DVF_MT=1..16, built with -fsanitize=thread.
 * See vf_mt.h for the protocol.  Every item is a pure function of its random stream: all nodes, objects, tables and buffers are
 * private to the call (stack or malloc/free inside the item), and every result the library produces - return values, output
 * arrays, object fields; never addresses or padding - is folded into the digest the item returns. */
#ifndef VF_MT
#error "compile with -DVF_MT=1..16"
#endif
#define MT_STR2(x) #x
#define MT_STR(x) MT_STR2(x)
#if VF_MT < 10
#define VF_PROP "C0" MT_STR(VF_MT)
#else
#define VF_PROP "C" MT_STR(VF_MT)
#endif
#include "vf_common.h"
#include "a/a.h"
#if VF_MT <= 3
#include "a/avl.h"
#include "a/rbt.h"
#endif
#include "vf_mt.h"

#if VF_MT == 7
static void mt_setup(void);
#else
static void mt_setup(void) {}
#endif

/* Watchdog of this harness.  ThreadSanitizer defers an asynchronous signal to the next interceptor call of the thread it hits, so the
 * per-case SIGALRM of vf_common.h never arrives in a thread that spins inside a damaged structure or is stuck inside the runtime (seen
 * with a seeded tree defect: the tree became cyclic, a recursive fold overflowed the stack, and the runtime's fatal-signal report
 * dead-locked on itself at 0 % CPU until the driver's 900 s limit).  A helper thread that shares one atomic tick with the main thread
 * and nothing with the items ends the process with the watchdog's exit code, by raw system calls: the runtime's own exit path may
 * need locks the stuck thread holds. */
#include <sys/syscall.h>
#define MT_WD_SECONDS 40
static uint64_t mt_wd_tick;
static void *mt_wd_thread(void *arg)
{
    uint64_t seen = __atomic_load_n(&mt_wd_tick, __ATOMIC_RELAXED);
    unsigned quiet = 0;
    (void)arg;
    for (;;)
    {
        struct timespec const ts = {1, 0};
        uint64_t now;
        syscall(SYS_nanosleep, &ts, NULL);
        now = __atomic_load_n(&mt_wd_tick, __ATOMIC_RELAXED);
        if (now != seen) { seen = now; quiet = 0; }
        else if (++quiet >= MT_WD_SECONDS)
        {
            static char const m[] = "\nvf: case watchdog fired\n";
            syscall(SYS_write, 2, m, sizeof m - 1);
            syscall(SYS_exit_group, 124);
        }
    }
    return NULL;
}
static void mt_watchdog_tick(void)
{
    static int started;
    __atomic_fetch_add(&mt_wd_tick, 1, __ATOMIC_RELAXED);
    if (!started)
    {
        pthread_t th;
        started = 1;
        if (!pthread_create(&th, NULL, mt_wd_thread, NULL)) { pthread_detach(th); }
    }
}

/* ============================================================================================ C01 C02 C03: trees */
#if VF_MT <= 3
typedef struct { a_avl_node n; int key; int live; } mt_an;
typedef struct { a_rbt_node n; int key; int live; } mt_rn;
static int mt_acmp(void const *l, void const *r) { int a = ((mt_an const *)l)->key, b = ((mt_an const *)r)->key; return (a > b) - (a < b); }
static int mt_rcmp(void const *l, void const *r) { int a = ((mt_rn const *)l)->key, b = ((mt_rn const *)r)->key; return (a > b) - (a < b); }

/* height and shape through child links only; stored factor / colour through the public fields or accessors.  The descent is cut
 * at a depth no tree of this size can have: a defect that closes a cycle of child links must not overflow the stack */
#define MT_TREE_DEPTH 64
#define mt_avl_fold(x, h) mt_avl_fold_(x, h, 0)
#define mt_rbt_fold(x, h) mt_rbt_fold_(x, h, 0)
static int mt_avl_fold_(a_avl_node *x, uint64_t *h, int depth)
{
    int hl, hr;
    if (!x) { *h = mt_fold_u64(*h, 0x4e); return 0; }
    if (depth > MT_TREE_DEPTH) { *h = mt_fold_u64(*h, 0xDEE9); return 0; }
    hl = mt_avl_fold_(x->left, h, depth + 1);
    *h = mt_fold_u64(*h, (uint64_t)(unsigned)a_avl_entry(x, mt_an, n)->key);
#if defined(A_SIZE_POINTER) && (A_SIZE_POINTER + 0 > 3)
    *h = mt_fold_u64(*h, (uint64_t)(x->parent_ & 3));
#else
    *h = mt_fold_u64(*h, (uint64_t)(unsigned)(x->factor + 1));
#endif
    *h = mt_fold_u64(*h, a_avl_parent(x) ? (uint64_t)(unsigned)a_avl_entry(a_avl_parent(x), mt_an, n)->key : 0xFFFFFFFFFFull);
    hr = mt_avl_fold_(x->right, h, depth + 1);
    *h = mt_fold_u64(*h, (uint64_t)(unsigned)(hr - hl + 8));
    return 1 + (hl > hr ? hl : hr);
}
static int mt_rbt_fold_(a_rbt_node *x, uint64_t *h, int depth)
{
    int bl, br;
    if (!x) { *h = mt_fold_u64(*h, 0x4e); return 1; }
    if (depth > MT_TREE_DEPTH) { *h = mt_fold_u64(*h, 0xDEE9); return 1; }
    bl = mt_rbt_fold_(x->left, h, depth + 1);
    *h = mt_fold_u64(*h, (uint64_t)(unsigned)a_rbt_entry(x, mt_rn, n)->key);
#if defined(A_SIZE_POINTER) && (A_SIZE_POINTER + 0 > 3)
    *h = mt_fold_u64(*h, (uint64_t)(x->parent_ & 1));
#else
    *h = mt_fold_u64(*h, (uint64_t)(unsigned)x->color);
#endif
    *h = mt_fold_u64(*h, a_rbt_parent(x) ? (uint64_t)(unsigned)a_rbt_entry(a_rbt_parent(x), mt_rn, n)->key : 0xFFFFFFFFFFull);
    br = mt_rbt_fold_(x->right, h, depth + 1);
    *h = mt_fold_u64(*h, (uint64_t)(unsigned)(bl * 64 + br));
    return bl;
}

#define MT_TREE_HISTORY(P, T, NODE, CMP, FOLD, ITER)                                                               \
    {                                                                                                              \
        unsigned const cap = 24 + (unsigned)vf_below(r, 200), keys = 8 + (unsigned)vf_below(r, 2 * cap);           \
        unsigned const nops = 2 * cap + (unsigned)vf_below(r, 4 * cap);                                            \
        NODE *pool = (NODE *)malloc(sizeof(NODE) * cap), probe;                                                    \
        T root;                                                                                                    \
        uint64_t h = 0xC01 + VF_MT;                                                                                \
        unsigned live = 0;                                                                                         \
        P##_root(&root);                                                                                           \
        for (unsigned i = 0; i < cap; ++i) { pool[i].live = 0; pool[i].key = 0; }                                  \
        for (unsigned op = 0; op < nops; ++op)                                                                     \
        {                                                                                                          \
            unsigned const i = (unsigned)vf_below(r, cap), what = (unsigned)vf_below(r, 8);                        \
            if (!pool[i].live && what < 5)                                                                         \
            {                                                                                                      \
                P##_node *res;                                                                                     \
                pool[i].key = (int)vf_below(r, keys);                                                              \
                if (what == 4)                                                                                     \
                { /* the low-level protocol: manual descent, link, adjust */                                       \
                    P##_node **link = &root.node, *parent = NULL;                                                  \
                    res = NULL;                                                                                    \
                    while (*link)                                                                                  \
                    {                                                                                              \
                        int const c = CMP(&pool[i], P##_entry(*link, NODE, n));                                    \
                        parent = *link;                                                                            \
                        if (c < 0) { link = &parent->left; }                                                       \
                        else if (c > 0) { link = &parent->right; }                                                 \
                        else { res = parent; break; }                                                              \
                    }                                                                                              \
                    if (!res) { *link = P##_init(&pool[i].n, parent); P##_insert_adjust(&root, &pool[i].n); }      \
                }                                                                                                  \
                else { res = P##_insert(&root, &pool[i].n, CMP); }                                                 \
                if (!res) { pool[i].live = 1; ++live; }                                                            \
                h = mt_fold_u64(h, res ? 0x100000000ull | (unsigned)P##_entry(res, NODE, n)->key : 1);             \
            }                                                                                                      \
            else if (pool[i].live && what >= 5)                                                                    \
            {                                                                                                      \
                P##_remove(&root, &pool[i].n);                                                                     \
                pool[i].live = 0; --live;                                                                          \
                h = mt_fold_u64(h, 2);                                                                             \
            }                                                                                                      \
            else                                                                                                   \
            {                                                                                                      \
                P##_node *res;                                                                                     \
                probe.key = (int)vf_below(r, keys);                                                                \
                res = P##_search(&root, &probe, CMP);                                                              \
                h = mt_fold_u64(h, res ? 0x200000000ull | (unsigned)P##_entry(res, NODE, n)->key : 3);             \
            }                                                                                                      \
            if (op % 16 == 0 || op + 1 == nops) { (void)FOLD(root.node, &h); h = mt_fold_u64(h, live); }           \
        }                                                                                                          \
        ITER                                                                                                       \
        free(pool);                                                                                                \
        return h;                                                                                                  \
    }

#define MT_KEY(P, NODE, cur) ((uint64_t)(unsigned)P##_entry(cur, NODE, n)->key)
#define MT_TREE_ITERS(P, NODE)                                                                                        \
    {                                                                                                                 \
        P##_node *cur, *next;                                                                                         \
        P##_foreach(cur, &root) { h = mt_fold_u64(h, MT_KEY(P, NODE, cur)); }                                         \
        h = mt_fold_u64(h, 0xf1);                                                                                     \
        P##_foreach_reverse(cur, &root) { h = mt_fold_u64(h, MT_KEY(P, NODE, cur)); }                                 \
        h = mt_fold_u64(h, 0xf2);                                                                                     \
        P##_pre_foreach(cur, &root) { h = mt_fold_u64(h, MT_KEY(P, NODE, cur)); }                                     \
        h = mt_fold_u64(h, 0xf3);                                                                                     \
        P##_pre_foreach_reverse(cur, &root) { h = mt_fold_u64(h, MT_KEY(P, NODE, cur)); }                             \
        h = mt_fold_u64(h, 0xf4);                                                                                     \
        P##_post_foreach(cur, &root) { h = mt_fold_u64(h, MT_KEY(P, NODE, cur)); }                                    \
        h = mt_fold_u64(h, 0xf5);                                                                                     \
        P##_post_foreach_reverse(cur, &root) { h = mt_fold_u64(h, MT_KEY(P, NODE, cur)); }                            \
        h = mt_fold_u64(h, 0xf6);                                                                                     \
        for (cur = P##_head(&root); cur; cur = P##_next(cur))                                                         \
        {                                                                                                             \
            P##_node *q = P##_prev(cur), *s = P##_next(cur);                                                          \
            h = mt_fold_u64(h, q ? MT_KEY(P, NODE, q) : 0xAAAAAAAAAAull);                                             \
            h = mt_fold_u64(h, s ? MT_KEY(P, NODE, s) : 0xBBBBBBBBBBull);                                             \
            q = P##_pre_next(cur); s = P##_pre_prev(cur);                                                             \
            h = mt_fold_u64(h, q ? MT_KEY(P, NODE, q) : 0xCCCCCCCCCCull);                                             \
            h = mt_fold_u64(h, s ? MT_KEY(P, NODE, s) : 0xDDDDDDDDDDull);                                             \
            q = P##_post_next(cur); s = P##_post_prev(cur);                                                           \
            h = mt_fold_u64(h, q ? MT_KEY(P, NODE, q) : 0xEEEEEEEEEEull);                                             \
            h = mt_fold_u64(h, s ? MT_KEY(P, NODE, s) : 0x9999999999ull);                                             \
        }                                                                                                             \
        cur = P##_tail(&root); h = mt_fold_u64(h, cur ? MT_KEY(P, NODE, cur) : 7);                                    \
        cur = P##_post_head(&root); h = mt_fold_u64(h, cur ? MT_KEY(P, NODE, cur) : 7);                               \
        cur = P##_post_tail(&root); h = mt_fold_u64(h, cur ? MT_KEY(P, NODE, cur) : 7);                               \
        if (vf_chance(r, 1, 2))                                                                                       \
        {                                                                                                             \
            P##_fortear(cur, next, &root) { h = mt_fold_u64(h, MT_KEY(P, NODE, cur)); P##_entry(cur, NODE, n)->key = -1; } \
        }                                                                                                             \
        else                                                                                                          \
        {                                                                                                             \
            next = NULL;                                                                                              \
            while ((cur = P##_tear(&root, &next)) != NULL) { h = mt_fold_u64(h, MT_KEY(P, NODE, cur)); P##_entry(cur, NODE, n)->key = -1; } \
        }                                                                                                             \
        h = mt_fold_u64(h, root.node ? 1 : 0);                                                                        \
    }

#if VF_MT == 1
static uint64_t it_avl(vf_rng *r) MT_TREE_HISTORY(a_avl, a_avl, mt_an, mt_acmp, mt_avl_fold, )
static mt_item const ITEMS[] = {{"avl-history", it_avl}, {"avl-history-2", it_avl}};
#elif VF_MT == 2
static uint64_t it_rbt(vf_rng *r) MT_TREE_HISTORY(a_rbt, a_rbt, mt_rn, mt_rcmp, mt_rbt_fold, )
static mt_item const ITEMS[] = {{"rbt-history", it_rbt}, {"rbt-history-2", it_rbt}};
#else
static uint64_t it_avl_iter(vf_rng *r) MT_TREE_HISTORY(a_avl, a_avl, mt_an, mt_acmp, mt_avl_fold, MT_TREE_ITERS(a_avl, mt_an))
static uint64_t it_rbt_iter(vf_rng *r) MT_TREE_HISTORY(a_rbt, a_rbt, mt_rn, mt_rcmp, mt_rbt_fold, MT_TREE_ITERS(a_rbt, mt_rn))
static mt_item const ITEMS[] = {{"avl-iterators-and-tear-down", it_avl_iter}, {"rbt-iterators-and-tear-down", it_rbt_iter}};
#endif
#endif /* trees */

/* MT-SECTIONS-BELOW */

/* ============================================================================================ C07: the failing allocator */
/* The container items of C04, C05 and C06 are also the items of C07: there they run with ONE shim installed behind the global
 * a_alloc pointer (once, on the main thread, before any worker exists) that refuses requests of the CURRENT thread according to
 * thread-local counters the item arms from its random stream: the mt_oom_left-th request from now fails, then every
 * mt_oom_period-th one (0: no further failure).  A refused resize leaves the old block alive, size 0 releases. */
#if VF_MT >= 4 && VF_MT <= 7
/* destructor / copy callbacks have no context argument: what they see goes to a thread-local accumulator the item folds in */
static __thread uint64_t mt_cb_acc __attribute__((unused));
/* where a returned element pointer lies, relative to the storage it belongs to */
#define MT_OFF(base, p) ((p) ? (uint64_t)((unsigned char const *)(p) - (unsigned char const *)(base)) : 0xFFFFFFFFFFull)
#endif
#if VF_MT == 7
static __thread long mt_oom_left = -1, mt_oom_period;
static __thread uint64_t mt_oom_asked, mt_oom_refused;
static void *mt_oom_alloc(void *addr, a_size size)
{
    if (size)
    {
        ++mt_oom_asked;
        if (mt_oom_left >= 0 && mt_oom_left-- == 0)
        {
            mt_oom_left = mt_oom_period ? mt_oom_period - 1 : -1;
            ++mt_oom_refused;
            return NULL;
        }
        return realloc(addr, size);
    }
    free(addr);
    return NULL;
}
static void mt_setup(void) { a_alloc = mt_oom_alloc; }
#define MT_OOM_BEGIN(r)                                                     \
    do {                                                                    \
        mt_oom_asked = mt_oom_refused = 0;                                  \
        mt_oom_period = vf_chance(r, 1, 3) ? 0 : 1 + (long)vf_below(r, 9);  \
        mt_oom_left = (long)vf_below(r, 14);                                \
    } while (0)
#define MT_OOM_END(h)                                                       \
    do {                                                                    \
        mt_oom_left = -1;                                                   \
        h = mt_fold_u64(h, mt_oom_asked);                                   \
        h = mt_fold_u64(h, mt_oom_refused);                                 \
    } while (0)
#else
#define MT_OOM_BEGIN(r) ((void)0)
#define MT_OOM_END(h) ((void)0)
#endif

/* ============================================================================================ C04: vector, fixed buffer */
#if VF_MT == 4 || VF_MT == 7
#include "a/vec.h"
#include "a/buf.h"
#define MT_SEQ_ELEM(SIZ)                                                                                             \
    typedef struct { unsigned char b[SIZ]; } mt_e##SIZ;                                                              \
    static int mt_cmp##SIZ(void const *l, void const *r) { return memcmp(l, r, SIZ); }                               \
    static void mt_dtor##SIZ(void *p) { mt_cb_acc = mt_fold_bytes(mt_cb_acc ^ 0xD7, p, SIZ); }                       \
    static int mt_copy##SIZ(void *d, void const *s)                                                                  \
    {                                                                                                                \
        memcpy(d, s, SIZ);                                                                                           \
        mt_cb_acc = mt_fold_bytes(mt_cb_acc ^ 0xC9, s, SIZ);                                                         \
        return (int)(((unsigned char const *)s)[0] & 1);                                                             \
    }                                                                                                                \
    static void mt_draw##SIZ(vf_rng *r, void *p)                                                                     \
    {                                                                                                                \
        unsigned const k = (unsigned)vf_below(r, 48);                                                                \
        for (unsigned i = 0; i < SIZ; ++i) { ((unsigned char *)p)[i] = (unsigned char)(k * (i + 1) + 3 * i); }       \
    }
MT_SEQ_ELEM(1)
MT_SEQ_ELEM(4)
MT_SEQ_ELEM(7)
MT_SEQ_ELEM(16)

#define MT_VEC_ITEM(SIZ)                                                                                             \
    static uint64_t mt_vec_state##SIZ(uint64_t h, a_vec const *v)                                                    \
    {                                                                                                                \
        h = mt_fold_u64(h, a_vec_num(v)); h = mt_fold_u64(h, a_vec_mem(v)); h = mt_fold_u64(h, a_vec_siz(v));        \
        if (a_vec_siz(v) == SIZ) { h = mt_fold_bytes(h, a_vec_ptr(v), a_vec_num(v) * SIZ); }                         \
        return h;                                                                                                    \
    }                                                                                                                \
    static uint64_t it_vec##SIZ(vf_rng *r)                                                                           \
    {                                                                                                                \
        int const heap = vf_chance(r, 1, 2);                                                                         \
        a_vec sv, other, *v = &sv;                                                                                   \
        unsigned const nops = 60 + (unsigned)vf_below(r, 100);                                                       \
        uint64_t h = 0xC04 + SIZ;                                                                                    \
        mt_cb_acc = 0;                                                                                               \
        MT_OOM_BEGIN(r);                                                                                             \
        if (!heap) { a_vec_ctor(v, SIZ); }                                                                           \
        else if ((v = a_vec_new(SIZ)) == NULL) { MT_OOM_END(h); return h; }                                          \
        a_vec_ctor(&other, SIZ);                                                                                     \
        for (unsigned op = 0; op < nops; ++op)                                                                       \
        {                                                                                                            \
            unsigned what = (unsigned)vf_below(r, 26);                                                               \
            a_size const n = a_vec_num(v);                                                                           \
            unsigned char key[SIZ], *p;                                                                              \
            if (n > 40 && what < 8) { what = 8 + what % 4; }                                                         \
            h = mt_fold_u64(h, what);                                                                                \
            switch (what)                                                                                            \
            {                                                                                                        \
            case 0: case 1: if ((p = (unsigned char *)a_vec_push_back(v)) != NULL) { mt_draw##SIZ(r, p); } h = mt_fold_u64(h, MT_OFF(a_vec_ptr(v), p)); break; \
            case 2: if ((p = (unsigned char *)a_vec_push_fore(v)) != NULL) { mt_draw##SIZ(r, p); } h = mt_fold_u64(h, MT_OFF(a_vec_ptr(v), p)); break; \
            case 3: if ((p = (unsigned char *)a_vec_push(v)) != NULL) { mt_draw##SIZ(r, p); } h = mt_fold_u64(h, MT_OFF(a_vec_ptr(v), p)); break; \
            case 4: case 5:                                                                                          \
                if ((p = (unsigned char *)a_vec_insert(v, (a_size)vf_below(r, n + 3))) != NULL) { mt_draw##SIZ(r, p); } \
                h = mt_fold_u64(h, MT_OFF(a_vec_ptr(v), p)); break;                                                  \
            case 6:                                                                                                  \
            {                                                                                                        \
                unsigned char arr[5 * SIZ];                                                                          \
                unsigned const k = (unsigned)vf_below(r, 6);                                                         \
                for (unsigned i = 0; i < k; ++i) { mt_draw##SIZ(r, arr + i * SIZ); }                                 \
                h = mt_fold_u64(h, (uint64_t)(unsigned)a_vec_store(v, (a_size)vf_below(r, n + 3), arr, k, vf_chance(r, 1, 2) ? mt_copy##SIZ : NULL)); \
                break;                                                                                               \
            }                                                                                                        \
            case 7:                                                                                                  \
            {                                                                                                        \
                a_size const to = (a_size)vf_below(r, n + 7);                                                        \
                h = mt_fold_u64(h, (uint64_t)(unsigned)a_vec_setn(v, to, vf_chance(r, 1, 2) ? mt_dtor##SIZ : NULL)); \
                for (a_size i = n; i < a_vec_num(v); ++i) { mt_draw##SIZ(r, a_vec_at_(v, i)); }                      \
                break;                                                                                               \
            }                                                                                                        \
            case 8: p = (unsigned char *)a_vec_pull_back(v); h = mt_fold_u64(h, MT_OFF(a_vec_ptr(v), p)); if (p) { h = mt_fold_bytes(h, p, SIZ); } break; \
            case 9: p = (unsigned char *)a_vec_pull_fore(v); h = mt_fold_u64(h, MT_OFF(a_vec_ptr(v), p)); if (p) { h = mt_fold_bytes(h, p, SIZ); } break; \
            case 10: p = (unsigned char *)a_vec_pull(v); h = mt_fold_u64(h, MT_OFF(a_vec_ptr(v), p)); if (p) { h = mt_fold_bytes(h, p, SIZ); } break; \
            case 11:                                                                                                 \
                p = (unsigned char *)a_vec_remove(v, (a_size)vf_below(r, n + 3));                                    \
                h = mt_fold_u64(h, MT_OFF(a_vec_ptr(v), p)); if (p) { h = mt_fold_bytes(h, p, SIZ); } break;         \
            case 12:                                                                                                 \
            {                                                                                                        \
                a_size const idx = (a_size)vf_below(r, n + 3), k = (a_size)vf_below(r, 6);                           \
                h = mt_fold_u64(h, (uint64_t)(unsigned)a_vec_erase(v, idx, vf_chance(r, 1, 8) ? A_SIZE_MAX - (a_size)vf_below(r, 3) : k, vf_chance(r, 1, 2) ? mt_dtor##SIZ : NULL)); \
                break;                                                                                               \
            }                                                                                                        \
            case 13: h = mt_fold_u64(h, (uint64_t)(unsigned)a_vec_setm(v, (a_size)vf_below(r, a_vec_mem(v) + 12))); break; \
            case 14:                                                                                                 \
                a_vec_setz(v, 1 + (a_size)vf_below(r, 24), vf_chance(r, 1, 2) ? mt_dtor##SIZ : NULL);                \
                h = mt_vec_state##SIZ(h, v);                                                                         \
                a_vec_setz(v, vf_chance(r, 1, 6) ? 0 : SIZ, NULL);                                                   \
                if (a_vec_siz(v) != SIZ) { h = mt_vec_state##SIZ(h, v); a_vec_setz(v, SIZ, NULL); }                  \
                break;                                                                                               \
            case 15: a_vec_sort(v, mt_cmp##SIZ); break;                                                              \
            case 16: case 17:                                                                                        \
                a_vec_sort(v, mt_cmp##SIZ);                                                                          \
                if (vf_chance(r, 1, 2)) { (void)a_vec_setm(v, n + 1 + (a_size)vf_below(r, 3)); }                     \
                if ((p = (unsigned char *)a_vec_push_fore(v)) != NULL) { mt_draw##SIZ(r, p); a_vec_sort_fore(v, mt_cmp##SIZ); } \
                break;                                                                                               \
            case 18: case 19:                                                                                        \
                a_vec_sort(v, mt_cmp##SIZ);                                                                          \
                if (vf_chance(r, 1, 2)) { (void)a_vec_setm(v, n + 1 + (a_size)vf_below(r, 3)); }                     \
                if ((p = (unsigned char *)a_vec_push_back(v)) != NULL) { mt_draw##SIZ(r, p); a_vec_sort_back(v, mt_cmp##SIZ); } \
                break;                                                                                               \
            case 20: case 21:                                                                                        \
                a_vec_sort(v, mt_cmp##SIZ);                                                                          \
                mt_draw##SIZ(r, key);                                                                                \
                if ((p = (unsigned char *)a_vec_push_sort(v, key, mt_cmp##SIZ)) != NULL) { memcpy(p, key, SIZ); }    \
                h = mt_fold_u64(h, MT_OFF(a_vec_ptr(v), p)); break;                                                  \
            case 22:                                                                                                 \
                a_vec_sort(v, mt_cmp##SIZ);                                                                          \
                mt_draw##SIZ(r, key);                                                                                \
                p = (unsigned char *)a_vec_search(v, key, mt_cmp##SIZ);                                              \
                h = mt_fold_u64(h, p ? 1 : 0); if (p) { h = mt_fold_bytes(h, p, SIZ); }                              \
                break;                                                                                               \
            case 23: a_vec_swap(v, &other); break;                                                                   \
            case 24:                                                                                                 \
            {                                                                                                        \
                a_size const idx = (a_size)vf_below(r, a_vec_mem(v) + 3);                                            \
                a_diff const of = (a_diff)vf_range(r, -(int64_t)a_vec_mem(v) - 2, (int64_t)a_vec_mem(v) + 2);        \
                h = mt_fold_u64(h, MT_OFF(a_vec_ptr(v), a_vec_at(v, idx)));                                          \
                h = mt_fold_u64(h, MT_OFF(a_vec_ptr(v), a_vec_of(v, of)));                                           \
                h = mt_fold_u64(h, MT_OFF(a_vec_ptr(v), a_vec_top(v)));                                              \
                h = mt_fold_u64(h, MT_OFF(a_vec_ptr(v), a_vec_end(v)));                                              \
                if (n) { h = mt_fold_u64(h, MT_OFF(a_vec_ptr(v), a_vec_top_(v))); h = mt_fold_u64(h, MT_OFF(a_vec_ptr(v), a_vec_end_(v))); } \
                break;                                                                                               \
            }                                                                                                        \
            default:                                                                                                 \
            {                                                                                                        \
                a_vec_forenum(i, v) { h = mt_fold_bytes(h, a_vec_at(v, i), SIZ); }                                   \
                a_vec_forenum_reverse(i, v) { h = mt_fold_bytes(h, a_vec_at_(v, i), SIZ); }                          \
                a_vec_foreach(mt_e##SIZ, *, it, v) { h = mt_fold_bytes(h, it->b, SIZ); }                             \
                a_vec_foreach_reverse(mt_e##SIZ, *, it, v) { h = mt_fold_bytes(h, it->b, SIZ); }                     \
                break;                                                                                               \
            }                                                                                                        \
            }                                                                                                        \
            h = mt_vec_state##SIZ(h, v);                                                                             \
        }                                                                                                            \
        h = mt_vec_state##SIZ(h, &other);                                                                            \
        a_vec_dtor(&other, vf_chance(r, 1, 2) ? mt_dtor##SIZ : NULL);                                                \
        if (heap) { a_vec_die(v, mt_dtor##SIZ); }                                                                    \
        else { a_vec_dtor(v, mt_dtor##SIZ); h = mt_fold_u64(h, a_vec_num(v) + a_vec_mem(v) + a_vec_siz(v)); }       \
        MT_OOM_END(h);                                                                                               \
        return mt_fold_u64(h, mt_cb_acc);                                                                            \
    }
MT_VEC_ITEM(1)
MT_VEC_ITEM(4)
MT_VEC_ITEM(7)
MT_VEC_ITEM(16)

#define MT_BUF_ITEM(SIZ)                                                                                             \
    static uint64_t mt_buf_state##SIZ(uint64_t h, void const *b)                                                     \
    {                                                                                                                \
        h = mt_fold_u64(h, a_buf_num(b)); h = mt_fold_u64(h, a_buf_mem(b)); h = mt_fold_u64(h, a_buf_siz(b));        \
        if (a_buf_siz(b) == SIZ) { h = mt_fold_bytes(h, a_buf_ptr(b), a_buf_num(b) * SIZ); }                         \
        return h;                                                                                                    \
    }                                                                                                                \
    static uint64_t it_buf##SIZ(vf_rng *r)                                                                           \
    {                                                                                                                \
        int const heap = vf_chance(r, 1, 2);                                                                         \
        a_size const cap = (a_size)vf_below(r, 40);                                                                  \
        a_buf *b;                                                                                                    \
        unsigned const nops = 60 + (unsigned)vf_below(r, 100);                                                       \
        uint64_t h = 0xB04 + SIZ;                                                                                    \
        mt_cb_acc = 0;                                                                                               \
        MT_OOM_BEGIN(r);                                                                                             \
        if (!heap) { b = (a_buf *)malloc(sizeof(a_buf) + SIZ * cap); a_buf_ctor(b, SIZ, cap); }                      \
        else if ((b = a_buf_new(SIZ, cap)) == NULL) { MT_OOM_END(h); return h; }                                     \
        for (unsigned op = 0; op < nops; ++op)                                                                       \
        {                                                                                                            \
            unsigned const what = (unsigned)vf_below(r, 26);                                                         \
            a_size const n = a_buf_num(b);                                                                           \
            unsigned char key[SIZ], *p;                                                                              \
            h = mt_fold_u64(h, what);                                                                                \
            switch (what)                                                                                            \
            {                                                                                                        \
            case 0: case 1: if ((p = (unsigned char *)a_buf_push_back(b)) != NULL) { mt_draw##SIZ(r, p); } h = mt_fold_u64(h, MT_OFF(b, p)); break; \
            case 2: if ((p = (unsigned char *)a_buf_push_fore(b)) != NULL) { mt_draw##SIZ(r, p); } h = mt_fold_u64(h, MT_OFF(b, p)); break; \
            case 3: if ((p = (unsigned char *)a_buf_push(b)) != NULL) { mt_draw##SIZ(r, p); } h = mt_fold_u64(h, MT_OFF(b, p)); break; \
            case 4: case 5:                                                                                          \
                if ((p = (unsigned char *)a_buf_insert(b, (a_size)vf_below(r, n + 3))) != NULL) { mt_draw##SIZ(r, p); } \
                h = mt_fold_u64(h, MT_OFF(b, p)); break;                                                             \
            case 6:                                                                                                  \
            {                                                                                                        \
                unsigned char arr[5 * SIZ];                                                                          \
                unsigned const k = (unsigned)vf_below(r, 6);                                                         \
                for (unsigned i = 0; i < k; ++i) { mt_draw##SIZ(r, arr + i * SIZ); }                                 \
                h = mt_fold_u64(h, (uint64_t)(unsigned)a_buf_store(b, (a_size)vf_below(r, n + 3), arr, k, vf_chance(r, 1, 2) ? mt_copy##SIZ : NULL)); \
                break;                                                                                               \
            }                                                                                                        \
            case 7:                                                                                                  \
                a_buf_setn(b, (a_size)vf_below(r, n + 7), vf_chance(r, 1, 2) ? mt_dtor##SIZ : NULL);                 \
                for (a_size i = n; i < a_buf_num(b); ++i) { mt_draw##SIZ(r, a_buf_at_(b, i)); }                      \
                break;                                                                                               \
            case 8: p = (unsigned char *)a_buf_pull_back(b); h = mt_fold_u64(h, MT_OFF(b, p)); if (p) { h = mt_fold_bytes(h, p, SIZ); } break; \
            case 9: p = (unsigned char *)a_buf_pull_fore(b); h = mt_fold_u64(h, MT_OFF(b, p)); if (p) { h = mt_fold_bytes(h, p, SIZ); } break; \
            case 10: p = (unsigned char *)a_buf_pull(b); h = mt_fold_u64(h, MT_OFF(b, p)); if (p) { h = mt_fold_bytes(h, p, SIZ); } break; \
            case 11:                                                                                                 \
                p = (unsigned char *)a_buf_remove(b, (a_size)vf_below(r, n + 3));                                    \
                h = mt_fold_u64(h, MT_OFF(b, p)); if (p) { h = mt_fold_bytes(h, p, SIZ); } break;                    \
            case 12:                                                                                                 \
            {                                                                                                        \
                a_size const idx = (a_size)vf_below(r, n + 3) % (a_buf_mem(b) + 1), k = (a_size)vf_below(r, 6);      \
                h = mt_fold_u64(h, (uint64_t)(unsigned)a_buf_erase(b, idx, vf_chance(r, 1, 8) ? A_SIZE_MAX - (a_size)vf_below(r, 3) : k, vf_chance(r, 1, 2) ? mt_dtor##SIZ : NULL)); \
                break;                                                                                               \
            }                                                                                                        \
            case 13:                                                                                                 \
            {                                                                                                        \
                /* never below the count in use */                                                                   \
                a_buf *const nb = a_buf_setm(b, n + (a_size)vf_below(r, 24));                                        \
                h = mt_fold_u64(h, nb ? 1 : 0);                                                                      \
                if (nb) { b = nb; }                                                                                  \
                break;                                                                                               \
            }                                                                                                        \
            case 14:                                                                                                 \
            {                                                                                                        \
                a_size const bytes = a_buf_mem(b) * a_buf_siz(b);                                                    \
                a_buf_setz(b, (a_size)vf_below(r, 24), vf_chance(r, 1, 2) ? mt_dtor##SIZ : NULL);                    \
                h = mt_buf_state##SIZ(h, b);                                                                         \
                /* back to the element size of this item with the capacity the block really has */                  \
                a_buf_ctor(b, SIZ, bytes / SIZ);                                                                     \
                break;                                                                                               \
            }                                                                                                        \
            case 15: a_buf_sort(b, mt_cmp##SIZ); break;                                                              \
            case 16: case 17:                                                                                        \
                a_buf_sort(b, mt_cmp##SIZ);                                                                          \
                if ((p = (unsigned char *)a_buf_push_fore(b)) != NULL) { mt_draw##SIZ(r, p); a_buf_sort_fore(b, mt_cmp##SIZ); } \
                break;                                                                                               \
            case 18: case 19:                                                                                        \
                a_buf_sort(b, mt_cmp##SIZ);                                                                          \
                if ((p = (unsigned char *)a_buf_push_back(b)) != NULL) { mt_draw##SIZ(r, p); a_buf_sort_back(b, mt_cmp##SIZ); } \
                break;                                                                                               \
            case 20: case 21:                                                                                        \
                a_buf_sort(b, mt_cmp##SIZ);                                                                          \
                mt_draw##SIZ(r, key);                                                                                \
                if ((p = (unsigned char *)a_buf_push_sort(b, key, mt_cmp##SIZ)) != NULL) { memcpy(p, key, SIZ); }    \
                h = mt_fold_u64(h, MT_OFF(b, p)); break;                                                             \
            case 22:                                                                                                 \
                a_buf_sort(b, mt_cmp##SIZ);                                                                          \
                mt_draw##SIZ(r, key);                                                                                \
                p = (unsigned char *)a_buf_search(b, key, mt_cmp##SIZ);                                              \
                h = mt_fold_u64(h, p ? 1 : 0); if (p) { h = mt_fold_bytes(h, p, SIZ); }                              \
                break;                                                                                               \
            case 23: case 24:                                                                                        \
            {                                                                                                        \
                a_size const idx = (a_size)vf_below(r, a_buf_mem(b) + 3);                                            \
                a_diff const of = (a_diff)vf_range(r, -(int64_t)a_buf_mem(b) - 2, (int64_t)a_buf_mem(b) + 2);        \
                h = mt_fold_u64(h, MT_OFF(b, a_buf_at(b, idx)));                                                     \
                h = mt_fold_u64(h, MT_OFF(b, a_buf_of(b, of)));                                                      \
                h = mt_fold_u64(h, MT_OFF(b, a_buf_top(b)));                                                         \
                h = mt_fold_u64(h, MT_OFF(b, a_buf_end(b)));                                                         \
                if (n) { h = mt_fold_u64(h, MT_OFF(b, a_buf_top_(b))); }                                             \
                break;                                                                                               \
            }                                                                                                        \
            default:                                                                                                 \
            {                                                                                                        \
                a_buf_forenum(i, b) { h = mt_fold_bytes(h, a_buf_at(b, i), SIZ); }                                   \
                a_buf_forenum_reverse(i, b) { h = mt_fold_bytes(h, a_buf_at_(b, i), SIZ); }                          \
                a_buf_foreach(mt_e##SIZ, *, it, b) { h = mt_fold_bytes(h, it->b, SIZ); }                             \
                a_buf_foreach_reverse(mt_e##SIZ, *, it, b) { h = mt_fold_bytes(h, it->b, SIZ); }                     \
                break;                                                                                               \
            }                                                                                                        \
            }                                                                                                        \
            h = mt_buf_state##SIZ(h, b);                                                                             \
        }                                                                                                            \
        if (heap) { a_buf_die(b, mt_dtor##SIZ); }                                                                    \
        else { a_buf_dtor(b, mt_dtor##SIZ); h = mt_fold_u64(h, a_buf_num(b)); free(b); }                             \
        MT_OOM_END(h);                                                                                               \
        return mt_fold_u64(h, mt_cb_acc);                                                                            \
    }
MT_BUF_ITEM(1)
MT_BUF_ITEM(4)
MT_BUF_ITEM(7)
MT_BUF_ITEM(16)

/* a_swap / a_copy / a_move / a_fill / a_zero of a/a.h on private byte arrays (a_swap is the rotation step of the full-vector paths) */
static uint64_t it_bytes(vf_rng *r)
{
    unsigned char a[96], b[96];
    uint64_t h = 0xA04;
    for (int k = 0; k < 24; ++k)
    {
        size_t const n = (size_t)vf_below(r, 49), at = (size_t)vf_below(r, 48), bt = (size_t)vf_below(r, 48);
        for (size_t i = 0; i < sizeof a; ++i) { a[i] = (unsigned char)vf_u64(r); b[i] = (unsigned char)vf_u64(r); }
        a_swap(a + at, b + bt, n);
        h = mt_fold_bytes(h, a, sizeof a); h = mt_fold_bytes(h, b, sizeof b);
        a_swap(a + at, a + at + 1 + n % 7, n % 40); /* overlapping: one-element rotation, as a_vec_remove uses it */
        h = mt_fold_bytes(h, a, sizeof a);
        a_copy(a + bt, b + at, n);
        a_move(a + at, a + bt, n);
        h = mt_fold_bytes(h, a, sizeof a);
        a_fill(b + at, n, (int)vf_below(r, 256));
        a_zero(b + bt, n / 2);
        h = mt_fold_bytes(h, b, sizeof b);
    }
    return h;
}
#endif
#if VF_MT == 4
static mt_item const ITEMS[] = {{"vec-history-1", it_vec1}, {"vec-history-4", it_vec4}, {"vec-history-7", it_vec7}, {"vec-history-16", it_vec16},
                                {"buf-history-1", it_buf1}, {"buf-history-4", it_buf4}, {"buf-history-7", it_buf7}, {"buf-history-16", it_buf16},
                                {"swap-copy-move-fill", it_bytes}};
#endif /* C04 */

/* ============================================================================================ C05: lists, queue */
#if VF_MT == 5 || VF_MT == 7
#include "a/list.h"
#include "a/slist.h"
#include "a/que.h"
typedef struct { a_list n; unsigned key; int where; } mt_ln; /* where: 0 detached, 1 ring A, 2 ring B */
static uint64_t mt_ring_fold(uint64_t h, a_list const *head)
{
    unsigned cnt = 0;
    a_list *at;
    a_list_foreach_next(it, head) { h = mt_fold_u64(h, a_list_entry(it, mt_ln, n)->key); ++cnt; }
    h = mt_fold_u64(h, 0xF000 + cnt);
    a_list_foreach_prev(it, head) { h = mt_fold_u64(h, a_list_entry(it, mt_ln, n)->key); }
    A_LIST_FOREACH_NEXT(at, head) { h = mt_fold_u64(h, a_list_entry_next(at, mt_ln, n) == a_list_entry(at->next, mt_ln, n)); }
    A_LIST_FOREACH_PREV(at, head) { --cnt; }
    return mt_fold_u64(h, cnt);
}
#define MT_LN 28
static uint64_t it_list(vf_rng *r)
{
    mt_ln pool[MT_LN];
    a_list ha = A_LIST_INIT(ha), hb;
    uint64_t h = 0xC05;
    unsigned const nops = 150 + (unsigned)vf_below(r, 250);
    a_list_ctor(&hb);
    for (unsigned i = 0; i < MT_LN; ++i) { pool[i].key = i; pool[i].where = 0; a_list_init(&pool[i].n); }
    for (unsigned op = 0; op < nops; ++op)
    {
        unsigned const i = (unsigned)vf_below(r, MT_LN), j = (unsigned)vf_below(r, MT_LN), what = (unsigned)vf_below(r, 16);
        mt_ln *const x = &pool[i], *const y = &pool[j];
        /* a place in ring A: the head or a member */
        a_list *const anchor = (y->where == 1 && vf_chance(r, 3, 4)) ? &y->n : &ha;
        h = mt_fold_u64(h, what);
        if (x->where == 0)
        {
            x->key = (unsigned)vf_below(r, 1000);
            if (what < 4) { a_list_add_next(anchor, &x->n); x->where = 1; }
            else if (what < 8) { a_list_add_prev(anchor, &x->n); x->where = 1; }
            else if (what < 10) { a_list_add_node(anchor->next, anchor, &x->n); x->where = 1; }
            else if (what < 13) { a_list_add_prev(&hb, &x->n); x->where = 2; }
            else if (i != j && y->where == 0 && i + 1 < MT_LN && i + 1 != j && pool[i + 1].where == 0)
            {
                /* a chain of three built by hand, closed to a ring of its own, then spliced in behind the anchor */
                mt_ln *const z = &pool[i + 1];
                a_list_link(&x->n, &y->n);
                a_list_link(&y->n, &z->n);
                a_list_loop(&x->n, &z->n);
                h = mt_fold_u64(h, a_list_entry_prev(&x->n, mt_ln, n)->key);
                a_list_add_(anchor->next, anchor, &x->n, &z->n);
                x->where = y->where = z->where = 1;
            }
        }
        else if (x->where == 1)
        {
            if (what < 3) { a_list_del_node(&x->n); a_list_dtor(&x->n); x->where = 0; }
            else if (what < 5)
            {
                a_list *const v = what == 3 ? x->n.next : x->n.prev;
                if (v != &ha)
                {
                    if (what == 3) { a_list_del_next(&x->n); } else { a_list_del_prev(&x->n); }
                    a_list_init(v);
                    a_list_entry(v, mt_ln, n)->where = 0;
                }
            }
            else if (what == 5 && y->where == 0)
            {
                a_list_set_node(&x->n, &y->n);
                a_list_init(&x->n);
                x->where = 0; y->where = 1;
            }
            else if (what < 8 && y->where == 1 && i != j && x->n.next != &y->n && y->n.next != &x->n) { a_list_swap_node(&x->n, &y->n); }
            else if (what == 8) { a_list_rot_next(&ha); }
            else if (what == 9) { a_list_rot_prev(&ha); }
            else if (what < 12 && hb.next != &hb)
            {
                a_list_foreach_next(it, &hb) { a_list_entry(it, mt_ln, n)->where = 1; }
                if (what == 10) { a_list_mov_next(anchor, &hb); } else { a_list_mov_prev(anchor, &hb); }
                a_list_init(&hb);
            }
            else
            {
                /* a run of members starting at x */
                a_list *last = &x->n;
                unsigned len = 1 + (unsigned)vf_below(r, 4);
                while (--len && last->next != &ha) { last = last->next; }
                if (what < 14)
                {
                    /* cut out and appended to ring B */
                    a_list_del_(&x->n, last);
                    a_list_add_(&hb, hb.prev, &x->n, last);
                    for (a_list *it = &x->n;; it = it->next) { a_list_entry(it, mt_ln, n)->where = 2; if (it == last) { break; } }
                }
                else if (hb.next != &hb)
                {
                    a_list *const bh = hb.next, *const bt = hb.prev;
                    if (what == 14)
                    {
                        /* exchanged with the whole content of ring B */
                        a_list_swap_(&x->n, last, bh, bt);
                        for (a_list *it = &x->n;; it = it->next) { a_list_entry(it, mt_ln, n)->where = 2; if (it == last) { break; } }
                        for (a_list *it = bh;; it = it->next) { a_list_entry(it, mt_ln, n)->where = 1; if (it == bt) { break; } }
                    }
                    else
                    {
                        /* replaced by the whole content of ring B; the run falls out */
                        a_list *it = &x->n, *nx;
                        a_list_del_(bh, bt);
                        a_list_set_(&x->n, last, bh, bt);
                        for (a_list *q = bh;; q = q->next) { a_list_entry(q, mt_ln, n)->where = 1; if (q == bt) { break; } }
                        for (;; it = nx) { nx = it->next; a_list_entry(it, mt_ln, n)->where = 0; a_list_init(it); if (it == last) { break; } }
                    }
                }
            }
        }
        else if (what < 6) { a_list_del_node(&x->n); a_list_init(&x->n); x->where = 0; }
        h = mt_ring_fold(h, &ha);
        h = mt_ring_fold(h, &hb);
    }
    {
        unsigned left = 0;
        a_list_forsafe_next(it, at, &ha) { a_list_del_node(it); a_list_dtor(it); ++left; }
        a_list_forsafe_prev(it, at, &hb) { a_list_del_node(it); a_list_dtor(it); ++left; }
        h = mt_fold_u64(h, left);
        h = mt_ring_fold(h, &ha);
    }
    return h;
}

typedef struct { a_slist_node n; unsigned key; int where; } mt_sn;
static uint64_t mt_slist_fold(uint64_t h, a_slist const *l)
{
    unsigned cnt = 0;
    a_slist_node *it;
    a_slist_foreach(at, l) { h = mt_fold_u64(h, a_slist_entry(at, mt_sn, n)->key); ++cnt; }
    A_SLIST_FOREACH(it, l) { h = mt_fold_u64(h, it->next ? a_slist_entry_next(it, mt_sn, n)->key : 0xE0E0); }
    h = mt_fold_u64(h, l->tail == &l->head ? 0xFFFFFFFFull : a_slist_entry(l->tail, mt_sn, n)->key);
    return mt_fold_u64(h, cnt);
}
static uint64_t it_slist(vf_rng *r)
{
    mt_sn pool[MT_LN];
    a_slist la = A_SLIST_INIT(la), lb;
    uint64_t h = 0x5C05;
    unsigned const nops = 150 + (unsigned)vf_below(r, 250);
    a_slist_ctor(&lb);
    for (unsigned i = 0; i < MT_LN; ++i) { pool[i].key = i; pool[i].where = 0; pool[i].n.next = NULL; }
    for (unsigned op = 0; op < nops; ++op)
    {
        unsigned const i = (unsigned)vf_below(r, MT_LN), j = (unsigned)vf_below(r, MT_LN), what = (unsigned)vf_below(r, 12);
        mt_sn *const x = &pool[i], *const y = &pool[j];
        a_slist_node *const anchor = (y->where == 1 && vf_chance(r, 3, 4)) ? &y->n : &la.head;
        h = mt_fold_u64(h, what);
        if (x->where == 0)
        {
            x->key = (unsigned)vf_below(r, 1000);
            if (what < 3) { a_slist_add_head(&la, &x->n); x->where = 1; }
            else if (what < 6) { a_slist_add_tail(&la, &x->n); x->where = 1; }
            else if (what < 9) { a_slist_add(&la, anchor, &x->n); x->where = 1; }
            else if (what < 11) { a_slist_add_tail(&lb, &x->n); x->where = 2; }
            else { a_slist_add_head(&lb, &x->n); x->where = 2; }
        }
        else if (x->where == 1)
        {
            if (what < 3)
            {
                if (x->n.next) { a_slist_entry(x->n.next, mt_sn, n)->where = 0; }
                a_slist_del(&la, &x->n);
            }
            else if (what < 5)
            {
                if (la.head.next) { a_slist_entry(la.head.next, mt_sn, n)->where = 0; }
                if (what == 3) { a_slist_del_head(&la); } else { a_slist_del(&la, &la.head); }
            }
            else if (what < 7) { a_slist_rot(&la); }
            else if (what < 10)
            {
                a_slist_foreach(it, &lb) { a_slist_entry(it, mt_sn, n)->where = 1; }
                a_slist_mov(&lb, &la, anchor);
                a_slist_init(&lb);
            }
            else
            {
                /* everything behind x goes to list B's front, unlinked one by one */
                while (x->n.next)
                {
                    a_slist_node *const v = x->n.next;
                    a_slist_del(&la, &x->n);
                    a_slist_add_head(&lb, v);
                    a_slist_entry(v, mt_sn, n)->where = 2;
                }
            }
        }
        else if (what < 4) { a_slist_rot(&lb); }
        else if (what < 6 && lb.head.next) { a_slist_entry(lb.head.next, mt_sn, n)->where = 0; a_slist_del_head(&lb); }
        h = mt_slist_fold(h, &la);
        h = mt_slist_fold(h, &lb);
    }
    {
        unsigned left = 0;
        a_slist_forsafe(it, at, &la) { a_slist_del(&la, at); it = NULL; ++left; }
        h = mt_fold_u64(h, left);
        h = mt_slist_fold(h, &la);
        a_slist_dtor(&lb);
        h = mt_slist_fold(h, &lb);
    }
    return h;
}

typedef struct { uint32_t key, tag; } mt_qe;
static int mt_qcmp(void const *l, void const *r)
{
    mt_qe const *a = (mt_qe const *)l, *b = (mt_qe const *)r;
    return (a->key > b->key) - (a->key < b->key);
}
static void mt_qdtor(void *p) { mt_cb_acc = mt_fold_bytes(mt_cb_acc ^ 0xD5, p, sizeof(mt_qe)); }
static uint64_t mt_que_fold(uint64_t h, a_que const *q)
{
    unsigned cnt = 0;
    mt_qe *it, *at;
    h = mt_fold_u64(h, a_que_num(q)); h = mt_fold_u64(h, a_que_siz(q));
    h = mt_fold_u64(h, q->cur_); h = mt_fold_u64(h, q->mem_);
    a_que_foreach(mt_qe, *, e, q) { h = mt_fold_u64(h, ((uint64_t)e->key << 32) | e->tag); ++cnt; }
    a_que_foreach_reverse(mt_qe, *, e, q) { h = mt_fold_u64(h, ((uint64_t)e->tag << 32) | e->key); --cnt; }
    A_QUE_FOREACH(mt_qe *, it, at, q) { h = mt_fold_u64(h, it->key); }
    A_QUE_FOREACH_REVERSE(mt_qe *, it, at, q) { h = mt_fold_u64(h, it->tag); }
    return mt_fold_u64(h, cnt);
}
#define MT_QE(p) ((p) ? (((uint64_t)((mt_qe *)(p))->key << 32) | ((mt_qe *)(p))->tag) : 0xFFFFFFFFFFFFull)
static uint64_t it_que(vf_rng *r)
{
    int const heap = vf_chance(r, 1, 2);
    a_que sq, other, *q = &sq;
    uint64_t h = 0x9C05;
    uint32_t tag = 0;
    unsigned const nops = 80 + (unsigned)vf_below(r, 160);
    mt_cb_acc = 0;
    MT_OOM_BEGIN(r);
    if (!heap) { a_que_ctor(q, sizeof(mt_qe)); }
    else if ((q = a_que_new(sizeof(mt_qe))) == NULL) { MT_OOM_END(h); return h; }
    a_que_ctor(&other, sizeof(mt_qe) + 4);
    for (unsigned op = 0; op < nops; ++op)
    {
        unsigned what = (unsigned)vf_below(r, 24);
        a_size const n = a_que_num(q);
        mt_qe key, *p;
        if (n > 32 && what < 9) { what = 9 + what % 4; }
        key.key = (uint32_t)vf_below(r, 64); key.tag = ++tag;
        h = mt_fold_u64(h, what);
        switch (what)
        {
        case 0: case 1: if ((p = A_QUE_PUSH_BACK(mt_qe, q)) != NULL) { *p = key; } h = mt_fold_u64(h, p != NULL); break;
        case 2: case 3: if ((p = A_QUE_PUSH_FORE(mt_qe, q)) != NULL) { *p = key; } h = mt_fold_u64(h, p != NULL); break;
        case 4: case 5: if ((p = A_QUE_INSERT(mt_qe, q, (a_size)vf_below(r, n + 3))) != NULL) { *p = key; } h = mt_fold_u64(h, p != NULL); break;
        case 6: if ((p = A_QUE_PUSH_SORT(mt_qe, q, &key, mt_qcmp)) != NULL) { *p = key; } h = mt_fold_u64(h, p != NULL); break;
        case 7: if ((p = A_QUE_PUSH_FORE(mt_qe, q)) != NULL) { *p = key; a_que_sort_fore(q, mt_qcmp); } h = mt_fold_u64(h, p != NULL); break;
        case 8: if ((p = A_QUE_PUSH_BACK(mt_qe, q)) != NULL) { *p = key; a_que_sort_back(q, mt_qcmp); } h = mt_fold_u64(h, p != NULL); break;
        case 9: case 10: p = A_QUE_PULL_BACK(mt_qe, q); h = mt_fold_u64(h, MT_QE(p)); break;
        case 11: p = A_QUE_PULL_FORE(mt_qe, q); h = mt_fold_u64(h, MT_QE(p)); break;
        case 12: p = A_QUE_REMOVE(mt_qe, q, (a_size)vf_below(r, n + 3)); h = mt_fold_u64(h, MT_QE(p)); break;
        case 13: case 14:
            p = A_QUE_AT(mt_qe, q, (a_diff)vf_range(r, -(int64_t)n - 2, (int64_t)n + 1)); h = mt_fold_u64(h, MT_QE(p));
            p = A_QUE_FORE(mt_qe, q); h = mt_fold_u64(h, MT_QE(p));
            p = A_QUE_BACK(mt_qe, q); h = mt_fold_u64(h, MT_QE(p));
            if (n) { h = mt_fold_u64(h, MT_QE(A_QUE_FORE_(mt_qe, q))); h = mt_fold_u64(h, MT_QE(A_QUE_BACK_(mt_qe, q))); }
            break;
        case 15: case 16:
            if (n >= 3)
            {
                /* two elements that are not neighbours */
                a_size const a = (a_size)vf_below(r, n - 2), b = a + 2 + (a_size)vf_below(r, n - 2 - a);
                a_que_swap_(a_que_at(q, (a_diff)a), a_que_at(q, (a_diff)b));
            }
            break;
        case 17: case 18: a_que_swap(q, &other); break;
        case 19: h = mt_fold_u64(h, (uint64_t)(unsigned)a_que_drop(q, vf_chance(r, 1, 2) ? mt_qdtor : NULL)); break;
        case 20: h = mt_fold_u64(h, (uint64_t)(unsigned)a_que_setz(q, sizeof(mt_qe) + (a_size)vf_below(r, 40), vf_chance(r, 1, 2) ? mt_qdtor : NULL)); break;
        default:
            /* a burst at both ends */
            for (unsigned k = (unsigned)vf_below(r, 6); k; --k)
            {
                key.tag = ++tag;
                if ((p = (k & 1) ? A_QUE_PUSH_BACK(mt_qe, q) : A_QUE_PUSH_FORE(mt_qe, q)) != NULL) { *p = key; }
            }
            break;
        }
        h = mt_que_fold(h, q);
        if (what == 17 || what == 18) { h = mt_que_fold(h, &other); }
    }
    h = mt_que_fold(h, &other);
    a_que_dtor(&other, vf_chance(r, 1, 2) ? mt_qdtor : NULL);
    if (heap) { a_que_die(q, mt_qdtor); }
    else { a_que_dtor(q, mt_qdtor); h = mt_fold_u64(h, a_que_num(q) + a_que_siz(q)); }
    MT_OOM_END(h);
    return mt_fold_u64(h, mt_cb_acc);
}
#endif
#if VF_MT == 5
static mt_item const ITEMS[] = {{"list-history", it_list}, {"list-history-2", it_list}, {"slist-history", it_slist}, {"slist-history-2", it_slist},
                                {"que-history", it_que}, {"que-history-2", it_que}, {"que-history-3", it_que}};
#endif /* C05 */

/* ============================================================================================ C06: dynamic string */
#if VF_MT == 6 || VF_MT == 7
#include "a/str.h"
#include "a/utf.h"
#include <stdarg.h>
static int mt_sgn(int x) { return (x > 0) - (x < 0); }
/* length, capacity, content; the byte behind the content only where the last call promises a terminator */
static uint64_t mt_str_fold(uint64_t h, a_str const *s, int term)
{
    h = mt_fold_u64(h, a_str_len(s)); h = mt_fold_u64(h, a_str_mem(s));
    h = mt_fold_u64(h, a_str_ptr(s) ? 1 : 0);
    if (a_str_ptr(s)) { h = mt_fold_bytes(h, a_str_ptr(s), a_str_len(s)); }
    if (term && a_str_ptr(s) && a_str_len(s) < a_str_mem(s)) { h = mt_fold_u64(h, 0x7E00u | (unsigned char)a_str_ptr(s)[a_str_len(s)]); }
    return h;
}
static size_t mt_draw_text(vf_rng *r, char *m, size_t cap, int binary)
{
    static char const alphabet[] = " \t\n,;abcxyzABC0189-_%";
    size_t const n = (size_t)vf_below(r, cap);
    for (size_t i = 0; i < n; ++i)
    {
        m[i] = (binary && vf_chance(r, 1, 4)) ? (char)(1 + vf_below(r, 255)) : alphabet[vf_below(r, sizeof alphabet - 1)];
    }
    m[n] = 0;
    return n;
}
static int mt_catv(a_str *s, char const *fmt, ...)
{
    int res;
    va_list va;
    va_start(va, fmt);
    res = a_str_catv(s, fmt, va);
    va_end(va);
    return res;
}
static uint64_t it_str(vf_rng *r)
{
    int const heap = vf_chance(r, 1, 2), binary = vf_chance(r, 1, 2);
    a_str ss, other = A_STR_INIT, *s = &ss;
    uint64_t h = 0xC06;
    unsigned const nops = 80 + (unsigned)vf_below(r, 160);
    MT_OOM_BEGIN(r);
    if (!heap) { a_str_ctor(s); }
    else if ((s = a_str_new()) == NULL) { MT_OOM_END(h); return h; }
    for (unsigned op = 0; op < nops; ++op)
    {
        unsigned what = (unsigned)vf_below(r, 40);
        char text[49], out[64];
        size_t const tn = mt_draw_text(r, text, 48, binary);
        a_size const len = a_str_len(s);
        int term = 0, rc;
        if (len > 400 && what < 16) { what = 16 + what % 6; }
        h = mt_fold_u64(h, what);
        switch (what)
        {
        case 0: rc = a_str_catc(s, (int)(unsigned char)text[0]); h = mt_fold_u64(h, (uint64_t)(unsigned)rc); term = rc != ~0; break;
        case 1: rc = a_str_catc_(s, (int)vf_below(r, 256)); h = mt_fold_u64(h, (uint64_t)(unsigned)rc); break;
        case 2: rc = a_str_catn(s, text, tn); h = mt_fold_u64(h, (uint64_t)(unsigned)rc); term = !rc; break;
        case 3: rc = a_str_catn_(s, text, tn); h = mt_fold_u64(h, (uint64_t)(unsigned)rc); break;
        case 4: rc = a_str_cats(s, text); h = mt_fold_u64(h, (uint64_t)(unsigned)rc); term = !rc; break;
        case 5: rc = a_str_cats_(s, text); h = mt_fold_u64(h, (uint64_t)(unsigned)rc); break;
        case 6: rc = a_str_cat(s, vf_chance(r, 1, 3) ? s : &other); h = mt_fold_u64(h, (uint64_t)(unsigned)rc); term = !rc; break;
        case 7: rc = a_str_cat_(s, vf_chance(r, 1, 3) ? s : &other); h = mt_fold_u64(h, (uint64_t)(unsigned)rc); break;
        case 8:
            if (len)
            {
                /* a piece of the string's own content appended to it: the block may move while it is being read */
                a_size const at = (a_size)vf_below(r, len), k = (a_size)vf_below(r, len - at + 1);
                rc = vf_chance(r, 1, 2) ? a_str_catn(s, a_str_ptr(s) + at, k) : a_str_catn_(s, a_str_ptr(s) + at, k);
                h = mt_fold_u64(h, (uint64_t)(unsigned)rc);
            }
            break;
        case 9: case 10: case 11: case 12:
        {
            int const d = (int)vf_range(r, -100000, 100000), c = 'a' + (int)vf_below(r, 26), w = (int)vf_below(r, 12);
            unsigned const u = (unsigned)vf_u64(r) >> vf_below(r, 32);
            switch (vf_below(r, 8))
            {
            case 0: rc = a_str_catf(s, "%d", d); break;
            case 1: rc = a_str_catf(s, "[%5d|%-8s|%c|%#x|%03u]", d, text, c, u, u % 1000); break;
            case 2: rc = a_str_catf(s, "%s", text); break;
            case 3: rc = a_str_catf(s, "%c%c%%%x", c, c + 1 > 'z' ? 'a' : c + 1, u); break;
            case 4: rc = a_str_catf(s, "%*d:%.*s;", w, d, w, text); break;
            case 5: rc = mt_catv(s, "<%u,%d,%s>", u, d, text); break;
            case 6: rc = mt_catv(s, "%s%s", text, text); break;
            default: rc = a_str_catf(s, "%s", ""); break;
            }
            h = mt_fold_u64(h, (uint64_t)(unsigned)rc);
            term = 1;
            break;
        }
        case 13: rc = a_utf_catc(s, (a_u32)(1 + vf_below(r, vf_chance(r, 1, 2) ? 0x7FF : 0x10FFFF))); h = mt_fold_u64(h, (uint64_t)(unsigned)rc); term = !rc; break;
        case 14: h = mt_fold_u64(h, (uint64_t)(unsigned)a_str_setm(s, (a_size)vf_below(r, a_str_mem(s) + 40))); break;
        case 15: h = mt_fold_u64(h, (uint64_t)(unsigned)a_str_setm_(s, len + 1 + (a_size)vf_below(r, 24))); break;
        case 16: rc = a_str_getc(s); h = mt_fold_u64(h, (uint64_t)(unsigned)rc); term = len > 0; break;
        case 17: rc = a_str_getc_(s); h = mt_fold_u64(h, (uint64_t)(unsigned)rc); break;
        case 18: case 19:
        {
            a_size const want = (a_size)vf_below(r, 64), got = what == 18 ? a_str_getn(s, out, want) : a_str_getn_(s, out, want);
            h = mt_fold_u64(h, got); h = mt_fold_bytes(h, out, got);
            term = what == 18 && got > 0;
            break;
        }
        case 20: h = mt_fold_u64(h, a_str_getn(s, NULL, (a_size)vf_below(r, 9))); break;
        case 21: h = mt_fold_u64(h, a_str_getn_(s, NULL, (a_size)vf_below(r, 9))); break;
        case 22: case 23: case 24: case 25: case 26: case 27:
        {
            /* explicit set, or (text strings only) the white space default */
            a_size const before = len, sn = (!binary && vf_chance(r, 1, 3)) ? 0 : 1 + (a_size)vf_below(r, 6);
            char const *const set = " \t,;ax" + vf_below(r, 2);
            switch (what)
            {
            case 22: a_str_rtrim(s, set, sn); break;
            case 23: a_str_rtrim_(s, set, sn); break;
            case 24: a_str_ltrim(s, set, sn); break;
            case 25: a_str_ltrim_(s, set, sn); break;
            case 26: a_str_trim(s, set, sn); break;
            default: a_str_trim_(s, set, sn); break;
            }
            term = !(what & 1) && a_str_len(s) < before;
            break;
        }
        case 28:
            h = mt_fold_u64(h, (uint64_t)(unsigned)mt_sgn(a_str_cmp(s, &other)));
            h = mt_fold_u64(h, (uint64_t)(unsigned)mt_sgn(a_str_cmp(&other, s)));
            h = mt_fold_u64(h, (uint64_t)(unsigned)mt_sgn(a_str_cmp(s, s)));
            break;
        case 29: h = mt_fold_u64(h, (uint64_t)(unsigned)mt_sgn(a_str_cmpn(s, text, tn))); break;
        case 30: h = mt_fold_u64(h, (uint64_t)(unsigned)mt_sgn(a_str_cmps(s, text))); break;
        case 31:
            h = mt_fold_u64(h, (uint64_t)(unsigned)mt_sgn(a_str_cmp_(a_str_ptr(s), len, text, tn)));
            h = mt_fold_u64(h, (uint64_t)(unsigned)mt_sgn(a_str_cmp_(NULL, 0, text, tn)));
            if (len)
            {
                /* against a copy of its own prefix */
                a_size const k = (a_size)vf_below(r, (len < sizeof out ? len : sizeof out) + 1);
                memcpy(out, a_str_ptr(s), k);
                h = mt_fold_u64(h, (uint64_t)(unsigned)mt_sgn(a_str_cmpn(s, out, k)));
            }
            break;
        case 32:
        {
            /* count moved by the caller: down, or up into owned room that the caller then fills */
            a_size const to = (a_size)vf_below(r, a_str_mem(s) + 3);
            rc = a_str_setn(s, to);
            h = mt_fold_u64(h, (uint64_t)(unsigned)rc);
            for (a_size i = len; !rc && i < to; ++i) { *a_str_at_(s, i) = (char)('a' + i % 26); }
            break;
        }
        case 33: if (len) { a_str_setn_(s, (a_size)vf_below(r, len + 1)); } break;
        case 34: a_str_swap(s, &other); break;
        case 35:
        {
            char *const p = a_str_exit(s);
            h = mt_fold_u64(h, p ? 1 : 0);
            if (p)
            {
                h = mt_fold_bytes(h, p, len + 1);
                a_alloc(p, 0);
                h = mt_str_fold(h, s, 0);
            }
            break;
        }
        case 36:
        {
            a_size stop = 0;
            h = mt_fold_u64(h, a_utf_len(s, &stop));
            h = mt_fold_u64(h, stop);
            h = mt_fold_u64(h, a_utf_len(s, NULL));
            break;
        }
        case 37:
        {
            a_size const idx = (a_size)vf_below(r, a_str_mem(s) + 3);
            a_diff const of = (a_diff)vf_range(r, -(int64_t)a_str_mem(s) - 2, (int64_t)a_str_mem(s) + 2);
            h = mt_fold_u64(h, MT_OFF(a_str_ptr(s), a_str_at(s, idx)));
            h = mt_fold_u64(h, MT_OFF(a_str_ptr(s), a_str_of(s, of)));
            break;
        }
        case 38: a_str_dtor(s); h = mt_str_fold(h, s, 0); a_str_ctor(s); break;
        default:
            /* the other string gets fresh content */
            a_str_dtor(&other);
            rc = binary ? a_str_catn_(&other, text, tn) : a_str_cats(&other, text);
            h = mt_fold_u64(h, (uint64_t)(unsigned)rc);
            h = mt_str_fold(h, &other, !binary && !rc);
            break;
        }
        h = mt_str_fold(h, s, term);
    }
    h = mt_str_fold(h, &other, 0);
    a_str_dtor(&other);
    if (heap) { a_str_die(s); }
    else { a_str_dtor(s); h = mt_str_fold(h, s, 0); }
    MT_OOM_END(h);
    return h;
}
#endif
#if VF_MT == 6
static mt_item const ITEMS[] = {{"str-history", it_str}, {"str-history-2", it_str}, {"str-history-3", it_str}, {"str-history-4", it_str}};
#endif /* C06 */

#if VF_MT == 7
static mt_item const ITEMS[] = {{"oom-vec-1", it_vec1}, {"oom-vec-4", it_vec4}, {"oom-vec-7", it_vec7}, {"oom-vec-16", it_vec16},
                                {"oom-buf-1", it_buf1}, {"oom-buf-4", it_buf4}, {"oom-buf-7", it_buf7}, {"oom-buf-16", it_buf16},
                                {"oom-que", it_que}, {"oom-que-2", it_que}, {"oom-que-3", it_que},
                                {"oom-str", it_str}, {"oom-str-2", it_str}, {"oom-str-3", it_str}};
#endif /* C07 */

/* ============================================================================================ C08: factorizations */
#if VF_MT == 8
#include "a/linalg.h"
#define MT_NMAX 8
static uint64_t mt_fold_reals(uint64_t h, a_real const *p, size_t n)
{
    for (size_t i = 0; i < n; ++i) { h = mt_fold_real(h, p[i]); }
    return h;
}
static void mt_draw_ints(vf_rng *r, a_real *p, size_t n, int lim)
{
    for (size_t i = 0; i < n; ++i) { p[i] = (a_real)vf_range(r, -lim, lim); }
}
/* symmetric positive definite B^T B + I, or (sym) a symmetric indefinite integer matrix; `defect` plants an exact failure */
static void mt_draw_sym(vf_rng *r, unsigned n, a_real *A, int spd, int defect)
{
    a_real B[MT_NMAX * MT_NMAX];
    mt_draw_ints(r, B, (size_t)n * n, 3);
    for (unsigned i = 0; i < n; ++i)
    {
        for (unsigned j = 0; j <= i; ++j)
        {
            a_real s = 0;
            if (spd) { for (unsigned k = 0; k < n; ++k) { s += B[k * n + i] * B[k * n + j]; } s += (i == j); }
            else { s = (i == j) ? (a_real)(vf_sign(r) * (double)vf_range(r, 1, 9)) : B[i * n + j]; }
            A[i * n + j] = A[j * n + i] = s;
        }
    }
    if (defect)
    {
        /* row and column k cleared: the k-th pivot is exactly zero */
        unsigned const k = (unsigned)vf_below(r, n);
        for (unsigned i = 0; i < n; ++i) { A[i * n + k] = A[k * n + i] = 0; }
    }
}
static uint64_t it_plu(vf_rng *r)
{
    uint64_t h = 0xC08;
    for (int rep = 0; rep < 4; ++rep)
    {
        unsigned const n = 1 + (unsigned)vf_below(r, MT_NMAX);
        a_real A[MT_NMAX * MT_NMAX], M[MT_NMAX * MT_NMAX], W[MT_NMAX * MT_NMAX], b[MT_NMAX], x[MT_NMAX], t[MT_NMAX];
        a_uint p[MT_NMAX];
        int sign = 7, rc;
        mt_draw_ints(r, A, (size_t)n * n, vf_chance(r, 1, 2) ? 4 : 100);
        if (vf_chance(r, 1, 4))
        {
            /* exactly singular: a repeated row or a zero column */
            unsigned const i = (unsigned)vf_below(r, n), j = (unsigned)vf_below(r, n);
            if (i != j && vf_chance(r, 1, 2)) { memcpy(A + i * n, A + j * n, sizeof(a_real) * n); }
            else { for (unsigned k = 0; k < n; ++k) { A[k * n + j] = 0; } }
        }
        mt_draw_ints(r, b, n, 9);
        rc = a_real_plu(n, A, p, &sign);
        h = mt_fold_u64(h, ((uint64_t)n << 8) | (unsigned)rc);
        h = mt_fold_u64(h, (uint64_t)(unsigned)sign);
        h = mt_fold_reals(h, A, (size_t)n * n);
        for (unsigned i = 0; i < n; ++i) { h = mt_fold_u64(h, p[i]); }
        if (rc)
        {
            /* refused: the determinant family still reads the diagonal reached so far, with its exact zero */
            h = mt_fold_real(h, a_real_plu_det(n, A, sign));
            h = mt_fold_u64(h, (uint64_t)(unsigned)a_real_plu_sgndet(n, A, sign));
            continue;
        }
        a_real_plu_P(n, p, M); h = mt_fold_reals(h, M, (size_t)n * n);
        a_real_plu_P_(n, p, M); h = mt_fold_reals(h, M, (size_t)n * n);
        a_real_plu_L(n, A, M); h = mt_fold_reals(h, M, (size_t)n * n);
        a_real_plu_U(n, A, M); h = mt_fold_reals(h, M, (size_t)n * n);
        a_real_plu_apply(n, p, b, t); h = mt_fold_reals(h, t, n);
        a_real_plu_lower(n, A, t); h = mt_fold_reals(h, t, n);
        a_real_plu_upper(n, A, t); h = mt_fold_reals(h, t, n);
        a_real_plu_solve(n, A, p, b, x); h = mt_fold_reals(h, x, n);
        a_real_plu_inv(n, A, p, t, M); h = mt_fold_reals(h, M, (size_t)n * n); h = mt_fold_reals(h, t, n);
        a_real_plu_inv_(n, A, p, W); h = mt_fold_reals(h, W, (size_t)n * n);
        /* the strided forms on the columns of a matrix of right-hand sides */
        mt_draw_ints(r, W, (size_t)n * n, 9);
        for (unsigned c = 0; c < n; ++c) { a_real_plu_lower_(n, A, W + c); }
        h = mt_fold_reals(h, W, (size_t)n * n);
        for (unsigned c = 0; c < n; ++c) { a_real_plu_upper_(n, A, W + c); }
        h = mt_fold_reals(h, W, (size_t)n * n);
        h = mt_fold_real(h, a_real_plu_det(n, A, sign));
        h = mt_fold_real(h, a_real_plu_lndet(n, A));
        h = mt_fold_u64(h, (uint64_t)(unsigned)a_real_plu_sgndet(n, A, sign));
    }
    return h;
}
#define MT_SYM_ITEM(P, SPD, SEED, EXTRA, EXTRA0)                                                                   \
    static uint64_t it_##P(vf_rng *r)                                                                              \
    {                                                                                                              \
        uint64_t h = SEED;                                                                                         \
        for (int rep = 0; rep < 4; ++rep)                                                                          \
        {                                                                                                          \
            unsigned const n = 1 + (unsigned)vf_below(r, MT_NMAX);                                                 \
            a_real A[MT_NMAX * MT_NMAX], M[MT_NMAX * MT_NMAX], W[MT_NMAX * MT_NMAX], b[MT_NMAX], x[MT_NMAX], t[MT_NMAX]; \
            int rc;                                                                                                \
            mt_draw_sym(r, n, A, SPD || vf_chance(r, 1, 2), vf_chance(r, 1, 5));                                   \
            mt_draw_ints(r, b, n, 9);                                                                              \
            rc = a_real_##P(n, A);                                                                                 \
            h = mt_fold_u64(h, ((uint64_t)n << 8) | (unsigned)rc);                                                 \
            h = mt_fold_reals(h, A, (size_t)n * n);                                                                \
            if (rc) { h = mt_fold_real(h, a_real_##P##_det(n, A)); EXTRA0 continue; }                              \
            a_real_##P##_L(n, A, M); h = mt_fold_reals(h, M, (size_t)n * n);                                       \
            memcpy(t, b, sizeof t);                                                                                \
            a_real_##P##_lower(n, A, t); h = mt_fold_reals(h, t, n);                                               \
            a_real_##P##_upper(n, A, t); h = mt_fold_reals(h, t, n);                                               \
            memcpy(x, b, sizeof x);                                                                                \
            a_real_##P##_solve(n, A, x); h = mt_fold_reals(h, x, n);                                               \
            a_real_##P##_inv(n, A, t, M); h = mt_fold_reals(h, M, (size_t)n * n); h = mt_fold_reals(h, t, n);      \
            a_real_##P##_inv_(n, A, W); h = mt_fold_reals(h, W, (size_t)n * n);                                    \
            mt_draw_ints(r, W, (size_t)n * n, 9);                                                                  \
            for (unsigned c = 0; c < n; ++c) { a_real_##P##_lower_(n, A, W + c); }                                 \
            h = mt_fold_reals(h, W, (size_t)n * n);                                                                \
            for (unsigned c = 0; c < n; ++c) { a_real_##P##_upper_(n, A, W + c); }                                 \
            h = mt_fold_reals(h, W, (size_t)n * n);                                                                \
            h = mt_fold_real(h, a_real_##P##_det(n, A));                                                           \
            h = mt_fold_real(h, a_real_##P##_lndet(n, A));                                                         \
            EXTRA                                                                                                  \
        }                                                                                                          \
        return h;                                                                                                  \
    }
MT_SYM_ITEM(ldl, 0, 0x1C08, a_real_ldl_D(n, A, t); h = mt_fold_reals(h, t, n); h = mt_fold_u64(h, (uint64_t)(unsigned)a_real_ldl_sgndet(n, A));,
            h = mt_fold_u64(h, (uint64_t)(unsigned)a_real_ldl_sgndet(n, A));)
MT_SYM_ITEM(llt, 1, 0x2C08, , )
static mt_item const ITEMS[] = {{"plu", it_plu}, {"plu-2", it_plu}, {"ldl", it_ldl}, {"ldl-2", it_ldl}, {"llt", it_llt}, {"llt-2", it_llt}};
#endif /* C08 */

/* ============================================================================================ C09: matrix kernels */
#if VF_MT == 9
#include "a/linalg.h"
#define MT_DMAX 7
static uint64_t mt_fold_reals(uint64_t h, a_real const *p, size_t n)
{
    for (size_t i = 0; i < n; ++i) { h = mt_fold_real(h, p[i]); }
    return h;
}
static void mt_draw_ints(vf_rng *r, a_real *p, size_t n, int lim)
{
    for (size_t i = 0; i < n; ++i) { p[i] = (a_real)vf_range(r, -lim, lim); }
}
static uint64_t it_mul(vf_rng *r)
{
    uint64_t h = 0xC09;
    for (int rep = 0; rep < 6; ++rep)
    {
        unsigned const row = (unsigned)vf_below(r, MT_DMAX + 1), c_r = (unsigned)vf_below(r, MT_DMAX + 1), col = (unsigned)vf_below(r, MT_DMAX + 1);
        a_real X[MT_DMAX * MT_DMAX], Y[MT_DMAX * MT_DMAX], Z[MT_DMAX * MT_DMAX + 2];
        int const lim = vf_chance(r, 1, 2) ? 9 : 100000;
        mt_draw_ints(r, X, MT_DMAX * MT_DMAX, lim);
        mt_draw_ints(r, Y, MT_DMAX * MT_DMAX, lim);
        h = mt_fold_u64(h, (row << 16) | (c_r << 8) | col);
        /* one cell in front and one behind the result must stay what they were */
#define MT_MUL(fn, a, b, c)                                          \
    mt_draw_ints(r, Z, MT_DMAX * MT_DMAX + 2, 5);                    \
    h = mt_fold_real(h, Z[0]); h = mt_fold_real(h, Z[1 + row * col]); \
    fn(a, b, c, X, Y, Z + 1);                                        \
    h = mt_fold_reals(h, Z, (size_t)row * col + 2);
        MT_MUL(a_real_mulmm, row, c_r, col)
        MT_MUL(a_real_mulTm, c_r, row, col)
        MT_MUL(a_real_mulmT, row, col, c_r)
        MT_MUL(a_real_mulTT, row, c_r, col)
#undef MT_MUL
    }
    return h;
}
static uint64_t it_shape(vf_rng *r)
{
    uint64_t h = 0x1C09;
    for (int rep = 0; rep < 6; ++rep)
    {
        unsigned const m = (unsigned)vf_below(r, MT_DMAX + 1), n = (unsigned)vf_below(r, MT_DMAX + 1), k = m < n ? m : n;
        a_real A[MT_DMAX * MT_DMAX], T[MT_DMAX * MT_DMAX + 2], d[MT_DMAX + 2];
        mt_draw_ints(r, A, MT_DMAX * MT_DMAX, 1000);
        h = mt_fold_u64(h, (m << 8) | n);
#define MT_OUT2(call, cells)                            \
    mt_draw_ints(r, T, MT_DMAX * MT_DMAX + 2, 5);       \
    h = mt_fold_real(h, T[1 + (size_t)(cells)]);        \
    call;                                               \
    h = mt_fold_reals(h, T, (size_t)(cells) + 2);
        MT_OUT2(a_real_T2(m, n, A, T + 1), m * n)
        MT_OUT2(a_real_eye1(n, T + 1), n * n)
        MT_OUT2(a_real_eye2(m, n, T + 1), m * n)
        MT_OUT2(a_real_tri1(n, T + 1), n * n)
        MT_OUT2(a_real_tri2(m, n, T + 1), m * n)
        MT_OUT2(a_real_diag(n, A, T + 1), n * n)
        MT_OUT2(a_real_triL(n, A, T + 1), n * n)
        MT_OUT2(a_real_triL1(n, A, T + 1), n * n)
        MT_OUT2(a_real_triL2(m, n, A, T + 1), m * n)
        MT_OUT2(a_real_triU(n, A, T + 1), n * n)
        MT_OUT2(a_real_triU1(n, A, T + 1), n * n)
        MT_OUT2(a_real_triU2(m, n, A, T + 1), m * n)
#undef MT_OUT2
        mt_draw_ints(r, d, MT_DMAX + 2, 5);
        a_real_diag1(n, A, d + 1); h = mt_fold_reals(h, d, n + 2);
        mt_draw_ints(r, d, MT_DMAX + 2, 5);
        a_real_diag2(m, n, A, d + 1); h = mt_fold_reals(h, d, k + 2);
        /* in place */
        memcpy(T, A, sizeof A);
        a_real_T1(n, T); h = mt_fold_reals(h, T, MT_DMAX * MT_DMAX);
        a_real_T1(m, T); h = mt_fold_reals(h, T, MT_DMAX * MT_DMAX);
    }
    return h;
}
static mt_item const ITEMS[] = {{"products", it_mul}, {"products-2", it_mul}, {"products-3", it_mul}, {"transpose-structure", it_shape}, {"transpose-structure-2", it_shape}};
#endif /* C09 */

/* ============================================================================================ C10: complex numbers */
#if VF_MT == 10
/* The out-of-place forms (and a few in-place ones) are inline functions of the header AND exported twins compiled from the same
 * text into the library (what the language bindings link).  Both copies run here: the header is read with the inline bodies
 * renamed to mt_inl_complex_*, then the plain names are declared as the exported functions. */
#define a_complex_proj mt_inl_complex_proj
#define a_complex_inv mt_inl_complex_inv
#define a_complex_sqrt mt_inl_complex_sqrt
#define a_complex_exp mt_inl_complex_exp
#define a_complex_log mt_inl_complex_log
#define a_complex_log2 mt_inl_complex_log2
#define a_complex_log10 mt_inl_complex_log10
#define a_complex_sin mt_inl_complex_sin
#define a_complex_cos mt_inl_complex_cos
#define a_complex_tan mt_inl_complex_tan
#define a_complex_sec mt_inl_complex_sec
#define a_complex_csc mt_inl_complex_csc
#define a_complex_cot mt_inl_complex_cot
#define a_complex_asin mt_inl_complex_asin
#define a_complex_acos mt_inl_complex_acos
#define a_complex_atan mt_inl_complex_atan
#define a_complex_asec mt_inl_complex_asec
#define a_complex_acsc mt_inl_complex_acsc
#define a_complex_acot mt_inl_complex_acot
#define a_complex_sinh mt_inl_complex_sinh
#define a_complex_cosh mt_inl_complex_cosh
#define a_complex_tanh mt_inl_complex_tanh
#define a_complex_sech mt_inl_complex_sech
#define a_complex_csch mt_inl_complex_csch
#define a_complex_coth mt_inl_complex_coth
#define a_complex_asinh mt_inl_complex_asinh
#define a_complex_acosh mt_inl_complex_acosh
#define a_complex_atanh mt_inl_complex_atanh
#define a_complex_asech mt_inl_complex_asech
#define a_complex_acsch mt_inl_complex_acsch
#define a_complex_acoth mt_inl_complex_acoth
#define a_complex_conj mt_inl_complex_conj
#define a_complex_neg mt_inl_complex_neg
#define a_complex_conj_ mt_inl_complex_conj_
#define a_complex_neg_ mt_inl_complex_neg_
#define a_complex_mul mt_inl_complex_mul
#define a_complex_div mt_inl_complex_div
#define a_complex_pow mt_inl_complex_pow
#define a_complex_logb mt_inl_complex_logb
#define a_complex_add mt_inl_complex_add
#define a_complex_sub mt_inl_complex_sub
#define a_complex_add_ mt_inl_complex_add_
#define a_complex_sub_ mt_inl_complex_sub_
#define a_complex_pow_real mt_inl_complex_pow_real
#define a_complex_add_real mt_inl_complex_add_real
#define a_complex_add_imag mt_inl_complex_add_imag
#define a_complex_sub_real mt_inl_complex_sub_real
#define a_complex_sub_imag mt_inl_complex_sub_imag
#define a_complex_mul_real mt_inl_complex_mul_real
#define a_complex_mul_imag mt_inl_complex_mul_imag
#define a_complex_div_real mt_inl_complex_div_real
#define a_complex_div_imag mt_inl_complex_div_imag
#define a_complex_add_real_ mt_inl_complex_add_real_
#define a_complex_add_imag_ mt_inl_complex_add_imag_
#define a_complex_sub_real_ mt_inl_complex_sub_real_
#define a_complex_sub_imag_ mt_inl_complex_sub_imag_
#define a_complex_mul_real_ mt_inl_complex_mul_real_
#define a_complex_mul_imag_ mt_inl_complex_mul_imag_
#define a_complex_div_real_ mt_inl_complex_div_real_
#define a_complex_div_imag_ mt_inl_complex_div_imag_
#include "a/complex.h"
#undef a_complex_proj
#undef a_complex_inv
#undef a_complex_sqrt
#undef a_complex_exp
#undef a_complex_log
#undef a_complex_log2
#undef a_complex_log10
#undef a_complex_sin
#undef a_complex_cos
#undef a_complex_tan
#undef a_complex_sec
#undef a_complex_csc
#undef a_complex_cot
#undef a_complex_asin
#undef a_complex_acos
#undef a_complex_atan
#undef a_complex_asec
#undef a_complex_acsc
#undef a_complex_acot
#undef a_complex_sinh
#undef a_complex_cosh
#undef a_complex_tanh
#undef a_complex_sech
#undef a_complex_csch
#undef a_complex_coth
#undef a_complex_asinh
#undef a_complex_acosh
#undef a_complex_atanh
#undef a_complex_asech
#undef a_complex_acsch
#undef a_complex_acoth
#undef a_complex_conj
#undef a_complex_neg
#undef a_complex_conj_
#undef a_complex_neg_
#undef a_complex_mul
#undef a_complex_div
#undef a_complex_pow
#undef a_complex_logb
#undef a_complex_add
#undef a_complex_sub
#undef a_complex_add_
#undef a_complex_sub_
#undef a_complex_pow_real
#undef a_complex_add_real
#undef a_complex_add_imag
#undef a_complex_sub_real
#undef a_complex_sub_imag
#undef a_complex_mul_real
#undef a_complex_mul_imag
#undef a_complex_div_real
#undef a_complex_div_imag
#undef a_complex_add_real_
#undef a_complex_add_imag_
#undef a_complex_sub_real_
#undef a_complex_sub_imag_
#undef a_complex_mul_real_
#undef a_complex_mul_imag_
#undef a_complex_div_real_
#undef a_complex_div_imag_
/* every function of a/complex.h by signature class (U: z -> w, B: z, y -> w, S: z, real -> w, X: real -> w; the classes with a 2
 * have an inline in-place form as well) and by family */
#define MT_CX_U_ARITH(X) X(proj) X(inv) X(sqrt)
#define MT_CX_U2_ARITH(X) X(conj) X(neg)
#define MT_CX_U_EXPLOG(X) X(exp) X(log) X(log2) X(log10)
#define MT_CX_U_TRIG(X) X(sin) X(cos) X(tan)
#define MT_CX_U_RTRIG(X) X(sec) X(csc) X(cot)
#define MT_CX_U_ATRIG(X) X(asin) X(acos) X(atan)
#define MT_CX_U_ARTRIG(X) X(asec) X(acsc) X(acot)
#define MT_CX_U_HYP(X) X(sinh) X(cosh) X(tanh)
#define MT_CX_U_RHYP(X) X(sech) X(csch) X(coth)
#define MT_CX_U_AHYP(X) X(asinh) X(acosh) X(atanh)
#define MT_CX_U_ARHYP(X) X(asech) X(acsch) X(acoth)
#define MT_CX_B_ARITH(X) X(mul) X(div)
#define MT_CX_B2_ARITH(X) X(add) X(sub)
#define MT_CX_B_POW(X) X(pow) X(logb)
#define MT_CX_S2_ARITH(X) X(add_real) X(add_imag) X(sub_real) X(sub_imag) X(mul_real) X(mul_imag) X(div_real) X(div_imag)
#define MT_CX_S_POW(X) X(pow_real)
#define MT_CX_X_ARITH(X) X(sqrt_real)
#define MT_CX_X_ATRIG(X) X(asin_real) X(acos_real) X(asec_real) X(acsc_real)
#define MT_CX_X_AHYP(X) X(acosh_real) X(atanh_real)
#define MT_CX_DECL_U(F) A_EXTERN void a_complex_##F(a_complex *ctx, a_complex z);
#define MT_CX_DECL_U2(F) MT_CX_DECL_U(F) A_EXTERN void a_complex_##F##_(a_complex *ctx);
#define MT_CX_DECL_B(F) A_EXTERN void a_complex_##F(a_complex *ctx, a_complex x, a_complex y);
#define MT_CX_DECL_B2(F) MT_CX_DECL_B(F) A_EXTERN void a_complex_##F##_(a_complex *ctx, a_complex z);
#define MT_CX_DECL_S(F) A_EXTERN void a_complex_##F(a_complex *ctx, a_complex x, a_real y);
#define MT_CX_DECL_S2(F) MT_CX_DECL_S(F) A_EXTERN void a_complex_##F##_(a_complex *ctx, a_real x);
MT_CX_U_ARITH(MT_CX_DECL_U) MT_CX_U_EXPLOG(MT_CX_DECL_U) MT_CX_U_TRIG(MT_CX_DECL_U) MT_CX_U_RTRIG(MT_CX_DECL_U) MT_CX_U_ATRIG(MT_CX_DECL_U)
MT_CX_U_ARTRIG(MT_CX_DECL_U) MT_CX_U_HYP(MT_CX_DECL_U) MT_CX_U_RHYP(MT_CX_DECL_U) MT_CX_U_AHYP(MT_CX_DECL_U) MT_CX_U_ARHYP(MT_CX_DECL_U)
MT_CX_U2_ARITH(MT_CX_DECL_U2) MT_CX_B_ARITH(MT_CX_DECL_B) MT_CX_B_POW(MT_CX_DECL_B) MT_CX_B2_ARITH(MT_CX_DECL_B2)
MT_CX_S_POW(MT_CX_DECL_S) MT_CX_S2_ARITH(MT_CX_DECL_S2)

static a_real mt_draw_real(vf_rng *r)
{
    switch (vf_below(r, 10))
    {
    case 0: return (a_real)vf_range(r, -3, 3);
    case 1: return (a_real)(vf_sign(r) * (1 + vf_uniform(r, -1e-3, 1e-3)));
    case 2: return (a_real)(vf_sign(r) * vf_logu(r, -150, 150));
    case 3: return (a_real)(vf_sign(r) * vf_logu(r, -12, -3));
    case 4: return (a_real)(vf_sign(r) * vf_logu(r, 1, 3));
    default: return (a_real)(vf_sign(r) * vf_logu(r, -2, 1));
    }
}
static a_complex mt_draw_cx(vf_rng *r)
{
    a_complex z;
    a_complex_rect(&z, mt_draw_real(r), vf_chance(r, 1, 8) ? 0 : mt_draw_real(r));
    if (vf_chance(r, 1, 24)) { z.real = 0; z.imag = vf_chance(r, 1, 2) ? 0 : z.imag; }
    return z;
}
static uint64_t mt_fold_cx(uint64_t h, a_complex z) { return mt_fold_real(mt_fold_real(h, z.real), z.imag); }

/* exported twin, inline copy, in-place form (exported; for the classes with a 2 again both copies) */
#define MT_CX_U(F) a_complex_##F(&w, z); h = mt_fold_cx(h, w); mt_inl_complex_##F(&w, z); h = mt_fold_cx(h, w); w = z; a_complex_##F##_(&w); h = mt_fold_cx(h, w);
#define MT_CX_U2(F) MT_CX_U(F) w = z; mt_inl_complex_##F##_(&w); h = mt_fold_cx(h, w);
#define MT_CX_B(F) a_complex_##F(&w, z, y); h = mt_fold_cx(h, w); mt_inl_complex_##F(&w, z, y); h = mt_fold_cx(h, w); w = z; a_complex_##F##_(&w, y); h = mt_fold_cx(h, w);
#define MT_CX_B2(F) MT_CX_B(F) w = z; mt_inl_complex_##F##_(&w, y); h = mt_fold_cx(h, w);
#define MT_CX_S(F) a_complex_##F(&w, z, x); h = mt_fold_cx(h, w); mt_inl_complex_##F(&w, z, x); h = mt_fold_cx(h, w); w = z; a_complex_##F##_(&w, x); h = mt_fold_cx(h, w);
#define MT_CX_S2(F) MT_CX_S(F) w = z; mt_inl_complex_##F##_(&w, x); h = mt_fold_cx(h, w);
#define MT_CX_X(F) a_complex_##F(&w, x); h = mt_fold_cx(h, w);
#define MT_CX_ITEM(name, seed, BODY)                                  \
    static uint64_t it_cx_##name(vf_rng *r)                           \
    {                                                                 \
        uint64_t h = seed;                                            \
        for (int rep = 0; rep < 12; ++rep)                            \
        {                                                             \
            a_complex const z = mt_draw_cx(r), y = mt_draw_cx(r);     \
            a_real const x = mt_draw_real(r);                         \
            a_complex w;                                              \
            (void)y; (void)x;                                         \
            BODY                                                      \
        }                                                             \
        return h;                                                     \
    }
MT_CX_ITEM(arith, 0xC10, MT_CX_U_ARITH(MT_CX_U) MT_CX_U2_ARITH(MT_CX_U2) MT_CX_B_ARITH(MT_CX_B) MT_CX_B2_ARITH(MT_CX_B2) MT_CX_S2_ARITH(MT_CX_S2) MT_CX_X_ARITH(MT_CX_X))
MT_CX_ITEM(explogpow, 0x1C10, MT_CX_U_EXPLOG(MT_CX_U) MT_CX_B_POW(MT_CX_B) MT_CX_S_POW(MT_CX_S))
MT_CX_ITEM(trig, 0x2C10, MT_CX_U_TRIG(MT_CX_U))
MT_CX_ITEM(rtrig, 0x3C10, MT_CX_U_RTRIG(MT_CX_U))
MT_CX_ITEM(atrig, 0x4C10, MT_CX_U_ATRIG(MT_CX_U) MT_CX_X_ATRIG(MT_CX_X))
MT_CX_ITEM(artrig, 0x5C10, MT_CX_U_ARTRIG(MT_CX_U))
MT_CX_ITEM(hyp, 0x6C10, MT_CX_U_HYP(MT_CX_U))
MT_CX_ITEM(rhyp, 0x7C10, MT_CX_U_RHYP(MT_CX_U))
MT_CX_ITEM(ahyp, 0x8C10, MT_CX_U_AHYP(MT_CX_U) MT_CX_X_AHYP(MT_CX_X))
MT_CX_ITEM(arhyp, 0x9C10, MT_CX_U_ARHYP(MT_CX_U))
static uint64_t it_cx_polar(vf_rng *r)
{
    uint64_t h = 0xAC10;
    for (int rep = 0; rep < 12; ++rep)
    {
        a_complex const z = mt_draw_cx(r);
        a_complex y, w;
        char text[96];
        a_complex_polar(&w, (a_real)vf_logu(r, -3, 3), (a_real)vf_uniform(r, -10, 10)); h = mt_fold_cx(h, w);
        a_complex_polar(&w, a_complex_abs(z), a_complex_arg(z)); h = mt_fold_cx(h, w);
        a_complex_rect(&w, z.imag, z.real); h = mt_fold_cx(h, w);
        /* the one place where an infinite component is the point */
        a_complex_rect(&w, vf_chance(r, 1, 2) ? (a_real)vf_sign(r) * A_REAL_INF : z.real, vf_chance(r, 1, 2) ? (a_real)vf_sign(r) * A_REAL_INF : z.imag);
        a_complex_proj(&y, w); h = mt_fold_cx(h, y);
        mt_inl_complex_proj(&y, w); h = mt_fold_cx(h, y);
        a_complex_proj_(&w); h = mt_fold_cx(h, w);
        y = z;
        if (vf_chance(r, 1, 3)) { y.imag = mt_draw_real(r); }
        h = mt_fold_real(h, a_complex_abs(z));
        h = mt_fold_real(h, a_complex_abs2(z));
        h = mt_fold_real(h, a_complex_arg(z));
        h = mt_fold_real(h, a_complex_logabs(z));
        h = mt_fold_u64(h, (uint64_t)a_complex_eq(z, y) * 2 + (uint64_t)a_complex_ne(z, y));
        h = mt_fold_u64(h, (uint64_t)a_complex_eq(z, z) * 2 + (uint64_t)a_complex_ne(z, z));
        snprintf(text, sizeof text, vf_chance(r, 1, 2) ? "(%.17g,%.17g)" : " %.9g%+.9gi", (double)z.real, (double)z.imag);
        h = mt_fold_u64(h, a_complex_parse(&w, text)); h = mt_fold_cx(h, w);
        h = mt_fold_u64(h, a_complex_parse(&w, "no digits here")); h = mt_fold_cx(h, w);
    }
    return h;
}
static mt_item const ITEMS[] = {{"arithmetic", it_cx_arith}, {"exp-log-pow", it_cx_explogpow}, {"trig", it_cx_trig}, {"reciprocal-trig", it_cx_rtrig},
                                {"inverse-trig", it_cx_atrig}, {"inverse-reciprocal-trig", it_cx_artrig}, {"hyperbolic", it_cx_hyp},
                                {"reciprocal-hyperbolic", it_cx_rhyp}, {"inverse-hyperbolic", it_cx_ahyp}, {"inverse-reciprocal-hyperbolic", it_cx_arhyp},
                                {"polar-rect-abs-arg-eq-parse", it_cx_polar}};
#endif /* C10 */

/* ============================================================================================ C11: real helpers */
#if VF_MT == 11
#include "a/math.h"
static uint64_t mt_fold_reals(uint64_t h, a_real const *p, size_t n)
{
    for (size_t i = 0; i < n; ++i) { h = mt_fold_real(h, p[i]); }
    return h;
}
static a_real mt_draw_mag(vf_rng *r)
{
    switch (vf_below(r, 8))
    {
    case 0: return (a_real)vf_range(r, -3, 3);
    case 1: return (a_real)(vf_sign(r) * vf_logu(r, -300, 300));
    case 2: return (a_real)(vf_sign(r) * vf_logu(r, -20, -6));
    case 3: return (a_real)(vf_sign(r) * vf_logu(r, 1, 8));
    default: return (a_real)(vf_sign(r) * vf_logu(r, -3, 1));
    }
}
/* the names as the header binds them: libm where the configuration has A_HAVE_*, else the library's own bodies */
#define MT_SPECIAL_BODY(seed)                                                             \
    uint64_t h = seed;                                                                    \
    for (int rep = 0; rep < 40; ++rep)                                                    \
    {                                                                                     \
        a_real const x = mt_draw_mag(r), y = mt_draw_mag(r), ax = x < 0 ? -x : x;         \
        h = mt_fold_real(h, a_real_asinh(x));                                             \
        h = mt_fold_real(h, a_real_acosh(vf_chance(r, 1, 8) ? x : 1 + ax));               \
        h = mt_fold_real(h, a_real_atanh(vf_chance(r, 1, 8) ? x : x / (1 + ax)));         \
        h = mt_fold_real(h, a_real_expm1(ax > 700 ? x / ax * (a_real)vf_uniform(r, 0, 700) : x)); \
        h = mt_fold_real(h, a_real_log1p(vf_chance(r, 1, 8) ? x : ax - (a_real)vf_unit(r))); \
        h = mt_fold_real(h, a_real_atan2(y, x));                                          \
        h = mt_fold_real(h, a_real_atan2(x, (a_real)0));                                  \
        h = mt_fold_real(h, a_real_hypot(x, y));                                          \
    }                                                                                     \
    return h;
static uint64_t it_special_header(vf_rng *r) { MT_SPECIAL_BODY(0xC11) }
static uint64_t it_norms(vf_rng *r)
{
    uint64_t h = 0x1C11;
    for (int rep = 0; rep < 16; ++rep)
    {
        a_real v[24], o[3];
        size_t const c = 1 + (size_t)vf_below(r, 3), n = (size_t)vf_below(r, 24 / c + 1);
        int const same = vf_chance(r, 1, 2);
        a_real const scale = mt_draw_mag(r);
        for (size_t i = 0; i < 24; ++i) { v[i] = same ? scale * (a_real)vf_uniform(r, -1, 1) : mt_draw_mag(r); }
        if (vf_chance(r, 1, 6)) { for (size_t i = 0; i < 24; ++i) { v[i] = 0; } }
        h = mt_fold_real(h, a_real_norm2(v[0], v[1]));
        h = mt_fold_real(h, a_real_norm3(v[0], v[1], v[2]));
        h = mt_fold_real(h, a_real_norm(n, v));
        h = mt_fold_real(h, a_real_norm_(n, v, c));
        a_real_cart2pol(v[0], v[1], &o[0], &o[1]); h = mt_fold_reals(h, o, 2);
        a_real_pol2cart(o[0], o[1], &o[1], &o[2]); h = mt_fold_reals(h, o + 1, 2);
        a_real_pol2cart(v[2] < 0 ? -v[2] : v[2], (a_real)vf_uniform(r, -7, 7), &o[0], &o[1]); h = mt_fold_reals(h, o, 2);
        a_real_cart2sph(v[3], v[4], v[5], &o[0], &o[1], &o[2]); h = mt_fold_reals(h, o, 3);
        a_real_sph2cart(o[0], o[1], o[2], &o[0], &o[1], &o[2]); h = mt_fold_reals(h, o, 3);
        a_real_sph2cart((a_real)vf_logu(r, -3, 3), (a_real)vf_uniform(r, -7, 7), (a_real)vf_uniform(r, -4, 4), &o[0], &o[1], &o[2]); h = mt_fold_reals(h, o, 3);
        h = mt_fold_real(h, a_real_rad2deg(v[6]));
        h = mt_fold_real(h, a_real_deg2rad(v[7]));
        {
            a_f32 const f = a_f32_rsqrt((a_f32)v[8]);
            a_f64 const d = a_f64_rsqrt((a_f64)v[9]);
            h = mt_fold_bytes(h, &f, sizeof f); h = mt_fold_bytes(h, &d, sizeof d);
            h = mt_fold_real(h, (a_real)a_f32_rsqrt((a_f32)(v[10] < 0 ? -v[10] : v[10])));
            h = mt_fold_real(h, (a_real)a_f64_rsqrt((a_f64)(v[11] < 0 ? -v[11] : v[11])));
        }
    }
    return h;
}
static uint64_t it_reduce(vf_rng *r)
{
    uint64_t h = 0x2C11;
    for (int rep = 0; rep < 16; ++rep)
    {
        a_real X[36], Y[36];
        size_t const xc = 1 + (size_t)vf_below(r, 3), yc = 1 + (size_t)vf_below(r, 3), n = (size_t)vf_below(r, 13);
        int const ints = vf_chance(r, 1, 2);
        for (size_t i = 0; i < 36; ++i) { X[i] = ints ? (a_real)vf_range(r, -999, 999) : mt_draw_mag(r); Y[i] = ints ? (a_real)vf_range(r, -999, 999) : (a_real)vf_uniform(r, -2, 2); }
        h = mt_fold_u64(h, (n << 8) | (xc << 4) | yc);
        h = mt_fold_real(h, a_real_sum(n, X)); h = mt_fold_real(h, a_real_sum_(n, X, xc));
        h = mt_fold_real(h, a_real_sum1(n, X)); h = mt_fold_real(h, a_real_sum1_(n, X, xc));
        h = mt_fold_real(h, a_real_sum2(n, Y)); h = mt_fold_real(h, a_real_sum2_(n, Y, yc));
        h = mt_fold_real(h, a_real_mean(n, X)); h = mt_fold_real(h, a_real_mean_(n, X, xc));
        h = mt_fold_real(h, a_real_dot(n, X, Y)); h = mt_fold_real(h, a_real_dot_(n, X, xc, Y, yc));
    }
    return h;
}
static uint64_t it_move(vf_rng *r)
{
    uint64_t h = 0x3C11;
    for (int rep = 0; rep < 12; ++rep)
    {
        a_real A[36], B[36], S[36];
        size_t const ac = 1 + (size_t)vf_below(r, 3), bc = 1 + (size_t)vf_below(r, 3), n = (size_t)vf_below(r, 13), k = (size_t)vf_below(r, 20);
        for (size_t i = 0; i < 36; ++i) { A[i] = (a_real)vf_range(r, -99999, 99999) / 8; B[i] = (a_real)(1000 + i); S[i] = -1; }
        h = mt_fold_u64(h, (n << 16) | (k << 8) | (ac << 4) | bc);
#define MT_AB h = mt_fold_reals(h, A, 36); h = mt_fold_reals(h, B, 36);
        a_real_copy(n, B + 1, A + 2); MT_AB
        a_real_copy_(n, B, bc, A, ac); MT_AB
        a_real_swap(n, A + 3, B); MT_AB
        a_real_swap_(n, A, ac, B, bc); MT_AB
        a_real_fill(n, A + 5, (a_real)vf_range(r, -9, 9)); a_real_zero(n / 2, B + 7); MT_AB
        a_real_push_fore(A, n, (a_real)7.5); a_real_push_back(B, n, (a_real)-7.5); MT_AB
        a_real_push_fore(A + 1, n ? 1 : 0, (a_real)1.25); a_real_push_back(B + 1, n ? 1 : 0, (a_real)-1.25); MT_AB
        a_real_push_fore_(A, n, B + 20, k % 13); a_real_push_back_(B, n, A + 20, k % 13); MT_AB
        a_real_roll_fore(A, n); a_real_roll_back(B, n); MT_AB
        a_real_roll_fore_(A, n, S, k); h = mt_fold_reals(h, S, n ? k % n : 0);
        a_real_roll_back_(B, n, S, k + 1); h = mt_fold_reals(h, S, n ? (k + 1) % n : 0); MT_AB
#undef MT_AB
    }
    return h;
}
/* from here on the same names are the library's exported functions, whatever the configuration says */
#undef a_real_asinh
#undef a_real_acosh
#undef a_real_atanh
#undef a_real_expm1
#undef a_real_log1p
#undef a_real_atan2
#undef a_real_hypot
#define a_real_hypot a_real_norm2
static uint64_t it_special_exported(vf_rng *r) { MT_SPECIAL_BODY(0x4C11) }
static mt_item const ITEMS[] = {{"asinh-acosh-atanh-expm1-log1p-atan2-hypot-as-the-header-binds-them", it_special_header},
                                {"asinh-acosh-atanh-expm1-log1p-atan2-norm2-exported", it_special_exported},
                                {"norms-coordinates-rsqrt", it_norms}, {"sum-mean-dot", it_reduce}, {"sum-mean-dot-2", it_reduce},
                                {"copy-swap-fill-push-roll", it_move}, {"copy-swap-fill-push-roll-2", it_move}};
#endif /* C11 */

/* ============================================================================================ C12 C13: PID, fuzzy */
#if VF_MT == 12 || VF_MT == 13
#if VF_MT == 13
/* the inline operators of a/fuzzy.h have exported twins compiled from the same text (what the language bindings link): the header
 * is read with the inline bodies renamed to mt_inl_fuzzy_*, then the plain names are declared as the exported functions */
#define a_fuzzy_not mt_inl_fuzzy_not
#define a_fuzzy_cap mt_inl_fuzzy_cap
#define a_fuzzy_cap_algebra mt_inl_fuzzy_cap_algebra
#define a_fuzzy_cap_bounded mt_inl_fuzzy_cap_bounded
#define a_fuzzy_cup mt_inl_fuzzy_cup
#define a_fuzzy_cup_algebra mt_inl_fuzzy_cup_algebra
#define a_fuzzy_cup_bounded mt_inl_fuzzy_cup_bounded
#include "a/fuzzy.h"
#undef a_fuzzy_not
#undef a_fuzzy_cap
#undef a_fuzzy_cap_algebra
#undef a_fuzzy_cap_bounded
#undef a_fuzzy_cup
#undef a_fuzzy_cup_algebra
#undef a_fuzzy_cup_bounded
A_EXTERN a_real a_fuzzy_not(a_real x);
A_EXTERN a_real a_fuzzy_cap(a_real a, a_real b);
A_EXTERN a_real a_fuzzy_cap_algebra(a_real a, a_real b);
A_EXTERN a_real a_fuzzy_cap_bounded(a_real a, a_real b);
A_EXTERN a_real a_fuzzy_cup(a_real a, a_real b);
A_EXTERN a_real a_fuzzy_cup_algebra(a_real a, a_real b);
A_EXTERN a_real a_fuzzy_cup_bounded(a_real a, a_real b);
#endif
#include "a/pid.h"
#include "a/pid_fuzzy.h"
#include "a/pid_neuro.h"
#include "a/mf.h"
#include "a/fuzzy.h"
#define MT_NRULE 7
#define MT_MFTAB (5 * MT_NRULE + 1)
static uint64_t mt_fold_reals(uint64_t h, a_real const *p, size_t n)
{
    for (size_t i = 0; i < n; ++i) { h = mt_fold_real(h, p[i]); }
    return h;
}
/* one membership function of the given kind around centre c with spacing w: kind + its parameters, returns the cells used */
static unsigned mt_mf_entry(vf_rng *r, unsigned kind, a_real c, a_real w, a_real *t)
{
    a_real const j = w * (a_real)vf_uniform(r, -0.1, 0.1);
    t[0] = (a_real)kind;
    switch (kind)
    {
    case A_MF_GAUSS: t[1] = w / 2 + j; t[2] = c; return 3;
    case A_MF_GAUSS2: t[1] = w / 2; t[2] = c - w / 4 + j; t[3] = w / 3; t[4] = c + w / 4; return 5;
    case A_MF_GBELL: t[1] = w / 2 + j; t[2] = (a_real)vf_range(r, 1, 4); t[3] = c; return 4;
    case A_MF_SIG: t[1] = (a_real)vf_sign(r) * 4 / w; t[2] = c + j; return 3;
    case A_MF_DSIG: t[1] = 8 / w; t[2] = c - w / 2 + j; t[3] = 8 / w; t[4] = c + w / 2; return 5;
    case A_MF_PSIG: t[1] = 8 / w; t[2] = c - w / 2 + j; t[3] = -8 / w; t[4] = c + w / 2; return 5;
    case A_MF_TRAP: t[1] = c - w; t[2] = c - w / 4 + j; t[3] = c + w / 4 + j; t[4] = c + w; return 5;
    case A_MF_TRI: t[1] = c - w; t[2] = c + j; t[3] = c + w; return 4;
    case A_MF_LINS: t[1] = c - w; t[2] = c + j; return 3;
    case A_MF_LINZ: t[1] = c + j; t[2] = c + w; return 3;
    case A_MF_S: t[1] = c - w; t[2] = c + j; return 3;
    case A_MF_Z: t[1] = c + j; t[2] = c + w; return 3;
    default: t[0] = (a_real)A_MF_PI; t[1] = c - w; t[2] = c - w / 4 + j; t[3] = c + w / 4 + j; t[4] = c + w; return 5;
    }
}
/* a private parameter table of n membership functions spread over [-x, x], closed by A_MF_NUL */
static void mt_mf_table(vf_rng *r, unsigned n, a_real x, int mixed, a_real *t)
{
    a_real const w = 2 * x / (a_real)(n > 1 ? n - 1 : 1);
    for (unsigned i = 0; i < n; ++i)
    {
        t += mt_mf_entry(r, mixed ? 1 + (unsigned)vf_below(r, 13) : (unsigned)A_MF_TRI, -x + w * (a_real)i, w, t);
    }
    *t = (a_real)A_MF_NUL;
}
static uint64_t mt_fold_pid(uint64_t h, a_pid const *p)
{
    h = mt_fold_real(h, p->kp); h = mt_fold_real(h, p->ki); h = mt_fold_real(h, p->kd);
    h = mt_fold_real(h, p->summax); h = mt_fold_real(h, p->summin); h = mt_fold_real(h, p->sum);
    h = mt_fold_real(h, p->outmax); h = mt_fold_real(h, p->outmin); h = mt_fold_real(h, p->out);
    h = mt_fold_real(h, p->var); h = mt_fold_real(h, p->fdb); h = mt_fold_real(h, p->err);
    return h;
}
static void mt_draw_pid(vf_rng *r, a_pid *p)
{
    int const dyadic = vf_chance(r, 1, 2);
    p->kp = dyadic ? (a_real)vf_range(r, 0, 64) / 8 : (a_real)vf_uniform(r, 0, 20);
    p->ki = dyadic ? (a_real)vf_range(r, 0, 16) / 16 : (a_real)vf_uniform(r, 0, 1);
    p->kd = dyadic ? (a_real)vf_range(r, 0, 16) / 4 : (a_real)vf_uniform(r, 0, 2);
    p->summax = (a_real)vf_range(r, 1, 40); p->summin = -(a_real)vf_range(r, 1, 40);
    p->outmax = (a_real)vf_range(r, 1, 100); p->outmin = -(a_real)vf_range(r, 1, 100);
}
/* set point and measurement of a step: a slowly moving target, a first-order plant driven by the last output */
#define MT_PLANT_VARS a_real set = (a_real)vf_range(r, -20, 20), y = 0, u = 0
#define MT_PLANT_STEP                                                                   \
    if (vf_chance(r, 1, 10)) { set = (a_real)vf_range(r, -20, 20) / (vf_chance(r, 1, 2) ? 1 : 4); } \
    y += (u - y) / 8 + (vf_chance(r, 1, 6) ? (a_real)vf_range(r, -8, 8) / 16 : 0);
#endif
#if VF_MT == 12
static uint64_t it_pid(vf_rng *r)
{
    a_pid p;
    uint64_t h = 0xC12;
    MT_PLANT_VARS;
    mt_draw_pid(r, &p);
    a_pid_init(&p);
    h = mt_fold_pid(h, &p);
    for (int k = 0; k < 80; ++k)
    {
        unsigned const what = (unsigned)vf_below(r, 24);
        MT_PLANT_STEP
        if (what < 9) { u = a_pid_pos(&p, set, y); }
        else if (what < 18) { u = a_pid_inc(&p, set, y); }
        else if (what < 21) { u = a_pid_run(&p, set, y); }
        else if (what < 22) { a_pid_zero(&p); u = 0; }
        else { a_pid_set_kpid(&p, (a_real)vf_range(r, 0, 64) / 8, (a_real)vf_range(r, 0, 16) / 16, (a_real)vf_range(r, 0, 16) / 4); }
        h = mt_fold_real(h, u);
        h = mt_fold_pid(h, &p);
    }
    return h;
}
static uint64_t it_pid_neuro(vf_rng *r)
{
    a_pid_neuro p;
    uint64_t h = 0x1C12;
    MT_PLANT_VARS;
    mt_draw_pid(r, &p.pid);
    a_pid_neuro_set_kpid(&p, (a_real)vf_range(r, 1, 40) / 4, (a_real)vf_range(r, 0, 64) / 8, (a_real)vf_range(r, 0, 16) / 16, (a_real)vf_range(r, 0, 16) / 4);
    a_pid_neuro_set_wpid(&p, (a_real)vf_uniform(r, 0.05, 1), (a_real)vf_uniform(r, 0.05, 1), (a_real)vf_uniform(r, 0.05, 1));
    a_pid_neuro_init(&p);
    for (int k = 0; k < 80; ++k)
    {
        unsigned const what = (unsigned)vf_below(r, 24);
        MT_PLANT_STEP
        if (what < 17) { u = a_pid_neuro_inc(&p, set, y); }
        else if (what < 21) { u = a_pid_neuro_run(&p, set, y); }
        else if (what < 22) { a_pid_neuro_zero(&p); u = 0; }
        else if (what < 23) { a_pid_neuro_set_wpid(&p, (a_real)vf_uniform(r, 0.05, 1), (a_real)vf_uniform(r, 0.05, 1), (a_real)vf_uniform(r, 0.05, 1)); }
        else { a_pid_neuro_set_kpid(&p, (a_real)vf_range(r, 1, 40) / 4, (a_real)vf_range(r, 0, 64) / 8, (a_real)vf_range(r, 0, 16) / 16, (a_real)vf_range(r, 0, 16) / 4); }
        h = mt_fold_real(h, u);
        h = mt_fold_pid(h, &p.pid);
        h = mt_fold_real(h, p.k); h = mt_fold_real(h, p.wp); h = mt_fold_real(h, p.wi); h = mt_fold_real(h, p.wd); h = mt_fold_real(h, p.ec);
    }
    return h;
}
#endif
#if VF_MT == 12 || VF_MT == 13
/* a fuzzy controller whose every table and scratch block is private to the call */
static uint64_t it_pid_fuzzy(vf_rng *r)
{
    a_pid_fuzzy p;
    unsigned const n = 2 + (unsigned)vf_below(r, MT_NRULE - 1);
    a_real me[MT_MFTAB], mec[MT_MFTAB], mkp[MT_NRULE * MT_NRULE], mki[MT_NRULE * MT_NRULE], mkd[MT_NRULE * MT_NRULE];
    size_t const bytes = A_PID_FUZZY_BFUZZ(n);
    void *const block = malloc(bytes);
    uint64_t h = 0x2C12;
    MT_PLANT_VARS;
    /* now and then the table ends (A_MF_NUL) one function before the rule count */
    mt_mf_table(r, n > 2 && vf_chance(r, 1, 6) ? n - 1 : n, (a_real)vf_range(r, 4, 30), vf_chance(r, 1, 2), me);
    mt_mf_table(r, n, (a_real)vf_range(r, 2, 12), vf_chance(r, 1, 2), mec);
    for (unsigned i = 0; i < n * n; ++i)
    {
        mkp[i] = (a_real)vf_range(r, -24, 24) / 8; mki[i] = (a_real)vf_range(r, -8, 8) / 64; mkd[i] = (a_real)vf_range(r, -8, 8) / 16;
    }
    memset(block, 0, bytes);
    mt_draw_pid(r, &p.pid);
    a_pid_fuzzy_set_opr(&p, (unsigned)vf_below(r, 8));
    a_pid_fuzzy_set_rule(&p, n, me, mec, mkp, vf_chance(r, 1, 8) ? NULL : mki, vf_chance(r, 1, 8) ? NULL : mkd);
    a_pid_fuzzy_set_bfuzz(&p, block, n);
    a_pid_fuzzy_set_kpid(&p, (a_real)vf_range(r, 8, 64) / 8, (a_real)vf_range(r, 0, 16) / 16, (a_real)vf_range(r, 0, 16) / 4);
    a_pid_fuzzy_init(&p);
    h = mt_fold_u64(h, a_pid_fuzzy_bfuzz(&p) == block);
    h = mt_fold_u64(h, ((uint64_t)p.nrule << 32) | p.nfuzz);
    for (int k = 0; k < 60; ++k)
    {
        unsigned const what = (unsigned)vf_below(r, 24);
        MT_PLANT_STEP
        if (what < 9) { u = a_pid_fuzzy_pos(&p, set, y); }
        else if (what < 18) { u = a_pid_fuzzy_inc(&p, set, y); }
        else if (what < 20) { u = a_pid_fuzzy_run(&p, set, y); }
        else if (what < 21) { a_pid_fuzzy_zero(&p); u = 0; }
        else if (what < 22) { a_pid_fuzzy_set_kpid(&p, (a_real)vf_range(r, 8, 64) / 8, (a_real)vf_range(r, 0, 16) / 16, (a_real)vf_range(r, 0, 16) / 4); }
        else
        {
            unsigned const opr = (unsigned)vf_below(r, 8);
            a_pid_fuzzy_set_opr(&p, opr);
            h = mt_fold_real(h, a_pid_fuzzy_opr(opr)((a_real)vf_unit(r), (a_real)vf_unit(r)));
        }
        h = mt_fold_real(h, u);
        h = mt_fold_pid(h, &p.pid);
        h = mt_fold_real(h, p.kp); h = mt_fold_real(h, p.ki); h = mt_fold_real(h, p.kd);
        /* the scratch block (cleared before use): active sets, memberships, joint membership matrix */
        if (k % 8 == 0) { h = mt_fold_bytes(h, block, bytes); }
    }
    h = mt_fold_bytes(h, block, bytes);
    free(block);
    return h;
}
#endif
#if VF_MT == 12
static mt_item const ITEMS[] = {{"pid", it_pid}, {"pid-2", it_pid}, {"pid-neuro", it_pid_neuro}, {"pid-neuro-2", it_pid_neuro},
                                {"pid-fuzzy", it_pid_fuzzy}, {"pid-fuzzy-2", it_pid_fuzzy}, {"pid-fuzzy-3", it_pid_fuzzy}};
#endif /* C12 */
#if VF_MT == 13
static uint64_t it_mf(vf_rng *r)
{
    uint64_t h = 0xC13;
    for (int rep = 0; rep < 30; ++rep)
    {
        a_real t[6];
        a_real const c = (a_real)vf_uniform(r, -5, 5), w = (a_real)vf_logu(r, -2, 1);
        unsigned const kind = 1 + (unsigned)vf_below(r, 13);
        (void)mt_mf_entry(r, kind, c, w, t);
        for (int k = 0; k < 6; ++k)
        {
            a_real const x = vf_chance(r, 1, 4) ? t[1 + vf_below(r, 2)] : c + 3 * w * (a_real)vf_uniform(r, -1, 1);
            a_real v;
            switch (kind)
            {
            case A_MF_GAUSS: v = a_mf_gauss(x, t[1], t[2]); break;
            case A_MF_GAUSS2: v = a_mf_gauss2(x, t[1], t[2], t[3], t[4]); break;
            case A_MF_GBELL: v = a_mf_gbell(x, t[1], t[2], t[3]); break;
            case A_MF_SIG: v = a_mf_sig(x, t[1], t[2]); break;
            case A_MF_DSIG: v = a_mf_dsig(x, t[1], t[2], t[3], t[4]); break;
            case A_MF_PSIG: v = a_mf_psig(x, t[1], t[2], t[3], t[4]); break;
            case A_MF_TRAP: v = a_mf_trap(x, t[1], t[2], t[3], t[4]); break;
            case A_MF_TRI: v = a_mf_tri(x, t[1], t[2], t[3]); break;
            case A_MF_LINS: v = a_mf_lins(x, t[1], t[2]); break;
            case A_MF_LINZ: v = a_mf_linz(x, t[1], t[2]); break;
            case A_MF_S: v = a_mf_s(x, t[1], t[2]); break;
            case A_MF_Z: v = a_mf_z(x, t[1], t[2]); break;
            default: v = a_mf_pi(x, t[1], t[2], t[3], t[4]); break;
            }
            h = mt_fold_real(h, v);
            h = mt_fold_real(h, a_mf(kind, x, t + 1));
        }
        h = mt_fold_real(h, a_mf((unsigned)A_MF_NUL, c, t + 1));
        h = mt_fold_real(h, a_mf(14 + (unsigned)vf_below(r, 5), c, t + 1));
    }
    return h;
}
static uint64_t it_fuzzy_ops(vf_rng *r)
{
    uint64_t h = 0x1C13;
    for (int rep = 0; rep < 60; ++rep)
    {
        a_real const a = vf_chance(r, 1, 8) ? (a_real)vf_below(r, 2) : (a_real)vf_unit(r), b = vf_chance(r, 1, 8) ? (a_real)vf_below(r, 2) : (a_real)vf_unit(r);
        a_real const g = (a_real)vf_unit(r);
#define MT_OP1(F) h = mt_fold_real(h, a_fuzzy_##F(a)); h = mt_fold_real(h, mt_inl_fuzzy_##F(a));
#define MT_OP2(F) h = mt_fold_real(h, a_fuzzy_##F(a, b)); h = mt_fold_real(h, mt_inl_fuzzy_##F(a, b));
        MT_OP1(not) MT_OP2(cap) MT_OP2(cap_algebra) MT_OP2(cap_bounded) MT_OP2(cup) MT_OP2(cup_algebra) MT_OP2(cup_bounded)
#undef MT_OP1
#undef MT_OP2
        h = mt_fold_real(h, a_fuzzy_equ(a, b));
        h = mt_fold_real(h, a_fuzzy_equ_(g, a, b));
        for (unsigned opr = 0; opr < 8; ++opr) { h = mt_fold_real(h, a_pid_fuzzy_opr(opr)(a, b)); }
    }
    return h;
}
static mt_item const ITEMS[] = {{"membership-functions", it_mf}, {"membership-functions-2", it_mf}, {"fuzzy-operators", it_fuzzy_ops},
                                {"gain-scheduling", it_pid_fuzzy}, {"gain-scheduling-2", it_pid_fuzzy}, {"gain-scheduling-3", it_pid_fuzzy}};
#endif /* C13 */

/* ============================================================================================ C14: velocity-profile trajectories */
#if VF_MT == 14
#include "a/trajtrap.h"
#include "a/trajbell.h"
static a_real mt_draw_kin(vf_rng *r, int lim)
{
    return vf_chance(r, 1, 2) ? (a_real)vf_range(r, -lim, lim) : (a_real)vf_uniform(r, -lim, lim);
}
static uint64_t it_trap(vf_rng *r)
{
    uint64_t h = 0xC14;
    for (int rep = 0; rep < 10; ++rep)
    {
        a_trajtrap t;
        a_real const vm = (a_real)vf_logu(r, -1, 2), ac = (a_real)vf_logu(r, -1, 2), de = -(a_real)vf_logu(r, -1, 2);
        a_real const p0 = mt_draw_kin(r, 50), p1 = vf_chance(r, 1, 12) ? p0 : mt_draw_kin(r, 50);
        a_real const v0 = vf_chance(r, 1, 3) ? 0 : mt_draw_kin(r, 3), v1 = vf_chance(r, 1, 3) ? 0 : mt_draw_kin(r, 3);
        a_real T;
        memset(&t, 0, sizeof t);
        T = a_trajtrap_gen(&t, vf_chance(r, 1, 8) ? -vm : vm, vf_chance(r, 1, 8) ? -ac : ac, vf_chance(r, 1, 8) ? -de : de, p0, p1, v0, v1);
        h = mt_fold_real(h, T);
        h = mt_fold_real(h, t.t); h = mt_fold_real(h, t.p0); h = mt_fold_real(h, t.p1); h = mt_fold_real(h, t.v0); h = mt_fold_real(h, t.v1);
        h = mt_fold_real(h, t.vc); h = mt_fold_real(h, t.ta); h = mt_fold_real(h, t.td); h = mt_fold_real(h, t.pa); h = mt_fold_real(h, t.pd);
        h = mt_fold_real(h, t.ac); h = mt_fold_real(h, t.de);
        for (int k = 0; k <= 12; ++k)
        {
            /* the grid, the phase boundaries, a little outside */
            a_real const x = k == 10 ? t.ta : k == 11 ? t.td : k == 12 ? t.t * (a_real)vf_uniform(r, -0.2, 1.2) : t.t * (a_real)k / 9;
            h = mt_fold_real(h, a_trajtrap_pos(&t, x));
            h = mt_fold_real(h, a_trajtrap_vel(&t, x));
            h = mt_fold_real(h, a_trajtrap_acc(&t, x));
        }
    }
    return h;
}
static uint64_t it_bell(vf_rng *r)
{
    uint64_t h = 0x1C14;
    for (int rep = 0; rep < 10; ++rep)
    {
        a_trajbell t;
        a_real const jm = (a_real)vf_logu(r, -1, 2), am = (a_real)vf_logu(r, -1, 2), vm = (a_real)vf_logu(r, -1, 2);
        a_real const p0 = mt_draw_kin(r, 50), p1 = vf_chance(r, 1, 12) ? p0 : mt_draw_kin(r, 50);
        a_real const v0 = vf_chance(r, 1, 3) ? 0 : mt_draw_kin(r, 3), v1 = vf_chance(r, 1, 3) ? 0 : mt_draw_kin(r, 3);
        a_real T;
        memset(&t, 0, sizeof t);
        T = a_trajbell_gen(&t, vf_chance(r, 1, 8) ? -jm : jm, vf_chance(r, 1, 8) ? -am : am, vf_chance(r, 1, 8) ? -vm : vm, p0, p1, v0, v1);
        h = mt_fold_real(h, T);
        h = mt_fold_real(h, t.t); h = mt_fold_real(h, t.tv); h = mt_fold_real(h, t.ta); h = mt_fold_real(h, t.td); h = mt_fold_real(h, t.taj);
        h = mt_fold_real(h, t.tdj); h = mt_fold_real(h, t.p0); h = mt_fold_real(h, t.p1); h = mt_fold_real(h, t.v0); h = mt_fold_real(h, t.v1);
        h = mt_fold_real(h, t.vm); h = mt_fold_real(h, t.jm); h = mt_fold_real(h, t.am); h = mt_fold_real(h, t.dm);
        for (int k = 0; k <= 16; ++k)
        {
            a_real const x = k == 10 ? t.taj : k == 11 ? t.ta - t.taj : k == 12 ? t.ta : k == 13 ? t.ta + t.tv : k == 14 ? t.t - t.td + t.tdj
                           : k == 15 ? t.t - t.tdj : k == 16 ? t.t * (a_real)vf_uniform(r, -0.2, 1.2) : t.t * (a_real)k / 9;
            h = mt_fold_real(h, a_trajbell_pos(&t, x));
            h = mt_fold_real(h, a_trajbell_vel(&t, x));
            h = mt_fold_real(h, a_trajbell_acc(&t, x));
            h = mt_fold_real(h, a_trajbell_jer(&t, x));
        }
    }
    return h;
}
static mt_item const ITEMS[] = {{"trapezoid", it_trap}, {"trapezoid-2", it_trap}, {"trapezoid-3", it_trap}, {"bell", it_bell}, {"bell-2", it_bell}, {"bell-3", it_bell}};
#endif /* C14 */

/* ============================================================================================ C15: polynomial trajectories */
#if VF_MT == 15
/* a_poly_eval / a_poly_evar / a_poly_swap: inline in the header and exported twins from the same text (see C10) */
#define a_poly_eval mt_inl_poly_eval
#define a_poly_evar mt_inl_poly_evar
#define a_poly_swap mt_inl_poly_swap
#include "a/poly.h"
#undef a_poly_eval
#undef a_poly_evar
#undef a_poly_swap
A_EXTERN a_real a_poly_eval(a_real const *a, a_size n, a_real x);
A_EXTERN a_real a_poly_evar(a_real const *a, a_size n, a_real x);
A_EXTERN void a_poly_swap(a_real *a, a_size n);
#include "a/trajpoly3.h"
#include "a/trajpoly5.h"
#include "a/trajpoly7.h"
static uint64_t mt_fold_reals(uint64_t h, a_real const *p, size_t n)
{
    for (size_t i = 0; i < n; ++i) { h = mt_fold_real(h, p[i]); }
    return h;
}
static a_real mt_draw_kin(vf_rng *r, int lim)
{
    return vf_chance(r, 1, 2) ? (a_real)vf_range(r, -lim, lim) : (a_real)vf_uniform(r, -lim, lim);
}
#define MT_POLY_SAMPLES(P, JER)                                                         \
    for (int k = 0; k <= 10; ++k)                                                       \
    {                                                                                   \
        a_real const x = k == 10 ? ts * (a_real)vf_uniform(r, -0.5, 1.5) : ts * (a_real)k / 9; \
        h = mt_fold_real(h, a_##P##_pos(&t, x));                                        \
        h = mt_fold_real(h, a_##P##_vel(&t, x));                                        \
        h = mt_fold_real(h, a_##P##_acc(&t, x));                                        \
        JER                                                                             \
    }
static uint64_t it_poly3(vf_rng *r)
{
    uint64_t h = 0xC15;
    for (int rep = 0; rep < 12; ++rep)
    {
        a_trajpoly3 t;
        a_real c[4];
        a_real const ts = vf_chance(r, 1, 2) ? (a_real)vf_range(r, 1, 16) / 4 : (a_real)vf_logu(r, -2, 2);
        a_trajpoly3_gen(&t, ts, mt_draw_kin(r, 50), mt_draw_kin(r, 50), mt_draw_kin(r, 5), mt_draw_kin(r, 5));
        h = mt_fold_reals(h, t.c, 4);
        a_trajpoly3_c0(&t, c); h = mt_fold_reals(h, c, 4);
        a_trajpoly3_c1(&t, c); h = mt_fold_reals(h, c, 3);
        a_trajpoly3_c2(&t, c); h = mt_fold_reals(h, c, 2);
        MT_POLY_SAMPLES(trajpoly3, )
    }
    return h;
}
static uint64_t it_poly5(vf_rng *r)
{
    uint64_t h = 0x1C15;
    for (int rep = 0; rep < 12; ++rep)
    {
        a_trajpoly5 t;
        a_real c[6];
        a_real const ts = vf_chance(r, 1, 2) ? (a_real)vf_range(r, 1, 16) / 4 : (a_real)vf_logu(r, -2, 2);
        a_trajpoly5_gen(&t, ts, mt_draw_kin(r, 50), mt_draw_kin(r, 50), mt_draw_kin(r, 5), mt_draw_kin(r, 5), mt_draw_kin(r, 3), mt_draw_kin(r, 3));
        h = mt_fold_reals(h, t.c, 6);
        a_trajpoly5_c0(&t, c); h = mt_fold_reals(h, c, 6);
        a_trajpoly5_c1(&t, c); h = mt_fold_reals(h, c, 5);
        a_trajpoly5_c2(&t, c); h = mt_fold_reals(h, c, 4);
        MT_POLY_SAMPLES(trajpoly5, )
    }
    return h;
}
static uint64_t it_poly7(vf_rng *r)
{
    uint64_t h = 0x2C15;
    for (int rep = 0; rep < 12; ++rep)
    {
        a_trajpoly7 t;
        a_real c[8];
        a_real const ts = vf_chance(r, 1, 2) ? (a_real)vf_range(r, 1, 16) / 4 : (a_real)vf_logu(r, -2, 2);
        a_trajpoly7_gen(&t, ts, mt_draw_kin(r, 50), mt_draw_kin(r, 50), mt_draw_kin(r, 5), mt_draw_kin(r, 5), mt_draw_kin(r, 3), mt_draw_kin(r, 3),
                        mt_draw_kin(r, 2), mt_draw_kin(r, 2));
        h = mt_fold_reals(h, t.c, 8);
        a_trajpoly7_c0(&t, c); h = mt_fold_reals(h, c, 8);
        a_trajpoly7_c1(&t, c); h = mt_fold_reals(h, c, 7);
        a_trajpoly7_c2(&t, c); h = mt_fold_reals(h, c, 6);
        a_trajpoly7_c3(&t, c); h = mt_fold_reals(h, c, 5);
        MT_POLY_SAMPLES(trajpoly7, h = mt_fold_real(h, a_trajpoly7_jer(&t, x));)
    }
    return h;
}
static uint64_t it_poly(vf_rng *r)
{
    uint64_t h = 0x3C15;
    for (int rep = 0; rep < 16; ++rep)
    {
        a_real a[12], x[8], y[8], A[5 * 5], b[5];
        size_t const n = (size_t)vf_below(r, 11);
        a_uint const m = (a_uint)vf_below(r, 9), deg = (a_uint)vf_below(r, 6);
        int const ints = vf_chance(r, 1, 2);
        for (size_t i = 0; i < 12; ++i) { a[i] = ints ? (a_real)vf_range(r, -9, 9) : (a_real)vf_uniform(r, -3, 3); }
        for (size_t i = 0; i < 8; ++i) { x[i] = ints ? (a_real)vf_range(r, -4, 4) : (a_real)vf_uniform(r, -2, 2); y[i] = (a_real)vf_range(r, -20, 20); }
        h = mt_fold_u64(h, (n << 16) | (m << 8) | deg);
        for (int k = 0; k < 3; ++k)
        {
            a_real const at = k ? (a_real)vf_uniform(r, -2, 2) : (a_real)vf_range(r, -3, 3);
            h = mt_fold_real(h, a_poly_eval(a, n, at)); h = mt_fold_real(h, mt_inl_poly_eval(a, n, at));
            h = mt_fold_real(h, a_poly_evar(a, n, at)); h = mt_fold_real(h, mt_inl_poly_evar(a, n, at));
            if (n) { h = mt_fold_real(h, a_poly_eval_(a + 1, a + 1 + n, at)); h = mt_fold_real(h, a_poly_evar_(a + 1, a + 1 + n, at)); }
        }
        a_poly_swap(a, n); h = mt_fold_reals(h, a, 12);
        mt_inl_poly_swap(a + 1, n); h = mt_fold_reals(h, a, 12);
        if (n) { a_poly_swap_(a, a + n); h = mt_fold_reals(h, a, 12); }
        /* normal equations of a least-squares fit */
        for (size_t i = 0; i < 25; ++i) { A[i] = -1; }
        for (size_t i = 0; i < 5; ++i) { b[i] = -1; }
        a_poly_xTx(m, x, deg, A); h = mt_fold_reals(h, A, 25);
        a_poly_xTy(m, x, y, deg, b); h = mt_fold_reals(h, b, 5);
    }
    return h;
}
static mt_item const ITEMS[] = {{"cubic", it_poly3}, {"cubic-2", it_poly3}, {"quintic", it_poly5}, {"quintic-2", it_poly5}, {"septic", it_poly7}, {"septic-2", it_poly7},
                                {"poly-eval-evar-swap-xTx-xTy", it_poly}, {"poly-eval-evar-swap-xTx-xTy-2", it_poly}};
#endif /* C15 */

/* ============================================================================================ C16: transfer function, RC filters */
#if VF_MT == 16
#include "a/tf.h"
#include "a/lpf.h"
#include "a/hpf.h"
#define MT_TFN 8
static uint64_t mt_fold_reals(uint64_t h, a_real const *p, size_t n)
{
    for (size_t i = 0; i < n; ++i) { h = mt_fold_real(h, p[i]); }
    return h;
}
static uint64_t it_tf(vf_rng *r)
{
    a_tf tf;
    a_real num[MT_TFN], den[MT_TFN], num2[MT_TFN], den2[MT_TFN], in[MT_TFN], out[MT_TFN], in2[MT_TFN], out2[MT_TFN];
    unsigned nn = 1 + (unsigned)vf_below(r, MT_TFN), nd = (unsigned)vf_below(r, MT_TFN + 1);
    int const ints = vf_chance(r, 1, 2);
    uint64_t h = 0xC16;
    for (unsigned i = 0; i < MT_TFN; ++i)
    {
        /* dyadic, contracting denominators: exact arithmetic for integer inputs */
        num[i] = ints ? (a_real)vf_range(r, -8, 8) / 4 : (a_real)vf_uniform(r, -2, 2);
        den[i] = ints ? (a_real)vf_range(r, -4, 4) / 64 : (a_real)vf_uniform(r, -0.1, 0.1);
        num2[i] = (a_real)vf_range(r, -8, 8) / 4; den2[i] = (a_real)vf_range(r, -4, 4) / 64;
        in[i] = out[i] = in2[i] = out2[i] = (a_real)(100 + i);
    }
    a_tf_init(&tf, nn, num, in, nd, den, out);
    h = mt_fold_u64(h, ((uint64_t)tf.num_n << 32) | tf.den_n);
    h = mt_fold_reals(h, in, MT_TFN); h = mt_fold_reals(h, out, MT_TFN);
    for (int k = 0; k < 80; ++k)
    {
        unsigned const what = (unsigned)vf_below(r, 40);
        if (what < 36) { h = mt_fold_real(h, a_tf_iter(&tf, ints ? (a_real)vf_range(r, -50, 50) : (a_real)vf_uniform(r, -50, 50))); }
        else if (what < 37) { a_tf_zero(&tf); }
        else if (what < 38) { nn = 1 + (unsigned)vf_below(r, MT_TFN); a_tf_set_num(&tf, nn, vf_chance(r, 1, 2) ? num2 : num, vf_chance(r, 1, 2) ? in2 : in); }
        else if (what < 39) { nd = (unsigned)vf_below(r, MT_TFN + 1); a_tf_set_den(&tf, nd, vf_chance(r, 1, 2) ? den2 : den, vf_chance(r, 1, 2) ? out2 : out); }
        else { a_tf_init(&tf, nn, num, in, nd, den, out); }
        h = mt_fold_u64(h, ((uint64_t)tf.num_n << 32) | tf.den_n);
        h = mt_fold_reals(h, tf.input, tf.num_n); h = mt_fold_reals(h, tf.output, tf.den_n);
        if (what >= 36) { h = mt_fold_reals(h, in, MT_TFN); h = mt_fold_reals(h, out, MT_TFN); h = mt_fold_reals(h, in2, MT_TFN); h = mt_fold_reals(h, out2, MT_TFN); }
    }
    return h;
}
static uint64_t it_rc(vf_rng *r)
{
    uint64_t h = 0x1C16;
    for (int rep = 0; rep < 4; ++rep)
    {
        a_lpf lo = A_LPF_1(0.25);
        a_hpf hi = A_HPF_1(0.75);
        a_lpf lo2 = A_LPF_2(10, 0.01);
        a_hpf hi2 = A_HPF_2(10, 0.01);
        a_real const fc = (a_real)vf_logu(r, -1, 3), ts = (a_real)vf_logu(r, -4, -1);
        int const ints = vf_chance(r, 1, 2);
        h = mt_fold_real(h, lo.alpha); h = mt_fold_real(h, lo2.alpha); h = mt_fold_real(h, hi.alpha); h = mt_fold_real(h, hi2.alpha);
        h = mt_fold_real(h, a_lpf_gen(fc, ts)); h = mt_fold_real(h, a_hpf_gen(fc, ts));
        h = mt_fold_real(h, (a_real)A_LPF_GEN(10, 0.01)); h = mt_fold_real(h, (a_real)A_HPF_GEN(10, 0.01));
        if (vf_chance(r, 1, 2)) { a_lpf_init(&lo, ints ? (a_real)vf_range(r, 0, 16) / 16 : a_lpf_gen(fc, ts)); a_hpf_init(&hi, ints ? (a_real)vf_range(r, 0, 16) / 16 : a_hpf_gen(fc, ts)); }
        for (int k = 0; k < 40; ++k)
        {
            a_real const x = ints ? (a_real)vf_range(r, -64, 64) : (a_real)vf_uniform(r, -64, 64);
            if (vf_chance(r, 1, 20)) { a_lpf_zero(&lo); a_hpf_zero(&hi); }
            h = mt_fold_real(h, a_lpf_iter(&lo, x)); h = mt_fold_real(h, a_hpf_iter(&hi, x));
            h = mt_fold_real(h, a_lpf_iter(&lo2, x)); h = mt_fold_real(h, a_hpf_iter(&hi2, x));
            h = mt_fold_real(h, lo.alpha); h = mt_fold_real(h, lo.output);
            h = mt_fold_real(h, hi.alpha); h = mt_fold_real(h, hi.output); h = mt_fold_real(h, hi.input);
        }
    }
    return h;
}
static mt_item const ITEMS[] = {{"transfer-function", it_tf}, {"transfer-function-2", it_tf}, {"transfer-function-3", it_tf}, {"low-pass-high-pass", it_rc}, {"low-pass-high-pass-2", it_rc}};
#endif /* C16 */

static uint64_t vf_ncases(int tier) { return tier ? 24 : 3; }
static void vf_case(uint64_t c, vf_rng *r)
{
    (void)r;
    mt_watchdog_tick();
    mt_setup();
    mt_run_case(c, ITEMS, (unsigned)(sizeof ITEMS / sizeof ITEMS[0]));
}
