/* C09 - matrix product, transpose and structure kernels match their definitions.
 *
 * Contract taken from include/a/linalg.h (row-major storage everywhere):
 *   a_real_mulmm(row,c_r,col,X,Y,Z)  X row x c_r, Y c_r x col   Z[i][j] = sum_k X[i][k] Y[k][j]
 *   a_real_mulTm(c_r,row,col,X,Y,Z)  X c_r x row, Y c_r x col   Z[i][j] = sum_k X[k][i] Y[k][j]
 *   a_real_mulmT(row,col,c_r,X,Y,Z)  X row x c_r, Y col x c_r   Z[i][j] = sum_k X[i][k] Y[j][k]
 *   a_real_mulTT(row,c_r,col,X,Y,Z)  X c_r x row, Y col x c_r   Z[i][j] = sum_k X[k][i] Y[j][k]
 *   a_real_T1(n,A) in place; a_real_T2(m,n,A,T): T (n x m), T[c][r] = A[r][c]
 *   eye1/eye2: E[r][c] = (r == c); tri1/tri2: L[r][c] = (c <= r)            ("ones in the lower triangular part")
 *   diag(n,a,A): A[r][c] = r == c ? a[r] : 0; diag1/diag2: a[i] = A[i][i], i < min(m,n)
 *   triL/triL2: c <= r ? A[r][c] : 0; triL1: c < r ? A[r][c] : c == r ? 1 : 0
 *   triU/triU2: c >= r ? A[r][c] : 0; triU1: c > r ? A[r][c] : c == r ? 1 : 0
 * The header is silent about what "lower/upper triangular part" and "diagonal" mean for an m x n matrix with m != n;
 * the property's definition is used (the pattern by index, entry (r,c) belongs to the lower part iff c <= r, to the upper
 * part iff c >= r, to the diagonal iff r == c; the diagonal vector has min(m,n) entries).
 *
 * Oracle: products on integer contents (|entry| <= 2^20, inner dimension <= 40: every product < 2^40 and every partial
 * sum < 2^46, exact in double in any summation order) against an int64 index-by-definition reference, compared BITWISE.
 * Data-movement kernels (T1, T2, diag*, triL*, triU*) additionally on arbitrary finite doubles (-0.0, subnormals,
 * DBL_MAX): "exact" means the bit pattern moves.  No tolerance anywhere.
 * Memory: every result array sits between GUARD canary cells inside ONE allocation (prefilled with a poison pattern so
 * an unwritten cell shows), every input is an exact-size malloc block (ASan red zone starts at the first byte past it)
 * and is compared with a snapshot after the call (a write to an input is a write outside the result array).
 */
#define VF_PROP "C09"
#define VF_HAVE_INIT
#include "vf_common.h"
#include <math.h>
#include "a/a.h"
#include "a/linalg.h"
#include <float.h>
#include <sys/mman.h>

_Static_assert(sizeof(a_real) == sizeof(double) && sizeof(double) == 8, "C09 harness assumes a_real == double");

/* ------------------------------------------------------------------ kernels */
enum
{
    KN_MULMM, KN_MULTM, KN_MULMT, KN_MULTT,
    KN_T1, KN_T2,
    KN_EYE1, KN_EYE2, KN_TRI1, KN_TRI2,
    KN_DIAG, KN_DIAG1, KN_DIAG2,
    KN_TRIL, KN_TRIL1, KN_TRIL2,
    KN_TRIU, KN_TRIU1, KN_TRIU2,
    KN_COUNT
};
static char const *const kn_name[KN_COUNT] = {
    "mulmm", "mulTm", "mulmT", "mulTT", "T1", "T2", "eye1", "eye2", "tri1", "tri2",
    "diag", "diag1", "diag2", "triL", "triL1", "triL2", "triU", "triU1", "triU2"};
/* per-case tallies, flushed into the named counters at the end of the case */
static uint64_t n_calls[KN_COUNT];
static uint64_t n_guard, n_input, n_cells;
static uint64_t n_t1t1, n_t1t2, n_t2t2;
/* at most one written-out sample of each kind per worker, so that the 8 slots show different kernels */
enum { SM_MULTT, SM_MULTM, SM_T2, SM_T1, SM_EYE2, SM_TRI2, SM_DIAG2, SM_TRIL2, SM_COUNT };
static int sampled[SM_COUNT];
static int want_sample(int kind) { return !sampled[kind] && vf_want_sample() && !vf.case_viol; }

/* ------------------------------------------------------------------ plan */
enum
{
    K_PROD_SHAPE,  /* arg = row | inner<<8 | col<<16 | block<<24 : the four products, REP_BLOCK contents per case */
    K_RECT_SHAPE,  /* arg = m | n<<8 | block<<24 : the rectangular kernels (and the square ones when m == n) */
    K_PROD_RANDOM, /* PROD_RANDOM_SHAPES random shapes up to DIM_MAX, one content each */
    K_RECT_RANDOM, /* RECT_RANDOM_SHAPES random (m,n) up to DIM_MAX plus one random square */
};
enum { DIM_MAX = 40, PROD_RANDOM_SHAPES = 16, RECT_RANDOM_SHAPES = 12 };
enum { REP_BLOCK = 10 }; /* contents per case (keeps the op log of one case inside the 64 KiB journal) */
typedef struct { int kind; uint32_t arg; } plan_t;
static plan_t *plan;
static uint64_t nplan;
static unsigned prod_reps, rect_reps;
static void plan_add(int kind, uint32_t arg)
{
    static uint64_t cap;
    if (nplan == cap)
    {
        cap = cap ? cap * 2 : 4096;
        plan = (plan_t *)realloc(plan, cap * sizeof(*plan));
        if (!plan) { fprintf(stderr, "C09: out of memory\n"); exit(2); }
    }
    plan[nplan].kind = kind;
    plan[nplan].arg = arg;
    ++nplan;
}
static void vf_init(void)
{
    unsigned const ps = vf.tier ? 12 : 7;  /* product shapes: all (row,inner,col) in [1,ps]^3 */
    unsigned const rs = vf.tier ? 14 : 9;  /* rectangular shapes: all (m,n) in [1,rs]^2 */
    unsigned const nprand = vf.tier ? 90000 : 4000;
    unsigned const nrrand = vf.tier ? 45000 : 2000;
    unsigned a, b, c;
    prod_reps = vf.tier ? 50 : 6;
    rect_reps = vf.tier ? 50 : 8;
    unsigned const pblk = (prod_reps + REP_BLOCK - 1) / REP_BLOCK, rblk = (rect_reps + REP_BLOCK - 1) / REP_BLOCK;
    /* interleave the two exhaustive sets and the random cases so that every worker (case_no mod W) and the
       --spread coverage re-run see every kind */
    unsigned ip = 0, ir = 0, jp = 0, jr = 0;
    unsigned const np = ps * ps * ps * pblk, nr = rs * rs * rblk;
    uint64_t const total = (uint64_t)np + nr + nprand + nrrand;
    for (uint64_t t = 0; t < total; ++t)
    {
        /* proportional interleaving (Bresenham-like): emit the kind that is furthest behind its share */
        double fp = ip < np ? (double)(ip + 1) / np : 2, fr = ir < nr ? (double)(ir + 1) / nr : 2;
        double gp = jp < nprand ? (double)(jp + 1) / nprand : 2, gr = jr < nrrand ? (double)(jr + 1) / nrrand : 2;
        if (fp <= fr && fp <= gp && fp <= gr)
        {
            unsigned const sh = ip / pblk;
            a = sh / (ps * ps); b = sh / ps % ps; c = sh % ps;
            plan_add(K_PROD_SHAPE, (a + 1) | (b + 1) << 8 | (c + 1) << 16 | (ip % pblk) << 24);
            ++ip;
        }
        else if (fr <= gp && fr <= gr)
        {
            unsigned const sh = ir / rblk;
            a = sh / rs; b = sh % rs;
            plan_add(K_RECT_SHAPE, (a + 1) | (b + 1) << 8 | (ir % rblk) << 24);
            ++ir;
        }
        else if (gp <= gr) { plan_add(K_PROD_RANDOM, jp++); }
        else { plan_add(K_RECT_RANDOM, jr++); }
    }
}
static uint64_t vf_ncases(int tier) { (void)tier; return nplan; }

/* ------------------------------------------------------------------ buffers */
enum { GUARD = 8 };
static inline uint64_t bits(double x) { uint64_t u; memcpy(&u, &x, 8); return u; }
static inline double frombits(uint64_t u) { double x; memcpy(&x, &u, 8); return x; }
/* finite, non-integer canaries: `cell += integer`, `cell = anything the kernels produce` both change them
   (a quiet NaN canary would survive `+=`) */
static inline double canary_lo(unsigned i) { return 1234.53125 + 7.0 * i; }
static inline double canary_hi(unsigned i) { return -4321.28125 - 11.0 * i; }
#define POISON_BITS 0xC1D2C3D4A5B6C7D8ULL /* finite, about -1.3e9 with a fraction: never a legitimate entry */

typedef struct
{
    double *blk; /* GUARD canaries | n result cells | GUARD canaries : one allocation */
    double *p;
    size_t n;
} outbuf;
static outbuf out_new(size_t n)
{
    outbuf o;
    o.n = n;
    o.blk = (double *)malloc((n + 2 * GUARD) * sizeof(double));
    if (!o.blk) { fprintf(stderr, "C09: out of memory\n"); exit(2); }
    o.p = o.blk + GUARD;
    for (unsigned i = 0; i < GUARD; ++i)
    {
        o.blk[i] = canary_lo(i);
        o.p[n + i] = canary_hi(i);
    }
    for (size_t i = 0; i < n; ++i) { o.p[i] = frombits(POISON_BITS); }
    return o;
}
static void out_free(outbuf *o) { free(o->blk); o->blk = o->p = NULL; }

/* exact-size input block */
static double *in_new(size_t n)
{
    double *p = (double *)malloc(n * sizeof(double));
    if (!p) { fprintf(stderr, "C09: out of memory\n"); exit(2); }
    return p;
}
static double *in_dup(double const *src, size_t n)
{
    double *p = in_new(n);
    memcpy(p, src, n * sizeof(double));
    return p;
}

/* ------------------------------------------------------------------ contents */
enum { CT_SMALL, CT_WIDE, CT_CODED, CT_BITS, CT_COUNT };
static char const *const ct_name[CT_COUNT] = {"int[-9,9]", "int[-2^20,2^20]", "index-coded", "finite-bit-patterns"};
/* integer contents; `salt` separates the two operands of the index-coded class */
static void fill_int(vf_rng *r, int ct, int64_t *v, size_t n, int salt)
{
    for (size_t i = 0; i < n; ++i)
    {
        switch (ct)
        {
        case CT_SMALL: v[i] = vf_range(r, -9, 9); break;
        case CT_WIDE: v[i] = vf_range(r, -(1 << 20), 1 << 20); break;
        default: v[i] = (salt ? -(int64_t)(3001 + 2 * i) : (int64_t)(1 + i)); break; /* every entry distinct, none zero */
        }
    }
}
static void fill_real(vf_rng *r, int ct, double *v, size_t n)
{
    if (ct != CT_BITS)
    {
        for (size_t i = 0; i < n; ++i)
        {
            switch (ct)
            {
            case CT_SMALL: v[i] = (double)vf_range(r, -9, 9); break;
            case CT_WIDE: v[i] = (double)vf_range(r, -(1 << 20), 1 << 20); break;
            default: v[i] = (double)(1 + i); break;
            }
        }
        return;
    }
    for (size_t i = 0; i < n; ++i)
    {
        uint64_t u = vf_u64(r);
        switch (vf_below(r, 12))
        {
        case 0: u = 0x8000000000000000ULL; break;          /* -0.0 */
        case 1: u = (u & 0x800FFFFFFFFFFFFFULL) | 1; break; /* subnormal */
        case 2: u = bits(DBL_MAX) | (u & 0x8000000000000000ULL); break;
        case 3: u = bits(1.0) | (u & 0x8000000000000000ULL); break;
        case 4: u = 0; break; /* +0.0: with case 0, cells that COMPARE equal and differ in their bits (seeded change C09-N: a swap skipped when the mirrored cells compare equal) */
        default:
            if (((u >> 52) & 0x7FF) == 0x7FF) { u &= ~(1ULL << 62); } /* keep it finite */
            break;
        }
        v[i] = frombits(u);
    }
}

/* ------------------------------------------------------------------ judging */
static char const *shape_class2(unsigned m, unsigned n) { return m == n ? "square" : m > n ? "tall" : "wide"; }
static char const *shape_class3(unsigned row, unsigned inner, unsigned col)
{
    if (inner == 1) { return "inner1"; }
    return (row == inner && inner == col) ? "square" : "rect";
}
static void cell_distinct(int kn, unsigned a, unsigned b, unsigned c)
{
    vf_distinct(vf_hash64(vf_hash64(vf_hash64(vf_hash64(0xC09, (uint64_t)kn), a), b), c));
}
/* matrix -> short text for messages and samples */
static char *fmt_mat(char *buf, size_t cap, double const *v, unsigned rows, unsigned cols)
{
    size_t k = 0;
    buf[0] = 0;
    if ((size_t)rows * cols > 36)
    {
        snprintf(buf, cap, "(%ux%u, not shown)", rows, cols);
        return buf;
    }
    for (unsigned r = 0; r < rows && k + 32 < cap; ++r)
    {
        k += (size_t)snprintf(buf + k, cap - k, r ? ";" : "[");
        for (unsigned c = 0; c < cols && k + 32 < cap; ++c)
        {
            k += (size_t)snprintf(buf + k, cap - k, c ? " %.17g" : "%.17g", v[(size_t)r * cols + c]);
        }
    }
    if (k + 2 < cap) { buf[k++] = ']'; buf[k] = 0; }
    return buf;
}

/* compare the result area with the reference (bitwise) and check both guard bands.
   rows x cols is the logical shape of the result (cols = n for a vector); `call` describes the call. */
static int judge(int kn, char const *cls, outbuf const *o, double const *ref, unsigned rows, unsigned cols, char const *call,
                 char const *what)
{
    char key[96];
    int ok = 1;
    size_t bad = 0, first = 0, unwritten = 0;
    ++vf.evals;
    ++n_calls[kn];
    n_cells += o->n;
    for (size_t i = 0; i < o->n; ++i)
    {
        if (bits(o->p[i]) != bits(ref[i]))
        {
            if (!bad) { first = i; }
            ++bad;
            if (bits(o->p[i]) == POISON_BITS) { ++unwritten; }
        }
    }
    if (bad)
    {
        int const nw = bits(o->p[first]) == POISON_BITS;
        ok = 0;
        snprintf(key, sizeof(key), "%s/%s/%s", kn_name[kn], nw ? "result-cell-not-written" : what, cls);
        vf_viol(key, "%s: result[%zu][%zu] = %.17g (0x%016" PRIx64 ")%s, definition gives %.17g (0x%016" PRIx64
                     "); %zu of %zu cells differ (%zu never written)",
                call, cols ? first / cols : 0, cols ? first % cols : 0, o->p[first], bits(o->p[first]), nw ? " = poison, never written" : "",
                ref[first], bits(ref[first]), bad, o->n, unwritten);
    }
    ++n_guard;
    for (unsigned i = 0; i < GUARD; ++i)
    {
        if (bits(o->blk[i]) != bits(canary_lo(i)))
        {
            ok = 0;
            snprintf(key, sizeof(key), "%s/wrote-before-result-array/%s", kn_name[kn], cls);
            vf_viol(key, "%s: guard cell %d (relative to result[0]) changed from %.17g to %.17g", call, (int)i - GUARD, canary_lo(i), o->blk[i]);
            break;
        }
    }
    for (unsigned i = 0; i < GUARD; ++i)
    {
        if (bits(o->p[o->n + i]) != bits(canary_hi(i)))
        {
            ok = 0;
            snprintf(key, sizeof(key), "%s/wrote-past-result-array/%s", kn_name[kn], cls);
            vf_viol(key, "%s: guard cell at result end + %u (result has %zu cells = %ux%u) changed from %.17g to %.17g", call, i, o->n, rows,
                    cols, canary_hi(i), o->p[o->n + i]);
            break;
        }
    }
    return ok;
}
/* an input (const operand in its exact-size block) must be unchanged */
static void judge_input(int kn, char const *cls, char const *operand, double const *now, double const *snap, size_t n, char const *call)
{
    ++n_input;
    if (memcmp(now, snap, n * sizeof(double)) != 0)
    {
        char key[96];
        size_t i = 0;
        while (bits(now[i]) == bits(snap[i])) { ++i; }
        snprintf(key, sizeof(key), "%s/input-modified/%s", kn_name[kn], cls);
        vf_viol(key, "%s: input %s[%zu] changed from %.17g to %.17g", call, operand, i, snap[i], now[i]);
    }
}

/* ------------------------------------------------------------------ products */
static void run_product(int kn, unsigned row, unsigned inner, unsigned col, int ct, vf_rng *r)
{
    int const tx = (kn == KN_MULTM || kn == KN_MULTT), ty = (kn == KN_MULMT || kn == KN_MULTT);
    /* stored shapes */
    unsigned const xr = tx ? inner : row, xc = tx ? row : inner;
    unsigned const yr = ty ? col : inner, yc = ty ? inner : col;
    size_t const nx = (size_t)row * inner, ny = (size_t)inner * col, nz = (size_t)row * col;
    int64_t *xi = (int64_t *)malloc(nx * sizeof(int64_t)), *yi = (int64_t *)malloc(ny * sizeof(int64_t));
    double *X = in_new(nx), *Y = in_new(ny), *Xs, *Ys, *ref = (double *)malloc(nz * sizeof(double));
    outbuf Z = out_new(nz);
    char call[160];
    char const *cls = shape_class3(row, inner, col);
    if (!xi || !yi || !ref) { fprintf(stderr, "C09: out of memory\n"); exit(2); }
    fill_int(r, ct, xi, nx, 0);
    fill_int(r, ct, yi, ny, 1);
    for (size_t i = 0; i < nx; ++i) { X[i] = (double)xi[i]; }
    for (size_t i = 0; i < ny; ++i) { Y[i] = (double)yi[i]; }
    Xs = in_dup(X, nx);
    Ys = in_dup(Y, ny);
    /* reference by definition, int64 */
    for (unsigned i = 0; i < row; ++i)
    {
        for (unsigned j = 0; j < col; ++j)
        {
            int64_t s = 0;
            for (unsigned k = 0; k < inner; ++k)
            {
                int64_t const a = tx ? xi[(size_t)k * row + i] : xi[(size_t)i * inner + k];
                int64_t const b = ty ? yi[(size_t)j * inner + k] : yi[(size_t)k * col + j];
                s += a * b;
            }
            ref[(size_t)i * col + j] = (double)s; /* |s| < 2^46: exact */
        }
    }
    switch (kn)
    {
    case KN_MULMM: snprintf(call, sizeof(call), "a_real_mulmm(row=%u,c_r=%u,col=%u) X %ux%u Y %ux%u %s", row, inner, col, xr, xc, yr, yc, ct_name[ct]); break;
    case KN_MULTM: snprintf(call, sizeof(call), "a_real_mulTm(c_r=%u,row=%u,col=%u) X %ux%u Y %ux%u %s", inner, row, col, xr, xc, yr, yc, ct_name[ct]); break;
    case KN_MULMT: snprintf(call, sizeof(call), "a_real_mulmT(row=%u,col=%u,c_r=%u) X %ux%u Y %ux%u %s", row, col, inner, xr, xc, yr, yc, ct_name[ct]); break;
    default: snprintf(call, sizeof(call), "a_real_mulTT(row=%u,c_r=%u,col=%u) X %ux%u Y %ux%u %s", row, inner, col, xr, xc, yr, yc, ct_name[ct]); break;
    }
    if (nx + ny <= 24)
    {
        char bx[400], by[400];
        vf_log("%s X=%s Y=%s", call, fmt_mat(bx, sizeof(bx), X, xr, xc), fmt_mat(by, sizeof(by), Y, yr, yc));
    }
    else { vf_log("%s X[0]=%.17g Y[0]=%.17g", call, X[0], Y[0]); }
    {
        /* one call in four: both const operands in storage that cannot be written while the routine runs (see vf_common.h, read-only operands) */
        int const ro = vf_ro_pick(4);
        double const *Xc = ro ? (double const *)vf_ro_dup(X, nx * sizeof(double)) : X, *Yc = ro ? (double const *)vf_ro_dup(Y, ny * sizeof(double)) : Y;
        if (ro) { VF_COUNT("const-operands-in-read-only-storage"); vf_log("(both operands in PROT_READ mappings)"); }
        switch (kn)
        {
        case KN_MULMM: a_real_mulmm(row, inner, col, Xc, Yc, Z.p); break;
        case KN_MULTM: a_real_mulTm(inner, row, col, Xc, Yc, Z.p); break;
        case KN_MULMT: a_real_mulmT(row, col, inner, Xc, Yc, Z.p); break;
        default: a_real_mulTT(row, inner, col, Xc, Yc, Z.p); break;
        }
        if (ro) { vf_ro_free((void *)(uintptr_t)Xc, nx * sizeof(double)); vf_ro_free((void *)(uintptr_t)Yc, ny * sizeof(double)); }
    }
    judge(kn, cls, &Z, ref, row, col, call, "entry-ne-exact-product");
    judge_input(kn, cls, "X", X, Xs, nx, call);
    judge_input(kn, cls, "Y", Y, Ys, ny, call);
    cell_distinct(kn, row, inner, col);
    if ((kn == KN_MULTT || kn == KN_MULTM) && nx + ny <= 12 && nz >= 4 && row != col && inner > 1 && ct == CT_SMALL &&
        want_sample(kn == KN_MULTT ? SM_MULTT : SM_MULTM))
    {
        char bx[300], by[300], bz[300];
        sampled[kn == KN_MULTT ? SM_MULTT : SM_MULTM] = 1;
        vf_sample("%s: X=%s Y=%s -> Z=%s bitwise equal to the int64 product of the transposed operands; 2x%d guard cells intact, X and Y unchanged",
                  call, fmt_mat(bx, sizeof(bx), X, xr, xc), fmt_mat(by, sizeof(by), Y, yr, yc), fmt_mat(bz, sizeof(bz), Z.p, row, col), GUARD);
    }
    out_free(&Z);
    free(X); free(Y); free(Xs); free(Ys); free(xi); free(yi); free(ref);
}

/* Non-finite regime ("all matrix contents"): every entry is a positive integer 1..9 except ONE pair.
 *   mode 0: X(i0,k0) = s*H and Y(k0,j0) = H with H = 1e200, so exactly one TERM of Z(i0,j0) overflows (two finite entries);
 *   mode 1: X(i0,k0) = s*inf.
 * Whatever the order of summation, the entries are forced: every other term is a positive integer <= 81, so
 *   Z(i0,j0) = s*inf (mode 0), row i0 of Z = fl(s*H*y) for the other columns resp. s*inf for the whole row (mode 1), column j0 of Z
 *   = fl(x*H) for the other rows (mode 0; the integer rest, < 2^15, is far below half an ulp of 1e200), the remaining entries are
 *   exact integers.  No inf - inf and no inf * 0 occurs in the definition, so NaN is never a correct entry (seeded change C09-F:
 *   compensated summation turns the overflowing term into NaN). */
static void run_product_nonfinite(int kn, unsigned row, unsigned inner, unsigned col, int mode, vf_rng *r)
{
    int const tx = (kn == KN_MULTM || kn == KN_MULTT), ty = (kn == KN_MULMT || kn == KN_MULTT);
    size_t const nx = (size_t)row * inner, ny = (size_t)inner * col, nz = (size_t)row * col;
    double *X = in_new(nx), *Y = in_new(ny), *Xs, *Ys, *ref = (double *)malloc(nz * sizeof(double));
    unsigned const i0 = (unsigned)vf_below(r, row), k0 = (unsigned)vf_below(r, inner), j0 = (unsigned)vf_below(r, col);
    double const sgn = vf_chance(r, 1, 2) ? 1.0 : -1.0, H = 1e200;
    outbuf Z = out_new(nz);
    char call[200], key[96];
    char const *cls = shape_class3(row, inner, col);
#define XAT(i, k) X[tx ? (size_t)(k) * row + (i) : (size_t)(i) * inner + (k)]
#define YAT(k, j) Y[ty ? (size_t)(j) * inner + (k) : (size_t)(k) * col + (j)]
    if (!ref) { fprintf(stderr, "C09: out of memory\n"); exit(2); }
    for (size_t i = 0; i < nx; ++i) { X[i] = (double)vf_range(r, 1, 9); }
    for (size_t i = 0; i < ny; ++i) { Y[i] = (double)vf_range(r, 1, 9); }
    XAT(i0, k0) = mode == 2 ? 0.0 : mode ? sgn * (double)INFINITY : sgn * H;
    if (!mode) { YAT(k0, j0) = H; }
    if (mode == 2) { YAT(k0, j0) = sgn * (double)INFINITY; } /* mode 2: an exact ZERO meets an infinity: the term 0 * inf is NaN, and so is Z(i0,j0) in any order of summation */
    for (unsigned i = 0; i < row; ++i)
    {
        for (unsigned j = 0; j < col; ++j)
        {
            double v;
            if (mode == 2) { v = j != j0 ? 0 : i == i0 ? (double)NAN : sgn * (double)INFINITY; if (j != j0) { for (unsigned k = 0; k < inner; ++k) { v += XAT(i, k) * YAT(k, j); } } }
            else if (i == i0 && (mode || j == j0)) { v = sgn * (double)INFINITY; }
            else if (i == i0) { v = sgn * H * YAT(k0, j); }
            else if (!mode && j == j0) { v = XAT(i, k0) * H; }
            else
            {
                v = 0;
                for (unsigned k = 0; k < inner; ++k) { v += XAT(i, k) * YAT(k, j); }
            }
            ref[(size_t)i * col + j] = v;
        }
    }
    Xs = in_dup(X, nx);
    Ys = in_dup(Y, ny);
    snprintf(call, sizeof(call), "a_real_%s(row=%u,inner=%u,col=%u), entries 1..9 except X(%u,%u)=%s%s", kn_name[kn], row, inner, col, i0, k0, sgn < 0 ? "-" : "+",
             mode == 2 ? "0 (and Y(k0,j0)=inf)" : mode ? "inf" : "1e200 and Y(k0,j0)=1e200");
    vf_log("%s (j0=%u)", call, j0);
    switch (kn)
    {
    case KN_MULMM: a_real_mulmm(row, inner, col, X, Y, Z.p); break;
    case KN_MULTM: a_real_mulTm(inner, row, col, X, Y, Z.p); break;
    case KN_MULMT: a_real_mulmT(row, col, inner, X, Y, Z.p); break;
    default: a_real_mulTT(row, inner, col, X, Y, Z.p); break;
    }
    snprintf(key, sizeof(key), "%s", mode == 2 ? "entry-ne-product-with-zero-times-infinity" : mode ? "entry-ne-product-with-infinite-entry" : "entry-ne-product-with-overflowing-term");
    if (mode == 2)
    {
        /* every NaN is the same answer (sign and payload of a generated NaN are not specified); a poisoned, never written cell stays what it is */
        for (size_t i = 0; i < nz; ++i)
        {
            if (Z.p[i] != Z.p[i] && bits(Z.p[i]) != POISON_BITS) { Z.p[i] = frombits(0x7FF8000000000000ULL); }
            if (ref[i] != ref[i]) { ref[i] = frombits(0x7FF8000000000000ULL); }
        }
        VF_COUNT("products-with-zero-times-infinity");
    }
    judge(kn, cls, &Z, ref, row, col, call, key);
    judge_input(kn, cls, "X", X, Xs, nx, call);
    judge_input(kn, cls, "Y", Y, Ys, ny, call);
    VF_COUNT("products-with-overflowing-term-or-infinite-entry");
#undef XAT
#undef YAT
    out_free(&Z);
    free(X); free(Y); free(Xs); free(Ys); free(ref);
}

/* Aliased operands: the SAME array passed as X and as Y (read-only operands may alias).  For X * Y^T the two operands share
 * the inner dimension, so one array of max(row, col) rows serves as both with DIFFERENT row counts (all rows against the leading
 * rows, or the reverse); for the other three products aliasing needs a square shape.  Reference from the integer definition on
 * copies.  (Seeded change C09-H: a symmetric fast path taken when X == Y, which assumes row == col.) */
static void run_product_aliased(int kn, unsigned row, unsigned inner, unsigned col, int ct, vf_rng *r)
{
    int const tx = (kn == KN_MULTM || kn == KN_MULTT), ty = (kn == KN_MULMT || kn == KN_MULTT);
    unsigned const big = row > col ? row : col;
    size_t const na = (size_t)big * inner, nz = (size_t)row * col;
    int64_t *ai = (int64_t *)malloc(na * sizeof(int64_t));
    double *A = in_new(na), *As, *ref = (double *)malloc(nz * sizeof(double));
    outbuf Z = out_new(nz);
    char call[200];
    char const *cls = shape_class3(row, inner, col);
    if (!ai || !ref) { fprintf(stderr, "C09: out of memory\n"); exit(2); }
    if (kn != KN_MULMT && !(row == inner && inner == col)) { fprintf(stderr, "C09: aliased product needs a square shape\n"); exit(2); }
    fill_int(r, ct, ai, na, 0);
    for (size_t i = 0; i < na; ++i) { A[i] = (double)ai[i]; }
    As = in_dup(A, na);
    for (unsigned i = 0; i < row; ++i)
    {
        for (unsigned j = 0; j < col; ++j)
        {
            int64_t s = 0;
            for (unsigned k = 0; k < inner; ++k)
            {
                int64_t const a = tx ? ai[(size_t)k * row + i] : ai[(size_t)i * inner + k];
                int64_t const b = ty ? ai[(size_t)j * inner + k] : ai[(size_t)k * col + j];
                s += a * b;
            }
            ref[(size_t)i * col + j] = (double)s;
        }
    }
    snprintf(call, sizeof(call), "a_real_%s(row=%u,inner=%u,col=%u) with the SAME %ux%u array as X and Y, %s", kn_name[kn], row, inner, col, big, inner, ct_name[ct]);
    vf_log("%s A[0]=%.17g", call, A[0]);
    switch (kn)
    {
    case KN_MULMM: a_real_mulmm(row, inner, col, A, A, Z.p); break;
    case KN_MULTM: a_real_mulTm(inner, row, col, A, A, Z.p); break;
    case KN_MULMT: a_real_mulmT(row, col, inner, A, A, Z.p); break;
    default: a_real_mulTT(row, inner, col, A, A, Z.p); break;
    }
    judge(kn, cls, &Z, ref, row, col, call, "entry-ne-exact-product-with-aliased-operands");
    judge_input(kn, cls, "X=Y", A, As, na, call);
    VF_COUNT("products-with-aliased-operands");
    out_free(&Z);
    free(A); free(As); free(ai); free(ref);
}

/* ------------------------------------------------------------------ rectangular / square kernels */
/* one m x n input A with content class ct; runs every kernel applicable to the shape */
static void run_rect(unsigned m, unsigned n, int ct, vf_rng *r)
{
    size_t const mn = (size_t)m * n;
    unsigned const mi = m < n ? m : n;
    char const *cls = shape_class2(m, n);
    double *A = in_new(mn), *As, *ref = (double *)malloc((mn > mi ? mn : mi) * sizeof(double));
    char call[160], ba[500];
    if (!ref) { fprintf(stderr, "C09: out of memory\n"); exit(2); }
    fill_real(r, ct, A, mn);
    As = in_dup(A, mn);
    vf_log("rect kernels m=%u n=%u content=%s A=%s", m, n, ct_name[ct], fmt_mat(ba, sizeof(ba), A, m, n));
#define AT(rr, cc) As[(size_t)(rr) * n + (cc)]

    /* ---- T2 and T2 o T2 */
    {
        outbuf T = out_new(mn), B = out_new(mn);
        double *Tin;
        snprintf(call, sizeof(call), "a_real_T2(m=%u,n=%u) %s", m, n, ct_name[ct]);
        vf_log("%s", call);
        a_real_T2(m, n, A, T.p);
        for (unsigned rr = 0; rr < m; ++rr) { for (unsigned cc = 0; cc < n; ++cc) { ref[(size_t)cc * m + rr] = AT(rr, cc); } }
        judge(KN_T2, cls, &T, ref, n, m, call, "entry-ne-transposed-entry");
        judge_input(KN_T2, cls, "A", A, As, mn, call);
        cell_distinct(KN_T2, m, n, 0);
        /* transpose back: T (n x m) -> B (m x n) must be A again */
        Tin = in_dup(T.p, mn);
        snprintf(call, sizeof(call), "a_real_T2(m=%u,n=%u) applied to the result of a_real_T2(m=%u,n=%u) %s", n, m, m, n, ct_name[ct]);
        vf_log("%s", call);
        a_real_T2(n, m, Tin, B.p);
        ++n_t2t2;
        if (judge(KN_T2, shape_class2(n, m), &B, As, m, n, call, "T2oT2-ne-identity") && m != n && mn == 6 && m > 1 && n > 1 && ct == CT_BITS && want_sample(SM_T2))
        {
            char bt[500];
            sampled[SM_T2] = 1;
            vf_sample("a_real_T2(%u,%u): A=%s -> T=%s bitwise A[r][c]==T[c][r] (finite bit patterns incl. -0.0/subnormal), T2(T2(A))==A bitwise, guards intact",
                      m, n, ba, fmt_mat(bt, sizeof(bt), T.p, n, m));
        }
        cell_distinct(KN_T2, n, m, 0);
        if (m == n)
        {
            /* ---- T1, T1 == T2 on squares, T1 o T1 */
            outbuf S = out_new(mn);
            double *S2;
            memcpy(S.p, A, mn * sizeof(double));
            snprintf(call, sizeof(call), "a_real_T1(n=%u) %s", n, ct_name[ct]);
            vf_log("%s", call);
            a_real_T1(n, S.p);
            judge(KN_T1, cls, &S, ref, n, n, call, "entry-ne-transposed-entry");
            ++n_t1t2;
            if (memcmp(S.p, T.p, mn * sizeof(double)) != 0)
            {
                vf_viol("T1/ne-T2-on-square", "a_real_T1(n=%u) and a_real_T2(%u,%u) give different matrices for the same input (%s) A=%s", n, n, n, ct_name[ct], ba);
            }
            /* second application on an exact-size block (over-reads/-writes of the in-place routine hit the red zone) */
            S2 = in_dup(S.p, mn);
            vf_log("a_real_T1(n=%u) applied twice", n);
            a_real_T1(n, S2);
            ++n_t1t1;
            ++vf.evals;
            if (memcmp(S2, As, mn * sizeof(double)) != 0)
            {
                size_t i = 0;
                while (bits(S2[i]) == bits(As[i])) { ++i; }
                vf_viol("T1/T1oT1-ne-identity", "a_real_T1(n=%u) applied twice: entry [%zu][%zu] = %.17g, original %.17g (%s) A=%s", n, i / n, i % n, S2[i],
                        As[i], ct_name[ct], ba);
            }
            else if (n == 3 && ct == CT_CODED && want_sample(SM_T1))
            {
                char bs[300];
                sampled[SM_T1] = 1;
                vf_sample("a_real_T1(3): A=%s -> %s in place: bitwise the transpose, equal to a_real_T2(3,3,A), and a second a_real_T1 restores A; guards intact",
                          ba, fmt_mat(bs, sizeof(bs), S.p, n, n));
            }
            cell_distinct(KN_T1, n, n, 0);
            free(S2);
            out_free(&S);
        }
        free(Tin);
        out_free(&T);
        out_free(&B);
    }
    /* ---- eye2 / tri2 (content-free: the poison prefill is what they must overwrite) */
    {
        outbuf E = out_new(mn), L = out_new(mn);
        snprintf(call, sizeof(call), "a_real_eye2(m=%u,n=%u)", m, n);
        vf_log("%s", call);
        a_real_eye2(m, n, E.p);
        for (unsigned rr = 0; rr < m; ++rr) { for (unsigned cc = 0; cc < n; ++cc) { ref[(size_t)rr * n + cc] = rr == cc ? 1.0 : 0.0; } }
        if (judge(KN_EYE2, cls, &E, ref, m, n, call, "entry-ne-identity-pattern") && m > n && n >= 2 && mn <= 12 && want_sample(SM_EYE2))
        {
            char be[400];
            sampled[SM_EYE2] = 1;
            vf_sample("a_real_eye2(%u,%u) -> %s: E[r][c]==(r==c) for all %zu cells incl. rows below the square part, every cell written, guards intact", m, n,
                      fmt_mat(be, sizeof(be), E.p, m, n), mn);
        }
        cell_distinct(KN_EYE2, m, n, 0);
        snprintf(call, sizeof(call), "a_real_tri2(m=%u,n=%u)", m, n);
        vf_log("%s", call);
        a_real_tri2(m, n, L.p);
        for (unsigned rr = 0; rr < m; ++rr) { for (unsigned cc = 0; cc < n; ++cc) { ref[(size_t)rr * n + cc] = cc <= rr ? 1.0 : 0.0; } }
        if (judge(KN_TRI2, cls, &L, ref, m, n, call, "entry-ne-lower-ones-pattern") && m > n && n >= 2 && mn <= 12 && want_sample(SM_TRI2))
        {
            char be[400];
            sampled[SM_TRI2] = 1;
            vf_sample("a_real_tri2(%u,%u) -> %s: L[r][c]==(c<=r) for all %zu cells, guards intact", m, n, fmt_mat(be, sizeof(be), L.p, m, n), mn);
        }
        cell_distinct(KN_TRI2, m, n, 0);
        if (m == n)
        {
            outbuf E1 = out_new(mn), L1 = out_new(mn);
            snprintf(call, sizeof(call), "a_real_eye1(n=%u)", n);
            vf_log("%s", call);
            a_real_eye1(n, E1.p);
            for (unsigned rr = 0; rr < n; ++rr) { for (unsigned cc = 0; cc < n; ++cc) { ref[(size_t)rr * n + cc] = rr == cc ? 1.0 : 0.0; } }
            judge(KN_EYE1, cls, &E1, ref, n, n, call, "entry-ne-identity-pattern");
            cell_distinct(KN_EYE1, n, n, 0);
            snprintf(call, sizeof(call), "a_real_tri1(n=%u)", n);
            vf_log("%s", call);
            a_real_tri1(n, L1.p);
            for (unsigned rr = 0; rr < n; ++rr) { for (unsigned cc = 0; cc < n; ++cc) { ref[(size_t)rr * n + cc] = cc <= rr ? 1.0 : 0.0; } }
            judge(KN_TRI1, cls, &L1, ref, n, n, call, "entry-ne-lower-ones-pattern");
            cell_distinct(KN_TRI1, n, n, 0);
            out_free(&E1);
            out_free(&L1);
        }
        out_free(&E);
        out_free(&L);
    }
    /* ---- diag2 (+ diag1, diag on squares) */
    {
        outbuf d = out_new(mi);
        snprintf(call, sizeof(call), "a_real_diag2(m=%u,n=%u) %s", m, n, ct_name[ct]);
        vf_log("%s", call);
        a_real_diag2(m, n, A, d.p);
        for (unsigned i = 0; i < mi; ++i) { ref[i] = AT(i, i); }
        if (judge(KN_DIAG2, cls, &d, ref, 1, mi, call, "entry-ne-diagonal-entry") && m > n + 1 && n >= 2 && mn <= 15 && ct == CT_CODED && want_sample(SM_DIAG2))
        {
            char bd[200];
            sampled[SM_DIAG2] = 1;
            vf_sample("a_real_diag2(%u,%u): A=%s -> a=%s: a[i]==A[i][i] for the min(m,n)=%u entries, the cell after a[%u] untouched", m, n, ba,
                      fmt_mat(bd, sizeof(bd), d.p, 1, mi), mi, mi - 1);
        }
        judge_input(KN_DIAG2, cls, "A", A, As, mn, call);
        cell_distinct(KN_DIAG2, m, n, 0);
        out_free(&d);
        if (m == n)
        {
            outbuf d1 = out_new(n), D = out_new(mn);
            double *a = in_new(n), *as;
            snprintf(call, sizeof(call), "a_real_diag1(n=%u) %s", n, ct_name[ct]);
            vf_log("%s", call);
            a_real_diag1(n, A, d1.p);
            judge(KN_DIAG1, cls, &d1, ref, 1, n, call, "entry-ne-diagonal-entry");
            judge_input(KN_DIAG1, cls, "A", A, As, mn, call);
            cell_distinct(KN_DIAG1, n, n, 0);
            /* diag: vector -> matrix; use the first row... no: an independent vector of the same class */
            fill_real(r, ct, a, n);
            as = in_dup(a, n);
            snprintf(call, sizeof(call), "a_real_diag(n=%u) %s a[0]=%.17g", n, ct_name[ct], a[0]);
            vf_log("%s", call);
            a_real_diag(n, a, D.p);
            for (unsigned rr = 0; rr < n; ++rr) { for (unsigned cc = 0; cc < n; ++cc) { ref[(size_t)rr * n + cc] = rr == cc ? as[rr] : 0.0; } }
            judge(KN_DIAG, cls, &D, ref, n, n, call, "entry-ne-diagonal-matrix");
            judge_input(KN_DIAG, cls, "a", a, as, n, call);
            cell_distinct(KN_DIAG, n, n, 0);
            free(a);
            free(as);
            out_free(&d1);
            out_free(&D);
        }
    }
    /* ---- triL2 / triU2 (+ triL, triL1, triU, triU1 on squares) */
    {
        static int const kns[6] = {KN_TRIL2, KN_TRIU2, KN_TRIL, KN_TRIL1, KN_TRIU, KN_TRIU1};
        for (int v = 0; v < (m == n ? 6 : 2); ++v)
        {
            int const kn = kns[v];
            outbuf O = out_new(mn);
            int ok;
            if (v < 2) { snprintf(call, sizeof(call), "a_real_%s(m=%u,n=%u) %s", kn_name[kn], m, n, ct_name[ct]); }
            else { snprintf(call, sizeof(call), "a_real_%s(n=%u) %s", kn_name[kn], n, ct_name[ct]); }
            vf_log("%s", call);
            switch (kn)
            {
            case KN_TRIL2: a_real_triL2(m, n, A, O.p); break;
            case KN_TRIU2: a_real_triU2(m, n, A, O.p); break;
            case KN_TRIL: a_real_triL(n, A, O.p); break;
            case KN_TRIL1: a_real_triL1(n, A, O.p); break;
            case KN_TRIU: a_real_triU(n, A, O.p); break;
            default: a_real_triU1(n, A, O.p); break;
            }
            for (unsigned rr = 0; rr < m; ++rr)
            {
                for (unsigned cc = 0; cc < n; ++cc)
                {
                    double e;
                    switch (kn)
                    {
                    case KN_TRIL2: case KN_TRIL: e = cc <= rr ? AT(rr, cc) : 0.0; break;
                    case KN_TRIU2: case KN_TRIU: e = cc >= rr ? AT(rr, cc) : 0.0; break;
                    case KN_TRIL1: e = cc < rr ? AT(rr, cc) : cc == rr ? 1.0 : 0.0; break;
                    default: e = cc > rr ? AT(rr, cc) : cc == rr ? 1.0 : 0.0; break;
                    }
                    ref[(size_t)rr * n + cc] = e;
                }
            }
            ok = judge(kn, cls, &O, ref, m, n, call, (kn == KN_TRIL1 || kn == KN_TRIU1) ? "entry-ne-unit-triangular-part" : "entry-ne-triangular-part");
            judge_input(kn, cls, "A", A, As, mn, call);
            cell_distinct(kn, m, n, 0);
            if (ok && kn == KN_TRIL2 && m > n && n >= 2 && mn <= 12 && ct == CT_SMALL && want_sample(SM_TRIL2))
            {
                char bo[400];
                sampled[SM_TRIL2] = 1;
                vf_sample("a_real_triL2(%u,%u): A=%s -> L=%s: L[r][c]==(c<=r?A[r][c]:0) for all cells (rows below the square part copied whole), A unchanged, guards intact",
                          m, n, ba, fmt_mat(bo, sizeof(bo), O.p, m, n));
            }
            out_free(&O);
        }
    }
#undef AT
    free(A);
    free(As);
    free(ref);
}

/* ------------------------------------------------------------------ cases */
static unsigned rand_dim(vf_rng *r)
{
    static unsigned const edge[6] = {1, 1, 2, 3, DIM_MAX - 1, DIM_MAX};
    if (vf_chance(r, 1, 5)) { return edge[vf_below(r, 6)]; }
    return (unsigned)vf_range(r, 1, DIM_MAX);
}
/* one dimension around a power of two far above the exhaustive sets (strip-mined / blocked loops, narrow index types: seeded
   change C09-E misplaces every strip after the first 64 rows); the other dimensions stay small so the cost stays linear */
static unsigned big_dim(vf_rng *r)
{
    static unsigned const big[] = {63, 64, 65, 66, 127, 128, 129, 255, 256, 257, 300, 511, 512, 513, 1023, 1024, 1025};
    return big[vf_below(r, vf.tier ? 17 : 11)];
}
static void flush_counts(void)
{
    for (int k = 0; k < KN_COUNT; ++k)
    {
        if (n_calls[k])
        {
            char nm[56];
            snprintf(nm, sizeof(nm), "%s-vs-definition", kn_name[k]);
            vf_count_dyn(nm, n_calls[k]);
            n_calls[k] = 0;
        }
    }
    VF_ADD("result-cells-compared-bitwise", n_cells);
    VF_ADD("guard-bands-intact", n_guard);
    VF_ADD("inputs-unchanged", n_input);
    VF_ADD("T1oT1-identity", n_t1t1);
    VF_ADD("T1-eq-T2-on-square", n_t1t2);
    VF_ADD("T2oT2-identity", n_t2t2);
    n_cells = n_guard = n_input = n_t1t1 = n_t1t2 = n_t2t2 = 0;
}


/* Diagonal extraction at the extreme dimensions of a_uint.  a_real_diag2 reads only min(m, n) cells, so a 2 x (2^32 - 1) matrix can
   be real without costing memory: an anonymous mapping that is written at its diagonal cells only (everything else reads as zero
   from the shared zero page).  "For all dimensions >= 1": a row step computed in 32 bits (n + 1 wraps to 0 for n = UINT_MAX,
   seeded change C09-I) is bit-identical for every allocatable dense shape. */
static void run_diag2_extreme(vf_rng *r)
{
    char call[160];
    static unsigned const wide[] = {UINT_MAX, UINT_MAX - 1, 0x80000000u, 0x80000001u, 0x7FFFFFFFu, 0xFFFF0000u, 0x10001u};
    for (unsigned t = 0; t < sizeof wide / sizeof wide[0]; ++t)
    {
        for (int tall = 0; tall < 2; ++tall)
        {
            unsigned const sm = (unsigned)vf_range(r, 1, 4), m = tall ? wide[t] : sm, n = tall ? sm : wide[t], k = sm;
            size_t const cells = tall ? (size_t)(k - 1) * ((size_t)n + 1) + 1 : (size_t)m * n; /* a tall matrix is only needed up to its last diagonal cell */
            size_t const bytes = ((cells * sizeof(a_real) + 4095) & ~(size_t)4095) + 4096;
            a_real *A = (a_real *)mmap(NULL, bytes, PROT_READ | PROT_WRITE, MAP_PRIVATE | MAP_ANONYMOUS | MAP_NORESERVE, -1, 0);
            a_real want[4], got[5];
            if (A == MAP_FAILED) { VF_COUNT("extreme-dimension-mapping-refused"); continue; }
            for (unsigned i = 0; i < k; ++i)
            {
                want[i] = (a_real)(1 + vf_below(r, 1000)) + (a_real)i / 8;
                A[(size_t)i * ((size_t)n + 1)] = want[i];
            }
            for (unsigned i = 0; i < 5; ++i) { got[i] = (a_real)-777; }
            snprintf(call, sizeof(call), "a_real_diag2(m=%u,n=%u) sparse mapping", m, n);
            vf_log("%s", call);
            a_real_diag2(m, n, A, got);
            ++vf.evals;
            VF_COUNT("diag2-at-extreme-dimensions");
            for (unsigned i = 0; i < k; ++i)
            {
                if (got[i] != want[i]) { vf_viol("a_real_diag2/extreme-dimension/wrong-entry", "%s: a[%u] = %g, A[%u][%u] = %g", call, i, (double)got[i], i, i, (double)want[i]); break; }
            }
            if (got[k] != (a_real)-777) { vf_viol("a_real_diag2/extreme-dimension/writes-past-min", "%s: a[%u] was written", call, k); }
            munmap(A, bytes);
        }
    }
}

/* ------------------------------------------------------------------ call sites spelled with the library's own kind of identifiers
   Every monitor above varies VALUES. A routine that the header (also) provides as a function-like macro can depend on the SPELLING of the call
   instead: a temporary declared inside the macro body hides a caller variable of the same name that an argument mentions (seeded change C09-M:
   `#define a_real_triL(n, A, L) do { a_uint const n_ = (n); a_real_triL2(n_, n_, A, L); } while (0)` called as a_real_triL(n_, W + n_, L)).
   The caller here names its variables the way the library names its private ones (trailing underscore: n_, m_, i_, r_, c_, p_, it_, num_, ptr_,
   A_ ...) and mentions them in every argument; each call in its normal spelling is compared bit for bit with the same call made through the
   parenthesised name - which no macro can intercept - on plainly named arguments, both on exact-size heap blocks. */
static void hygiene_call_sites(unsigned mm, unsigned nn, vf_rng *r)
{
    a_uint const m = mm, n = nn;
    size_t const mn = (size_t)m * n, hdr = (size_t)(m > n ? m : n) + 1;
    a_uint m_ = m, n_ = n, i_ = m, j_ = n, r_ = m, c_ = n, k_ = n, num_ = n, row_ = m, col_ = n;
    double *const W = (double *)malloc((hdr + (mn ? mn : 1)) * sizeof(double)); /* workspace: header of hdr cells, then the matrix */
    double *A_ = W, *ptr_ = W, *p_ = W, *it_ = W, *x_ = W;
    double *o1 = (double *)malloc((mn + hdr) * sizeof(double)), *o2 = (double *)malloc((mn + hdr) * sizeof(double));
    size_t const nb = (mn + hdr) * sizeof(double);
    if (!W || !o1 || !o2) { fprintf(stderr, "C09: out of memory\n"); exit(2); }
    for (size_t i = 0; i < hdr + mn; ++i) { W[i] = (double)(1 + vf_below(r, 1000)); }
#define HY_BOTH(name, macro_call, fn_call)                                                                                                     \
    do {                                                                                                                                        \
        memset(o1, 0x5A, nb); memset(o2, 0x5A, nb);                                                                                             \
        { double *O_ = o1, *L_ = o1, *U_ = o1, *E_ = o1, *T_ = o1, *a_ = o1, *y_ = o1; (void)O_; (void)L_; (void)U_; (void)E_; (void)T_; (void)a_; (void)y_; macro_call; } \
        { double *O = o2; fn_call; }                                                                                                            \
        ++vf.evals;                                                                                                                             \
        VF_COUNT("call-spelled-with-house-style-identifiers-vs-function");                                                                      \
        if (memcmp(o1, o2, nb) != 0) { vf_viol(name "/call-site-spelling-changes-the-result", "m=%u n=%u: the call written with caller variables named n_, m_, i_ ... in its arguments gives a different result than the same call through the parenthesised function name", m, n); } \
    } while (0)
    HY_BOTH("T2", a_real_T2(m_, n_, A_ + hdr, T_ + 0 * n_), (a_real_T2)(m, n, W + hdr, O));
    HY_BOTH("eye2", a_real_eye2(i_, j_, E_ + 0 * m_ * n_), (a_real_eye2)(m, n, O));
    HY_BOTH("tri2", a_real_tri2(r_, c_, L_ + 0 * r_), (a_real_tri2)(m, n, O));
    HY_BOTH("diag2", a_real_diag2(row_, col_, ptr_ + hdr + 0 * col_, a_ + 0 * row_), (a_real_diag2)(m, n, W + hdr, O));
    HY_BOTH("triL2", a_real_triL2(m_, n_, p_ + hdr + 0 * n_, L_ + 0 * m_), (a_real_triL2)(m, n, W + hdr, O));
    HY_BOTH("triU2", a_real_triU2(m_, k_, it_ + hdr + 0 * k_, U_ + 0 * m_), (a_real_triU2)(m, n, W + hdr, O));
    if (m == n)
    {
        /* the matrix sits n_ cells into the workspace here: an argument that has to be evaluated with the CALLER's n_ */
        HY_BOTH("eye1", a_real_eye1(n_, E_ + n_ - num_), (a_real_eye1)(n, O));
        HY_BOTH("tri1", a_real_tri1(num_, L_ + 0 * n_), (a_real_tri1)(n, O));
        HY_BOTH("diag", a_real_diag(n_, A_ + n_, O_ + 0 * n_), (a_real_diag)(n, W + n, O));
        HY_BOTH("diag1", a_real_diag1(n_, x_ + n_, a_ + 0 * n_), (a_real_diag1)(n, W + n, O));
        HY_BOTH("triL", a_real_triL(n_, A_ + n_, L_ + 0 * n_), (a_real_triL)(n, W + n, O));
        HY_BOTH("triL1", a_real_triL1(i_, A_ + i_, L_ + 0 * n_), (a_real_triL1)(n, W + n, O));
        HY_BOTH("triU", a_real_triU(c_, ptr_ + c_, U_ + 0 * m_), (a_real_triU)(n, W + n, O));
        HY_BOTH("triU1", a_real_triU1(k_, p_ + k_, U_ + 0 * r_), (a_real_triU1)(n, W + n, O));
        memcpy(o1, W + n, mn * sizeof(double)); memcpy(o2, W + n, mn * sizeof(double));
        { double *T_ = o1; a_real_T1(n_, T_ + 0 * n_); }
        (a_real_T1)(n, o2);
        ++vf.evals;
        VF_COUNT("call-spelled-with-house-style-identifiers-vs-function");
        if (memcmp(o1, o2, mn * sizeof(double)) != 0) { vf_viol("T1/call-site-spelling-changes-the-result", "n=%u", n); }
    }
    /* the four products on (m x n)(n x m) -> m x m, operands taken from the workspace */
    if ((size_t)m * m <= mn + hdr && mn)
    {
        HY_BOTH("mulmm", a_real_mulmm(m_, n_, r_, A_ + hdr, ptr_ + hdr + 0 * n_, O_ + 0 * m_), (a_real_mulmm)(m, n, m, W + hdr, W + hdr, O));
        HY_BOTH("mulTm", a_real_mulTm(c_, i_, row_, p_ + hdr, it_ + hdr + 0 * c_, O_ + 0 * i_), (a_real_mulTm)(n, m, m, W + hdr, W + hdr, O));
        HY_BOTH("mulmT", a_real_mulmT(row_, i_, col_, x_ + hdr, A_ + hdr + 0 * col_, O_ + 0 * row_), (a_real_mulmT)(m, m, n, W + hdr, W + hdr, O));
        HY_BOTH("mulTT", a_real_mulTT(r_, k_, m_, A_ + hdr, p_ + hdr + 0 * k_, O_ + 0 * r_), (a_real_mulTT)(m, n, m, W + hdr, W + hdr, O));
    }
#undef HY_BOTH
    free(W); free(o1); free(o2);
}

static void vf_case(uint64_t c, vf_rng *r)
{
    plan_t const p = plan[c];
    switch (p.kind)
    {
    case K_PROD_SHAPE:
    {
        unsigned const row = p.arg & 0xFF, inner = p.arg >> 8 & 0xFF, col = p.arg >> 16 & 0xFF, blk = p.arg >> 24;
        unsigned const lo = blk * REP_BLOCK, hi = lo + REP_BLOCK < prod_reps ? lo + REP_BLOCK : prod_reps;
        vf_log("products, exhaustive shape set: row=%u inner=%u col=%u, contents %u..%u of %u per kernel", row, inner, col, lo, hi - 1, prod_reps);
        for (unsigned rep = lo; rep < hi; ++rep)
        {
            for (int kn = KN_MULMM; kn <= KN_MULTT; ++kn) { run_product(kn, row, inner, col, (int)(rep % 3), r); }
        }
        VF_COUNT("exhaustive-product-shape-cases");
        break;
    }
    case K_RECT_SHAPE:
    {
        unsigned const m = p.arg & 0xFF, n = p.arg >> 8 & 0xFF, blk = p.arg >> 24;
        unsigned const lo = blk * REP_BLOCK, hi = lo + REP_BLOCK < rect_reps ? lo + REP_BLOCK : rect_reps;
        vf_log("rectangular kernels, exhaustive shape set: m=%u n=%u, contents %u..%u of %u", m, n, lo, hi - 1, rect_reps);
        for (unsigned rep = lo; rep < hi; ++rep) { run_rect(m, n, (int)(rep % CT_COUNT), r); }
        hygiene_call_sites(m, n, r);
        VF_COUNT("exhaustive-rect-shape-cases");
        break;
    }
    case K_PROD_RANDOM:
        vf_log("products, %d random shapes up to %d", PROD_RANDOM_SHAPES, DIM_MAX);
        for (unsigned i = 0; i < PROD_RANDOM_SHAPES; ++i)
        {
            unsigned const row = rand_dim(r), inner = rand_dim(r), col = rand_dim(r);
            int const ct = (int)vf_below(r, 3);
            for (int kn = KN_MULMM; kn <= KN_MULTT; ++kn) { run_product(kn, row, inner, col, ct, r); }
        }
        {
            /* one large dimension (each position in turn), and the non-finite regime on a small and on that large shape */
            unsigned d[3] = {(unsigned)vf_range(r, 1, 5), (unsigned)vf_range(r, 1, 5), (unsigned)vf_range(r, 1, 5)};
            unsigned const which = (unsigned)(p.arg % 3);
            int const ct = (int)vf_below(r, 3);
            d[which] = big_dim(r);
            {
                /* aliased operands: X * Y^T with one array and different row counts, the other kernels on a square */
                unsigned const ar = (unsigned)vf_range(r, 1, 7), ac = (unsigned)vf_range(r, 1, 7), ai_ = (unsigned)vf_range(r, 1, 6), sq = (unsigned)vf_range(r, 1, 6);
                run_product_aliased(KN_MULMT, ar, ai_, ac, (int)vf_below(r, 3), r);
                run_product_aliased(KN_MULMT, ac, ai_, ar, (int)vf_below(r, 3), r);
                for (int kn = KN_MULMM; kn <= KN_MULTT; ++kn) { run_product_aliased(kn, sq, sq, sq, (int)vf_below(r, 3), r); }
            }
            vf_log("products, one large dimension: row=%u inner=%u col=%u", d[0], d[1], d[2]);
            for (int kn = KN_MULMM; kn <= KN_MULTT; ++kn) { run_product(kn, d[0], d[1], d[2], ct, r); }
            VF_COUNT("products-with-one-large-dimension");
            for (int kn = KN_MULMM; kn <= KN_MULTT; ++kn)
            {
                run_product_nonfinite(kn, (unsigned)vf_range(r, 1, 6), (unsigned)vf_range(r, 1, 6), (unsigned)vf_range(r, 1, 6), (int)vf_below(r, 3), r);
                run_product_nonfinite(kn, d[0], d[1], d[2], (int)vf_below(r, 2), r);
            }
        }
        VF_COUNT("random-product-batches");
        break;
    default:
        vf_log("rectangular kernels, %d random shapes up to %d and one random square", RECT_RANDOM_SHAPES, DIM_MAX);
        for (unsigned i = 0; i < RECT_RANDOM_SHAPES; ++i)
        {
            unsigned const m = rand_dim(r), n = rand_dim(r);
            run_rect(m, n, (int)vf_below(r, CT_COUNT), r);
        }
        {
            unsigned const n = rand_dim(r);
            run_rect(n, n, (int)vf_below(r, CT_COUNT), r);
        }
        {
            /* tall and wide shapes with one large dimension, and (one batch in four) a square one just above 64 */
            unsigned const b = big_dim(r), sm = (unsigned)vf_range(r, 1, 5);
            vf_log("rectangular kernels, one large dimension: %ux%u and %ux%u", b, sm, sm, b);
            run_rect(b, sm, (int)vf_below(r, CT_COUNT), r);
            run_rect(sm, b, (int)vf_below(r, CT_COUNT), r);
            if (p.arg % 4 == 0)
            {
                unsigned const q = (unsigned)vf_range(r, 63, 70);
                run_rect(q, q, (int)vf_below(r, CT_COUNT), r);
            }
            VF_COUNT("rect-kernels-with-one-large-dimension");
            if (p.arg % 8 == 1) { run_diag2_extreme(r); }
        }
        VF_COUNT("random-rect-batches");
        break;
    }
    flush_counts();
}
