/* second translation unit for C11: reaches the EXPORTED bodies of the real helpers (always the library's
 * own fallback implementation, whatever A_HAVE_* says; this is what the language bindings link against)
 * by removing the header macros that would bind the names to libm. */
#include "a/math.h"
#undef a_real_asinh
#undef a_real_acosh
#undef a_real_atanh
#undef a_real_expm1
#undef a_real_log1p
#undef a_real_atan2
a_real vfx_asinh(a_real x) { return a_real_asinh(x); }
a_real vfx_acosh(a_real x) { return a_real_acosh(x); }
a_real vfx_atanh(a_real x) { return a_real_atanh(x); }
a_real vfx_expm1(a_real x) { return a_real_expm1(x); }
a_real vfx_log1p(a_real x) { return a_real_log1p(x); }
a_real vfx_atan2(a_real y, a_real x) { return a_real_atan2(y, x); }
