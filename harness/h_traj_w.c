/* C14, other real widths (A_SIZE_REAL = 4 float, 16 long double): compact type-generic companion of h_traj.c (which assumes
 * a_real == double).  Contexts live in exact-size malloc blocks pre-filled with 0xA5.  Four clause groups, all in the working type:
 *  E  exact regime, compared with ==.  Requests are built from small dyadic values (trapezoid: accelerations 1,2,4, vm 2 or 4, velocities in
 *     quarters of vm; bell: jm = 3*2^a, tj = am/jm = 1 or 1/2, vm = 3*2^c, velocities in quarters of vm, so every division, square root and
 *     x^3/6 of planner and evaluators is exact in 24 bits); the phase durations are chosen FIRST and the distance is derived from them.  The
 *     returned duration must equal the designed one, and pos/vel/acc/jer on the 1/8 time grid from -1/2 to T+1/2 must equal the binary128
 *     integral of the designed piecewise-constant acceleration (trapezoid, all four branches) / jerk (bell: cruise with am reached or not on
 *     either side, no-cruise with am reached), including hold outside [0,T].  acc (trapezoid) and jer are compared strictly inside phases
 *     only (their value AT a switching instant is a convention the property does not fix).
 *  K  the kinematic clauses of h_traj.c on random + branch-targeted requests with the SAME scale model, eps = A_REAL_EPSILON:
 *     unit_p = eps*S_p + vhat*dt, unit_v = eps*S_v + ahat*dt, unit_a = eps*S_a + jhat*dt, unit_t = eps*S_p/vhat + dt, refuted beyond C*unit,
 *     C = 16 (trapezoid) / 256 (bell); S, dt and the refinements (a) alo in vhat^2/a, (b) accel-only velocity limit, (c) bell single-phase
 *     j*T^2 / j*T^3 exactly as in h_traj.c / DESIGN.md C14, plus (d) second-order terms of the time error (float only, see run_request).
 *     Clauses: phase times; start state (0, 0+); end state (T-, T); hold outside [0,T]; pos/vel/acc continuity across every boundary as
 *     one-sided limits (nextafter); |vel|<=vm, |acc|<=am, |jer|<=jm at boundaries (both sides) + 48 uniform + 16 random instants.
 *  O1 one-step oracle of the evaluators: pos/vel/acc at 24 random interior instants against the piecewise formulas documented in
 *     trajtrap.h / trajbell.h, evaluated in binary128 on the recorded context; a-priori bound K*eps*sum|terms|, K = 16 / 8 / 4 (pos has at most
 *     14 roundings; the phase-relative time h is formed in the working type as documented: x-ta, ta-x, x-(t-td), t-x; where vel/acc
 *     associate differently every addend of h is a separate term of the sum).
 *  O2 closed forms of the bell planner documented in trajbell.h, binary128 on the request: cruise branch (decision clear by 1e-3 relative):
 *     taj/tdj, ta/td, am/dm of steps 1-2 within 8 eps relative, tv within 16 eps*sum|terms| of step 3; two-phase no-cruise branches (step 4/4c,
 *     on the acceleration the planner settled on): taj = tdj = am/jm, dm = -am, Ta, Td against (am^2/jm + sqrt(Delta) - 2v)/(2am) within the
 *     propagated bound 8 eps*sum|addends of Delta|, peak velocity.  These see a planner quantity that went through a narrower type (1024 eps
 *     in the long double build), which K with C = 256 may not; the trapezoid needs no such group (C = 16).
 *  R  second request on a used context (seeded change C14-J; see replan_sequence() in h_traj.c): a first plan drawn so that the reached
 *     values differ from the requested ones, then ONE more request on the same object whose arguments are read back from the recorded fields
 *     (exactly, with one argument perturbed, limits only with a new move, braking side as the acceleration limit).  The second request goes
 *     through the same domain filter and the groups K, O1, O2 against ITS limits, plus the twin clause: planned on a fresh 0xA5-filled context
 *     it must give bitwise the same duration, recorded fields and samples (keys <gen>/replan-readback/...).
 * Calibration, unchanged tree, VERIF_SEED 1..8 quick + 1..3 thorough, f32 and f80, 11.6e6 judged profiles: worst error/bound (monitors
 * "w-ratio.*")  K trapezoid 0.067 (= 1.07 units), K bell 0.006 (= 1.5 units), O1 0.17, O2 0.31, E 0 (no inequality at all).
 */
#define VF_PROP "C14"
#include "vf_common.h"
#include "a/a.h"
#include "a/math.h"
#include "a/trajtrap.h"
#include "a/trajbell.h"
#include <quadmath.h>
#include <math.h>
typedef __float128 q_t;
typedef long double L;
#define EPS ((q_t)A_REAL_EPSILON)
#if A_REAL_TYPE + 0 == A_REAL_SINGLE
#define W "f32"
#elif A_REAL_TYPE + 0 == A_REAL_EXTEND
#define W "f80"
#else
#define W "f64"
#endif
enum { REQ_PER_CASE = 48, REPLAN_PER_CASE = 2, N_UNIFORM = 48, N_RANDOM = 16, N_ONESTEP = 24 };
static uint64_t vf_ncases(int tier) { return tier ? 40000u : 1600u; }

enum { K_PHASE, K_START, K_END, K_HOLD, K_CPOS, K_CVEL, K_CACC, K_VLIM, K_ALIM, K_JLIM, O_EVAL, O_PLAN, E_DUR, E_KIN, NCL };
static char const *const cl_name[NCL] = {"phase-times", "start-state", "end-state", "hold-outside", "position-continuity", "velocity-continuity", "acceleration-continuity", "velocity-limit",
                                         "acceleration-limit", "jerk-limit", "evaluator-vs-documented-formula", "plan-vs-documented-formula", "exact-duration", "exact-kinematics"};
static char const *const gen_name[2] = {"trajtrap", "trajbell"}, *const gen_short[2] = {"trap", "bell"};
enum { TB_CRUISE, TB_ACCEL, TB_DECEL, TB_ACCDEC };
enum { BB_CRUISE, BB_AMAX, BB_REDUCED, BB_DECEL, BB_ACCEL };
static char const *const branch_name[2][5] = {{"cruise", "accel-only", "decel-only", "accel-decel", "?"}, {"cruise", "nocruise-amax", "nocruise-reduced", "decel-only", "accel-only"}};
static uint64_t cl_n[2][NCL];
static double cl_worst[2][NCL];
static char cl_arg[2][NCL][120];

typedef struct { q_t T; int n; q_t d[7], a[7], j[7]; } exref; /* designed phases: duration, acceleration (trapezoid) or jerk (bell) */
typedef struct
{
    int gen, branch, dir, nb, replan; /* replan: 0 ordinary request, 1 + variant: second request on a used context */
    a_real in[7], T, b[9], p0, p1, v0, v1, vlim, alim, jlim;
    a_trajtrap *tt;
    a_trajbell *tb;
    q_t vhat, ahat, alo, jhat, Sp, Sv, Sa, dt, up, uv, ua, ut, uvl, C;
} prof;
typedef struct { a_real x, p, v, a, j; } samp;

static char const *req_text(prof const *q, char *buf, size_t n)
{
    a_real const *i = q->in;
    snprintf(buf, n, q->gen ? "a_trajbell_gen[" W "](jm=%La am=%La vm=%La p0=%La p1=%La v0=%La v1=%La) [%.9Lg %.9Lg %.9Lg %.9Lg %.9Lg %.9Lg %.9Lg]" : "a_trajtrap_gen[" W "](vm=%La ac=%La de=%La p0=%La p1=%La v0=%La v1=%La) [%.9Lg %.9Lg %.9Lg %.9Lg %.9Lg %.9Lg %.9Lg]",
             (L)i[0], (L)i[1], (L)i[2], (L)i[3], (L)i[4], (L)i[5], (L)i[6], (L)i[0], (L)i[1], (L)i[2], (L)i[3], (L)i[4], (L)i[5], (L)i[6]);
    return buf;
}
/* one evaluation of a clause: refuted if err > tol (or not comparable); tol == 0 in the exact regime */
static void judge(prof const *q, int cl, q_t err, q_t tol, a_real x, char const *what, q_t got, q_t want)
{
    int const g = q->gen;
    double ratio = err <= 0 ? 0 : tol > 0 ? (double)(err / tol) : HUGE_VAL;
    ++cl_n[g][cl];
    if (ratio > cl_worst[g][cl])
    {
        cl_worst[g][cl] = ratio;
        snprintf(cl_arg[g][cl], sizeof(cl_arg[g][cl]), "%s %s x=%.9Lg T=%.9Lg case %" PRIu64, branch_name[g][q->branch], what, (L)x, (L)q->T, vf.case_no);
    }
    if (!(err <= tol))
    {
        char key[112], rq[700];
        if (q->replan) { snprintf(key, sizeof(key), "%s/replan-readback/w-%s/" W, gen_name[g], cl_name[cl]); }
        else { snprintf(key, sizeof(key), "%s/w-%s/%s/" W, gen_name[g], cl_name[cl], branch_name[g][q->branch]); }
        vf_viol(key, "%s%s: %s at x=%La (%.12Lg), T=%La: got %.21Lg, expected %.21Lg, excess %.6Lg > bound %.6Lg [ratio %.4g; eps*S p=%.3Lg v=%.3Lg a=%.3Lg, dt=%.3Lg] branch=%s dir=%+d",
                q->replan ? "[second request on a used context, built from the fields the first plan recorded] " : "", req_text(q, rq, sizeof(rq)), what, (L)x, (L)x, (L)q->T, (L)got, (L)want, (L)err, (L)tol, ratio, (L)(EPS * q->Sp), (L)(EPS * q->Sv), (L)(EPS * q->Sa), (L)q->dt, branch_name[g][q->branch], q->dir);
    }
}
static void flush_clauses(void)
{
    char name[56];
    for (int i = 0; i < 2 * NCL; ++i)
    {
        int const g = i / NCL, c = i % NCL;
        if (!cl_n[g][c]) { continue; }
        snprintf(name, sizeof(name), "w-%s.%s", gen_short[g], cl_name[c]);
        vf_count_dyn(name, cl_n[g][c]);
        snprintf(name, sizeof(name), "w-ratio.%s.%s", gen_short[g], cl_name[c]);
        vf_max_dyn(name, cl_worst[g][c], cl_arg[g][c]);
        cl_n[g][c] = 0;
        cl_worst[g][c] = 0;
    }
}
static samp eval_at(prof const *q, a_real x)
{
    samp s;
    s.x = x;
    s.p = q->gen ? a_trajbell_pos(q->tb, x) : a_trajtrap_pos(q->tt, x);
    s.v = q->gen ? a_trajbell_vel(q->tb, x) : a_trajtrap_vel(q->tt, x);
    s.a = q->gen ? a_trajbell_acc(q->tb, x) : a_trajtrap_acc(q->tt, x);
    s.j = q->gen ? a_trajbell_jer(q->tb, x) : 0;
    return s;
}
static q_t qmax(q_t m, q_t d) { d = fabsq(d); return !(d == d) ? (q_t)INFINITY : d > m ? d : m; }
static a_real call_gen_on(int gen, void *ctx, a_real const in[7]) /* on the context as it is */
{
    return gen ? a_trajbell_gen((a_trajbell *)ctx, in[0], in[1], in[2], in[3], in[4], in[5], in[6]) : a_trajtrap_gen((a_trajtrap *)ctx, in[0], in[1], in[2], in[3], in[4], in[5], in[6]);
}
static a_real call_gen(int gen, void *ctx, a_real const in[7])
{
    memset(ctx, 0xA5, gen ? sizeof(a_trajbell) : sizeof(a_trajtrap)); /* garbage before the generator runs */
    return call_gen_on(gen, ctx, in);
}
/* measured conditioning of the request: largest change of a recorded phase time under +-2 ulps of each input */
static int phase_times(int gen, void const *ctx, q_t t[6])
{
    a_trajtrap const *c = (a_trajtrap const *)ctx;
    a_trajbell const *d = (a_trajbell const *)ctx;
    if (gen) { t[0] = d->t; t[1] = d->tv; t[2] = d->ta; t[3] = d->td; t[4] = d->taj; t[5] = d->tdj; return 6; }
    t[0] = c->t; t[1] = c->ta; t[2] = c->td;
    return 3;
}
static q_t sensitivity(prof const *q)
{
    void *ctx = malloc(q->gen ? sizeof(a_trajbell) : sizeof(a_trajtrap));
    q_t dt = 0, t0[6], t1[6];
    int const n = phase_times(q->gen, q->gen ? (void *)q->tb : (void *)q->tt, t0);
    if (q->replan)
    {
        /* second request on a used context: the conditioning of the REQUEST is measured between plans made on fresh contexts, so that a plan
           distorted by what the context held before cannot inflate its own tolerance (as in h_traj.c) */
        if (!(call_gen(q->gen, ctx, q->in) > 0)) { free(ctx); return 0; }
        phase_times(q->gen, ctx, t0);
    }
    for (int i = 0; i < 14; ++i)
    {
        a_real const to = (i & 1) ? (a_real)INFINITY : -(a_real)INFINITY;
        a_real in[7];
        memcpy(in, q->in, sizeof(in));
        in[i / 2] = a_real_nextafter(a_real_nextafter(in[i / 2], to), to);
        if (!(call_gen(q->gen, ctx, in) > 0)) { dt = (q_t)INFINITY; continue; }
        phase_times(q->gen, ctx, t1);
        for (int k = 0; k < n; ++k) { dt = qmax(dt, t1[k] - t0[k]); }
    }
    free(ctx);
    return dt;
}

/* ------------------------------------------------------------------ K: kinematic clauses, scale model of h_traj.c */
static void limits_at(prof const *q, samp const *s, char const *what)
{
    judge(q, K_VLIM, fabsq(s->v) - q->vlim, q->C * q->uvl, s->x, what, s->v, q->vlim);
    if (q->gen)
    {
        judge(q, K_ALIM, fabsq(s->a) - q->alim, q->C * q->ua, s->x, what, s->a, q->alim);
        judge(q, K_JLIM, fabsq(s->j) - q->jlim, EPS * q->jlim, s->x, what, s->j, q->jlim);
    }
}
static void check_profile(prof *q, vf_rng *r)
{
    a_real const T = q->T, inf = (a_real)INFINITY;
    int const bell = q->gen;
    q_t const C = q->C;
    {
        /* phase durations non-negative and adding up to the total */
        a_trajtrap const *c = q->tt;
        a_trajbell const *d = q->tb;
        static char const *const nm[2][5] = {{"acceleration phase duration ta < 0", "constant-velocity phase duration td-ta < 0", "deceleration phase duration t-td < 0", "", ""},
                                             {"constant-velocity phase duration tv < 0", "jerk time taj < 0", "jerk time tdj < 0", "constant-acceleration duration ta-2taj < 0", "constant-deceleration duration td-2tdj < 0"}};
        q_t const dur[2][5] = {{c->ta, (q_t)c->td - c->ta, (q_t)c->t - c->td, 0, 0}, {d->tv, d->taj, d->tdj, d->ta - 2 * (q_t)d->taj, d->td - 2 * (q_t)d->tdj}};
        for (int k = 0; k < (bell ? 5 : 3); ++k) { judge(q, K_PHASE, -dur[bell][k], C * q->ut, 0, nm[bell][k], dur[bell][k], 0); }
        if (bell) { judge(q, K_PHASE, fabsq((q_t)d->t - ((q_t)d->ta + d->tv + d->td)), C * q->ut, 0, "ta+tv+td differs from t", (q_t)d->ta + d->tv + d->td, d->t); }
        judge(q, K_PHASE, fabsq((q_t)(bell ? d->t : c->t) - T), C * q->ut, 0, "recorded t differs from the returned duration", bell ? d->t : c->t, T);
    }
    {
        /* start state at 0 and 0+, end state as the one-sided limit at T and at T, hold outside [0,T] */
        a_real const xs[10] = {0, A_REAL_MIN, a_real_nextafter(T, -inf), T, -A_REAL_MIN, -T / 2, -(a_real)vf_logu(r, -6, 9), a_real_nextafter(T, inf), T + T / 2, T + (a_real)vf_logu(r, -6, 9)};
        static char const *const nm[4][3] = {{"pos at/after 0 vs p0", "vel at/after 0 vs clamped v0", "acc at/after 0 vs 0"}, {"pos(T-), pos(T) vs p1", "vel(T-), vel(T) vs recorded v1", "acc(T-), acc(T) vs 0"},
                                             {"pos(x<0) vs p0", "vel(x<0) vs clamped v0", "acc(x<0) vs 0"}, {"pos(x>T) vs p1", "vel(x>T) vs recorded v1", "acc(x>T) vs 0"}};
        for (int i = 0; i < 10; ++i)
        {
            int const end = i == 2 || i == 3 || i >= 7, k = (i >= 4 ? 2 : 0) + end, cl = i >= 4 ? K_HOLD : end ? K_END : K_START;
            samp s = eval_at(q, xs[i]);
            if (i >= 7 && !(xs[i] > T)) { continue; }
            judge(q, cl, fabsq((q_t)s.p - (end ? q->p1 : q->p0)), C * q->up, s.x, nm[k][0], s.p, end ? q->p1 : q->p0);
            judge(q, cl, fabsq((q_t)s.v - (end ? q->v1 : q->v0)), C * q->uv, s.x, nm[k][1], s.v, end ? q->v1 : q->v0);
            if (bell) { judge(q, cl, fabsq(s.a), C * q->ua, s.x, nm[k][2], s.a, 0); }
            if (bell && i >= 4) { judge(q, cl, fabsq(s.j), 0, s.x, "jer outside [0,T] vs 0", s.j, 0); }
            if (i < 4) { limits_at(q, &s, end ? "at end" : "at start"); }
        }
    }
    for (int i = 0; i < q->nb; ++i) /* continuity across every phase boundary: one-sided limit b- versus b */
    {
        samp l = eval_at(q, a_real_nextafter(q->b[i], -inf)), h = eval_at(q, q->b[i]);
        char what[40];
        snprintf(what, sizeof(what), "across boundary #%d", i);
        judge(q, K_CPOS, fabsq((q_t)h.p - l.p), C * q->up, h.x, what, h.p, l.p);
        judge(q, K_CVEL, fabsq((q_t)h.v - l.v), C * q->uv, h.x, what, h.v, l.v);
        if (bell) { judge(q, K_CACC, fabsq((q_t)h.a - l.a), C * q->ua, h.x, what, h.a, l.a); }
        limits_at(q, &l, "just before a phase boundary");
        limits_at(q, &h, "at a phase boundary");
    }
    for (int i = 1; i < N_UNIFORM + N_RANDOM; ++i)
    {
        samp s = eval_at(q, i < N_UNIFORM ? T * ((a_real)i / N_UNIFORM) : T * (a_real)vf_unit(r));
        limits_at(q, &s, i < N_UNIFORM ? "on the uniform grid" : "at a random instant");
    }
}

/* ------------------------------------------------------------------ O1: documented piecewise formulas in binary128 on the recorded context */
#define SUM(k, t0, t1, t2, t3) (y[k] = (t0) + (t1) + (t2) + (t3), m[k] = fabsq(t0) + fabsq(t1) + fabsq(t2) + fabsq(t3))
static void documented(prof const *q, a_real x, q_t y[3], q_t m[3])
{
    a_real h;
    if (!q->gen)
    {
        a_trajtrap const *c = q->tt;
        q_t const vc = c->vc, ac = c->ac, de = c->de;
        if (x < c->ta) { h = x; SUM(0, (q_t)c->p0, c->v0 * (q_t)h, ac * h * h / 2, 0); SUM(1, (q_t)c->v0, ac * h, 0, 0); SUM(2, ac, 0, 0, 0); }
        else if (x < c->td) { h = x - c->ta; SUM(0, (q_t)c->pa, vc * h, 0, 0); SUM(1, vc, 0, 0, 0); SUM(2, 0, 0, 0, 0); }
        else { h = x - c->td; SUM(0, (q_t)c->pd, vc * h, de * h * h / 2, 0); SUM(1, vc, de * h, 0, 0); SUM(2, de, 0, 0, 0); }
    }
    else
    {
        a_trajbell const *c = q->tb;
        q_t const s = c->p0 > c->p1 ? -1 : 1, p0 = s * c->p0, p1 = s * c->p1, v0 = s * c->v0, v1 = s * c->v1;
        q_t const vm = c->vm, jm = c->jm, am = c->am, dm = c->dm, t = c->t, ta = c->ta, td = c->td, taj = c->taj, tdj = c->tdj, X = x;
        if (x < c->ta)
        {
            if (x < c->taj) { h = x; SUM(0, p0, v0 * h, jm * h * h * h / 6, 0); SUM(1, v0, jm * h * h / 2, 0, 0); SUM(2, jm * h, 0, 0, 0); }
            else if (x < c->ta - c->taj)
            {
                SUM(0, p0, v0 * X, am * (3 * X * X - 3 * X * taj + taj * taj) / 6, 0);
                m[0] += fabsq(am) * X * taj; /* the three addends of the bracket are 3x^2, 3x*taj, taj^2 */
                SUM(1, v0, am * X, -am * taj / 2, 0);
                SUM(2, am, 0, 0, 0);
            }
            else { h = c->ta - x; SUM(0, p0, (vm + v0) * ta / 2, -vm * h, jm * h * h * h / 6); SUM(1, vm, -jm * h * h / 2, 0, 0); SUM(2, jm * h, 0, 0, 0); }
        }
        else if (x < c->t - c->td + c->tdj)
        {
            if (x < c->ta + c->tv) { h = x - c->ta; SUM(0, p0, (vm + v0) * ta / 2, vm * h, 0); SUM(1, vm, 0, 0, 0); SUM(2, 0, 0, 0, 0); }
            else { h = x - (c->t - c->td); SUM(0, p1, -(vm + v1) * td / 2, vm * h, -jm * h * h * h / 6); SUM(1, vm, -jm * h * h / 2, 0, 0); SUM(2, -jm * X, jm * t, -jm * td, 0); }
        }
        else if (x < c->t - c->tdj)
        {
            h = x - (c->t - c->td);
            SUM(0, p1, -(vm + v1) * td / 2, vm * h, dm * (3 * (q_t)h * h - 3 * h * tdj + tdj * tdj) / 6);
            m[0] += fabsq(dm) * h * tdj;
            SUM(1, vm, dm * X, dm * (td - t), -dm * tdj / 2);
            m[1] += fabsq(dm) * 2 * td; /* |t - td| as two addends */
            SUM(2, dm, 0, 0, 0);
        }
        else { h = c->t - x; SUM(0, p1, -v1 * h, -jm * h * h * h / 6, 0); SUM(1, v1, jm * h * h / 2, 0, 0); SUM(2, -jm * h, 0, 0, 0); }
        for (int k = 0; k < 3; ++k) { y[k] *= s; }
    }
}
static void check_onestep(prof *q, vf_rng *r)
{
    static q_t const K[3] = {16, 8, 4};
    static char const *const nm[3] = {"pos(x) vs documented formula", "vel(x) vs documented formula", "acc(x) vs documented formula"};
    for (int i = 0; i < N_ONESTEP; ++i)
    {
        /* half of the instants inside a randomly chosen phase, so that short phases are visited as well */
        int k = (int)vf_below(r, (uint64_t)q->nb - 1);
        a_real x = (i & 1) ? q->T * (a_real)vf_unit(r) : q->b[k] + (q->b[k + 1] - q->b[k]) * (a_real)vf_unit(r);
        int onb = !(x > 0 && x < q->T);
        q_t y[3], m[3];
        samp s = eval_at(q, x);
        a_real const got[3] = {s.p, s.v, s.a};
        for (int j = 0; j < q->nb; ++j) { onb |= x == q->b[j]; }
        if (onb) { continue; }
        documented(q, x, y, m);
        for (int j = 0; j < 3; ++j) { judge(q, O_EVAL, fabsq((q_t)got[j] - y[j]), K[j] * EPS * m[j], x, nm[j], got[j], y[j]); }
    }
}

/* ------------------------------------------------------------------ O2: documented closed forms of the bell planner, binary128 on the request */
static int clear_of(q_t a, q_t b) { return fabsq(a - b) > (q_t)1e-3 * (fabsq(a) + fabsq(b)); }
static void check_plan(prof *q)
{
    a_real const *in = q->in;
    a_trajbell const *c = q->tb;
    q_t const jm = in[0], vm = in[2], s = q->dir, p = s * ((q_t)in[4] - in[3]), v[2] = {s * in[5], s * in[6]};
    if (q->branch == BB_CRUISE)
    {
        q_t const am = in[1], got[2][3] = {{c->taj, c->ta, c->am}, {c->tdj, c->td, -(q_t)c->dm}};
        static char const *const nm[2][3] = {{"taj vs step 1", "ta vs step 1", "am vs step 1"}, {"tdj vs step 2", "td vs step 2", "-dm vs step 2"}};
        q_t want[2][3], tv;
        for (int k = 0; k < 2; ++k)
        {
            q_t dv = vm - v[k];
            if (!clear_of(dv * jm, am * am)) { VF_COUNT("w-plan.skipped-near-branch-condition"); return; }
            if (dv * jm < am * am) { want[k][0] = sqrtq(dv / jm); want[k][1] = 2 * want[k][0]; want[k][2] = jm * want[k][0]; }
            else { want[k][0] = am / jm; want[k][1] = am / jm + dv / am; want[k][2] = am; }
        }
        for (int k = 0; k < 6; ++k) { judge(q, O_PLAN, fabsq(got[k / 3][k % 3] - want[k / 3][k % 3]), 8 * EPS * want[k / 3][k % 3], 0, nm[k / 3][k % 3], got[k / 3][k % 3], want[k / 3][k % 3]); }
        tv = p / vm - want[0][1] * (1 + v[0] / vm) / 2 - want[1][1] * (1 + v[1] / vm) / 2;
        judge(q, O_PLAN, fabsq((q_t)c->tv - tv), 16 * EPS * (p / vm + want[0][1] * (1 + fabsq(v[0]) / vm) / 2 + want[1][1] * (1 + fabsq(v[1]) / vm) / 2), 0, "tv vs step 3", c->tv, tv);
    }
    else if (q->branch == BB_AMAX || q->branch == BB_REDUCED)
    {
        /* step 4 with the acceleration the planner settled on; rounding of Delta is bounded by 8 eps * sum|addends| */
        q_t const am = c->am, tj = am / jm, got[2] = {c->ta, c->td};
        q_t const D = am * tj * am * tj + 2 * (v[0] * v[0] + v[1] * v[1]) + am * (4 * p - 2 * tj * (v[0] + v[1]));
        q_t const MD = am * tj * am * tj + 2 * (v[0] * v[0] + v[1] * v[1]) + am * (4 * p + 2 * tj * fabsq(v[0] + v[1]));
        if (!(D > 0)) { VF_COUNT("w-plan.skipped-near-branch-condition"); return; }
        judge(q, O_PLAN, fabsq((q_t)c->taj - tj) + fabsq((q_t)c->tdj - tj), 4 * EPS * tj, 0, "taj, tdj vs am/jm (step 4)", c->taj, tj);
        judge(q, O_PLAN, fabsq((q_t)c->dm + am), 0, 0, "dm vs -am (step 4c)", c->dm, -am);
        for (int k = 0; k < 2; ++k)
        {
            q_t want = (am * tj + sqrtq(D) - 2 * v[k]) / (2 * am);
            judge(q, O_PLAN, fabsq(got[k] - want), (8 * EPS * MD / sqrtq(D) + 8 * EPS * (am * tj + sqrtq(D) + 2 * fabsq(v[k]))) / (2 * am) + 4 * EPS * fabsq(want), 0, k ? "td vs step 4" : "ta vs step 4", got[k], want);
        }
        judge(q, O_PLAN, fabsq((q_t)c->vm - (v[0] + am * ((q_t)c->ta - c->taj))), 4 * EPS * (fabsq(v[0]) + am * ((q_t)c->ta + c->taj)), 0, "peak velocity vs v0+am(ta-taj) (step 4c)", c->vm, v[0] + am * ((q_t)c->ta - c->taj));
    }
}

/* ------------------------------------------------------------------ E: exact regime, integral of the designed phases */
static void check_exact(prof *q, exref const *e, a_real ret)
{
    judge(q, E_DUR, fabsq((q_t)ret - e->T), 0, 0, "returned duration vs designed duration (all quantities dyadic, every operation exact)", ret, e->T);
    for (int g = -4; g <= (int)(e->T * 8) + 4; ++g)
    {
        a_real const x = (a_real)g / 8;
        q_t rem = x, p = q->p0, v = q->v0, a = 0, j = 0;
        int interior = 0;
        samp s = eval_at(q, x);
        for (int i = 0; i < e->n && rem > 0; ++i)
        {
            q_t h = rem < e->d[i] ? rem : e->d[i];
            if (e->d[i] == 0) { continue; }
            if (!q->gen) { a = e->a[i]; }
            j = e->j[i];
            p += v * h + a * h * h / 2 + j * h * h * h / 6;
            v += a * h + j * h * h / 2;
            a += j * h;
            interior = rem < e->d[i];
            rem -= h;
        }
        if (!interior) { j = 0; if (!q->gen || rem > 0) { a = 0; } }
        if ((q_t)(float)p != p || (q_t)(float)v != v || (q_t)(float)a != a) { VF_COUNT("w-exact.skipped-reference-not-in-24-bits"); continue; }
        judge(q, E_KIN, fabsq((q_t)s.p - p), 0, x, "pos(x) vs integral of the designed phases", s.p, p);
        judge(q, E_KIN, fabsq((q_t)s.v - v), 0, x, "vel(x) vs integral of the designed phases", s.v, v);
        if (q->gen || interior || x < 0 || rem > 0) { judge(q, E_KIN, fabsq((q_t)s.a - a), 0, x, "acc(x) vs designed phases", s.a, a); }
        if (q->gen && (interior || x < 0 || rem > 0)) { judge(q, E_KIN, fabsq((q_t)s.j - j), 0, x, "jer(x) vs designed phases", s.j, j); }
    }
}

/* ------------------------------------------------------------------ one request */
static int bell_feasible(q_t jm, q_t am, q_t p0, q_t p1, q_t v0, q_t v1) /* Biagiotti-Melchiorri 3.17/3.18 */
{
    q_t dv, tj1, tj2 = am / jm;
    if (p0 > p1) { p0 = -p0; p1 = -p1; v0 = -v0; v1 = -v1; }
    dv = fabsq(v1 - v0);
    tj1 = sqrtq(dv / jm);
    return tj1 < tj2 ? p1 - p0 > tj1 * (v0 + v1) : p1 - p0 > (v0 + v1) * (tj2 + dv / am) / 2;
}
/* twin clause (read-back requests): the plan is a function of the request only.  The same request on a fresh 0xA5-filled context must return
   bitwise the same duration, record bitwise the same fields (value bytes only: an x87 long double has 6 bytes of padding) and give the same
   pos/vel/acc/jer at the phase boundaries and 8 interior instants.  Holds on the unchanged tree without any tolerance: every path of both
   generators that returns a positive duration stores all 12 / 14 fields from the arguments. */
static int same_bits(a_real a, a_real b)
{
    size_t const n = sizeof(a_real) == 16 ? 10 : sizeof(a_real);
    return !memcmp(&a, &b, n);
}
/* RECORDED, NOT JUDGED.  That a plan is bitwise the same whatever the context held before is a property of the pinned code (every success path
 * stores all fields from the arguments), not something C14 states: a generator that warm-starts its search from the previous plan, or keeps a
 * correct cache, would differ in the last bits and still satisfy every clause of the property.  The request planned on the used context is judged by
 * all ordinary clauses against ITS limits (that is what catches seeded change C14-J); differences to the fresh-context twin are counted in
 * "twin-differs-from-fresh-context(not judged)" so that drift is visible in the evidence. */
#define TWIN_NOTE(key, ...) ((void)(key), vf_count_dyn("twin-differs-from-fresh-context(not judged)", 1))
static void twin_fresh(prof const *q, a_real ret)
{
    static char const *const fld[2][14] = {{"t", "p0", "p1", "v0", "v1", "vc", "ta", "td", "pa", "pd", "ac", "de", "", ""}, {"t", "tv", "ta", "td", "taj", "tdj", "p0", "p1", "v0", "v1", "vm", "jm", "am", "dm"}};
    int const g = q->gen, nf = g ? 14 : 12;
    void *fresh = malloc(g ? sizeof(a_trajbell) : sizeof(a_trajtrap));
    a_real const *fu = g ? (a_real const *)q->tb : (a_real const *)q->tt, *ff = (a_real const *)fresh;
    a_real const ret2 = call_gen(g, fresh, q->in);
    char rq[700];
    char const *const key = g ? "trajbell/replan-readback/differs-from-fresh-context/" W : "trajtrap/replan-readback/differs-from-fresh-context/" W;
    prof f = *q;
    int bad = 0;
    f.tt = (a_trajtrap *)fresh;
    f.tb = (a_trajbell *)fresh;
    VF_COUNT("w-replan-readback-twin-fresh-context");
    if (!same_bits(ret, ret2))
    {
        TWIN_NOTE(key, "%s returned %La (%.21Lg) on the context that held the plan the arguments were read back from, but %La (%.21Lg) on a fresh garbage-filled context", req_text(q, rq, sizeof(rq)), (L)ret, (L)ret, (L)ret2, (L)ret2);
        bad = 1;
    }
    for (int i = 0; i < nf && !bad; ++i)
    {
        if (same_bits(fu[i], ff[i])) { continue; }
        TWIN_NOTE(key, "%s (duration %La): recorded field %s = %La (%.21Lg) on the context that held the plan the arguments were read back from, but %La (%.21Lg) when planned on a fresh garbage-filled context",
                req_text(q, rq, sizeof(rq)), (L)ret, fld[g][i], (L)fu[i], (L)fu[i], (L)ff[i], (L)ff[i]);
        bad = 1;
    }
    for (int i = 0; i < q->nb + 8 && !bad; ++i)
    {
        a_real const x = i < q->nb ? q->b[i] : ret * (a_real)(2 * (i - q->nb) + 1) / 16;
        samp const a = eval_at(q, x), b = eval_at(&f, x);
        if (same_bits(a.p, b.p) && same_bits(a.v, b.v) && same_bits(a.a, b.a) && same_bits(a.j, b.j)) { continue; }
        TWIN_NOTE(key, "%s: pos/vel/acc/jer at x=%La are %La %La %La %La on the used context, but %La %La %La %La on a fresh context with bitwise the same fields",
                req_text(q, rq, sizeof(rq)), (L)x, (L)a.p, (L)a.v, (L)a.a, (L)a.j, (L)b.p, (L)b.v, (L)b.a, (L)b.j);
        bad = 1;
    }
    free(fresh);
}
enum { RV_EXACT, RV_LIMIT_X2, RV_LIMIT_HALF, RV_LIMIT_ULP, RV_P1_MOVED, RV_V1_CHANGED, RV_LIMITS_NEW_MOVE, RV_BRAKE_SIDE, RV_ORIG_ONE_LIMIT, RV_N };
static char const *const rv_name[RV_N] = {"exact", "one-limit-x2", "one-limit-x0.5", "one-limit-1ulp", "p1-moved", "v1-changed", "limits-only-new-move", "braking-side-as-accel-limit", "original-with-one-limit-read-back"};

/* used != NULL: second request on a context that holds a plan (image *used), arguments built from the fields that plan recorded (variant RV_*;
   differs: 1 the first plan reached other limits than asked for, -1 the first call was declined); an ordinary request in every other respect */
static void run_request(int gen, a_real const in[7], exref const *ex, vf_rng *r, void const *used, int variant, int differs)
{
    prof q;
    char rq[700], name[56];
    a_real ret, vm = in[gen ? 2 : 0];
    memset(&q, 0, sizeof(q));
    q.gen = gen;
    q.replan = used ? 1 + variant : 0;
    memcpy(q.in, in, sizeof(q.in));
    q.tt = (a_trajtrap *)malloc(sizeof(a_trajtrap)); /* exact size: a write past the context hits an ASan red zone */
    q.tb = (a_trajbell *)malloc(sizeof(a_trajbell));
    memset(q.tt, 0xA5, sizeof(a_trajtrap));
    memset(q.tb, 0xA5, sizeof(a_trajbell));
    vf_log("%s%s%s", req_text(&q, rq, sizeof(rq)), ex ? " exact regime" : "", used ? " on the used context" : "");
    q.dir = in[4] < in[3] ? -1 : 1;
    if (used)
    {
        if (gen) { memcpy(q.tb, used, sizeof(a_trajbell)); } else { memcpy(q.tt, used, sizeof(a_trajtrap)); }
        ret = call_gen_on(gen, gen ? (void *)q.tb : (void *)q.tt, in);
        VF_COUNT("w-replan.requests");
    }
    else { ret = call_gen(gen, gen ? (void *)q.tb : (void *)q.tt, in); }
    vf_count_dyn(gen ? "w-bell.requests" : "w-trap.requests", 1);
    /* domain of the property (DESIGN.md C14); outside it, or when the generator declines, nothing is judged */
    if (!(vm > 0 && in[3] != in[4] && a_real_abs(in[5]) <= vm && a_real_abs(in[6]) <= vm) ||
        (gen ? !(in[0] > 0 && in[1] > 0 && bell_feasible(in[0], in[1], in[3], in[4], in[5], in[6])) : !(q.dir * in[1] > 0 && q.dir * in[2] < 0)))
    {
        vf_count_dyn(gen ? "w-bell.outside-domain" : "w-trap.outside-domain", 1);
        if (q.replan) { VF_COUNT("w-replan.not-judged.outside-domain-or-declined"); }
        goto unjudged;
    }
    if (!(ret > 0 && ret - ret == 0))
    {
        vf_count_dyn(gen ? "w-bell.generator-declined" : "w-trap.generator-declined", 1);
        if (q.replan) { VF_COUNT("w-replan.not-judged.outside-domain-or-declined"); }
        goto unjudged;
    }
    q.T = ret;
    q.p0 = in[3]; q.p1 = in[4]; q.v0 = in[5]; q.vlim = vm;
    if (gen == 0)
    {
        a_trajtrap const *c = q.tt;
        q.v1 = c->v1;
        q.vhat = qmax(qmax(fabsq(c->v0), c->v1), c->vc);
        q.ahat = qmax(fabsq(c->ac), c->de);
        q.alo = fabsq(c->ac) < fabsq(c->de) ? fabsq(c->ac) : fabsq(c->de);
        q.Sp = fabsq(q.p0) + fabsq(q.p1) + q.vhat * q.T + q.vhat * q.vhat / q.alo;
        q.C = 16;
        q.b[q.nb++] = 0; q.b[q.nb++] = c->ta; q.b[q.nb++] = c->td; q.b[q.nb++] = c->t;
        q.branch = c->ta == 0 && c->td == 0 ? TB_DECEL : c->ta == c->td && c->td == c->t ? TB_ACCEL : c->ta == c->td ? TB_ACCDEC : TB_CRUISE;
    }
    else
    {
        a_trajbell const *c = q.tb;
        q.v1 = c->v1; q.alim = in[1]; q.jlim = in[0];
        q.vhat = qmax(qmax(fabsq(c->v0), c->v1), c->vm);
        q.ahat = qmax(fabsq(c->am), c->dm);
        q.alo = fabsq(c->am) < fabsq(c->dm) ? fabsq(c->am) : fabsq(c->dm);
        if (q.alo == 0) { q.alo = q.ahat; }
        q.jhat = fabsq(c->jm);
        q.Sp = fabsq(q.p0) + fabsq(q.p1) + q.vhat * q.T + q.vhat * q.vhat / q.alo + q.vhat * q.ahat / q.jhat;
        q.Sa = q.ahat + q.jhat * q.T;
        q.C = 256;
        /* the boundaries exactly as a_trajbell_pos/vel/acc/jer compute them */
        q.b[q.nb++] = 0; q.b[q.nb++] = c->taj; q.b[q.nb++] = c->ta - c->taj; q.b[q.nb++] = c->ta; q.b[q.nb++] = c->ta + c->tv;
        q.b[q.nb++] = c->t - c->td; q.b[q.nb++] = c->t - c->td + c->tdj; q.b[q.nb++] = c->t - c->tdj; q.b[q.nb++] = c->t;
        q.branch = c->tv > 0 ? BB_CRUISE : c->ta == 0 && c->taj == 0 ? BB_DECEL : c->td == 0 && c->tdj == 0 ? BB_ACCEL : c->am == in[1] ? BB_AMAX : BB_REDUCED;
    }
    if (q.replan) { twin_fresh(&q, ret); }
    q.Sv = q.vhat + q.ahat * q.T;
    if (gen && (q.branch == BB_DECEL || q.branch == BB_ACCEL)) { q.Sv += q.jhat * q.T * q.T; q.Sp += q.jhat * q.T * q.T * q.T; } /* refinement (c) */
    q.dt = sensitivity(&q);
    q.up = EPS * q.Sp + q.vhat * q.dt;
    q.uv = EPS * q.Sv + q.ahat * q.dt;
    q.ua = EPS * q.Sa + q.jhat * q.dt;
    q.ut = EPS * q.Sp / q.vhat + q.dt;
    {
        /* refinement (d), found in the float build: the scale model is first order in the time error delta = eps*T + dt.  When a jerk phase is
           shorter than delta (float: eps*T = 0.06 at T = 1e6 against taj = am/jm = 3e-6) the boundaries ta-taj, t-td+tdj collapse onto their
           neighbours and the polynomial of the neighbouring phase is evaluated up to delta outside its phase: velocity moves by jm*delta^2/2,
           position by am*delta^2/2 + jm*delta^3/6.  Witness f32: jm=459.242371 am=0.00153380062 vm=643.358032 p0=-0.284557611 p1=-1.17979813
           v0=-0 v1=643.358032, T=1012410: velocity step 0.224 = 0.5*jm*0.031^2 across ta-taj.  For delta <= taj the terms are below ahat*delta. */
        q_t const de = EPS * q.T + q.dt;
        q.uv += q.jhat * de * de;
        q.up += q.ahat * de * de + q.jhat * de * de * de;
        if (gen && ((q.tb->taj > 0 && de > q.tb->taj) || (q.tb->tdj > 0 && de > q.tb->tdj))) { VF_COUNT("w-bell.weak.jerk-phase-below-time-resolution"); }
    }
    q.uvl = q.uv;
    if (gen == 0 && q.branch == TB_ACCEL) { q.uvl += EPS * q.vhat * (fabsq(q.tt->ac) + fabsq(q.tt->de)) / fabsq(q.tt->de); } /* refinement (b) */
    if (!(finiteq(q.up) && finiteq(q.uv) && finiteq(q.uvl) && finiteq(q.ua) && finiteq(q.ut)))
    {
        /* the +-2 ulp neighbourhood contains a request the generator declines: no finite tolerance, counted, not judged */
        vf_count_dyn(gen ? "w-bell.not-judged.tolerance-unbounded" : "w-trap.not-judged.tolerance-unbounded", 1);
        if (q.replan) { VF_COUNT("w-replan.not-judged.tolerance-unbounded"); }
        goto unjudged;
    }
    snprintf(name, sizeof(name), "w-%s.branch.%s", gen_short[gen], branch_name[gen][q.branch]);
    vf_count_dyn(name, 1);
    vf_count_dyn(gen ? "w-bell.judged" : "w-trap.judged", 1);
    if (q.C * q.up > (q_t)1e-3 * fabsq((q_t)q.p1 - q.p0) || q.C * q.uv > (q_t)1e-3 * q.vhat) { vf_count_dyn(gen ? "w-bell.weak.tolerance>1e-3-of-distance-or-speed" : "w-trap.weak.tolerance>1e-3-of-distance-or-speed", 1); }
    if (q.replan)
    {
        if (differs < 0) { VF_COUNT("w-replan.judged.after-declined-first-plan"); }
        else { VF_COUNT("w-replan-with-limits-read-back-from-context"); }
        vf_count_dyn(gen ? "w-replan.bell.judged" : "w-replan.trap.judged", 1);
        if (differs > 0) { VF_COUNT("w-replan.judged.first-plan-reached-differs-from-asked"); }
        snprintf(name, sizeof(name), "w-replan.judged.%s", rv_name[variant]);
        vf_count_dyn(name, 1);
    }
    ++vf.evals;
    check_profile(&q, r);
    check_onestep(&q, r);
    if (gen) { check_plan(&q); }
    if (ex) { check_exact(&q, ex, ret); }
    vf_distinct(vf_hash64(vf_hash64(vf_hash64(vf_hash64(1400 + sizeof(a_real), (uint64_t)gen), (uint64_t)q.branch), (uint64_t)(q.dir + 1)), ex ? 2 : 1)); /* cell = (width, generator, branch, direction, regime) */
    if (!vf.case_viol && vf_want_sample() && vf.case_no % 29 == 0 && (ex || vf_chance(r, 1, 16)))
    {
        vf_sample("%s -> T=%.9Lg branch=%s%s: kinematic clauses within %g*(eps*S+conditioning), %d one-step formula checks%s: ok", req_text(&q, rq, sizeof(rq)), (L)q.T, branch_name[gen][q.branch],
                  ex ? " (exact regime: duration and pos/vel/acc/jer on the 1/8 grid == designed kinematics)" : "", (double)q.C, (int)N_ONESTEP, gen ? ", planner closed forms" : "");
    }
    goto done;
unjudged:
    for (int i = -1; i <= 5; ++i) { volatile samp s = eval_at(&q, (ret - ret == 0 ? a_real_abs(ret) : 1) * (a_real)i / 4); (void)s; } /* still runs under the sanitizers */
done:
    free(q.tt);
    free(q.tb);
}

/* ------------------------------------------------------------------ workload */
static double pick_kappa(vf_rng *r) /* 1, or 1 +- a little */
{
    static double const off[] = {0, 1e-15, 1e-9, 1e-6, 1e-3, 1e-1};
    unsigned k = (unsigned)vf_below(r, 7);
    return 1 + vf_sign(r) * (k == 6 ? vf_logu(r, -16, -1) : off[k]);
}
static double pick_vel(vf_rng *r, double vm) /* boundary velocity in the travel frame */
{
    switch (vf_below(r, 8))
    {
    case 0: case 1: return 0;
    case 2: return vf_chance(r, 1, 2) ? vm : -vm;
    case 3: return vf_uniform(r, -vm, vm);
    case 4: case 5: return vf_uniform(r, 0, vm);
    case 6: return vm * (1 - vf_logu(r, -16, -1));
    default: return vm * vf_logu(r, -6, 0) * vf_sign(r);
    }
}
static void place(vf_rng *r, double d, int dir, double v0, double v1, a_real in[7])
{
    /* start at 0 (half of the requests), unrelated to the distance, far from the origin relative to the distance, crossing the origin */
    unsigned k = (unsigned)vf_below(r, 6);
    double p0 = k == 0 ? vf_sign(r) * vf_logu(r, -3, 4) : k == 1 ? vf_sign(r) * d * vf_logu(r, 0, 2) : k == 2 ? -dir * d * vf_unit(r) * 2 : 0;
    in[3] = (a_real)p0; in[4] = (a_real)(p0 + dir * d); in[5] = (a_real)(dir * v0); in[6] = (a_real)(dir * v1);
}
static void make_trap(vf_rng *r, a_real in[7])
{
    unsigned style = (unsigned)vf_below(r, 12);
    int dir = vf_chance(r, 1, 2) ? 1 : -1;
    double vm = vf_logu(r, -3, 3), A = vf_logu(r, -3, 3), D = vf_chance(r, 1, 4) ? A : vf_logu(r, -3, 3), d = vf_logu(r, -6, 6);
    double v0 = pick_vel(r, vm), v1 = pick_vel(r, vm);
    if (style >= 6 && style < 11)
    {
        /* tuned to a branch condition: solve vc^2 = kappa*target for the distance (travel frame), target = vm^2, v0^2, v1^2 */
        double target = vm * vm, pp;
        if (style >= 8) { if ((fabs(v0) < fabs(v1)) == (style < 10)) { double t = v0; v0 = v1; v1 = t; } target = style < 10 ? v0 * v0 : v1 * v1; }
        pp = (pick_kappa(r) * target * (A + D) - v1 * v1 * A - v0 * v0 * D) / (2 * A * D);
        if (pp > 0 && isfinite(pp)) { d = pp; }
    }
    else if (style == 11) { if (vf_chance(r, 1, 2)) { d = vf_logu(r, -6, -3); v0 = vm * vf_uniform(r, 0.5, 1); } else { d = vf_logu(r, 3, 6); } }
    in[0] = (a_real)vm; in[1] = (a_real)(dir * A); in[2] = (a_real)(-dir * D);
    place(r, d, dir, v0, v1, in);
}
static void make_bell(vf_rng *r, a_real in[7])
{
    unsigned style = (unsigned)vf_below(r, 16);
    int dir = vf_chance(r, 1, 2) ? 1 : -1;
    double jm = vf_logu(r, -3, 3), am = vf_logu(r, -3, 3), vm = vf_logu(r, -3, 3), d = vf_logu(r, -6, 6);
    double v0 = pick_vel(r, vm), v1 = pick_vel(r, vm), ta, td;
    if (style >= 6 && style < 10)
    {
        /* tv ~ 0 (style 6, 7) or ta ~ 2 taj / td ~ 2 tdj, i.e. (vm - v) jm ~ am^2 (style 8, 9) */
        if (style >= 8)
        {
            if (am * am / jm > 2 * vm) { am = sqrt(vm * jm * vf_uniform(r, 0.05, 1.9)); }
            if (style == 8 || vf_chance(r, 1, 2)) { v0 = vm - pick_kappa(r) * am * am / jm; } else { v1 = vm - pick_kappa(r) * am * am / jm; }
        }
        ta = (vm - v0) * jm < am * am ? 2 * sqrt((vm - v0) / jm) : am / jm + (vm - v0) / am;
        td = (vm - v1) * jm < am * am ? 2 * sqrt((vm - v1) / jm) : am / jm + (vm - v1) / am;
        d = vm * (0.5 * ta * (1 + v0 / vm) + 0.5 * td * (1 + v1 / vm)) * (style < 8 ? pick_kappa(r) : vf_logu(r, -0.5, 1.5));
    }
    else if (style >= 10 && style < 14)
    {
        /* single-phase requests (ta < 0 or td < 0 in step 4): just above the shortest distance in which v0 -> v1 can be done */
        double hi = vf_chance(r, 1, 8) ? vm : vm * vf_unit(r), lo = vf_chance(r, 1, 8) ? 0 : hi * vf_unit(r), dv = hi - lo, tj1 = sqrt(dv / jm), dm;
        if (style & 1) { v0 = hi; v1 = lo; } else { v0 = lo; v1 = hi; }
        dm = tj1 < am / jm ? tj1 * (v0 + v1) : 0.5 * (v0 + v1) * (am / jm + dv / am);
        if (dm > 0) { d = dm * (1 + vf_logu(r, -9, 0.7)); }
    }
    else if (style == 14)
    {
        /* short slow moves: acceleration limit not reachable -> iterative reduction of am */
        v0 = vf_chance(r, 1, 2) ? 0 : vm * vf_logu(r, -4, -1);
        v1 = vf_chance(r, 1, 2) ? 0 : vm * vf_logu(r, -4, -1);
        d = am * am * am / (jm * jm) * vf_logu(r, -4, 0.5);
        if (!(d > 1e-9 && d < 1e9)) { d = vf_logu(r, -6, 0); }
    }
    if (!(d > 0 && isfinite(d))) { d = 1; }
    in[0] = (a_real)jm; in[1] = (a_real)am; in[2] = (a_real)vm;
    place(r, d, dir, v0, v1, in);
}
/* exact regime, trapezoid: peak speed, boundary speeds k/4 vm, cruise time in quarters; accel-only / decel-only with a requested v1 the move cannot reach */
static void exact_trap(vf_rng *r, a_real in[7], exref *e)
{
    int const dir = vf_chance(r, 1, 2) ? 1 : -1, br = (int)vf_below(r, 4);
    q_t const A = (q_t)(1 << vf_below(r, 3)), D = (q_t)(1 << vf_below(r, 3)), vm = (q_t)(2 << vf_below(r, 2)), u = vm / 4;
    int const k = (int)vf_range(r, 1, 4), k0 = (int)vf_range(r, -(k - 1), k - 1), k1 = (int)vf_range(r, -(k - 1), k - 1);
    q_t v0 = u * k0, v1 = u * k1, peak = u * k, ve = v1, tc = 0, d;
    if (br == TB_CRUISE) { peak = vm; v0 = u * vf_range(r, -4, 4); ve = v1 = u * vf_range(r, -4, 4); tc = (q_t)vf_range(r, 1, 16) / 4; }
    else if (br == TB_ACCEL) { ve = peak; v1 = u * vf_range(r, k, 4) * (k == 4 || vf_chance(r, 3, 4) ? 1 : -1); }                          /* requested |v1| >= reachable speed */
    else if (br == TB_DECEL) { v0 = peak; ve = u * vf_range(r, 0, k - 1); v1 = vf_chance(r, 1, 2) ? ve : -ve * (q_t)vf_range(r, 0, 1); } /* requested |v1| <= reachable speed */
    e->n = 3;
    e->d[0] = (peak - v0) / A; e->a[0] = dir * A;
    e->d[1] = tc;
    e->d[2] = (peak - ve) / D; e->a[2] = -dir * D;
    e->T = e->d[0] + tc + e->d[2];
    d = (peak * peak - v0 * v0) / (2 * A) + peak * tc + (peak * peak - ve * ve) / (2 * D);
    in[0] = (a_real)vm; in[1] = (a_real)(dir * A); in[2] = (a_real)(-dir * D);
    in[3] = (a_real)vf_range(r, -8, 8); in[4] = in[3] + (a_real)(dir * d); in[5] = (a_real)(dir * v0); in[6] = (a_real)(dir * v1);
}
/* exact regime, bell: cruise time in quarters, or no cruise with v0 = v1 and ta = td = n*tj, n = 2, 2.5, .. 4 (then Delta is a perfect square) */
static void exact_bell(vf_rng *r, a_real in[7], exref *e)
{
    int const dir = vf_chance(r, 1, 2) ? 1 : -1;
    q_t const jm = (q_t)(3 << vf_below(r, 2)), tj = vf_chance(r, 1, 2) ? 1 : (q_t)0.5, am = jm * tj, vm = (q_t)(6 << vf_below(r, 2)), u = vm / 4;
    q_t v[2] = {u * vf_range(r, -2, 4), u * vf_range(r, -2, 4)}, tjk[2], tk[2], peak = vm, tc = (q_t)vf_range(r, 1, 16) / 4, d;
    if (vf_chance(r, 1, 3))
    {
        q_t n = 2 + (q_t)vf_range(r, 0, 4) / 2;
        v[0] = v[1] = u * vf_range(r, 0, 2);
        while (v[0] + (n - 1) * am * tj > vm && n > 2) { n -= (q_t)0.5; }
        if (v[0] + (n - 1) * am * tj > vm) { v[0] = v[1] = 0; }
        peak = v[0] + (n - 1) * am * tj; /* <= vm by the choice of the parameter sets */
        tc = 0;
        tjk[0] = tjk[1] = tj;
        tk[0] = tk[1] = n * tj;
    }
    else
    {
        for (int k = 0; k < 2; ++k)
        {
            q_t dv = vm - v[k], s = sqrtq(dv / jm);
            if (dv * jm < am * am && (s * s != dv / jm || s * 8 != floorq(s * 8))) { v[k] = 0; dv = vm; } /* inexact square root: use v = 0 (am reached) */
            if (dv * jm < am * am) { tjk[k] = s; tk[k] = 2 * s; }
            else { tjk[k] = tj; tk[k] = tj + dv / am; }
        }
    }
    e->n = 7;
    e->d[0] = tjk[0]; e->d[1] = tk[0] - 2 * tjk[0]; e->d[2] = tjk[0]; e->d[3] = tc; e->d[4] = tjk[1]; e->d[5] = tk[1] - 2 * tjk[1]; e->d[6] = tjk[1];
    e->j[0] = e->j[6] = dir * jm; e->j[2] = e->j[4] = -dir * jm;
    e->T = tk[0] + tc + tk[1];
    d = tk[0] * (peak + v[0]) / 2 + peak * tc + tk[1] * (peak + v[1]) / 2;
    in[0] = (a_real)jm; in[1] = (a_real)am; in[2] = (a_real)vm;
    in[3] = (a_real)(u * vf_range(r, -8, 8)); in[4] = in[3] + (a_real)(dir * d); in[5] = (a_real)(dir * v[0]); in[6] = (a_real)(dir * v[1]);
}

/* ------------------------------------------------------------------ R: second request on a used context (compact version of h_traj.c)
 * First plans: trapezoid - cruise / peak below vm / accel-only with an unreachable v1 / decel-only; bell - cruise with one side below am and the
 * other side harder, both sides below am, short moves (neither am nor vm reached), single-phase moves; plus the ordinary mix; both directions. */
static void first_trap(vf_rng *r, a_real in[7])
{
    unsigned style = (unsigned)vf_below(r, 8);
    int dir = vf_chance(r, 1, 2) ? 1 : -1;
    double vm = vf_logu(r, -3, 3), A = vf_logu(r, -3, 3), D = vf_chance(r, 1, 4) ? A : vf_logu(r, -3, 3), peak, v0, v1, d;
    if (style >= 6) { make_trap(r, in); return; }
    peak = style == 0 ? vm : vm * vf_uniform(r, 0.05, 1);
    v0 = peak * vf_uniform(r, -0.2, 1);
    v1 = vf_chance(r, 1, 3) ? 0 : peak * vf_uniform(r, -0.5, 1);
    if (vf_chance(r, 2, 3) && fabs(v1) > fabs(v0)) { double t = v0; v0 = v1; v1 = t; } /* v1 further from the peak than v0 */
    d = (peak * peak - v0 * v0) / (2 * A) + (peak * peak - v1 * v1) / (2 * D);
    if (style == 0) { d += vm * (vm / A + vm / D) * vf_logu(r, -3, 2); }
    else if (style == 4) { v0 = peak * vf_uniform(r, -0.2, 0.95); d = (peak * peak - v0 * v0) / (2 * A); v1 = vm * vf_uniform(r, peak / vm, 1); }
    else if (style == 5) { v0 = peak; v1 = peak * vf_unit(r); d = (v0 * v0 - v1 * v1) / (2 * D); v1 *= vf_chance(r, 1, 4) ? -vf_unit(r) : vf_unit(r); }
    if (!(d > 0 && isfinite(d))) { d = vf_logu(r, -6, 6); }
    in[0] = (a_real)vm; in[1] = (a_real)(dir * A); in[2] = (a_real)(-dir * D);
    place(r, d, dir, v0, v1, in);
}
static void first_bell(vf_rng *r, a_real in[7])
{
    unsigned style = (unsigned)vf_below(r, 10);
    int dir = vf_chance(r, 1, 2) ? 1 : -1;
    double jm = vf_logu(r, -3, 3), am = vf_logu(r, -3, 3), vm = vf_logu(r, -3, 3), d = vf_logu(r, -6, 6), v0 = pick_vel(r, vm), v1 = pick_vel(r, vm), ta, td, k = 0;
    if (style >= 8) { make_bell(r, in); return; }
    if (style < 3)
    {
        /* cruise; run-up below am ((vm-v0)*jm < am^2 -> ctx->am = jm*sqrt((vm-v0)/jm) < am), braking side further from vm and harder; style 2 mirrored */
        if (am * am / jm > vm) { am = sqrt(vm * jm * vf_uniform(r, 0.05, 1)); }
        v0 = vm - am * am / jm * vf_uniform(r, 0.02, 0.98);
        v1 = style == 0 ? 0 : vf_uniform(r, -vm, v0);
        if (style == 2) { double t = v0; v0 = v1; v1 = t; }
        k = 1 + vf_logu(r, -3, 1.5);
    }
    else if (style == 3)
    {
        /* cruise; am out of reach on both sides, the two sides reach different accelerations */
        am = sqrt(2 * vm * jm) * vf_uniform(r, 1, 3);
        v0 = vf_uniform(r, -vm, vm); v1 = vf_chance(r, 1, 3) ? 0 : vf_uniform(r, -vm, vm);
        k = 1 + vf_logu(r, -3, 1.5);
    }
    else if (style < 6)
    {
        /* no cruise: ctx->vm = peak velocity below vm, ctx->am = the reduced acceleration */
        v0 = vf_chance(r, 1, 2) ? 0 : vm * vf_logu(r, -4, -0.3);
        v1 = vf_chance(r, 1, 2) ? 0 : vm * vf_logu(r, -4, -0.3);
        /* entering (leaving) against the direction of travel: the peak velocity the plan records may be below |v0| (|v1|) */
        if (vf_chance(r, 1, 4)) { v0 = -vm * vf_unit(r); }
        else if (vf_chance(r, 1, 4)) { v1 = -vm * vf_unit(r); }
        k = vf_logu(r, -3, -0.01);
    }
    else
    {
        /* single-phase moves */
        double hi = vf_chance(r, 1, 8) ? vm : vm * vf_unit(r), lo = vf_chance(r, 1, 8) ? 0 : hi * vf_unit(r), dv = hi - lo, tj1 = sqrt(dv / jm), dm;
        if (style & 1) { v0 = hi; v1 = lo; } else { v0 = lo; v1 = hi; }
        dm = tj1 < am / jm ? tj1 * (v0 + v1) : 0.5 * (v0 + v1) * (am / jm + dv / am);
        if (dm > 0) { d = dm * (1 + vf_logu(r, -9, 0.7)); }
    }
    if (k > 0)
    {
        ta = (vm - v0) * jm < am * am ? 2 * sqrt((vm - v0) / jm) : am / jm + (vm - v0) / am;
        td = (vm - v1) * jm < am * am ? 2 * sqrt((vm - v1) / jm) : am / jm + (vm - v1) / am;
        d = vm * (0.5 * ta * (1 + v0 / vm) + 0.5 * td * (1 + v1 / vm)) * k;
        if (style == 5) { d = am * am * am / (jm * jm) * vf_logu(r, -4, 0.5); if (!(d > 1e-9 && d < 1e9)) { d = vf_logu(r, -6, 0); } }
    }
    if (!(d > 0 && isfinite(d))) { d = 1; }
    in[0] = (a_real)jm; in[1] = (a_real)am; in[2] = (a_real)vm;
    place(r, d, dir, v0, v1, in);
}
static a_real ulp1(vf_rng *r, a_real x) { return a_real_nextafter(x, vf_chance(r, 1, 2) ? (a_real)INFINITY : -(a_real)INFINITY); }
/* rb[] = the arguments read back from the fields that carry the names of the parameters (trapezoid: no vm field, the plan runs at |ctx->vc|) */
static void second_request(int gen, vf_rng *r, a_real const rb[7], a_real brake, a_real const in1[7], int variant, a_real in2[7])
{
    int k = (int)vf_below(r, 3); /* which limit */
    a_real const vm = a_real_abs(gen ? rb[2] : rb[0]), d = rb[4] - rb[3];
    memcpy(in2, rb, 7 * sizeof(a_real));
    switch (variant)
    {
    case RV_EXACT: break;
    case RV_LIMIT_X2: in2[k] = 2 * rb[k]; break;
    case RV_LIMIT_HALF: in2[k] = rb[k] / 2; break;
    case RV_LIMIT_ULP: in2[k] = ulp1(r, rb[k]); break;
    case RV_P1_MOVED:
        k = (int)vf_below(r, 4);
        in2[4] = k == 0 ? rb[3] + 2 * d : k == 1 ? rb[3] + d / 2 : k == 2 ? ulp1(r, rb[4]) : rb[3] + d * (a_real)vf_logu(r, -1, 1);
        break;
    case RV_V1_CHANGED:
        k = (int)vf_below(r, 6);
        in2[6] = k == 0 ? (rb[6] == 0 ? vm / 2 * (d < 0 ? -1 : 1) : 0) : k == 1 ? rb[6] / 2 : k == 2 ? -rb[6] : k == 3 ? vm * (a_real)vf_uniform(r, -1, 1) : k == 4 ? ulp1(r, rb[6]) : in1[6];
        break;
    case RV_LIMITS_NEW_MOVE:
    {
        int dir = vf_chance(r, 1, 2) ? 1 : -1;
        double nd = vf_chance(r, 1, 2) ? vf_logu(r, -6, 6) : fabs((double)d) * vf_logu(r, -2, 2), w = vm - vm == 0 ? (double)vm : 0;
        if (!(nd > 0 && isfinite(nd))) { nd = 1; }
        if (!gen && dir * d < 0) { in2[1] = -rb[1]; in2[2] = -rb[2]; } /* trapezoid: the signs of ac / de follow the direction of travel */
        {
            double const w0 = pick_vel(r, w), w1 = pick_vel(r, w);
            place(r, nd, dir, w0, w1, in2);
        }
        break;
    }
    case RV_BRAKE_SIDE: in2[1] = -brake; break; /* the braking side of the recorded plan as the acceleration limit of the next one */
    default: /* the first request once more, with one limit replaced by the value read back */
        memcpy(in2, in1, 7 * sizeof(a_real));
        if (gen) { k = 1 + (k & 1); in2[k] = rb[k]; } else { in2[0] = rb[0]; }
        break;
    }
}
static void replan_sequence(int gen, vf_rng *r)
{
    static unsigned char const pick[12] = {RV_EXACT, RV_EXACT, RV_EXACT, RV_EXACT, RV_LIMIT_X2, RV_LIMIT_HALF, RV_LIMIT_ULP, RV_P1_MOVED, RV_V1_CHANGED, RV_LIMITS_NEW_MOVE, RV_BRAKE_SIDE, RV_ORIG_ONE_LIMIT};
    size_t const n = gen ? sizeof(a_trajbell) : sizeof(a_trajtrap);
    void *ctx = malloc(n); /* exact size */
    a_trajtrap const *t = (a_trajtrap const *)ctx;
    a_trajbell const *b = (a_trajbell const *)ctx;
    a_real in1[7], in2[7], rb[7], ret1, brake;
    int const variant = pick[vf_below(r, 12)];
    int differs;
    if (gen) { first_bell(r, in1); } else { first_trap(r, in1); }
    memset(ctx, vf_chance(r, 1, 2) ? 0 : 0xA5, n);
    vf_log("first plan on the context: %s(%La, %La, %La, %La, %La, %La, %La)", gen ? "a_trajbell_gen[" W "] jm am vm p0 p1 v0 v1" : "a_trajtrap_gen[" W "] vm ac de p0 p1 v0 v1",
           (L)in1[0], (L)in1[1], (L)in1[2], (L)in1[3], (L)in1[4], (L)in1[5], (L)in1[6]);
    ret1 = call_gen_on(gen, ctx, in1);
    VF_COUNT("w-replan.first-plans");
    if (!(ret1 > 0 && ret1 - ret1 == 0))
    {
        /* the context holds whatever the declined call left there; the second request is then a variation of the first one, not a read-back */
        VF_COUNT("w-replan.first-plan-declined");
        differs = -1;
        memcpy(rb, in1, sizeof(rb));
        brake = gen ? -in1[1] : in1[2];
    }
    else if (gen)
    {
        rb[0] = b->jm; rb[1] = b->am; rb[2] = b->vm; rb[3] = b->p0; rb[4] = b->p1; rb[5] = b->v0; rb[6] = b->v1;
        brake = b->dm;
        differs = b->am != a_real_abs(in1[1]) || b->vm != a_real_abs(in1[2]);
        if (b->tv > 0 && -b->dm > b->am) { VF_COUNT("w-replan.first.bell.cruise-braking-harder-than-run-up"); }
    }
    else
    {
        rb[0] = a_real_abs(t->vc); rb[1] = t->ac; rb[2] = t->de; rb[3] = t->p0; rb[4] = t->p1; rb[5] = t->v0; rb[6] = t->v1;
        brake = t->de;
        differs = a_real_abs(t->vc) != a_real_abs(in1[0]) || t->v1 != in1[6];
    }
    vf_log("first plan returned %La; second request on the same context: '%s'", (L)ret1, rv_name[variant]);
    second_request(gen, r, rb, brake, in1, variant, in2);
    run_request(gen, in2, NULL, r, ctx, variant, differs);
    free(ctx);
}

static void vf_case(uint64_t case_no, vf_rng *r)
{
    for (int i = 0; i < REQ_PER_CASE; ++i)
    {
        a_real in[7];
        exref e;
        int gen = (int)((case_no + (uint64_t)i) & 1), exact = i % 4 >= 2;
        memset(&e, 0, sizeof(e));
        if (exact) { if (gen) { exact_bell(r, in, &e); } else { exact_trap(r, in, &e); } }
        else if (gen) { make_bell(r, in); }
        else { make_trap(r, in); }
        run_request(gen, in, exact ? &e : NULL, r, NULL, 0, 0);
    }
    /* after the ordinary requests (their random stream is as it was before these were added) */
    for (int i = 0; i < REPLAN_PER_CASE; ++i) { replan_sequence((int)((case_no + (uint64_t)i) & 1), r); }
    flush_clauses();
}
