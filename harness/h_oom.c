#ifndef _GNU_SOURCE
#define _GNU_SOURCE
#endif
/* C07 - allocation failure never corrupts a container or leaks memory.
 *
 * Fault enumeration through the library's own extension point, the a_alloc function pointer:
 * for every generated history H (ops on one vec, buf, str or que), H is run once fault-free to count
 * its A(H) allocation requests and then, FROM SCRATCH, once per k in 1..A(H) with request k failing
 * (single fault; the failed op is retried and must then succeed) and once with every request >= k
 * failing (persistent fault).  A ledger of live blocks audits leaks / double frees / foreign frees.
 */
#define VF_PROP "C07"
#include "vf_common.h"
#include <limits.h>
#include "a/vec.h"
#include "a/buf.h"
#include "a/str.h"
#include "a/que.h"
#include "a/utf.h"

/* ------------------------------------------------------------------ failing allocator + ledger */
#define LCAP 4096
static struct { void *p; size_t n; } ledger[LCAP];
static size_t ledger_live;
static uint64_t req_count;     /* size>0 requests seen in this run */
static uint64_t fail_at;       /* 0 = never */
static int fail_persistent;
static int fault_fired;        /* set when a request was refused; cleared by the op runner */
static uint64_t fired_total;
static int req_in_op;          /* index of the request inside the current op */
static int fired_req_in_op = -1;
static char const *cur_kind = "vec", *cur_op = "op";

static size_t lslot(void *p) { return (size_t)(((uintptr_t)p >> 4) * 0x9E3779B97F4A7C15ULL >> 52) & (LCAP - 1); }
static void ledger_add(void *p, size_t n)
{
    size_t i = lslot(p);
    while (ledger[i].p) { i = (i + 1) & (LCAP - 1); }
    ledger[i].p = p;
    ledger[i].n = n;
    ++ledger_live;
}
static int ledger_del(void *p)
{
    size_t i = lslot(p), j;
    while (ledger[i].p != p)
    {
        if (!ledger[i].p) { return 0; }
        i = (i + 1) & (LCAP - 1);
    }
    for (j = (i + 1) & (LCAP - 1); ledger[j].p; j = (j + 1) & (LCAP - 1))
    {
        size_t k = lslot(ledger[j].p);
        if ((i <= j) ? (k <= i || k > j) : (k <= i && k > j))
        {
            ledger[i] = ledger[j];
            i = j;
        }
    }
    ledger[i].p = NULL;
    --ledger_live;
    return 1;
}
static size_t ledger_size(void *p)
{
    size_t i = lslot(p);
    while (ledger[i].p != p)
    {
        if (!ledger[i].p) { return 0; }
        i = (i + 1) & (LCAP - 1);
    }
    return ledger[i].n;
}
static void ledger_release_all(void)
{
    for (size_t i = 0; i < LCAP; ++i)
    {
        if (ledger[i].p) { free(ledger[i].p); ledger[i].p = NULL; }
    }
    ledger_live = 0;
}

/* "BARE" runs (unsanitised configurations only: os-unsanitised, o3-unsanitised): a_alloc is left at the library's default allocator - no hook at all, which is how every user
   who does not install one runs - and the refusal comes from the C library itself: this file defines `realloc`, which preempts glibc's for the whole program (the static
   liba.a included), passes everything on to __libc_realloc and refuses the k-th growth request made while a library call is in flight. Code that behaves differently when
   `a_alloc == a_alloc_` (seeded change C07-N: after a refused growth it asks malloc_usable_size whether the old block happens to be big enough, carries on, and records
   the amortised capacity for a block that only holds the requested one) is dead under any hook, and inert under ASan / valgrind, whose usable size is the requested size. */
#if !defined(__SANITIZE_ADDRESS__) && !defined(__SANITIZE_THREAD__) && defined(__GLIBC__)
#define VF_BARE 1
#include <malloc.h>
#include <dlfcn.h>
#include <valgrind/valgrind.h>
static int bare_on; /* a library call of a bare run is in flight */
#else
#define VF_BARE 0
#endif
/* per case: grants, releases and refusals go through the library's default allocator a_alloc_ (1) or straight to the C library (0) */
static int native_alloc;
static void *vf_alloc_fn(void *addr, a_size size)
{
    if (size)
    {
        void *p;
        ++req_count;
        ++req_in_op;
        /* plan 2, "tight memory": from request fail_at on, every request that needs NEW memory is refused (fresh blocks, growth), while a request that
           fits in the block it already has (same size, shrink) is granted - how an allocator on an exhausted heap behaves (seeded change C05-M: a
           growth retried with halved increments ends with increment 0, which is granted, and is then taken for growth) */
        if (fail_at && (fail_persistent == 2 ? req_count >= fail_at && (!addr || size > ledger_size(addr)) : fail_persistent ? req_count >= fail_at : req_count == fail_at))
        {
            fault_fired = 1;
            ++fired_total;
            if (fired_req_in_op < 0) { fired_req_in_op = req_in_op; }
            if (native_alloc)
            {
                /* the refusal comes from the library's OWN default allocator: the request is passed on with a size the C library cannot satisfy, so that
                   the failure branch of a_alloc_ runs (seeded change C07-L: a_alloc_ releases the old block when realloc fails - every container then
                   reports the failure correctly and keeps a dangling pointer).  The old block must stay alive, exactly as with realloc. */
                void *q = a_alloc_(addr, (a_size)-1 / 2);
                VF_COUNT("refusal-produced-by-the-default-allocator-itself");
                if (q) { fprintf(stderr, "h_oom: the C library granted SIZE_MAX/2 bytes\n"); exit(2); }
            }
            return NULL; /* like realloc: the old block stays alive */
        }
        if (addr)
        {
            if (!ledger_del(addr))
            {
                char key[96];
                snprintf(key, sizeof(key), "%s_%s/resize-of-block-the-allocator-never-issued", cur_kind, cur_op);
                vf_viol(key, "resize of %p", addr);
                return NULL;
            }
            p = native_alloc ? a_alloc_(addr, size) : realloc(addr, size);
        }
        else { p = native_alloc ? a_alloc_(NULL, size) : malloc(size); }
        if (!p) { fprintf(stderr, "h_oom: real out of memory\n"); exit(2); }
        ledger_add(p, size);
        return p;
    }
    if (addr)
    {
        if (!ledger_del(addr))
        {
            char key[96];
            snprintf(key, sizeof(key), "%s_%s/double-free-or-foreign-free", cur_kind, cur_op);
            vf_viol(key, "release of %p which is not a live block of the allocator", addr);
            return NULL;
        }
        if (native_alloc) { (void)a_alloc_(addr, 0); } else { free(addr); }
    }
    return NULL;
}

#if VF_BARE
void *realloc(void *p, size_t n)
{
    if (bare_on && p && n)
    {
        ++req_count;
        ++req_in_op;
        if (fail_at && (fail_persistent ? req_count >= fail_at : req_count == fail_at))
        {
            fault_fired = 1;
            ++fired_total;
            if (fired_req_in_op < 0) { fired_req_in_op = req_in_op; }
            return NULL; /* the old block stays alive */
        }
    }
    {
        /* the next definition in lookup order: glibc's, or valgrind's replacement of it in the memcheck pass (calling __libc_realloc directly would hand valgrind's blocks to glibc) */
        static void *(*next_realloc)(void *, size_t);
        if (!next_realloc) { next_realloc = (void *(*)(void *, size_t))dlsym(RTLD_NEXT, "realloc"); }
        if (!next_realloc) { fprintf(stderr, "h_oom: no realloc behind the interposed one\n"); _exit(2); }
        return next_realloc(p, n);
    }
}
#endif

/* ------------------------------------------------------------------ history description */
enum
{
    /* shared numbering; each kind interprets the subset it supports */
    O_NEW, O_DIE,
    O_PUSH_BACK, O_PUSH_FORE, O_INSERT, O_PUSH_SORT, O_PULL_BACK, O_PULL_FORE, O_REMOVE, O_STORE, O_ERASE,
    O_SETN, O_SETM, O_SETZ, O_DROP,
    O_CATC, O_CATC_, O_CATN, O_CATN_, O_CATS, O_CATF, O_UTFC, O_GETC, O_GETN, O_SETM_, O_EXIT, O_CAT,
    O_NOPS
};
static char const *const op_names[] = {"new", "die", "push_back", "push_fore", "insert", "push_sort", "pull_back", "pull_fore", "remove",
                                       "store", "erase", "setn", "setm", "setz", "drop", "catc", "catc_", "catn", "catn_", "cats", "catf",
                                       "utf_catc", "getc", "getn", "setm_", "exit", "cat"};
typedef struct
{
    int op;
    size_t a, b;
    uint32_t serial;
    unsigned char key;
} opd;

#define ST_OK 0
#define ST_FAIL 1   /* the operation reported failure */
#define ST_SKIP 2   /* precondition not met, nothing executed */
#define ST_BROKEN 3 /* a monitor fired: stop driving this container */

#define FAIL(clause, ...)                                                  \
    do {                                                                   \
        char key_[128];                                                    \
        snprintf(key_, sizeof(key_), "%s_%s/%s", cur_kind, cur_op, clause); \
        vf_viol(key_, __VA_ARGS__);                                        \
    } while (0)

/* ================================================================== vec / buf */
#define SMAX 96
#define SSZ 24
typedef struct
{
    int is_buf;
    a_vec *v;
    a_buf *b;
    size_t siz, n;
    unsigned char e[SMAX][SSZ];
    size_t mem_before;
} seqst;

static int cmp_style; /* per case: the documented comparator contract is only the sign of the result */
static int seq_cmp(void const *l, void const *r)
{
    int const a = *(unsigned char const *)l, b = *(unsigned char const *)r;
    switch (cmp_style)
    {
    case 1: return a - b;
    case 2: return a < b ? INT_MIN : a > b ? INT_MAX : 0;
    case 3: return a < b ? -2 - (b - a) % 5 : a > b ? 2 + (a - b) % 7 : 0;
    default: return (a > b) - (a < b);
    }
}
static void seq_mk(seqst *s, opd const *o, unsigned char *out, unsigned extra)
{
    memset(out, 0, SSZ);
    out[0] = o->key;
    for (size_t i = 1; i < s->siz; ++i) { out[i] = (unsigned char)((o->serial + extra) >> (8 * ((i - 1) & 3))); }
}
static int seq_alive(seqst *s) { return s->is_buf ? s->b != NULL : s->v != NULL; }
static size_t seq_num(seqst *s) { return s->is_buf ? a_buf_num(s->b) : a_vec_num(s->v); }
static size_t seq_mem(seqst *s) { return s->is_buf ? a_buf_mem(s->b) : a_vec_mem(s->v); }
static unsigned char *seq_ptr(seqst *s) { return (unsigned char *)(s->is_buf ? a_buf_ptr(s->b) : a_vec_ptr(s->v)); }

static int seq_check(seqst *s, int after_failure)
{
    if (!seq_alive(s)) { return 1; }
    VF_COUNT("seq-state-compared-with-model");
    if ((s->is_buf ? a_buf_siz(s->b) : a_vec_siz(s->v)) != s->siz) { FAIL("element-size-changed", "after %s", after_failure ? "a failed call" : "a call"); return 0; }
    if (seq_num(s) != s->n) { FAIL(after_failure ? "count-changed-by-failed-call" : "count", "library %zu model %zu", seq_num(s), s->n); return 0; }
    if (seq_num(s) > seq_mem(s)) { FAIL("count-exceeds-capacity", "num %zu mem %zu", seq_num(s), seq_mem(s)); return 0; }
    if (after_failure && seq_mem(s) < s->mem_before) { FAIL("capacity-shrunk-by-failed-call", "mem %zu before %zu", seq_mem(s), s->mem_before); return 0; }
    for (size_t i = 0; i < s->n; ++i)
    {
        if (memcmp(seq_ptr(s) + i * s->siz, s->e[i], s->siz) != 0)
        {
            FAIL(after_failure ? "contents-changed-by-failed-call" : "contents", "element %zu of %zu", i, s->n);
            return 0;
        }
    }
    return 1;
}
static void seq_minsert(seqst *s, size_t idx, unsigned char const *el)
{
    if (idx > s->n) { idx = s->n; }
    memmove(s->e[idx + 1], s->e[idx], (s->n - idx) * SSZ);
    memcpy(s->e[idx], el, SSZ);
    ++s->n;
}
static void seq_mremove(seqst *s, size_t idx)
{
    memmove(s->e[idx], s->e[idx + 1], (s->n - idx - 1) * SSZ);
    --s->n;
}
static int seq_sorted(seqst *s)
{
    for (size_t i = 1; i < s->n; ++i)
    {
        if (s->e[i - 1][0] > s->e[i][0]) { return 0; }
    }
    return 1;
}

static int seq_exec(seqst *s, opd const *o)
{
    unsigned char el[SSZ];
    void *p;
    int rc;
    if (o->op == O_NEW)
    {
        if (seq_alive(s)) { return ST_SKIP; }
        s->siz = o->a ? o->a : 1;
        s->n = 0;
        if (s->is_buf) { s->b = a_buf_new(o->a, o->b); }
        else { s->v = a_vec_new(o->a); }
        return seq_alive(s) ? ST_OK : ST_FAIL;
    }
    if (!seq_alive(s)) { return ST_SKIP; }
    s->mem_before = seq_mem(s);
    switch (o->op)
    {
    case O_DIE:
        if (s->is_buf) { a_buf_die(s->b, NULL); s->b = NULL; }
        else { a_vec_die(s->v, NULL); s->v = NULL; }
        s->n = 0;
        return ST_OK;
    case O_PUSH_BACK: case O_PUSH_FORE: case O_INSERT:
    {
        size_t idx = o->op == O_PUSH_BACK ? s->n : o->op == O_PUSH_FORE ? 0 : o->a;
        if (s->n + 2 >= SMAX) { return ST_SKIP; }
        if (s->is_buf && s->n >= seq_mem(s)) { return ST_SKIP; } /* a full fixed buffer refuses: not an allocation matter */
        seq_mk(s, o, el, 0);
        if (s->is_buf) { p = o->op == O_PUSH_BACK ? a_buf_push_back(s->b) : o->op == O_PUSH_FORE ? a_buf_push_fore(s->b) : a_buf_insert(s->b, idx); }
        else { p = o->op == O_PUSH_BACK ? a_vec_push_back(s->v) : o->op == O_PUSH_FORE ? a_vec_push_fore(s->v) : a_vec_insert(s->v, idx); }
        if (!p) { return ST_FAIL; }
        memcpy(p, el, s->siz);
        seq_minsert(s, idx, el);
        return ST_OK;
    }
    case O_PUSH_SORT:
        if (s->n + 2 >= SMAX || !seq_sorted(s)) { return ST_SKIP; }
        if (s->is_buf && s->n >= seq_mem(s)) { return ST_SKIP; }
        seq_mk(s, o, el, 0);
        p = s->is_buf ? a_buf_push_sort(s->b, el, seq_cmp) : a_vec_push_sort(s->v, el, seq_cmp);
        if (!p) { return ST_FAIL; }
        memcpy(p, el, s->siz);
        seq_minsert(s, (size_t)((unsigned char *)p - seq_ptr(s)) / s->siz, el);
        return ST_OK;
    case O_PULL_BACK: case O_PULL_FORE: case O_REMOVE:
    {
        size_t idx = o->op == O_PULL_BACK ? (s->n ? s->n - 1 : 0) : o->op == O_PULL_FORE ? 0 : (o->a < s->n ? o->a : (s->n ? s->n - 1 : 0));
        if (!s->n) { return ST_SKIP; }
        if (s->is_buf) { p = o->op == O_PULL_BACK ? a_buf_pull_back(s->b) : o->op == O_PULL_FORE ? a_buf_pull_fore(s->b) : a_buf_remove(s->b, o->a); }
        else { p = o->op == O_PULL_BACK ? a_vec_pull_back(s->v) : o->op == O_PULL_FORE ? a_vec_pull_fore(s->v) : a_vec_remove(s->v, o->a); }
        if (!p) { return ST_FAIL; }
        seq_mremove(s, idx);
        return ST_OK;
    }
    case O_STORE:
    {
        size_t cnt = o->b % 5, idx = o->a < s->n ? o->a : s->n;
        unsigned char src[5 * SSZ], els[5][SSZ];
        if (s->n + cnt + 2 >= SMAX) { return ST_SKIP; }
        if (s->is_buf && s->n + cnt > seq_mem(s)) { return ST_SKIP; }
        for (size_t k = 0; k < cnt; ++k) { seq_mk(s, o, els[k], (unsigned)k * 7919u); memcpy(src + k * s->siz, els[k], s->siz); }
        rc = s->is_buf ? a_buf_store(s->b, o->a, src, cnt, NULL) : a_vec_store(s->v, o->a, src, cnt, NULL);
        if (rc != A_SUCCESS) { return ST_FAIL; }
        for (size_t k = 0; k < cnt; ++k) { seq_minsert(s, idx + k, els[k]); }
        return ST_OK;
    }
    case O_ERASE:
    {
        size_t cnt;
        if (o->a >= s->n) { return ST_SKIP; }
        cnt = o->b < s->n - o->a ? o->b : s->n - o->a;
        rc = s->is_buf ? a_buf_erase(s->b, o->a, o->b, NULL) : a_vec_erase(s->v, o->a, o->b, NULL);
        if (rc != A_SUCCESS) { return ST_FAIL; }
        for (size_t k = 0; k < cnt; ++k) { seq_mremove(s, o->a); }
        return ST_OK;
    }
    case O_SETN:
    {
        size_t nn = o->a % (s->n + 9), old = s->n;
        if (nn + 2 >= SMAX) { return ST_SKIP; }
        if (s->is_buf)
        {
            a_buf_setn(s->b, nn, NULL);
            if (nn > seq_mem(s)) { nn = seq_mem(s); }
        }
        else
        {
            rc = a_vec_setn(s->v, nn, NULL);
            if (rc != A_SUCCESS) { return ST_FAIL; }
        }
        for (size_t k = old; k < nn; ++k)
        {
            seq_mk(s, o, el, (unsigned)k * 104729u);
            memcpy(seq_ptr(s) + k * s->siz, el, s->siz);
            memcpy(s->e[k], el, SSZ);
        }
        s->n = nn;
        return ST_OK;
    }
    case O_SETM:
    {
        size_t m = s->n + o->a % 40;
        if (s->is_buf)
        {
            a_buf *nb;
            /* A capacity below the count is requested only when this very request is the one the plan refuses: then the call must
               return null and leave count and elements alone (seeded change C07-I: the count is cut before the outcome of the
               reallocation is known).  When the request would be granted the call is not made: what a granted one leaves behind
               is outside this property. */
            if (s->n >= 2 && (o->b & 1) && fail_at && fail_persistent != 2 /* tight memory grants a shrink */ && (fail_persistent ? req_count + 1 >= fail_at : req_count + 1 == fail_at))
            {
                m = o->b / 2 % s->n;
                VF_COUNT("buf-setm-below-the-count-refused");
            }
            nb = a_buf_setm(s->b, m);
            if (!nb) { return ST_FAIL; }
            s->b = nb;
            if (a_buf_mem(nb) != m) { FAIL("capacity", "mem %zu after setm(%zu)", a_buf_mem(nb), m); return ST_BROKEN; }
        }
        else
        {
            rc = a_vec_setm(s->v, m);
            if (rc != A_SUCCESS) { return ST_FAIL; }
            if (a_vec_mem(s->v) < m) { FAIL("capacity", "mem %zu after setm(%zu)", a_vec_mem(s->v), m); return ST_BROKEN; }
        }
        return ST_OK;
    }
    case O_SETZ:
        if (s->is_buf) { a_buf_setz(s->b, o->a, NULL); }
        else { a_vec_setz(s->v, o->a, NULL); }
        s->siz = o->a ? o->a : 1;
        s->n = 0;
        return ST_OK;
    default: return ST_SKIP;
    }
}

/* ================================================================== str */
#define TMAX 3000
typedef struct
{
    a_str *s;
    unsigned char m[TMAX];
    size_t n;
    int term_before;
    size_t mem_before;
} strst;

static int str_is_term(strst *x)
{
    a_str *s = x->s;
    return a_str_ptr(s) && a_str_len(s) < a_str_mem(s) && a_str_ptr(s)[a_str_len(s)] == 0;
}
static int str_check(strst *x, int after_failure, int want_term)
{
    a_str *s = x->s;
    if (!s) { return 1; }
    VF_COUNT("str-state-compared-with-model");
    if (a_str_len(s) != x->n) { FAIL(after_failure ? "length-changed-by-failed-call" : "length", "library %zu model %zu", a_str_len(s), x->n); return 0; }
    if (a_str_ptr(s) ? a_str_len(s) > a_str_mem(s) : (a_str_len(s) || a_str_mem(s))) { FAIL("length-exceeds-capacity", "len %zu mem %zu", a_str_len(s), a_str_mem(s)); return 0; }
    if (x->n && memcmp(a_str_ptr(s), x->m, x->n) != 0) { FAIL(after_failure ? "contents-changed-by-failed-call" : "contents", "len %zu", x->n); return 0; }
    if (after_failure && a_str_mem(s) < x->mem_before) { FAIL("capacity-shrunk-by-failed-call", "mem %zu before %zu", a_str_mem(s), x->mem_before); return 0; }
    if (after_failure && x->term_before)
    {
        VF_COUNT("str-terminator-survives-failed-call");
        if (!str_is_term(x)) { FAIL("terminator-lost-by-failed-call", "string was NUL-terminated before the failed call; afterwards byte at [len] is 0x%02x (len %zu mem %zu)", a_str_len(s) < a_str_mem(s) ? (unsigned char)a_str_ptr(s)[a_str_len(s)] : 0x100, a_str_len(s), a_str_mem(s)); return 0; }
    }
    if (!after_failure && want_term && !str_is_term(x)) { FAIL("not-nul-terminated", "after a terminating call"); return 0; }
    return 1;
}
static int str_exec(strst *x, opd const *o, int *want_term)
{
    unsigned char buf[300];
    size_t n;
    int rc;
    *want_term = 0;
    if (o->op == O_NEW)
    {
        if (x->s) { return ST_SKIP; }
        x->n = 0;
        x->s = a_str_new();
        return x->s ? ST_OK : ST_FAIL;
    }
    if (!x->s) { return ST_SKIP; }
    x->term_before = str_is_term(x);
    x->mem_before = a_str_mem(x->s);
    if (x->n + 320 > TMAX && o->op != O_DIE && o->op != O_EXIT && o->op != O_GETN && o->op != O_GETC) { return ST_SKIP; }
    switch (o->op)
    {
    case O_DIE:
        a_str_die(x->s);
        x->s = NULL;
        x->n = 0;
        return ST_OK;
    case O_CATC: case O_CATC_:
        rc = o->op == O_CATC ? a_str_catc(x->s, o->key) : a_str_catc_(x->s, o->key);
        if (rc == ~0) { return ST_FAIL; }
        x->m[x->n++] = o->key;
        *want_term = o->op == O_CATC;
        return ST_OK;
    case O_CATN: case O_CATN_: case O_CATS:
    {
        /* lengths steered relative to the spare capacity */
        size_t spare = a_str_mem(x->s) - a_str_len(x->s);
        n = o->a % 4 == 0 ? spare + o->b % 3 : o->a % 4 == 1 ? (spare ? spare - 1 : 0) : o->b % 200;
        if (n > 280) { n = 280; }
        for (size_t j = 0; j < n; ++j) { buf[j] = (unsigned char)(1 + (o->serial + j * 31) % 255); }
        buf[n] = 0;
        rc = o->op == O_CATN ? a_str_catn(x->s, buf, n) : o->op == O_CATN_ ? a_str_catn_(x->s, buf, n) : a_str_cats(x->s, buf);
        if (rc != A_SUCCESS) { return ST_FAIL; }
        memcpy(x->m + x->n, buf, n);
        x->n += n;
        *want_term = o->op != O_CATN_;
        return ST_OK;
    }
    case O_CATF:
    {
        char exp[128];
        int en = snprintf(exp, sizeof(exp), "<%d|%s|%5.2f>", (int)o->a, "hello", (double)o->b / 7), res;
        /* pad so that the output straddles the spare capacity */
        char fmt[160];
        size_t spare = a_str_mem(x->s) - a_str_len(x->s), pad = 0;
        if (o->serial % 3 == 0 && spare > (size_t)en && spare - (size_t)en < 60) { pad = spare - (size_t)en + o->serial % 2; }
        memcpy(fmt, "<%d|%s|%5.2f>", 14);
        memset(fmt + 13, 'p', pad);
        fmt[13 + pad] = 0;
        memset(exp + en, 'p', pad);
        en += (int)pad;
        res = a_str_catf(x->s, fmt, (int)o->a, "hello", (double)o->b / 7);
        if (res == 0) { return ST_FAIL; }
        if (res != en) { FAIL("return-value", "catf returned %d expected %d", res, en); return ST_BROKEN; }
        memcpy(x->m + x->n, exp, (size_t)en);
        x->n += (size_t)en;
        *want_term = 1;
        return ST_OK;
    }
    case O_UTFC:
    {
        unsigned char enc[8];
        uint32_t cp = (uint32_t)(o->a % 0x7FFFFFFFu) >> (o->b % 31);
        unsigned en = a_utf_encode(cp, enc);
        rc = a_utf_catc(x->s, cp);
        if (rc != A_SUCCESS) { return ST_FAIL; }
        memcpy(x->m + x->n, enc, en);
        x->n += en;
        *want_term = 1;
        return ST_OK;
    }
    case O_CAT:
    {
        /* append a copy of itself taken through a second object */
        a_str tmp = A_STR_INIT;
        size_t old = x->n;
        if (old > 200) { return ST_SKIP; }
        rc = a_str_catn_(&tmp, x->m, old);
        if (rc != A_SUCCESS) { a_str_dtor(&tmp); return ST_FAIL; }
        rc = a_str_cat(x->s, &tmp);
        a_str_dtor(&tmp);
        if (rc != A_SUCCESS) { return ST_FAIL; }
        memcpy(x->m + old, x->m, old);
        x->n += old;
        *want_term = 1;
        return ST_OK;
    }
    case O_GETC:
        if (!x->n) { return ST_SKIP; }
        rc = a_str_getc(x->s);
        --x->n;
        *want_term = 1;
        return ST_OK;
    case O_GETN:
        n = o->a % (x->n + 2);
        if (n > x->n) { n = x->n; }
        a_str_getn(x->s, NULL, n);
        x->n -= n;
        *want_term = n > 0;
        return ST_OK;
    case O_SETM:
        rc = a_str_setm(x->s, x->n + o->a % 64);
        return rc == A_SUCCESS ? ST_OK : ST_FAIL;
    case O_SETM_:
        rc = a_str_setm_(x->s, x->n + o->a % 3); /* exact fit or nearly: may shrink the block */
        return rc == A_SUCCESS ? ST_OK : ST_FAIL;
    case O_EXIT:
    {
        char *p;
        if (!a_str_ptr(x->s)) { return ST_SKIP; }
        p = a_str_exit(x->s);
        if (!p) { return ST_FAIL; }
        if (memcmp(p, x->m, x->n) != 0 || p[x->n] != 0) { FAIL("handed-over-content", "exit returned different content or no terminator"); a_alloc(p, 0); return ST_BROKEN; }
        a_alloc(p, 0);
        x->n = 0;
        return ST_OK;
    }
    default: return ST_SKIP;
    }
}

/* ================================================================== que */
#define QMAX 64
typedef struct
{
    a_que *q;
    size_t siz, n;
    unsigned char pay[QMAX][SSZ];
    void *addr[QMAX];
} quest;

static int que_check(quest *x, int after_failure)
{
    a_que *q = x->q;
    a_list *h, *it;
    size_t n = 0;
    if (!q) { return 1; }
    VF_COUNT("que-state-compared-with-model");
    if (a_que_siz(q) != x->siz) { FAIL(after_failure ? "element-size-changed-by-failed-call" : "element-size", "library %zu model %zu", a_que_siz(q), x->siz); return 0; }
    if (a_que_num(q) != x->n) { FAIL(after_failure ? "count-changed-by-failed-call" : "count", "library %zu model %zu", a_que_num(q), x->n); return 0; }
    h = &q->head_;
    for (it = h->next; it != h; it = it->next)
    {
        if (n >= x->n) { FAIL("ring-longer-than-model", "more than %zu nodes", x->n); return 0; }
        if ((void *)(it + 1) != x->addr[n]) { FAIL(after_failure ? "element-address-changed-by-failed-call" : "element-address", "position %zu", n); return 0; }
        if (it->next->prev != it) { FAIL("ring-links-inconsistent", "position %zu", n); return 0; }
        if (memcmp(it + 1, x->pay[n], x->siz) != 0) { FAIL(after_failure ? "contents-changed-by-failed-call" : "contents", "position %zu", n); return 0; }
        ++n;
    }
    if (n != x->n) { FAIL("ring-shorter-than-model", "%zu nodes, model %zu", n, x->n); return 0; }
    return 1;
}
static void que_minsert(quest *x, size_t pos, unsigned char const *pay, void *addr)
{
    memmove(x->pay[pos + 1], x->pay[pos], (x->n - pos) * SSZ);
    memmove(&x->addr[pos + 1], &x->addr[pos], (x->n - pos) * sizeof(void *));
    memcpy(x->pay[pos], pay, SSZ);
    x->addr[pos] = addr;
    ++x->n;
}
static void que_mremove(quest *x, size_t pos)
{
    memmove(x->pay[pos], x->pay[pos + 1], (x->n - pos - 1) * SSZ);
    memmove(&x->addr[pos], &x->addr[pos + 1], (x->n - pos - 1) * sizeof(void *));
    --x->n;
}
static int que_sorted(quest *x)
{
    for (size_t i = 1; i < x->n; ++i)
    {
        if (x->pay[i - 1][0] > x->pay[i][0]) { return 0; }
    }
    return 1;
}
static int que_exec(quest *x, opd const *o)
{
    unsigned char el[SSZ];
    void *p;
    int rc;
    if (o->op == O_NEW)
    {
        if (x->q) { return ST_SKIP; }
        x->siz = o->a ? o->a : 1;
        x->n = 0;
        x->q = a_que_new(o->a);
        return x->q ? ST_OK : ST_FAIL;
    }
    if (!x->q) { return ST_SKIP; }
    memset(el, 0, SSZ);
    el[0] = o->key;
    for (size_t i = 1; i < x->siz; ++i) { el[i] = (unsigned char)(o->serial >> (8 * ((i - 1) & 3))); }
    switch (o->op)
    {
    case O_DIE:
        a_que_die(x->q, NULL);
        x->q = NULL;
        x->n = 0;
        return ST_OK;
    case O_PUSH_BACK: case O_PUSH_FORE: case O_INSERT:
    {
        size_t idx = o->op == O_PUSH_BACK ? x->n : o->op == O_PUSH_FORE ? 0 : (o->a < x->n ? o->a : x->n);
        if (x->n + 2 >= QMAX) { return ST_SKIP; }
        p = o->op == O_PUSH_BACK ? a_que_push_back(x->q) : o->op == O_PUSH_FORE ? a_que_push_fore(x->q) : a_que_insert(x->q, o->a);
        if (!p) { return ST_FAIL; }
        for (size_t i = 0; i < x->n; ++i)
        {
            if (x->addr[i] == p) { FAIL("handed-out-node-still-enqueued", "push returned the address of enqueued element %zu", i); return ST_BROKEN; }
        }
        memcpy(p, el, x->siz);
        que_minsert(x, idx, el, p);
        return ST_OK;
    }
    case O_PUSH_SORT:
    {
        a_list *h, *it;
        size_t pos = 0;
        if (x->n + 2 >= QMAX || !que_sorted(x)) { return ST_SKIP; }
        p = a_que_push_sort(x->q, el, seq_cmp);
        if (!p) { return ST_FAIL; }
        memcpy(p, el, x->siz);
        h = &x->q->head_;
        for (it = h->next; it != h && (void *)(it + 1) != p && pos <= x->n; it = it->next) { ++pos; }
        if (pos > x->n) { FAIL("new-element-not-in-ring", "pushed node not linked"); return ST_BROKEN; }
        que_minsert(x, pos, el, p);
        return ST_OK;
    }
    case O_PULL_BACK: case O_PULL_FORE: case O_REMOVE:
    {
        size_t idx = o->op == O_PULL_BACK ? (x->n ? x->n - 1 : 0) : o->op == O_PULL_FORE ? 0 : (o->a < x->n ? o->a : (x->n ? x->n - 1 : 0));
        if (!x->n) { return ST_SKIP; }
        p = o->op == O_PULL_BACK ? a_que_pull_back(x->q) : o->op == O_PULL_FORE ? a_que_pull_fore(x->q) : a_que_remove(x->q, o->a);
        if (!p) { return ST_FAIL; }
        if (p != x->addr[idx]) { FAIL("wrong-element-returned", "position %zu", idx); return ST_BROKEN; }
        que_mremove(x, idx);
        return ST_OK;
    }
    case O_DROP:
        rc = a_que_drop(x->q, NULL);
        if (rc != A_SUCCESS)
        {
            /* composite: elements are released one by one; after a failure exactly the not yet released suffix remains */
            size_t left = a_que_num(x->q);
            VF_COUNT("que-drop-failure-leaves-suffix");
            if (left > x->n) { FAIL("count-grew-in-failed-drop", "%zu > %zu", left, x->n); return ST_BROKEN; }
            while (x->n > left) { que_mremove(x, 0); }
            return ST_FAIL;
        }
        x->n = 0;
        return ST_OK;
    case O_SETZ:
        rc = a_que_setz(x->q, o->a, NULL);
        if (rc != A_SUCCESS)
        {
            /* drop phase may have released a prefix; in the enlarge phase the queue is already empty with its old size */
            size_t left = a_que_num(x->q);
            VF_COUNT("que-setz-failure-keeps-old-size");
            if (left > x->n) { FAIL("count-grew-in-failed-setz", "%zu > %zu", left, x->n); return ST_BROKEN; }
            while (x->n > left) { que_mremove(x, 0); }
            return ST_FAIL;
        }
        x->n = 0;
        x->siz = o->a ? o->a : 1;
        return ST_OK;
    default: return ST_SKIP;
    }
}

/* ================================================================== history generation + fault runs */
#define HMAX 64
static opd H[HMAX];
static int Hn;
static int Hkind; /* 0 vec 1 buf 2 str 3 que */
static char const *const kind_names[] = {"vec", "buf", "str", "que"};

static void gen_history(vf_rng *r)
{
    static int const vec_ops[] = {O_PUSH_BACK, O_PUSH_BACK, O_PUSH_FORE, O_INSERT, O_PUSH_SORT, O_PULL_BACK, O_PULL_FORE, O_REMOVE, O_STORE, O_STORE, O_ERASE, O_SETN, O_SETM, O_SETZ, O_DIE, O_NEW};
    static int const buf_ops[] = {O_PUSH_BACK, O_PUSH_FORE, O_INSERT, O_PUSH_SORT, O_PULL_BACK, O_REMOVE, O_STORE, O_ERASE, O_SETN, O_SETM, O_SETM, O_SETM, O_SETZ, O_DIE, O_NEW};
    static int const str_ops[] = {O_CATC, O_CATC_, O_CATN, O_CATN, O_CATN_, O_CATS, O_CATF, O_CATF, O_UTFC, O_CAT, O_GETC, O_GETN, O_SETM, O_SETM_, O_EXIT, O_DIE, O_NEW};
    static int const que_ops[] = {O_PUSH_BACK, O_PUSH_BACK, O_PUSH_FORE, O_INSERT, O_PUSH_SORT, O_PULL_BACK, O_PULL_FORE, O_REMOVE, O_PULL_FORE, O_DROP, O_SETZ, O_DIE, O_NEW};
    static size_t const sizes[] = {0, 1, 4, 8, 8, 24};
    int const *tab;
    int ntab;
    Hkind = (int)vf_below(r, 4);
    switch (Hkind)
    {
    case 0: tab = vec_ops; ntab = (int)(sizeof(vec_ops) / sizeof(int)); break;
    case 1: tab = buf_ops; ntab = (int)(sizeof(buf_ops) / sizeof(int)); break;
    case 2: tab = str_ops; ntab = (int)(sizeof(str_ops) / sizeof(int)); break;
    default: tab = que_ops; ntab = (int)(sizeof(que_ops) / sizeof(int)); break;
    }
    Hn = 20 + (int)vf_below(r, 41);
    for (int i = 0; i < Hn; ++i)
    {
        opd *o = &H[i];
        o->op = i == 0 ? O_NEW : tab[vf_below(r, (uint64_t)ntab)];
        o->a = (size_t)vf_below(r, 12);
        o->b = (size_t)vf_below(r, 1000);
        o->serial = (uint32_t)vf_u64(r);
        o->key = (unsigned char)vf_below(r, 16);
        if (o->op == O_NEW || o->op == O_SETZ) { o->a = sizes[vf_below(r, 6)]; o->b = (size_t)vf_below(r, 24); }
        if (Hkind == 2) { o->a = (size_t)vf_u64(r); o->key = (unsigned char)(1 + vf_below(r, 255)); }
        if (vf_chance(r, 1, 10)) { o->a = SIZE_MAX; }
        if ((o->op == O_NEW || o->op == O_SETZ) && o->a == SIZE_MAX) { o->a = 8; }
        if (o->op == O_SETM && o->a == SIZE_MAX) { o->a = 7; }
        if (o->op == O_ERASE && vf_chance(r, 1, 4)) { o->b = SIZE_MAX; }
    }
}

static uint64_t site_seen[512];
static void site_cell(int op, int reqidx, int persistent)
{
    char b[96];
    snprintf(b, sizeof(b), "%s|%s|req%d|%s", kind_names[Hkind], op_names[op], reqidx, persistent == 2 ? "tight" : persistent ? "persistent" : "single");
    vf_distinct_str(b);
    (void)site_seen;
}

/* returns number of allocation requests made; fault_k == 0: fault-free */
static int bare_run; /* this run leaves a_alloc at the default allocator and injects through the interposed realloc */
static uint64_t run_history(uint64_t fault_k, int persistent)
{
    seqst sq;
    strst st;
    quest qu;
    int broken = 0, injected_ops = 0;
    memset(&sq, 0, sizeof(sq));
    st.s = NULL;
    st.n = 0;
    qu.q = NULL;
    qu.n = 0;
    sq.is_buf = Hkind == 1;
    cur_kind = kind_names[Hkind];
    req_count = 0;
    fail_at = fault_k;
    fail_persistent = persistent;
    ledger_live = 0;
    a_alloc = bare_run ? a_alloc_ : vf_alloc_fn;
    for (int i = 0; i < Hn && !broken; ++i)
    {
        opd const *o = &H[i];
        int status, want_term = 0, attempt = 0;
        cur_op = op_names[o->op];
    again:
        fault_fired = 0;
        req_in_op = 0;
        fired_req_in_op = -1;
        if (vf.explain) { vf_log("  [%s k=%" PRIu64 "] op %d %s a=%zu b=%zu%s", persistent == 2 ? "tight" : persistent ? "persistent" : fault_k ? "single" : "fault-free", fault_k, i, cur_op, o->a, o->b, attempt ? " (retry)" : ""); }
#if VF_BARE
        bare_on = bare_run;
#endif
        switch (Hkind)
        {
        case 0: case 1: status = seq_exec(&sq, o); break;
        case 2: status = str_exec(&st, o, &want_term); break;
        default: status = que_exec(&qu, o); break;
        }
#if VF_BARE
        bare_on = 0;
        /* the block a vector owns must hold the capacity it claims (the C library's own account of the block) */
        if (bare_run && status != ST_BROKEN && Hkind == 0 && sq.v && a_vec_ptr(sq.v) && malloc_usable_size(a_vec_ptr(sq.v)) < a_vec_mem(sq.v) * a_vec_siz(sq.v))
        {
            FAIL("capacity-exceeds-the-block-owned", "after op %d the vector claims %zu x %zu = %zu bytes, the C library says its block holds %zu", i, (size_t)a_vec_mem(sq.v), (size_t)a_vec_siz(sq.v),
                 (size_t)(a_vec_mem(sq.v) * a_vec_siz(sq.v)), malloc_usable_size(a_vec_ptr(sq.v)));
            broken = 1;
            break;
        }
#endif
        if (status == ST_BROKEN) { broken = 1; break; }
        if (status == ST_SKIP) { continue; }
        if (status == ST_FAIL)
        {
            VF_COUNT("failure-reported-only-when-a-request-was-refused");
            if (!fault_fired)
            {
                FAIL("failure-reported-without-allocator-failure", "op %d of the history reported failure although every allocation request succeeded", i);
                broken = 1;
                break;
            }
            ++injected_ops;
            site_cell(o->op, fired_req_in_op, persistent);
            VF_COUNT("state-unchanged-after-failed-call");
            switch (Hkind)
            {
            case 0: case 1: broken = !seq_check(&sq, 1); break;
            case 2: broken = !str_check(&st, 1, 0); break;
            default: broken = !que_check(&qu, (o->op == O_DROP || o->op == O_SETZ) ? 0 : 1); break;
            }
            if (broken) { break; }
            if (!persistent && attempt == 0)
            {
                /* memory is available again: the same operation must now succeed */
                attempt = 1;
                VF_COUNT("retry-after-failure");
                goto again;
            }
            if (!persistent && attempt == 1)
            {
                FAIL("retry-failed-although-memory-available", "op %d failed again", i);
                broken = 1;
                break;
            }
            continue;
        }
        /* ST_OK */
        if (fault_fired)
        {
            VF_COUNT("refused-request-must-surface-as-failure");
            FAIL("allocator-failure-not-reported", "op %d reported success although allocation request #%d inside it was refused", i, fired_req_in_op);
            broken = 1;
            break;
        }
        if (attempt == 1) { VF_COUNT("retry-succeeded"); }
        switch (Hkind)
        {
        case 0: case 1: broken = !seq_check(&sq, 0); break;
        case 2: broken = !str_check(&st, 0, want_term); break;
        default: broken = !que_check(&qu, 0); break;
        }
    }
    cur_op = "die";
    fail_at = 0; /* destruction never needs memory, but keep the audit independent of the plan */
    if (!broken)
    {
        if (sq.v) { a_vec_die(sq.v, NULL); }
        if (sq.b) { a_buf_die(sq.b, NULL); }
        if (st.s) { a_str_die(st.s); }
        if (qu.q) { a_que_die(qu.q, NULL); }
        VF_COUNT("ledger-audited-at-destruction");
        if (ledger_live)
        {
            size_t bytes = 0;
            for (size_t i = 0; i < LCAP; ++i) { if (ledger[i].p) { bytes += ledger[i].n; } }
            cur_op = "history";
            FAIL("leak", "%zu block(s), %zu bytes still live after the container was destroyed (%s fault at request %" PRIu64 ")", ledger_live, bytes, persistent == 2 ? "tight-memory" : persistent ? "persistent" : fault_k ? "single" : "no", fault_k);
        }
    }
    ledger_release_all();
    a_alloc = a_alloc_;
    (void)injected_ops;
    return req_count;
}

static uint64_t vf_ncases(int tier) { return tier ? 1000000 : 2400; }

static void vf_case(uint64_t c, vf_rng *r)
{
    uint64_t A;
    cmp_style = (int)(vf_hash64(0xC7, c) >> 9 & 3);
    native_alloc = (int)(vf_hash64(0xC70, c) >> 13 & 1); /* every other case: through the library's default allocator */
    gen_history(r);
    vf_log("history: kind %s, %d ops", kind_names[Hkind], Hn);
    for (int i = 0; i < Hn; ++i) { vf_log(" %d:%s(a=%zu,b=%zu,key=%u)", i, op_names[H[i].op], H[i].a, H[i].b, H[i].key); }
    A = run_history(0, 0);
    ++vf.evals;
    VF_ADD("allocation-requests-in-fault-free-runs", A);
    if (vf.case_viol) { return; }
    for (uint64_t k = 1; k <= A; ++k)
    {
        vf_log("single fault at request %" PRIu64 " of %" PRIu64, k, A);
        run_history(k, 0);
        ++vf.evals;
        VF_COUNT("single-fault-runs");
        if (vf.case_viol) { return; }
        vf_log("persistent fault from request %" PRIu64 " of %" PRIu64, k, A);
        run_history(k, 1);
        ++vf.evals;
        VF_COUNT("persistent-fault-runs");
        if (vf.case_viol) { return; }
        vf_log("tight memory from request %" PRIu64 " of %" PRIu64 ": only requests that fit in the block they already have are granted", k, A);
        run_history(k, 2);
        ++vf.evals;
        VF_COUNT("tight-memory-runs");
        if (vf.case_viol) { return; }
    }
#if VF_BARE
    if (!RUNNING_ON_VALGRIND) /* memcheck pass: its usable size is the requested size, and the pass is about the hooked runs */
    {
        uint64_t B;
        bare_run = 1;
        B = run_history(0, 0);
        VF_ADD("bare-default-allocator-growth-requests", B);
        for (uint64_t k = 1; k <= B && !vf.case_viol; ++k)
        {
            vf_log("bare default allocator: the C library refuses growth request %" PRIu64 " of %" PRIu64 " (single, then persistent)", k, B);
            run_history(k, 0);
            ++vf.evals;
            VF_COUNT("bare-default-allocator-fault-runs");
            if (!vf.case_viol) { run_history(k, 1); ++vf.evals; }
        }
        bare_run = 0;
    }
#endif
    if (vf_want_sample() && c % 5 == 0)
    {
        vf_sample("history %" PRIu64 ": %s, %d ops, %" PRIu64 " allocation requests; re-run from scratch with each request failing alone (failed op retried) and with all requests from it onward failing; state compared with the model after every call, ledger audited at destruction", c, kind_names[Hkind], Hn, A);
    }
}
