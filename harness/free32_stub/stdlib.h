/* stub for the freestanding i386 build: no allocator there (the routines driven in that build never allocate) */
#ifndef VF_STUB_STDLIB_H
#define VF_STUB_STDLIB_H
#include <stddef.h>
void *malloc(size_t);
void *calloc(size_t, size_t);
void *realloc(void *, size_t);
void free(void *);
void qsort(void *, size_t, size_t, int (*)(void const *, void const *));
void *bsearch(void const *, void const *, size_t, size_t, int (*)(void const *, void const *));
void abort(void);
#endif
