#ifndef VF_STUB_STDIO_H
#define VF_STUB_STDIO_H
#include <stddef.h>
#include <stdarg.h>
int vsnprintf(char *, size_t, char const *, va_list);
#endif
