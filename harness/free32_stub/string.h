/* stub for the freestanding i386 build (vf_free32.h provides the definitions) */
#ifndef VF_STUB_STRING_H
#define VF_STUB_STRING_H
#include <stddef.h>
void *memcpy(void *, void const *, size_t);
void *memmove(void *, void const *, size_t);
void *memset(void *, int, size_t);
int memcmp(void const *, void const *, size_t);
size_t strlen(char const *);
int strcmp(char const *, char const *);
void *memchr(void const *, int, size_t);
void *memrchr(void const *, int, size_t);
int strncmp(char const *, char const *, size_t);
size_t strnlen(char const *, size_t);
char *strchr(char const *, int);
char *strcpy(char *, char const *);
#endif
